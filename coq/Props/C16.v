(* Property C16 - buffer accessors never touch memory outside the wrapped region.
   Statements only; proofs are in Proofs/BufferGuard.v (about the generated guard), Proofs/BufferProofs.v
   (one lemma per accessor) and Proofs/C16OracleProofs.v (whole calls, oracle).

   `bounds_ok` is regenerated from the Rust source of AtomicBuffer::bounds_check on every run
   (Generated/GenBounds.v); the theorems below are re-checked against whatever it says today. *)
Require Import V.Base.MachineInt.
Require Import V.Generated.GenBounds.
Require Import V.Model.Buffer.
Require Import V.Oracle.C16Oracle.
Require Import V.Proofs.BufferGuard.
Require Import V.Proofs.BufferProofs.
Require Import V.Proofs.C16OracleProofs.
Open Scope Z_scope.

(* ---- the guard: for all i32 offsets and lengths, in both build modes, only ranges inside [0, cap) are accepted:
        negative offsets, negative lengths and sums that overflow are rejected *)
Theorem C16_guard : forall m cap idx len,
  0 <= cap -> in_i32 cap = true -> in_i32 idx = true -> in_i32 len = true ->
  bounds_ok m cap idx len = Ok true -> 0 <= idx /\ 0 <= len /\ idx + len <= cap.
Proof. exact bounds_ok_sound. Qed.
Print Assumptions C16_guard.

Theorem C16_no_wrap : forall m cap idx len,
  0 <= cap -> in_i32 cap = true -> in_i32 idx = true -> in_i32 len = true ->
  bounds_ok m cap idx len = Ok true -> idx + len < two31.
Proof. exact guard_no_wrap. Qed.
Print Assumptions C16_no_wrap.

(* the guard is not vacuous: every range inside the buffer is accepted, and the check has no third outcome *)
Theorem C16_guard_complete : forall m cap idx len,
  0 <= cap -> in_i32 cap = true -> in_i32 idx = true -> in_i32 len = true ->
  0 <= idx -> 0 <= len -> idx + len <= cap -> bounds_ok m cap idx len = Ok true.
Proof. exact bounds_ok_complete. Qed.
Print Assumptions C16_guard_complete.

(* ---- every accessor, on the root buffer or on any view of a view of ... it (e is any well-formed window), from
        any state: every range it reads, writes or hands out lies inside the root region, and it never reaches
        the undefined behaviour the model calls Crash: it returns or panics *)
Theorem C16_accessors : forall e c s,
  wf_env e -> wf_call c -> log_inside (e_rcap e) (e_scap e) (s_log s) ->
  log_inside (e_rcap e) (e_scap e) (s_log (snd (run e c s))) /\
  (fst (run e c s) = Panic \/ exists r, fst (run e c s) = Ok r).
Proof. exact run_safe. Qed.
Print Assumptions C16_accessors.

(* a view of a well-formed buffer is a well-formed buffer (the induction step behind "for all chains of views") *)
Theorem C16_view_invariant : forall e off len,
  wf_env e -> in_i32 len = true -> inside (e_cap e) off len = true -> wf_env (view_env e off len).
Proof. exact view_env_wf. Qed.
Print Assumptions C16_view_invariant.

(* ---- it fails loudly *before* touching memory: a call that panics has changed nothing *)
Theorem C16_panic_untouched : forall e c s,
  wf_env e -> wf_call c -> log_inside (e_rcap e) (e_scap e) (s_log s) ->
  fst (run e c s) = Panic -> s_mem (snd (run e c s)) = s_mem s.
Proof. exact run_panic_untouched. Qed.
Print Assumptions C16_panic_untouched.

(* ---- bytes outside the buffer a call is applied to are never modified (memory is a total map here: offsets below 0
        and beyond the capacity are the bytes around the region) - in particular nothing outside the root region *)
Theorem C16_outside_untouched : forall e c s,
  wf_env e -> wf_call c -> log_inside (e_rcap e) (e_scap e) (s_log s) ->
  forall i, ~ (e_base e <= i < e_base e + e_cap e) -> s_mem (snd (run e c s)) i = s_mem s i.
Proof. exact run_frame. Qed.
Print Assumptions C16_outside_untouched.

(* ---- on the fixture of the harness: the touched ranges of one call *)
Theorem C16_touched_inside : forall m rcap scap p w c,
  0 <= rcap < two31 -> 0 <= scap < two31 -> wf_call c ->
  log_inside rcap scap (touched m rcap scap p w c).
Proof. exact touched_inside. Qed.
Print Assumptions C16_touched_inside.

(* ---- the oracle applied to the model's own observation is true on the whole domain: the predicate that judges the
        implementation (result bytes are the region's bytes of the requested range, changes confined to the requested
        range, nothing changed on a panic, copy source untouched) is the one proved here *)
Theorem C16_oracle_call : forall m rcap scap p w c,
  0 <= rcap < two31 -> 0 <= scap < two31 -> wf_call c ->
  holds_call rcap scap p w c (observe m rcap scap p w c) = true.
Proof. exact oracle_model. Qed.
Print Assumptions C16_oracle_call.

Theorem C16_oracle_batch : forall m rcap scap cs,
  0 <= rcap < two31 -> 0 <= scap < two31 -> Forall (fun x => wf_call (snd x)) cs ->
  holds_batch rcap scap cs (observe_batch m rcap scap cs) = true.
Proof. exact oracle_batch_model. Qed.
Print Assumptions C16_oracle_batch.

(* ---- slice arguments longer than Index::MAX.  wf_call admits them only for accessors that convert the length with a
        checked conversion (gen_chk_* = true, read off the source).  While an accessor still uses `src.len() as Index`
        the restriction is necessary: a slice of 2^32 + 4 bytes passes the check as 4 bytes and the model then copies
        2^32 + 4 bytes out of a 16-byte region; with the checked conversion the same call panics and touches nothing. *)
Theorem C16_long_slice_witness : forall m, gen_chk_put_bytes = false ->
  touched m 16 8 0 0 (CPutBytes 0 (two32 + 4)) = [(0, 0, two32 + 4)] /\
  fst (fst (observe m 16 8 0 0 (CPutBytes 0 (two32 + 4)))) = Crash /\
  ~ log_inside 16 8 (touched m 16 8 0 0 (CPutBytes 0 (two32 + 4))).
Proof. exact long_slice_escapes. Qed.
Print Assumptions C16_long_slice_witness.

Theorem C16_long_slice_rejected : forall m, gen_chk_put_bytes = true ->
  observe m 16 8 (-1000000) 0 (CPutBytes 0 (two32 + 4)) = (Panic, [], []) /\
  touched m 16 8 (-1000000) 0 (CPutBytes 0 (two32 + 4)) = [].
Proof. exact long_slice_rejected. Qed.
Print Assumptions C16_long_slice_rejected.

(* ---- non-vacuity: concrete accepted / rejected inputs, a concrete chain of views, and concrete observations *)
Example C16_guard_examples :
  bounds_ok Debug 32 28 4 = Ok true /\ bounds_ok Release 32 0 32 = Ok true /\ bounds_ok Release 0 0 0 = Ok true
  /\ bounds_ok Release 32 (-4) 4 <> Ok true           (* the input that the original guard accepted *)
  /\ bounds_ok Release 32 8 (-4) <> Ok true
  /\ bounds_ok Release 32 2147483647 2147483647 <> Ok true
  /\ bounds_ok Debug 32 2147483647 1 <> Ok true
  /\ bounds_ok Release 32 29 4 <> Ok true.
Proof. repeat split; vm_compute; congruence. Qed.

Example C16_env_example :
  wf_env (root_env Release 64 8) /\ wf_env (view_env (view_env (root_env Release 64 8) 16 32) 8 24)
  /\ wf_call (CView 16 32 (CView 8 24 (CPutString 4 16)))
  /\ wf_call (CCopyFrom 3 1 5) /\ wf_call (CGetString (-4)) /\ wf_call (CSetMemory 8 (-4) 1).
Proof.
  assert (W : wf_env (root_env Release 64 8)) by (apply root_env_wf; unfold size32, two31; lia).
  split; [exact W | split].
  - apply view_env_wf; [apply view_env_wf; [exact W | reflexivity | reflexivity] | reflexivity | reflexivity].
  - cbn. unfold slice_ok, i32, size32, two31. repeat split; try reflexivity; try lia; left; lia.
Qed.

Example C16_observation_examples :
  (* a put at the last possible position changes exactly those four bytes *)
  observe Release 16 8 (-1000000) 0 (CPut 4 12) = (Ok ([], []), [(12, 192); (13, 193); (14, 194); (15, 195)], [])
  (* one byte further, one byte before the region, a negative length: loud failures, nothing changed *)
  /\ observe Release 16 8 (-1000000) 0 (CPut 4 13) = (Panic, [], [])
  /\ observe Release 16 8 (-1000000) 0 (CPut 4 (-8)) = (Panic, [], [])
  /\ observe Release 16 8 (-1000000) 0 (CSetMemory 8 (-4) 1) = (Panic, [], [])
  /\ observe Release 16 8 (-1000000) 0 (CView 8 (-4) CNop) = (Panic, [], [])
  (* a string whose planted length word is negative *)
  /\ observe Release 16 8 0 (-2) (CGetString 0) = (Panic, [], [])
  (* a view of a view, then a read relative to the inner view *)
  /\ fst (fst (observe Debug 16 8 (-1000000) 0 (CView 4 8 (CView 2 4 (CGet 2 2))))) = Ok ([], [init_byte 8; init_byte 9])
  /\ touched Debug 16 8 (-1000000) 0 (CView 4 8 (CView 2 4 (CGet 2 2))) = [(0, 4, 8); (0, 6, 4); (0, 8, 2)].
Proof. repeat split; vm_compute; reflexivity. Qed.
