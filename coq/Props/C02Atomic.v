(* K1 tie of the atomicity the C02 thread model assumes: the appender machines take the tail fetch-add and the two
   compare-and-set operations of rotate_log as ONE step each.  The ordering table is regenerated on every run from the
   bodies of the accessors in src/concurrent/atomic_buffer.rs: the theorems below say that each of them is exactly one
   sequentially consistent read-modify-write and nothing else (an accessor that re-reads the word, splits the operation
   into a read and a write, or weakens the ordering changes its row and breaks them). *)
Require Import V.Base.MachineInt.
Require Import V.Model.Sched.
Require Import V.Generated.GenOrdering.

Theorem C02_k1_fetch_add_is_one_atomic_rmw :
  ordering_table GetAndAddI64 = [AtomicRmw SeqCst].
Proof. reflexivity. Qed.
Print Assumptions C02_k1_fetch_add_is_one_atomic_rmw.

Theorem C02_k1_cas_is_one_atomic_rmw :
  ordering_table CompareAndSetI64 = [AtomicRmw SeqCst] /\ ordering_table CompareAndSetI32 = [AtomicRmw SeqCst].
Proof. split; reflexivity. Qed.
Print Assumptions C02_k1_cas_is_one_atomic_rmw.
