(* Property C07 - the command ring survives a producer dying mid-write; unblock never corrupts it.
   A dead producer is a thread that is never scheduled again: `reach` quantifies over every schedule,
   hence over every set of producers stopped at arbitrary points.  Statements only; proofs are in
   Proofs/RingConc.v (invariant), RingConcThm.v (reachability), RingUnblock.v (unblock, following read). *)
Require Import V.Base.MachineInt.
Require Import V.Generated.GenConsts.
Require Import V.Model.LogBase.
Require Import V.Model.Ring.
Require Import V.Model.RingThreads.
Require Import V.Spec.Fifo.
Require Import V.Proofs.RingArith.
Require Import V.Proofs.RingSeq.
Require Import V.Proofs.RingRender.
Require Import V.Proofs.RingSeqRun.
Require Import V.Proofs.RingConc.
Require Import V.Proofs.RingConcThm.
Require Import V.Proofs.RingUnblock.
Require Import V.Proofs.RingSweep.
Require Import V.Proofs.C06OracleProofs.
Require Import V.Oracle.C06Oracle.
Require Import V.Oracle.C07Oracle.
Require Import V.Proofs.C07OracleProofs.
Require Import V.Model.RingAgent.
Require Import V.Proofs.RingLog.
Require Import V.Proofs.RingQuiet.
Require Import V.Proofs.RingAgentInv.
Require Import V.Proofs.RingAgentRun.
Require Import V.Proofs.RingStuck.
Require Import V.Proofs.RingStuckForever.
Require Import V.Proofs.RingSweepLog.
Require Import V.Oracle.C07UOracle.
Require Import V.Proofs.C07UOracleProofs.
Require Import V.Proofs.C06ConcOracle.
Require Import V.Proofs.C07CrashOracle.
Require Import V.Proofs.RingSim.
Open Scope Z_scope.

(* every configuration reachable under any schedule (positions below 2^62) satisfies the invariant *)
Theorem C07_reachable : forall lo m c0 c, Inv lo c0 -> reach lo m c0 c -> Inv lo c.
Proof. exact reach_inv. Qed.
Print Assumptions C07_reachable.

(* the threads may be started on any ring a sequential run left behind *)
Theorem C07_initial : forall R limits progs,
  wf R -> Forall (Forall wreq_ok) progs -> r_tail R + 2 * r_cap R <= two62 ->
  Inv (r_hc R) (start R limits progs).
Proof. exact inv_start. Qed.
Print Assumptions C07_initial.

(* C07_padding / C07_preserve / C07_false in one statement.  For every reachable configuration, whatever the
   producers' program counters, with the consumer between two reads:
   - unblock = false leaves the ring unchanged; it is false on an empty ring and on a committed head record;
   - unblock = true changed exactly the header of the slot at the consumer position (every other slot, the
     bodies and all counters of the ring are the same) into a padding record of length L > 0 that lies inside
     the data area, does not pass the producer position, ends at the producer position or at the start of
     the next slot, and covers only space that was claimed and never committed. *)
Theorem C07_unblock : forall lo cfg, Inv lo cfg -> cons_idle (g_cons cfg) ->
  let R := g_ring cfg in
  (snd (unblock R) = false -> fst (unblock R) = R) /\
  (r_head R = r_tail R -> snd (unblock R) = false) /\
  (forall s rest, r_slots R = s :: rest -> 0 < s_len s -> snd (unblock R) = false) /\
  (snd (unblock R) = true ->
     exists s1 rest L, r_slots R = s1 :: rest /\ s_len s1 <= 0 /\
       fst (unblock R) = set_slots R (set_hdr L PAD s1 :: rest) /\
       0 < L /\ r_head R mod r_cap R + align L 8 <= r_cap R /\
       r_head R + align L 8 <= r_tail R /\
       (r_head R + align L 8 = r_tail R \/ exists s, In s rest /\ s_pos s = r_head R + align L 8) /\
       (forall x, In x rest -> s_pos x < r_head R + align L 8 -> s_len x = 0) /\
       (s_len s1 < 0 -> L = - s_len s1) /\
       (s_len s1 = 0 -> r_head R mod r_cap R + align L 8 < r_cap R)).
Proof. exact unblock_spec. Qed.
Print Assumptions C07_unblock.

(* C07_progress: after unblock = true the next read (limit >= 1) returns normally, moves the head forward,
   and leaves head <= tail *)
Theorem C07_progress : forall lo m cfg limit, Inv lo cfg -> cons_idle (g_cons cfg) ->
  let R := g_ring cfg in
  snd (unblock R) = true -> 1 <= limit ->
  exists R2 n l, read m (fst (unblock R)) limit = (R2, Ok (n, l)) /\
    r_head R < r_head R2 /\ r_head R2 <= r_tail R /\ r_tail R2 = r_tail R /\ r_cap R2 = r_cap R.
Proof. exact unblock_progress. Qed.
Print Assumptions C07_progress.

(* the counters stay ordered in every reachable configuration, dead producers or not *)
Theorem C07_order : forall lo cfg, Inv lo cfg ->
  let R := g_ring cfg in
  r_hc R <= r_head R /\ r_head R <= r_tail R /\ r_tail R <= r_head R + r_cap R.
Proof. exact inv_order. Qed.
Print Assumptions C07_order.

(* C07_after: later writes and reads behave per C06.  The memory unblock leaves behind is exactly (`render`
   equal, counters equal) the memory of a configuration that satisfies the invariant again: the claims the
   padding covers (all of them never committed) are described as the one padding slot, and the producers that
   owned them - which are dead - are out of the game (pc PDone); all other producers and the consumer are
   unchanged.  Every later step of the consumer and of the other producers from there is covered by
   C06_conc_step / C06_conc_invariant and their corollaries. *)
Theorem C07_after : forall lo cfg, Inv lo cfg -> cons_idle (g_cons cfg) ->
  let R := g_ring cfg in
  snd (unblock R) = true ->
  exists swept suffix pad,
    r_slots R = swept ++ suffix /\ swept <> [] /\ Forall (fun s => s_len s <= 0) swept /\
    s_type pad = PAD /\ s_pos pad = r_head R /\ s_span pad = span_sum swept /\
    let cfg' := mkCfg (set_slots R (pad :: suffix)) (g_cons cfg) (retire swept (g_prods cfg)) in
    Inv lo cfg' /\ render (g_ring cfg') = render (fst (unblock R)).
Proof. exact after_unblock. Qed.
Print Assumptions C07_after.

(* the predicate with which the check judges one unblock() of the implementation - dump before, dump after,
   result, head, tail, known claim boundaries - is true of the model's unblock in every reachable configuration *)
Theorem C07_oracle_unblock : forall lo cfg bounds, Inv lo cfg -> cons_idle (g_cons cfg) ->
  let R := g_ring cfg in
  (forall s, In s (r_slots R) -> In (s_pos s) bounds) ->
  unblock_ok (r_cap R) (r_head R) (r_tail R) bounds (render R) (render (fst (unblock R))) (Ok (b2z (snd (unblock R)))) = true.
Proof. exact oracle_unblock_model. Qed.
Print Assumptions C07_oracle_unblock.

(* ---- non-vacuity and the defect ---- *)
(* a producer claims 24 + 32 bytes on a 256-byte ring with 24 bytes left before the end and dies right after
   its compare-and-set (before the padding header) *)
Definition ex_c0 : config := start (init 256 232 232 0) [] [[(1, payload 0 24)]].
Definition ex_c3 : config :=
  match replay_ok 232 Debug ex_c0 [1; 1; 1]%nat with Some c => c | None => ex_c0 end.

Example C07_example_reachable : Inv 232 ex_c0 /\ reach 232 Debug ex_c0 ex_c3 /\ cons_idle (g_cons ex_c3) /\
  map p_pc (g_prods ex_c3) = [PPadHdr 232 24] /\ r_tail (g_ring ex_c3) = 288.
Proof. split; [| split; [| split; [| split]]].
  - change (Inv (r_hc (init 256 232 232 0)) (start (init 256 232 232 0) [] [[(1, payload 0 24)]])). apply inv_start.
    + apply wf_init; [exists 8; split; [lia | reflexivity] | lia | reflexivity].
    + constructor; [constructor; [right; reflexivity | constructor] | constructor].
    + cbn. unfold two62. lia.
  - assert (E : replay_ok 232 Debug ex_c0 [1; 1; 1]%nat = Some ex_c3) by (vm_compute; reflexivity).
    exact (replay_reach _ _ _ _ _ _ E (reach_refl _ _ _)).
  - right. vm_compute. reflexivity.
  - vm_compute. reflexivity.
  - vm_compute. reflexivity. Qed.

(* with the scan limit of the repaired code nothing non-zero is found before the end of the data area:
   unblock answers false (the claim stays blocked, as the statement allows); with the limit the code had
   before fixes/C07-unblock-limit.diff (buffer.capacity() = data + trailer) the scan runs into the trailer,
   finds the tail counter, writes a padding record of 152 bytes with 24 bytes left, and the following
   read moves the head (384) past the tail (288) *)
Example C07_defect_witness :
  unblock (g_ring ex_c3) = (g_ring ex_c3, false) /\
  snd (unblock_before_fix (g_ring ex_c3)) = true /\
  pos_word (r_slots (fst (unblock_before_fix (g_ring ex_c3)))) 232 = 152 /\
  r_head (g_ring ex_c3) mod 256 + 152 > 256 /\
  r_head (fst (read Debug (fst (unblock_before_fix (g_ring ex_c3))) 10)) = 384 /\
  r_tail (fst (read Debug (fst (unblock_before_fix (g_ring ex_c3))) 10)) = 288.
Proof. repeat split; vm_compute; reflexivity. Qed.

(* a case in which unblock succeeds: producer 1 dies after its compare-and-set, producer 2 commits a record
   behind the dead claim; the padding covers exactly the dead claim *)
Definition ex_d0 : config := start (init 64 8 8 0) [] [[(1, payload 0 8)]; [(2, payload 1 0)]].
Definition ex_d : config :=
  match replay_ok 8 Debug ex_d0 [1; 1; 1; 2; 2; 2; 2; 2; 2]%nat with Some c => c | None => ex_d0 end.

Example C07_example_unblock_true :
  reach 8 Debug ex_d0 ex_d /\ cons_idle (g_cons ex_d) /\
  snd (unblock (g_ring ex_d)) = true /\
  r_slots (fst (unblock (g_ring ex_d))) =
    [mkSlot 8 16 16 PAD [] 1 0; mkSlot 24 8 8 2 [] 2 0] /\
  snd (read Debug (fst (unblock (g_ring ex_d))) 10) = Ok (1, [(2, [])]).
Proof. split; [| repeat split; vm_compute; try reflexivity; right; reflexivity].
  assert (E : replay_ok 8 Debug ex_d0 [1; 1; 1; 2; 2; 2; 2; 2; 2]%nat = Some ex_d) by (vm_compute; reflexivity).
  exact (replay_reach _ _ _ _ _ _ E (reach_refl _ _ _)). Qed.

(* ---------------------------------------------------------------------------------------------------------------
   unblock() interleaved with surviving producers (Model/RingAgent.v).  Thread 0 is the consumer-side agent: a
   program of reads and unblock() calls, unblock as a pc-machine over the accesses the hook reports (head, tail,
   length word at the consumer index, forward scan, scan_back_to_confirm_still_zeroed, store of the padding header).
   `dead` is any set of producers that take no step any more; every other producer may be anywhere inside write
   while unblock scans, between its scan and its store, and afterwards.  XInv = the C06 invariant for the embedded
   configuration + what unblock has established at its pc, over the present state only (Proofs/RingAgentInv.v). *)

(* the threads may be started on any ring a sequential run left behind, whatever the agent's program *)
Theorem C07_conc_initial : forall dead R ops progs,
  wf R -> Forall (Forall wreq_ok) progs -> r_tail R + 2 * r_cap R <= two62 ->
  XInv (r_hc R) dead (xstart R ops progs).
Proof. exact xinv_start. Qed.
Print Assumptions C07_conc_initial.

(* every step of every thread - survivors inside write, the agent's reads, every access of unblock including a failing
   scan_back_to_confirm_still_zeroed - preserves XInv.  The store of the padding header does so whenever the slots the
   padding covers belong to dead producers and are uncommitted (`put_safe`, what the algorithm assumes of producers
   blocked for longer than its timeout): then the memory after the store (`render` equal) is the memory of a
   configuration that satisfies XInv again in which the swept claims - all of dead producers, never committed - are one
   padding slot at the consumer position and their owners are out of the game. *)
Theorem C07_conc_step : forall lo dead m x tid x' e,
  XInv lo dead x -> xstep m x tid = Some (x', e) -> (forall i, tid = S i -> ~ dead i) -> in_xwindow x' ->
  (forall h L, a_mode (ag_agent x) = AUnblocking (UPut h L) -> tid = O -> put_safe dead (ag_ring x) h L) ->
  XInv lo dead x' \/
  (exists h L swept suffix pad, a_mode (ag_agent x) = AUnblocking (UPut h L) /\ tid = O /\
     r_slots (ag_ring x) = swept ++ suffix /\ swept <> [] /\ Forall (fun s => s_len s <= 0 /\ owner_dead dead s) swept /\
     s_type pad = PAD /\ s_pos pad = r_head (ag_ring x) /\ s_span pad = span_sum swept /\
     ag_ring x' = set_slots (ag_ring x) (put_hdr (r_slots (ag_ring x)) h L PAD) /\ ag_prods x' = ag_prods x /\
     let xd := mkACfg (set_slots (ag_ring x) (pad :: suffix)) (ag_agent x') (retire swept (ag_prods x)) in
     XInv lo dead xd /\ render (ag_ring xd) = render (ag_ring x')).
Proof. exact xstep_inv. Qed.
Print Assumptions C07_conc_step.

(* hence: every configuration reachable by any schedule of the live threads, with unblock anywhere in its scan, satisfies XInv
   (up to a store of a padding header, for which C07_conc_step gives the configuration with the same memory) *)
Theorem C07_conc_reachable : forall lo dead m x0 x, XInv lo dead x0 -> xreach dead m x0 x -> XInv lo dead x.
Proof. exact xreach_inv. Qed.
Print Assumptions C07_conc_reachable.

(* ... and beyond the store.  The model keeps the swept claims as separate slots behind the head slot's padding header;
   `sim x xd` relates such a configuration to its description xd with one padding slot: same agent, same counters, same
   memory (`C07_conc_sim_memory`), same producers except that the dead owners of swept claims are retired in xd.  Every step
   of a live thread from x is matched by the same step (same event) from xd (`C07_conc_sim_step`), so XInv' x = "x is
   similar to a configuration that satisfies XInv" is preserved by *every* step, the padding stores included, as long as each
   store covers only uncommitted claims of dead producers (`C07_conc_step_all`), hence holds in every configuration reachable by
   any schedule of the live threads with any number of unblock() calls, successful or not (`C07_conc_reachable_all`). *)
Theorem C07_conc_sim_step : forall lo dead m xu xd tid xu' e,
  sim dead xu xd -> XInv lo dead xd -> xstep m xu tid = Some (xu', e) -> (forall i, tid = S i -> ~ dead i) ->
  exists xd', xstep m xd tid = Some (xd', e) /\ sim dead xu' xd'.
Proof. exact sim_step. Qed.
Print Assumptions C07_conc_sim_step.

Theorem C07_conc_sim_memory : forall dead x xd, sim dead x xd -> render (ag_ring x) = render (ag_ring xd) /\
  r_head (ag_ring x) = r_head (ag_ring xd) /\ r_tail (ag_ring x) = r_tail (ag_ring xd) /\ ag_agent x = ag_agent xd.
Proof. exact sim_render. Qed.
Print Assumptions C07_conc_sim_memory.

Theorem C07_conc_step_all : forall lo dead m x tid x' e,
  XInv' lo dead x -> xstep m x tid = Some (x', e) -> (forall i, tid = S i -> ~ dead i) -> in_xwindow x' ->
  (forall h L, a_mode (ag_agent x) = AUnblocking (UPut h L) -> tid = O -> put_safe dead (ag_ring x) h L) ->
  XInv' lo dead x'.
Proof. exact xstep_inv'. Qed.
Print Assumptions C07_conc_step_all.

Theorem C07_conc_reachable_all : forall lo dead m x0 x, XInv' lo dead x0 -> xreach_all dead m x0 x -> XInv' lo dead x.
Proof. exact xreach_all_inv. Qed.
Print Assumptions C07_conc_reachable_all.

(* what one access of unblock does: it goes on with a justified pc on the same ring, or returns false on the same
   ring, or it is the store *)
Theorem C07_conc_unblock_access : forall lo dead R prods u R' nxt e,
  Inv lo (qcfg R prods) -> unb_ok dead R u -> ustep R u = (R', nxt, e) ->
  match nxt with
  | inl u' => R' = R /\ unb_ok dead R u'
  | inr false => R' = R
  | inr true => exists h L, u = UPut h L /\ R' = set_slots R (put_hdr (r_slots R) h L PAD)
  end.
Proof. intros lo dead R prods u R' nxt e HI. exact (ustep_ok lo dead R prods HI u R' nxt e). Qed.
Print Assumptions C07_conc_unblock_access.

(* the store itself: under put_safe the padding has the properties C07_unblock lists for the sequential unblock *)
Theorem C07_conc_put : forall lo dead R prods h L,
  Inv lo (qcfg R prods) -> unb_ok dead R (UPut h L) -> put_safe dead R h L ->
  exists s1 rest, pad_facts R s1 rest L /\ put_hdr (r_slots R) h L PAD = set_hdr L PAD s1 :: rest.
Proof. exact put_facts. Qed.
Print Assumptions C07_conc_put.

(* C07_stuck as an iff: with an uncommitted claim at the consumer position unblock answers false exactly when the header
   of that claim was never written and every length word the forward scan looks at - consumer index + 8, then + 16, ...
   below the scan limit (producer index if it is ahead of the consumer index, else the capacity) - is zero *)
Theorem C07_stuck_iff : forall lo cfg s1 rest, Inv lo cfg -> cons_idle (g_cons cfg) ->
  let R := g_ring cfg in
  r_slots R = s1 :: rest -> s_len s1 <= 0 ->
  (snd (unblock R) = false <->
   s_len s1 = 0 /\ forall k, visited (r_head R mod r_cap R + 8) (scan_limit R) k -> word_at (render R) k = 0).
Proof. exact stuck_iff. Qed.
Print Assumptions C07_stuck_iff.

(* ... and "for ever": when every claim from the consumer position to the end of the data area was never written and
   belongs to dead producers (e.g. a producer dead right after the compare-and-set of a claim that wrapped), that stays so
   under every step of every other thread, the agent's reads hand out nothing and its unblock() calls answer false *)
Theorem C07_stuck_forever : forall lo dead m x tid x' e,
  XInv lo dead x -> stuck_ring dead (ag_ring x) -> calm (ag_ring x) (a_mode (ag_agent x)) ->
  xstep m x tid = Some (x', e) -> (forall i, tid = S i -> ~ dead i) -> in_xwindow x' ->
  XInv lo dead x' /\ stuck_ring dead (ag_ring x') /\ calm (ag_ring x') (a_mode (ag_agent x')) /\
  r_head (ag_ring x') = r_head (ag_ring x) /\
  exists extra, a_res (ag_agent x') = a_res (ag_agent x) ++ extra /\ Forall quiet_res extra.
Proof. exact stuck_step. Qed.
Print Assumptions C07_stuck_forever.

(* C07_after for the ghost log of C06: the configuration that describes the memory after a successful unblock satisfies
   the log invariant again; the writes in flight of the retired (dead) producers left the log with their slots, everything
   else - what was delivered, all other pending records, their order - is the same *)
Theorem C07_after_log : forall lo cfg, Inv lo cfg -> LogInv cfg -> cons_idle (g_cons cfg) ->
  let R := g_ring cfg in
  snd (unblock R) = true ->
  exists swept suffix pad,
    r_slots R = swept ++ suffix /\ swept <> [] /\ Forall (fun s => s_len s <= 0) swept /\
    s_type pad = PAD /\ s_pos pad = r_head R /\ s_span pad = span_sum swept /\
    let cfg' := mkCfg (set_slots R (pad :: suffix)) (g_cons cfg) (retire swept (g_prods cfg)) in
    Inv lo cfg' /\ LogInv cfg' /\ render (g_ring cfg') = render (fst (unblock R)) /\
    log cfg' = map tag2 (delivered (g_cons cfg)) ++ tags_of suffix /\
    log cfg = map tag2 (delivered (g_cons cfg)) ++ tags_of swept ++ tags_of suffix.
Proof. exact after_unblock_log. Qed.
Print Assumptions C07_after_log.

(* the whole-run oracle `holds_crash`, scheduled phase, for every run of the thread model with arbitrary crash points: the
   prelude is accepted by the FIFO interpreter, the positions along the trace are ordered, the claims read off the trace give
   a list of committed commands, and what the consumer thread delivered is a prefix, in position order, of the prelude's
   pending commands followed by the committed ones.  (The remaining conjuncts of holds_crash concern the sequential epilogue:
   each unblock() there satisfies unblock_ok by C07_oracle_unblock, each read after a successful unblock makes progress by
   C07_progress; the walk as a whole is not proved, see docs/reports/C07.md.) *)
Theorem C07_oracle_crash_sched : forall m cp p0 hc0 c0 pre limits progs sched stops post,
  seq_domain cp p0 hc0 c0 pre -> Forall (Forall wreq_ok) progs -> NoDup (map fst (concat progs)) ->
  p0 + 2 * cp * (Z.of_nat (length pre) + Z.of_nat (length (concat progs)) + 1) <= two62 ->
  let obs := run_conc m (init cp p0 hc0 c0) pre limits progs sched stops post in
  let o1 := fst (fst (fst obs)) in let tr := snd (fst (fst obs)) in let res := snd (fst obs) in
  (exists l rest, res = TCons l :: rest) ->
  exists d0 cm0 s1 cons_r rest,
    res = cons_r :: rest /\ delivered_by cons_r = Some d0 /\
    committed_cmds progs (claims_of cp tr) = Some cm0 /\ check_to cp (mkOst [] p0 p0 []) pre o1 = Some s1 /\
    positions_ok cp tr (fst (last_ht p0 o1)) (snd (last_ht p0 o1)) = true /\
    is_prefix d0 (map cmsg (o_q s1) ++ cm0) = true.
Proof. exact oracle_crash_sched. Qed.
Print Assumptions C07_oracle_crash_sched.

(* non-vacuity: producer 1 is stopped for ever after its header store, producer 2 and the consumer finish *)
Definition exc_progs : list (list wreq) := [[(1, payload 0 8)]; [(2, payload 1 3); (3, payload 2 0)]].
Definition exc_obs := run_conc Debug (init 64 40 40 0) [OpWrite 14 (payload 99 8)] [2; 2147483647] exc_progs
                        (unrle [(1, 400); (2, 400); (0, 400)]) [-1; 4; -1] [OpDump; OpUnblock; OpDump; OpRead 2147483647; OpDump].
Example C07_oracle_crash_sched_example :
  seq_domain 64 40 40 0 [OpWrite 14 (payload 99 8)] /\ Forall (Forall wreq_ok) exc_progs /\ NoDup (map fst (concat exc_progs)) /\
  (exists l rest, snd (fst exc_obs) = TCons l :: rest) /\
  nth 1 (snd (fst exc_obs)) TPanicked = TStop /\
  holds_crash 64 40 [OpWrite 14 (payload 99 8)] exc_progs [OpDump; OpUnblock; OpDump; OpRead 2147483647; OpDump] exc_obs = true.
Proof. split; [| split; [| split; [| split; [| split]]]].
  - unfold seq_domain. split; [exists 6; split; [lia | reflexivity] |].
    repeat split; try (vm_compute; congruence); try reflexivity. constructor; [right; reflexivity | constructor].
  - repeat (constructor; try (right; reflexivity)).
  - vm_compute. repeat constructor; cbn; intuition discriminate.
  - eexists. eexists. vm_compute. reflexivity.
  - vm_compute. reflexivity.
  - vm_compute. reflexivity.
Qed.

(* part (1) of the trace oracle of the uconc cases (Oracle/C07UOracle.v, `confirm_ok`: the padding store is justified by
   what that unblock() call itself read) is true of the model's unblock in every interleaving: `reads_inv ci u rs` relates the
   program counter of the call to the (offset, value) pairs of its length-word reads so far (newest first); it is preserved by
   every access of the call whatever ring it finds (the other threads may have done anything in between), and at the store it
   is what confirm_ok demands *)
Theorem C07_oracle_confirm_step : forall cp ci R u R' u' e rs, cap_ok cp -> r_cap R = cp ->
  (exists h, pc_head u = Some h /\ h mod cp = ci) ->
  match u with UReadLen _ _ | UScan _ _ _ | UBack _ _ _ => True | _ => False end ->
  reads_inv ci u rs -> ustep R u = (R', inl u', e) ->
  reads_inv ci u' (read_of e :: rs) /\ pc_head u' = pc_head u.
Proof. exact reads_step. Qed.
Print Assumptions C07_oracle_confirm_step.

Theorem C07_oracle_confirm : forall ci L rs, 0 <= ci -> reads_inv ci (UPut 0 L) rs -> confirm_ok rs ci L = true.
Proof. exact reads_confirm. Qed.
Print Assumptions C07_oracle_confirm.

Example C07_oracle_confirm_example :
  reads_inv 8 (UPut 8 16) [(8, 0); (16, 0); (24, -8); (16, 0); (8, 0)] /\
  confirm_ok [(8, 0); (16, 0); (24, -8); (16, 0); (8, 0)] 8 16 = true /\
  confirm_ok [(16, 0); (24, -8); (16, 0); (8, 0)] 8 16 = false.
Proof. split; [| split; vm_compute; reflexivity]. right. exists 1%nat, (-8). split; [reflexivity |]. split; [lia | reflexivity]. Qed.

(* ---- non-vacuity: a survivor is inside write while unblock is between its scan and its store ---- *)
Definition exu_x0 : aconfig := xstart (init 64 8 8 0) [CoUnblock] [[(1, payload 0 8)]; [(2, payload 1 0)]].
(* producer 1 claims 16 bytes at position 8 and dies right after its compare-and-set *)
Definition exu_x1 : aconfig := match xreplay [] Debug exu_x0 [1; 1; 1]%nat with Some x => x | None => exu_x0 end.
(* producer 2 claims behind it and writes its header; unblock reads head, tail, the zero length word at 8, the zero word
   at 16, the header of producer 2 at 24; producer 2 copies its payload; unblock confirms 16 and 8 *)
Definition exu_x2 : aconfig :=
  match xreplay [0%nat] Debug exu_x1 [2; 2; 2; 2; 0; 0; 0; 0; 2; 0; 0; 0]%nat with Some x => x | None => exu_x1 end.

Example C07_conc_example :
  XInv 8 (fun i => In i [0%nat]) exu_x2 /\
  a_mode (ag_agent exu_x2) = AUnblocking (UPut 8 16) /\ map p_pc (ag_prods exu_x2) = [PHdr 8; PCommit 24] /\
  put_safe (fun i => In i [0%nat]) (ag_ring exu_x2) 8 16 /\
  (* the store: the padding covers exactly the dead claim; the survivor's record stays in front of the consumer *)
  exists x3 e, xstep Debug exu_x2 0 = Some (x3, e) /\
    r_slots (ag_ring x3) = [mkSlot 8 16 16 PAD [] 1 0; mkSlot 24 8 (-8) 2 [] 2 0] /\ a_res (ag_agent x3) = [AUnb true].
Proof.
  assert (H0 : XInv 8 (fun i => In i []) exu_x0).
  { change (XInv (r_hc (init 64 8 8 0)) (fun i => In i []) (xstart (init 64 8 8 0) [CoUnblock] [[(1, payload 0 8)]; [(2, payload 1 0)]])).
    apply xinv_start.
    - apply wf_init; [exists 6; split; [lia | reflexivity] | lia | reflexivity].
    - repeat (constructor; try (right; reflexivity)).
    - cbn. unfold two62. lia. }
  assert (H1 : XInv 8 (fun i => In i []) exu_x1).
  { apply (xreplay_inv 8 [] Debug [1; 1; 1]%nat exu_x0); [exact H0 | vm_compute; reflexivity]. }
  assert (H1' : XInv 8 (fun i => In i [0%nat]) exu_x1) by (apply (xinv_dead_change 8 _ _ _ H1); vm_compute; exact I).
  assert (H2 : XInv 8 (fun i => In i [0%nat]) exu_x2).
  { apply (xreplay_inv 8 [0%nat] Debug [2; 2; 2; 2; 0; 0; 0; 0; 2; 0; 0; 0]%nat exu_x1); [exact H1' | vm_compute; reflexivity]. }
  split; [exact H2 |]. split; [vm_compute; reflexivity |]. split; [vm_compute; reflexivity |]. split.
  - intros s Hs Hp. vm_compute in Hs. destruct Hs as [<- | [<- | []]].
    + split; [exists 0%nat; split; [reflexivity | left; reflexivity] | cbn; lia].
    + exfalso. revert Hp. vm_compute. discriminate.
  - eexists. eexists. split; [vm_compute; reflexivity |]. split; vm_compute; reflexivity.
Qed.

(* non-vacuity of C07_conc_reachable_all: the run of C07_conc_example continued through the store, the survivor's commit and
   beyond satisfies XInv' *)
Example C07_conc_example_all :
  exists x3 e, xstep Debug exu_x2 0 = Some (x3, e) /\ XInv' 8 (fun i => In i [0%nat]) x3 /\
    exists x4 e', xstep Debug x3 2 = Some (x4, e') /\ XInv' 8 (fun i => In i [0%nat]) x4 /\ map p_pc (ag_prods x4) = [PHdr 8; PDone].
Proof.
  destruct C07_conc_example as (H2 & Em & _ & Hsafe & _).
  destruct (xstep Debug exu_x2 0) as [[x3 e] |] eqn:E3; [| vm_compute in E3; discriminate].
  assert (H3 : XInv' 8 (fun i => In i [0%nat]) x3).
  { apply (xstep_inv' 8 (fun i => In i [0%nat]) Debug exu_x2 0%nat x3 e (xinv'_of _ _ _ H2) E3).
    - intros i Hi. discriminate.
    - vm_compute in E3. inversion E3; subst. vm_compute. discriminate.
    - intros h L Em' _. rewrite Em in Em'. inversion Em'; subst. exact Hsafe. }
  exists x3, e. split; [reflexivity |]. split; [exact H3 |].
  destruct (xstep Debug x3 2) as [[x4 e'] |] eqn:E4; [| vm_compute in E3; inversion E3; subst; vm_compute in E4; discriminate].
  exists x4, e'. split; [reflexivity |]. split.
  - apply (xstep_inv' 8 (fun i => In i [0%nat]) Debug x3 2%nat x4 e' H3 E4).
    + intros i Hi. inversion Hi; subst. intros [Hd | []]. discriminate.
    + vm_compute in E3. inversion E3; subst. vm_compute in E4. inversion E4; subst. vm_compute. discriminate.
    + intros h L _ Ht. discriminate.
  - vm_compute in E3. inversion E3; subst. vm_compute in E4. inversion E4; subst. vm_compute. reflexivity.
Qed.

(* C07_inflight_limits - what the theorems above do not cover, and cannot: the owner of a swept claim is alive.  Producer 1
   dies after its compare-and-set, producer 2 claims behind it, producer 3 commits behind that; unblock scans forward over both
   blank claims to producer 3's header and confirms backwards; *then* producer 2 writes its header, its payload and commits
   (write returns Ok); unblock stores a padding of 24 bytes that covers producer 2's committed record: the next read delivers
   only producer 3's command.  The implementation does exactly the same (corpus/C07/inflight-limit.json). *)
Definition exl_x0 : aconfig := xstart (init 64 8 8 0) [CoUnblock] [[(1, payload 0 0)]; [(2, payload 1 8)]; [(3, payload 2 0)]].
Fixpoint xgo (x : aconfig) (s : list nat) : aconfig :=
  match s with [] => x | t :: r => match xstep Debug x t with Some (x', _) => xgo x' r | None => x end end.
Definition exl_x : aconfig := xgo exl_x0 ([1; 1; 1] ++ [2; 2; 2] ++ repeat 3 6 ++ repeat 0 9 ++ [2; 2; 2] ++ [0])%nat.
Example C07_inflight_limits :
  a_res (ag_agent exl_x) = [AUnb true] /\ map p_res (ag_prods exl_x) = [[]; [Ok 0]; [Ok 0]] /\
  map (fun s => (s_pos s, s_len s, s_type s)) (r_slots (ag_ring exl_x)) = [(8, 24, PAD); (16, 16, 2); (32, 8, 3)] /\
  snd (read Debug (ag_ring exl_x) 100) = Ok (1, [(3, [])]).
Proof. repeat split; vm_compute; reflexivity. Qed.
