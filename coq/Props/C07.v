(* Property C07 - the command ring survives a producer dying mid-write; unblock never corrupts it.
   A dead producer is a thread that is never scheduled again: `reach` quantifies over every schedule,
   hence over every set of producers stopped at arbitrary points.  Statements only; proofs are in
   Proofs/RingConc.v (invariant), RingConcThm.v (reachability), RingUnblock.v (unblock, following read). *)
Require Import V.Base.MachineInt.
Require Import V.Generated.GenConsts.
Require Import V.Model.LogBase.
Require Import V.Model.Ring.
Require Import V.Model.RingThreads.
Require Import V.Spec.Fifo.
Require Import V.Proofs.RingArith.
Require Import V.Proofs.RingSeq.
Require Import V.Proofs.RingRender.
Require Import V.Proofs.RingSeqRun.
Require Import V.Proofs.RingConc.
Require Import V.Proofs.RingConcThm.
Require Import V.Proofs.RingUnblock.
Require Import V.Proofs.RingSweep.
Require Import V.Proofs.C06OracleProofs.
Require Import V.Oracle.C06Oracle.
Require Import V.Oracle.C07Oracle.
Require Import V.Proofs.C07OracleProofs.
Open Scope Z_scope.

(* every configuration reachable under any schedule (positions below 2^62) satisfies the invariant *)
Theorem C07_reachable : forall lo m c0 c, Inv lo c0 -> reach lo m c0 c -> Inv lo c.
Proof. exact reach_inv. Qed.
Print Assumptions C07_reachable.

(* the threads may be started on any ring a sequential run left behind *)
Theorem C07_initial : forall R limits progs,
  wf R -> Forall (Forall wreq_ok) progs -> r_tail R + 2 * r_cap R <= two62 ->
  Inv (r_hc R) (start R limits progs).
Proof. exact inv_start. Qed.
Print Assumptions C07_initial.

(* C07_padding / C07_preserve / C07_false in one statement.  For every reachable configuration, whatever the
   producers' program counters, with the consumer between two reads:
   - unblock = false leaves the ring unchanged; it is false on an empty ring and on a committed head record;
   - unblock = true changed exactly the header of the slot at the consumer position (every other slot, the
     bodies and all counters of the ring are the same) into a padding record of length L > 0 that lies inside
     the data area, does not pass the producer position, ends at the producer position or at the start of
     the next slot, and covers only space that was claimed and never committed. *)
Theorem C07_unblock : forall lo cfg, Inv lo cfg -> cons_idle (g_cons cfg) ->
  let R := g_ring cfg in
  (snd (unblock R) = false -> fst (unblock R) = R) /\
  (r_head R = r_tail R -> snd (unblock R) = false) /\
  (forall s rest, r_slots R = s :: rest -> 0 < s_len s -> snd (unblock R) = false) /\
  (snd (unblock R) = true ->
     exists s1 rest L, r_slots R = s1 :: rest /\ s_len s1 <= 0 /\
       fst (unblock R) = set_slots R (set_hdr L PAD s1 :: rest) /\
       0 < L /\ r_head R mod r_cap R + align L 8 <= r_cap R /\
       r_head R + align L 8 <= r_tail R /\
       (r_head R + align L 8 = r_tail R \/ exists s, In s rest /\ s_pos s = r_head R + align L 8) /\
       (forall x, In x rest -> s_pos x < r_head R + align L 8 -> s_len x = 0) /\
       (s_len s1 < 0 -> L = - s_len s1) /\
       (s_len s1 = 0 -> r_head R mod r_cap R + align L 8 < r_cap R)).
Proof. exact unblock_spec. Qed.
Print Assumptions C07_unblock.

(* C07_progress: after unblock = true the next read (limit >= 1) returns normally, moves the head forward,
   and leaves head <= tail *)
Theorem C07_progress : forall lo m cfg limit, Inv lo cfg -> cons_idle (g_cons cfg) ->
  let R := g_ring cfg in
  snd (unblock R) = true -> 1 <= limit ->
  exists R2 n l, read m (fst (unblock R)) limit = (R2, Ok (n, l)) /\
    r_head R < r_head R2 /\ r_head R2 <= r_tail R /\ r_tail R2 = r_tail R /\ r_cap R2 = r_cap R.
Proof. exact unblock_progress. Qed.
Print Assumptions C07_progress.

(* the counters stay ordered in every reachable configuration, dead producers or not *)
Theorem C07_order : forall lo cfg, Inv lo cfg ->
  let R := g_ring cfg in
  r_hc R <= r_head R /\ r_head R <= r_tail R /\ r_tail R <= r_head R + r_cap R.
Proof. exact inv_order. Qed.
Print Assumptions C07_order.

(* C07_after: later writes and reads behave per C06.  The memory unblock leaves behind is exactly (`render`
   equal, counters equal) the memory of a configuration that satisfies the invariant again: the claims the
   padding covers (all of them never committed) are described as the one padding slot, and the producers that
   owned them - which are dead - are out of the game (pc PDone); all other producers and the consumer are
   unchanged.  Every later step of the consumer and of the other producers from there is covered by
   C06_conc_step / C06_conc_invariant and their corollaries. *)
Theorem C07_after : forall lo cfg, Inv lo cfg -> cons_idle (g_cons cfg) ->
  let R := g_ring cfg in
  snd (unblock R) = true ->
  exists swept suffix pad,
    r_slots R = swept ++ suffix /\ swept <> [] /\ Forall (fun s => s_len s <= 0) swept /\
    s_type pad = PAD /\ s_pos pad = r_head R /\ s_span pad = span_sum swept /\
    let cfg' := mkCfg (set_slots R (pad :: suffix)) (g_cons cfg) (retire swept (g_prods cfg)) in
    Inv lo cfg' /\ render (g_ring cfg') = render (fst (unblock R)).
Proof. exact after_unblock. Qed.
Print Assumptions C07_after.

(* the predicate with which the check judges one unblock() of the implementation - dump before, dump after,
   result, head, tail, known claim boundaries - is true of the model's unblock in every reachable configuration *)
Theorem C07_oracle_unblock : forall lo cfg bounds, Inv lo cfg -> cons_idle (g_cons cfg) ->
  let R := g_ring cfg in
  (forall s, In s (r_slots R) -> In (s_pos s) bounds) ->
  unblock_ok (r_cap R) (r_head R) (r_tail R) bounds (render R) (render (fst (unblock R))) (Ok (b2z (snd (unblock R)))) = true.
Proof. exact oracle_unblock_model. Qed.
Print Assumptions C07_oracle_unblock.

(* ---- non-vacuity and the defect ---- *)
(* a producer claims 24 + 32 bytes on a 256-byte ring with 24 bytes left before the end and dies right after
   its compare-and-set (before the padding header) *)
Definition ex_c0 : config := start (init 256 232 232 0) [] [[(1, payload 0 24)]].
Definition ex_c3 : config :=
  match replay_ok 232 Debug ex_c0 [1; 1; 1]%nat with Some c => c | None => ex_c0 end.

Example C07_example_reachable : Inv 232 ex_c0 /\ reach 232 Debug ex_c0 ex_c3 /\ cons_idle (g_cons ex_c3) /\
  map p_pc (g_prods ex_c3) = [PPadHdr 232 24] /\ r_tail (g_ring ex_c3) = 288.
Proof. split; [| split; [| split; [| split]]].
  - change (Inv (r_hc (init 256 232 232 0)) (start (init 256 232 232 0) [] [[(1, payload 0 24)]])). apply inv_start.
    + apply wf_init; [exists 8; split; [lia | reflexivity] | lia | reflexivity].
    + constructor; [constructor; [right; reflexivity | constructor] | constructor].
    + cbn. unfold two62. lia.
  - assert (E : replay_ok 232 Debug ex_c0 [1; 1; 1]%nat = Some ex_c3) by (vm_compute; reflexivity).
    exact (replay_reach _ _ _ _ _ _ E (reach_refl _ _ _)).
  - right. vm_compute. reflexivity.
  - vm_compute. reflexivity.
  - vm_compute. reflexivity. Qed.

(* with the scan limit of the repaired code nothing non-zero is found before the end of the data area:
   unblock answers false (the claim stays blocked, as the statement allows); with the limit the code had
   before fixes/C07-unblock-limit.diff (buffer.capacity() = data + trailer) the scan runs into the trailer,
   finds the tail counter, writes a padding record of 152 bytes with 24 bytes left, and the following
   read moves the head (384) past the tail (288) *)
Example C07_defect_witness :
  unblock (g_ring ex_c3) = (g_ring ex_c3, false) /\
  snd (unblock_before_fix (g_ring ex_c3)) = true /\
  pos_word (r_slots (fst (unblock_before_fix (g_ring ex_c3)))) 232 = 152 /\
  r_head (g_ring ex_c3) mod 256 + 152 > 256 /\
  r_head (fst (read Debug (fst (unblock_before_fix (g_ring ex_c3))) 10)) = 384 /\
  r_tail (fst (read Debug (fst (unblock_before_fix (g_ring ex_c3))) 10)) = 288.
Proof. repeat split; vm_compute; reflexivity. Qed.

(* a case in which unblock succeeds: producer 1 dies after its compare-and-set, producer 2 commits a record
   behind the dead claim; the padding covers exactly the dead claim *)
Definition ex_d0 : config := start (init 64 8 8 0) [] [[(1, payload 0 8)]; [(2, payload 1 0)]].
Definition ex_d : config :=
  match replay_ok 8 Debug ex_d0 [1; 1; 1; 2; 2; 2; 2; 2; 2]%nat with Some c => c | None => ex_d0 end.

Example C07_example_unblock_true :
  reach 8 Debug ex_d0 ex_d /\ cons_idle (g_cons ex_d) /\
  snd (unblock (g_ring ex_d)) = true /\
  r_slots (fst (unblock (g_ring ex_d))) =
    [mkSlot 8 16 16 PAD [] 1 0; mkSlot 24 8 8 2 [] 2 0] /\
  snd (read Debug (fst (unblock (g_ring ex_d))) 10) = Ok (1, [(2, [])]).
Proof. split; [| repeat split; vm_compute; try reflexivity; right; reflexivity].
  assert (E : replay_ok 8 Debug ex_d0 [1; 1; 1; 2; 2; 2; 2; 2; 2]%nat = Some ex_d) by (vm_compute; reflexivity).
  exact (replay_reach _ _ _ _ _ _ E (reach_refl _ _ _)). Qed.
