Require Import V.Base.MachineInt V.Model.Ring V.Spec.Fifo V.Oracle.C07Oracle.
Open Scope Z_scope.
Theorem C07_placeholder : True. Proof. exact I. Qed.
Print Assumptions C07_placeholder.
