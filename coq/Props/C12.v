(* Property C12 - image life-cycle: notifications exactly once, memory stays mapped while in use.
   Statements only; proofs are in Proofs/ImageLifeProofs.v and Proofs/C12OracleProofs.v.
   The model (Model/ImageLife.v) is the code with on_check_managed_resources repaired
   (fixes/C12-linger-underflow.diff).  Histories are arbitrary lists of the ten operations of the model
   (subscribe, publish, image available / unavailable events, duty cycles, handle drops, clone / unclone, close);
   `wf` / `Inv` / `RInv` hold in the initial state and are kept by every operation, so every theorem stated
   for a state satisfying them holds at every point of every history (C12_reachable). *)
Require Import V.Base.MachineInt V.Generated.GenConsts V.Model.CondTimers V.Model.ImageLife V.Oracle.C12Oracle
               V.Proofs.ImageLifeProofs V.Proofs.C12OracleProofs.
Open Scope Z_scope.

(* in-domain histories (clock readings and linger below 2^62) never panic and every operation answers *)
Theorem C12_total : forall m lg, time_ok lg -> forall ops s, wf s -> Forall op_ok ops ->
  ~ In OPanic (run m lg s ops) /\ length (run m lg s ops) = length ops.
Proof. exact run_no_panic. Qed.
Print Assumptions C12_total.

(* the invariants hold initially and after every operation of every in-domain history *)
Theorem C12_reachable : forall m lg t0 cid ops s,
  time_ok lg -> time_ok t0 -> Forall op_ok ops -> exec m lg (init t0 cid) ops = Some s -> wf s /\ Inv s /\ RInv s.
Proof.
  intros m lg t0 cid ops s Hlg Ht Hok He. pose proof (init_wf t0 cid Ht) as Hwf. split; [|split].
  - destruct (exec_eq m lg Hlg ops _ Hwf Hok) as (s' & He' & Hwf'). congruence.
  - apply (exec_inv m lg Inv Hlg) with (ops := ops) (s := init t0 cid); auto using Inv_init. intros; apply Inv_step; assumption.
  - apply (exec_inv m lg RInv Hlg) with (ops := ops) (s := init t0 cid); auto using RInv_init. intros; apply RInv_step; assumption.
Qed.
Print Assumptions C12_reachable.

(* Available: an announcement for a subscription the application holds and the conductor still knows produces
   exactly one "available" callback (the log grows by that one entry), the image (a fresh identity) is the last
   element of images() afterwards, its log is registered (mapped) *)
Theorem C12_available : forall s now corr reg file o,
  find_sub reg (subs s) = Some o -> live o = true ->
  let s' := on_available s now corr reg file in
  cblog s' = cblog s ++ [mkCb CB_AVAIL reg corr 0 (noid s)] /\
  find_sub reg (subs s') = Some (mkSobj reg (so_imgs o ++ [mkImg corr (noid s)]) (so_closed o) (so_inmap o)) /\
  has_key corr (registry s') = true /\ closed_oids s' = closed_oids s.
Proof. exact available_live. Qed.
Print Assumptions C12_available.

(* ... and an announcement for an unknown, released or closed subscription changes nothing at all *)
Theorem C12_available_ignored : forall s now corr reg file,
  (find_sub reg (subs s) = None \/ exists o, find_sub reg (subs s) = Some o /\ live o = false) ->
  on_available s now corr reg file = s.
Proof. exact available_ignored. Qed.
Print Assumptions C12_available_ignored.

(* Unavailable: a withdrawal of a present image produces exactly one "unavailable" callback, for that image, which
   is closed, and removes it from images() *)
Theorem C12_withdrawal : forall s now corr reg o i rest,
  find_sub reg (subs s) = Some o -> live o = true -> remove_first corr (so_imgs o) = Some (i, rest) ->
  let s' := on_unavailable s now corr reg in
  cblog s' = cblog s ++ [mkCb CB_UNAVAIL reg corr 1 (i_oid i)] /\
  find_sub reg (subs s') = Some (mkSobj reg rest (so_closed o) (so_inmap o)) /\
  In (i_oid i) (closed_oids s') /\ i_corr i = corr.
Proof. exact unavailable_live. Qed.
Print Assumptions C12_withdrawal.

(* ... a withdrawal for an unknown / released subscription or of an absent correlation id changes nothing;
   after a withdrawal the id is absent (when it was announced once), so a repeated withdrawal changes nothing *)
Theorem C12_withdrawal_ignored : forall s now corr reg,
  (find_sub reg (subs s) = None \/
   exists o, find_sub reg (subs s) = Some o /\ (live o = false \/ ~ In corr (map i_corr (so_imgs o)))) ->
  on_unavailable s now corr reg = s.
Proof. exact unavailable_ignored. Qed.
Print Assumptions C12_withdrawal_ignored.

Theorem C12_withdrawn_absent : forall corr l i rest,
  NoDup (map i_corr l) -> remove_first corr l = Some (i, rest) -> ~ In corr (map i_corr rest).
Proof. exact remove_first_absent. Qed.
Print Assumptions C12_withdrawn_absent.

(* Exactly once, over whole histories.  Inv says: every image identity created so far is either in exactly one place
   of exactly one image list and has not been reported unavailable, or is in no list and has been reported
   unavailable exactly once; closed identities are exactly the reported ones.  Hence: *)
Theorem C12_unavailable_at_most_once : forall s x, Inv s -> cnt x (notified s) <= 1.
Proof. exact unavailable_at_most_once. Qed.
Print Assumptions C12_unavailable_at_most_once.

Theorem C12_unavailable : forall s x, Inv s -> 0 <= x < noid s -> ~ In x (live_oids s) ->
  cnt x (notified s) = 1 /\ In x (closed_oids s).
Proof. exact unavailable_exactly_once_when_gone. Qed.
Print Assumptions C12_unavailable.

Theorem C12_listed_images_open : forall s x, Inv s -> In x (live_oids s) ->
  cnt x (live_oids s) = 1 /\ ~ In x (closed_oids s) /\ ~ In x (notified s) /\ 0 <= x < noid s.
Proof. exact live_image_not_closed. Qed.
Print Assumptions C12_listed_images_open.

(* releasing a subscription and closing the client leave no image in its list (so by C12_unavailable each of
   them has been reported exactly once) *)
Theorem C12_release_empties : forall s now reg o, find_sub reg (subs s) = Some o ->
  find_sub reg (subs (drop_sub s now reg)) = None.
Proof.
  intros s now reg o Hf. unfold drop_sub. rewrite Hf.
  assert (G : find_sub reg (filter (fun x => negb (so_reg x =? reg)) (subs s)) = None).
  { unfold find_sub. clear. induction (subs s) as [|a l IH]; [reflexivity|]. cbn [filter]. destruct (so_reg a =? reg) eqn:E; cbn [negb]; [assumption|].
    cbn [find]. rewrite E. assumption. }
  destruct (so_inmap o); cbn; exact G.
Qed.
Print Assumptions C12_release_empties.

(* ... whatever the state of the to-driver ring: a refused REMOVE_SUBSCRIPTION command is ignored, every image of the
   released subscription is closed and reported (the statement has no hypothesis on `ringfull s`) *)
Theorem C12_release_reports_all : forall s now reg o, find_sub reg (subs s) = Some o -> so_inmap o = true ->
  cblog (drop_sub s now reg) = cblog s ++ unavail_cbs reg (so_imgs o) /\
  closed_oids (drop_sub s now reg) = closed_oids s ++ map i_oid (so_imgs o).
Proof. intros s now reg o Hf Hi. unfold drop_sub. rewrite Hf, Hi. split; reflexivity. Qed.
Print Assumptions C12_release_reports_all.

Theorem C12_close_empties : forall s now o, Inv s -> cclosed s = false -> In o (subs (close_client s now)) -> so_imgs o = [] /\ so_inmap o = false.
Proof.
  intros s now o HI Hc Ho. pose proof (Inv_close s now HI) as (_ & _ & C & _). split; [apply C; [assumption|]|];
  unfold close_client in Ho; rewrite Hc in Ho; cbn in Ho; apply in_map_iff in Ho; destruct Ho as (b & Hb & _); subst;
  unfold closed_sub; destruct (closing b); reflexivity.
Qed.
Print Assumptions C12_close_empties.

(* a channel endpoint error on the subscriptions' channel status indicator: every image of every still registered subscription is
   closed and reported unavailable (once: C12_unavailable_at_most_once), afterwards every subscription is empty and forgotten by
   the conductor - so a later announcement for it changes nothing at all (C12_available_ignored applies); the client stays open *)
Theorem C12_chan_error_empties : forall s now o, Inv s -> In o (subs (chan_err s now)) -> so_imgs o = [] /\ so_inmap o = false.
Proof.
  intros s now o HI Ho. pose proof (Inv_chan s now HI) as (_ & _ & C & D & _).
  assert (Hi : so_inmap o = false).
  { unfold chan_err in Ho. cbn in Ho. apply in_map_iff in Ho. destruct Ho as (b & Hb & Hin). subst. unfold chan_sub.
    destruct (closing b) eqn:Ecl; [reflexivity|]. unfold closing in Ecl. destruct (so_inmap b) eqn:Ei; [|reflexivity].
    cbn [andb] in Ecl. destruct (so_closed b) eqn:Ec; [|discriminate]. destruct HI as (_ & _ & _ & D0 & _). rewrite (D0 b Hin Ec) in Ei. discriminate. }
  split; [apply C; assumption|exact Hi].
Qed.
Print Assumptions C12_chan_error_empties.
Theorem C12_chan_error_reports_all : forall s now,
  cblog (chan_err s now) = cblog s ++ closing_cbs (subs s) /\
  closed_oids (chan_err s now) = closed_oids s ++ map i_oid (closing_imgs (subs s)) /\ cclosed (chan_err s now) = cclosed s.
Proof. intros. repeat split; reflexivity. Qed.
Print Assumptions C12_chan_error_reports_all.

(* Mapped while in use: in every reachable state a log that is referenced (an image in a list, a lingering list,
   a kept clone, a publication) is registered, i.e. mapped, and its entry carries no "unreferenced since" stamp *)
Theorem C12_mapped_while_in_use : forall s k, RInv s -> in_use_P s k ->
  has_key k (registry s) = true /\ forall e, In e (registry s) -> e_key e = k -> e_time e = MAX_MOMENT.
Proof. intros s k (A & B & _) Hu. split; [auto|]. intros e He Hk. apply B; [assumption|]. rewrite Hk. assumption. Qed.
Print Assumptions C12_mapped_while_in_use.

(* Linger: a log referenced now stays registered through every operation whose clock lies within `linger` of now -
   in particular for at least `linger` after its last reference is dropped *)
Theorem C12_linger : forall m lg t0 k, time_ok lg -> forall ops s s',
  wf s -> RInv s -> in_use_P s k -> Forall op_ok ops -> Forall (within t0 lg) ops ->
  exec m lg s ops = Some s' -> has_key k (registry s') = true.
Proof. exact linger_guarantee. Qed.
Print Assumptions C12_linger.

(* Release: at a duty cycle whose resource check is due, an unreferenced entry not yet stamped is stamped with `now`;
   one stamped t is removed iff now > t + linger *)
Theorem C12_linger_release : forall lg now s e,
  RInv s -> In e (registry s) -> in_use s (e_key e) = false -> due now s = true ->
  let s' := timers_p lg now s in
  (e_time e = MAX_MOMENT -> In (mkEntry (e_key e) (e_file e) now) (registry s')) /\
  (e_time e <> MAX_MOMENT -> now > e_time e + lg -> has_key (e_key e) (registry s') = false) /\
  (e_time e <> MAX_MOMENT -> now <= e_time e + lg -> In e (registry s')).
Proof. exact linger_release. Qed.
Print Assumptions C12_linger_release.

(* the oracle (monitor) accepts the model's own observations on every history, in both build modes *)
Theorem C12_oracle_run : forall m lg t0 cid ops, holds_run lg t0 ops (run m lg (init t0 cid) ops) = true.
Proof. exact oracle_run_model. Qed.
Print Assumptions C12_oracle_run.

(* ---- non-vacuity ---- *)
(* one subscription, two images, a kept clone, a withdrawal, a repeated withdrawal, an unknown subscription, release:
   callbacks, lists and mappings as the property says; the mapping of file 0 (key 50) survives its last handle (the clone
   dropped at 1003000 after the withdrawal at 1000300) and goes at the first check more than 5000 after the check that saw it
   unreferenced *)
Example C12_ex_history :
  run Debug 5000 (init 1000000 3)
    [Subscribe 1000000; Avail 1000100 50 4 0; Avail 1000200 51 4 1; Hold 4 0; Unavail 1000300 50 4; Unavail 1000400 50 4;
     Unavail 1000400 77 9; Tick 1003000; Unhold 0; Tick 1006501; Tick 1010001; Tick 1011502; Tick 1016503; DropSub 1016600 4]
  = [OStep (Ok 4) [] [(4, [])] [] []; OStep (Ok 0) [(1, 4, 50, 0)] [(4, [(50, 0)])] [0] [];
     OStep (Ok 0) [(1, 4, 51, 0)] [(4, [(50, 0); (51, 0)])] [0; 1] []; OStep (Ok 0) [] [(4, [(50, 0); (51, 0)])] [0; 1] [0];
     OStep (Ok 0) [(2, 4, 50, 1)] [(4, [(51, 0)])] [0; 1] [1]; OStep (Ok 0) [] [(4, [(51, 0)])] [0; 1] [1];
     OStep (Ok 0) [] [(4, [(51, 0)])] [0; 1] [1]; OStep (Ok 0) [] [(4, [(51, 0)])] [0; 1] [1];
     OStep (Ok 0) [] [(4, [(51, 0)])] [0; 1] []; OStep (Ok 0) [] [(4, [(51, 0)])] [0; 1] [];
     OStep (Ok 0) [] [(4, [(51, 0)])] [0; 1] []; OStep (Ok 0) [] [(4, [(51, 0)])] [0; 1] [];
     OStep (Ok 0) [] [(4, [(51, 0)])] [1] []; OStep (Ok 0) [(2, 4, 51, 1)] [] [1] []].
Proof. vm_compute. reflexivity. Qed.

(* the repaired resource check at a clock smaller than the linger timeout: no panic, nothing released *)
Example C12_ex_small_clock :
  run Debug 5000 (init 1500 0) [Subscribe 1500; Avail 1600 1000 1 0; Unavail 1700 1000 1; Tick 2701; Tick 3702; Tick 4703]
  = [OStep (Ok 1) [] [(1, [])] [] []; OStep (Ok 0) [(1, 1, 1000, 0)] [(1, [(1000, 0)])] [0] [];
     OStep (Ok 0) [(2, 1, 1000, 1)] [(1, [])] [0] []; OStep (Ok 0) [] [(1, [])] [0] []; OStep (Ok 0) [] [(1, [])] [0] [];
     OStep (Ok 0) [] [(1, [])] [0] []].
Proof. vm_compute. reflexivity. Qed.

(* a stalled driver: adds are refused, the subscription dropped meanwhile still has both images reported; the publication
   dropped meanwhile keeps its state entry (release_publication propagates the refused command before forgetting it),
   so file 2 stays mapped until the client is closed *)
Example C12_ex_ring_full :
  run Debug 5000 (init 100000 0)
    [Subscribe 100000; Publish 100000 (-1) 2; Avail 100100 1000 1 0; Avail 100100 1001 1 1; Stall; Subscribe 100200;
     DropPub 100300 2; DropSub 100400 1; Drain; Subscribe 100500; Tick 113000; Tick 119000; Tick 125000; CloseClient 125000; Tick 127000; Tick 133000]
  = [OStep (Ok 1) [] [(1, [])] [] []; OStep (Ok 2) [] [(1, [])] [2] []; OStep (Ok 0) [(1, 1, 1000, 0)] [(1, [(1000, 0)])] [0; 2] [];
     OStep (Ok 0) [(1, 1, 1001, 0)] [(1, [(1000, 0); (1001, 0)])] [0; 1; 2] []; OStep (Ok 0) [] [(1, [(1000, 0); (1001, 0)])] [0; 1; 2] [];
     OStep (Err IllegalState) [] [(1, [(1000, 0); (1001, 0)])] [0; 1; 2] []; OStep (Ok 0) [] [(1, [(1000, 0); (1001, 0)])] [0; 1; 2] [];
     OStep (Ok 0) [(2, 1, 1000, 1); (2, 1, 1001, 1)] [] [0; 1; 2] []; OStep (Ok 0) [] [] [0; 1; 2] []; OStep (Ok 6) [] [(6, [])] [0; 1; 2] [];
     OStep (Ok 0) [] [(6, [])] [0; 1; 2] []; OStep (Ok 0) [] [(6, [])] [0; 1; 2] []; OStep (Ok 0) [] [(6, [])] [2] [];
     OStep (Ok 0) [] [(6, [])] [2] []; OStep (Ok 0) [] [(6, [])] [2] []; OStep (Ok 0) [] [(6, [])] [] []].
Proof. vm_compute. reflexivity. Qed.

(* a channel endpoint error: the subscription with two images has both reported and is forgotten, the one without images is
   forgotten as well - the announcements that follow are ignored for both; a new subscription works; the kept clone of image 1000 is closed *)
Example C12_ex_chan_error :
  run Debug 5000 (init 100000 0)
    [Subscribe 100000; Subscribe 100000; Avail 100100 1000 1 0; Avail 100100 1001 1 1; Hold 1 0; ChanErr 100200; Avail 100300 1002 2 2; Avail 100300 1003 1 2;
     Subscribe 100400; Avail 100500 1004 3 3; Tick 106000; Tick 112000]
  = [OStep (Ok 1) [] [(1, [])] [] []; OStep (Ok 2) [] [(1, []); (2, [])] [] []; OStep (Ok 0) [(1, 1, 1000, 0)] [(1, [(1000, 0)]); (2, [])] [0] [];
     OStep (Ok 0) [(1, 1, 1001, 0)] [(1, [(1000, 0); (1001, 0)]); (2, [])] [0; 1] []; OStep (Ok 0) [] [(1, [(1000, 0); (1001, 0)]); (2, [])] [0; 1] [0];
     OStep (Ok 0) [(2, 1, 1000, 1); (2, 1, 1001, 1)] [(1, []); (2, [])] [0; 1] [1]; OStep (Ok 0) [] [(1, []); (2, [])] [0; 1] [1];
     OStep (Ok 0) [] [(1, []); (2, [])] [0; 1] [1]; OStep (Ok 3) [] [(1, []); (2, []); (3, [])] [0; 1] [1];
     OStep (Ok 0) [(1, 3, 1004, 0)] [(1, []); (2, []); (3, [(1004, 0)])] [0; 1; 3] [1]; OStep (Ok 0) [] [(1, []); (2, []); (3, [(1004, 0)])] [0; 1; 3] [1];
     OStep (Ok 0) [] [(1, []); (2, []); (3, [(1004, 0)])] [0; 1; 3] [1]]
  /\ holds_run 5000 100000
       [Subscribe 100000; Avail 100100 1000 1 0; ChanErr 100200; Avail 100300 1002 1 2]
       (run Debug 5000 (init 100000 0) [Subscribe 100000; Avail 100100 1000 1 0; ChanErr 100200; Avail 100300 1002 1 2]) = true
  (* the monitor rejects an announcement that is still delivered after the error (seed C12c-n4) *)
  /\ holds_run 5000 100000 [Subscribe 100000; ChanErr 100200; Avail 100300 1002 1 2]
       [OStep (Ok 1) [] [(1, [])] [] []; OStep (Ok 0) [] [(1, [])] [] []; OStep (Ok 0) [(1, 1, 1002, 0)] [(1, [(1002, 0)])] [2] []] = false.
Proof. repeat split; vm_compute; reflexivity. Qed.

(* the hypotheses of C12_linger / C12_linger_release are met by concrete states, and the monitor rejects a wrong trace *)
Example C12_ex_hypotheses :
  let s := fst (step_p 5000 (fst (step_p 5000 (init 1000 0) (Subscribe 1000))) (Avail 1100 50 1 0)) in
  in_use s 50 = true /\ has_key 50 (registry s) = true /\
  Forall (within 1100 5000) [Unavail 1200 50 1; Tick 3000; Tick 6100] /\
  (exists e, In e (registry (fst (step_p 5000 (fst (step_p 5000 s (Unavail 1200 50 1))) (Tick 8000)))) /\ e_key e = 50 /\ e_time e = MAX_MOMENT) /\
  mon_run 5000 (mon_init 1000) [Subscribe 1000; Avail 1100 50 1 0; Unavail 1200 50 1]
    [OStep (Ok 1) [] [(1, [])] [] []; OStep (Ok 0) [(1, 1, 50, 0)] [(1, [(50, 0)])] [0] []; OStep (Ok 0) [] [(1, [(50, 0)])] [0] []] = false.
Proof.
  cbv zeta. split; [vm_compute; reflexivity|]. split; [vm_compute; reflexivity|].
  split; [repeat constructor; cbn; lia|]. split; [|vm_compute; reflexivity].
  eexists. split; [vm_compute; left; reflexivity|]. split; reflexivity.
Qed.
