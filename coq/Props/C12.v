(* Property C12 - image life-cycle and mapping life-time (work in progress). *)
Require Import V.Base.MachineInt V.Generated.GenConsts V.Model.CondTimers V.Model.ImageLife V.Oracle.C12Oracle.
Open Scope Z_scope.

Example C12_smoke :
  run Debug 5000 (init 1500 0) [Subscribe 1500; Avail 1600 1000 1 0; Tick 2600]
  = [OStep (Ok 1) [] [(1, [])] [] []; OStep (Ok 0) [(1, 1, 1000, 0)] [(1, [(1000, 0)])] [0] [];
     OStep (Ok 0) [] [(1, [(1000, 0)])] [0] []].
Proof. vm_compute. reflexivity. Qed.
