(* Property C13 - commands on the wire decode to exactly what the caller asked for.
   Statements only; proofs are in Proofs/WireCommandsProofs.v and Proofs/C13OracleProofs.v.
   The model is of DriverProxy as repaired by fixes/C13-oversize-command-rejected.diff. *)
Require Import V.Base.MachineInt V.Model.WireBytes V.Model.WireCodes V.Model.WireCommands.
Require Import V.Model.WireProxySeq.
Require Import V.Proofs.WireBytesProofs V.Proofs.WireCommandsProofs V.Oracle.C13Oracle V.Proofs.C13OracleProofs.
Require Import V.Proofs.WireProxySeqProofs.
Open Scope Z_scope.

(* whatever DriverProxy hands to the ring has the protocol's type code and is the record the
   protocol-side decoder maps back to the caller's arguments: for all i32 / i64 ids and channels /
   keys / labels / tokens of any content and of any length that fits *)
Theorem C13_decode : forall cl drawn r c bs,
  in_i64 cl = true -> in_i64 drawn = true -> wf_request r = true ->
  encode_cmd cl drawn r = Ok (c, bs) ->
  c = request_cmd r /\ to_id c = protocol_code (request_cmd r) /\
  bs = encode_cmd_spec cl (wire_correlation_id drawn r) r /\ Zlength bs = spec_length r /\ spec_length r <= CMD_BUF /\
  decode_cmd_spec (to_id c) bs = Some (cl, wire_correlation_id drawn r, r).
Proof. exact encode_decodes. Qed.
Print Assumptions C13_decode.

(* every request whose protocol record fits the command buffer is accepted *)
Theorem C13_fits : forall cl drawn r,
  spec_length r <= CMD_BUF ->
  encode_cmd cl drawn r = Ok (request_cmd r, encode_cmd_spec cl (wire_correlation_id drawn r) r).
Proof. exact encode_fits. Qed.
Print Assumptions C13_fits.

(* a request that does not fit is rejected with an error; nothing is written, no id is drawn *)
Theorem C13_reject : forall c0 r,
  CMD_BUF < spec_length r -> proxy_call c0 r = (Err TooLong, [], 0, wrap64 (c0 + 1)).
Proof. exact proxy_call_rejects. Qed.
Print Assumptions C13_reject.

Theorem C13_accept : forall c0 r,
  spec_length r <= CMD_BUF ->
  proxy_call c0 r =
    (Ok (if draws_correlation_id r then wrap64 (c0 + 1) else 0),
     [(to_id (request_cmd r), encode_cmd_spec c0 (wire_correlation_id (wrap64 (c0 + 1)) r) r)],
     align (spec_length r + RING_HEADER) 8,
     if draws_correlation_id r then wrap64 (c0 + 2) else wrap64 (c0 + 1)).
Proof. exact proxy_call_fits. Qed.
Print Assumptions C13_accept.

(* the protocol-side decoder inverts the protocol-side encoder (the two halves of the specification agree) *)
Theorem C13_spec_roundtrip : forall cl corr r,
  in_i64 cl = true -> in_i64 corr = true -> wf_request r = true -> spec_length r <= CMD_BUF ->
  decode_cmd_spec (protocol_code (request_cmd r)) (encode_cmd_spec cl corr r) = Some (cl, corr, r).
Proof. exact decode_spec_encode_spec. Qed.
Print Assumptions C13_spec_roundtrip.

(* the length DriverProxy checks is the protocol's record length *)
Theorem C13_length : forall r, encoded_length r = spec_length r.
Proof. exact encoded_length_spec. Qed.
Print Assumptions C13_length.

Theorem C13_oracle_cmd : forall c0 r,
  in_i64 c0 = true -> wf_request r = true ->
  let '(res, recs, tail, _) := proxy_call c0 r in holds_cmd c0 r res recs recs tail = true.
Proof. exact oracle_cmd_model. Qed.
Print Assumptions C13_oracle_cmd.

(* non-vacuity: a counter whose key needs padding, at the edge of the buffer, and one byte beyond *)
Example C13_example_counter :
  let r := RqAddCounter (-7) (payload 3 109) (chars 5 372) in
  wf_request r = true /\ spec_length r = 512 /\
  (exists bs, encode_cmd 100 101 r = Ok (AddCounter, bs) /\ Zlength bs = 512 /\
              get_i32 bs 20 = 109 /\ get_i32 bs 136 = 372 /\ decode_cmd_spec 9 bs = Some (100, 101, r)) /\
  proxy_call 100 (RqAddCounter (-7) (payload 3 109) (chars 5 373)) = (Err TooLong, [], 0, 101) /\
  proxy_call 100 (RqAddCounter 1 (payload 3 112) (chars 5 380)) = (Err TooLong, [], 0, 101).
Proof. cbv zeta. split; [vm_compute; reflexivity|]. split; [vm_compute; reflexivity|]. split.
  - eexists. split; [vm_compute; reflexivity|]. repeat split; vm_compute; reflexivity.
  - split; vm_compute; reflexivity. Qed.

Example C13_example_subscription :
  decode_cmd_spec 4 (encode_cmd_spec (-9223372036854775808) 9223372036854775807 (RqAddSubscription (chars 1 5) (-2147483648)))
  = Some (-9223372036854775808, 9223372036854775807, RqAddSubscription (chars 1 5) (-2147483648))
  /\ fst (fst (fst (proxy_call 9223372036854775807 RqKeepalive))) = Ok 0.
Proof. split; vm_compute; reflexivity. Qed.

(* ---- sequences of calls on one ring that fills up and is drained only now and then ---- *)
(* For every sequence of requests and drains, on a ring of any capacity: the observations are
   accepted by the oracle step by step, the requests still pending are exactly the records still in
   the ring (each the protocol's record of a request that was reported Ok), and once the ring holds
   no record the oracle's verdict is true: number of Ok results = number of records delivered, in
   order, each decoding to its request; a refused request (command buffer or ring capacity) left
   nothing. *)
Theorem C13_oracle_seq : forall c0 capacity ops,
  in_i64 c0 = true -> forallb wf_op ops = true ->
  let '(obs, s) := proxy_run c0 {| ps_ring := fresh_ring capacity; ps_next := wrap64 (c0 + 1) |} ops in
  exists pending, after_steps c0 [] ops obs = Some pending /\
                  map (expected c0) pending = recs_of (q (ps_ring s)) /\
                  (recs_of (q (ps_ring s)) = [] -> holds_seq c0 ops obs = true).
Proof. exact oracle_seq_model. Qed.
Print Assumptions C13_oracle_seq.

(* the sequence oracle refuses an Ok for which no record appears, and a record for a refused request *)
Theorem C13_seq_oracle_rejects_lost : forall c0 r v,
  holds_seq c0 [OpCall r; OpDrain 10] [Call (Ok v); Drained []] = false.
Proof. exact holds_seq_lost_record. Qed.
Print Assumptions C13_seq_oracle_rejects_lost.
Theorem C13_seq_oracle_rejects_ghost : forall c0 r e rec,
  holds_seq c0 [OpCall r; OpDrain 10] [Call (Err e); Drained [rec]] = false.
Proof. exact holds_seq_ghost_record. Qed.
Print Assumptions C13_seq_oracle_rejects_ghost.

(* non-vacuity: 40 remove requests (32-byte records) on a 1 KiB ring: 32 are accepted, 8 refused
   with an error, draining then hands out exactly the 32, and 2 more fit afterwards *)
Example C13_example_full_ring :
  let ops := repeat (OpCall (RqRemove RmCounter 7)) 40 ++ [OpDrain 5; OpCall RqKeepalive; OpCall (RqRemove RmPublication 9);
                                                           OpDrain 1000; OpDrain 1000; OpDrain 1000] in
  let '(obs, tl, hd, next) := proxy_seq 100 1024 ops in
  Zlength (filter (fun o => match o with Call (Ok _) => true | _ => false end) obs) = 34 /\
  Zlength (filter (fun o => match o with Call (Err IllegalState) => true | _ => false end) obs) = 8 /\
  tl = hd /\ next = 142 /\ holds_seq 100 ops obs = true.
Proof. vm_compute. repeat split. Qed.
