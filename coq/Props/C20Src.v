(* Property C20, K1 source tie.  Statements only; proofs are in Proofs/GenSrcSubProofs.v.
   The rotation of the starting image and the shared fragment budget of Subscription::poll_inner, translated from
   src/subscription.rs on every run (tools/props/src_translate.py, Generated/GenSrcSub.v), against
   Model/Subscription.v (rr_next, poll_range). *)
Require Import V.Base.MachineInt V.Base.MachineInt2 V.Base.MachineIntT V.Model.Subscription
               V.Generated.GenSrcSub V.Proofs.GenSrcSubProofs.
Open Scope Z_scope.

(* start at round_robin_index, advance it by one, start over at 0 once it reaches the number of images *)
Theorem C20_src_rotation : forall m len rr, 0 <= rr -> in_i32 (rr + 1) = true ->
  (s <- src_sub_starting_index m rr ;; n <- src_sub_next_round_robin m rr ;; w <- src_sub_wraps m len s ;;
   Ok (if w : bool then (0, 0) else (s, n))) = Ok (rr_next len rr).
Proof. exact src_sub_rotation_eq. Qed.
Print Assumptions C20_src_rotation.

(* an image is polled only while fragments are left, with exactly the fragments that are left (poll_range) *)
Theorem C20_src_budget : forall m read limit, in_i32 (limit - read) = true ->
  src_sub_has_budget m read limit = Ok (read <? limit) /\ src_sub_budget_left m limit read = Ok (limit - read).
Proof. exact src_sub_budget_eq. Qed.
Print Assumptions C20_src_budget.

Example C20_src_example :
  (s <- src_sub_starting_index Debug 2 ;; n <- src_sub_next_round_robin Debug 2 ;; w <- src_sub_wraps Debug 3 s ;;
   Ok (if w : bool then (0, 0) else (s, n))) = Ok (2, 3) /\ rr_next 3 3 = (0, 0).
Proof. split; reflexivity. Qed.
