(* Property C05, K1 source tie.  Statements only; proofs are in Proofs/GenSrcImageProofs.v.
   `src_img_*` (Generated/GenSrcImage.v), `src_read_*`, `src_scan_*`, `src_fd_*` (Generated/GenSrcFrame.v) are the Gallina
   reading of the position / offset arithmetic of src/image.rs (poll, bounded_poll, validate_position, create), of
   term_reader::read, term_scan::scan and of the helpers of frame_descriptor.rs as they are in the repository under check
   today (tools/props/src_translate.py, regenerated on every run).  Model/Image.v and Model/Reader.v compute in unbounded Z;
   each theorem says the source's checked / truncating arithmetic yields the model's value whenever that value fits the
   source's type (which the C05 theorems establish on their domain). *)
Require Import V.Base.MachineInt V.Base.MachineInt2 V.Base.MachineIntT V.Generated.GenConsts
               V.Model.Descriptor V.Model.LogBase V.Model.Reader V.Model.Image
               V.Generated.GenSrcFrame V.Generated.GenSrcImage V.Proofs.GenSrcImageProofs.
From Coq Require Import String.
Open Scope Z_scope.

(* which partition and which offset a position selects (Image.sel) *)
Theorem C05_src_select : forall m tl bits pos, 0 <= bits < 64 ->
  src_img_poll_term_offset m (tl - 1) pos = Ok (term_offset_of_pos tl pos) /\
  src_img_poll_index m bits pos = Ok (index_by_position pos bits).
Proof. intros m tl bits pos H. exact (conj (src_img_poll_term_offset_eq m tl pos) (src_img_poll_index_eq m pos bits H)). Qed.
Print Assumptions C05_src_select.

Theorem C05_src_bounded_initial_offset : forall m bits pos, 0 <= bits <= 31 ->
  src_img_bounded_initial_offset m (2 ^ bits - 1) pos = Ok (term_offset_of_pos (2 ^ bits) pos).
Proof. exact src_img_bounded_initial_offset_eq. Qed.
Print Assumptions C05_src_bounded_initial_offset.

(* the caller's position bound as a term offset: saturating, clamped into 0 ..= capacity (Image.limit_offset) *)
Theorem C05_src_limit_offset : forall m cap bound pos off, 0 <= cap ->
  src_img_bounded_limit_offset m bound pos off cap = Ok (limit_offset cap bound pos off).
Proof. exact src_img_bounded_limit_offset_eq. Qed.
Print Assumptions C05_src_limit_offset.

(* the position moves by exactly the distance the offset moved, and only forward *)
Theorem C05_src_new_position : forall m pos o off, in_i32 (o - off) = true -> in_i64 (pos + (o - off)) = true ->
  src_img_poll_new_position m o pos off = Ok (pos + (o - off)) /\
  src_img_bounded_resulting_position m pos o off = Ok (pos + (o - off)) /\
  src_img_poll_advances m (pos + (o - off)) pos = Ok (pos + (o - off) >? pos) /\
  src_img_bounded_advances m (pos + (o - off)) pos = Ok (pos + (o - off) >? pos).
Proof. intros m pos o off H1 H2.
  exact (conj (src_img_poll_new_position_eq m pos o off H1 H2) (conj (src_img_bounded_resulting_position_eq m pos o off H1 H2)
        (conj (src_img_poll_advances_eq m _ pos) (src_img_bounded_advances_eq m _ pos)))). Qed.
Print Assumptions C05_src_new_position.

(* the loop of bounded_poll: continue test, stop test, aligned length = span, advance, what the handler is given *)
Theorem C05_src_bounded_loop : forall m n limit off lo f,
  0 <= f_len f -> in_i32 (f_len f + 31) = true -> in_i32 (off + span f) = true ->
  in_i32 (off + HDR) = true -> in_i32 (f_len f - HDR) = true ->
  src_img_bounded_continue m n limit off lo = Ok ((n <? limit) && (off <? lo)) /\
  src_img_bounded_stop m (f_len f) = Ok (f_len f <=? 0) /\
  src_img_bounded_aligned_length m (f_len f) = Ok (span f) /\
  src_img_bounded_advance m off (span f) = Ok (off + span f) /\
  src_img_bounded_data_offset m off = Ok (off + HDR) /\ src_img_bounded_data_length m (f_len f) = Ok (f_len f - HDR).
Proof. intros m n limit off lo f H0 H1 H2 H3 H4. destruct (src_img_bounded_loop_eq m n limit off lo (f_len f)) as (A & B).
  exact (conj A (conj B (conj (src_img_bounded_aligned_length_eq m f H0 H1) (conj (src_img_bounded_advance_eq m off (span f) H2)
        (src_img_bounded_data_eq m off (f_len f) H3 H4))))). Qed.
Print Assumptions C05_src_bounded_loop.

(* controlled_poll: the loop test, the step, the step taken back on Abort, the position committed / published *)
Theorem C05_src_controlled_poll : forall m tl pos n limit off cap sp ipos ioff,
  in_i32 off = true -> in_i32 (off + sp) = true -> in_i32 (off + sp - ioff) = true -> in_i64 (ipos + (off + sp - ioff)) = true ->
  src_img_controlled_initial_offset m (tl - 1) pos = Ok (term_offset_of_pos tl pos) /\
  src_img_controlled_continue m n limit off cap = Ok ((n <? limit) && (off <? cap)) /\
  src_img_controlled_advance m off sp = Ok (off + sp) /\
  src_img_controlled_abort m (off + sp) sp = Ok (off + sp - sp) /\
  src_img_controlled_commit m ipos (off + sp) ioff = Ok (ipos + (off + sp - ioff)) /\
  src_img_controlled_resulting_position m ipos (off + sp) ioff = Ok (ipos + (off + sp - ioff)).
Proof. intros m tl pos n limit off cap sp ipos ioff H0 H1 H2 H3.
  destruct (src_img_controlled_loop_eq m n limit off cap sp H0 H1) as (A & B & C).
  destruct (src_img_controlled_positions_eq m ipos (off + sp) ioff H2 H3) as (D & E).
  exact (conj (src_img_controlled_initial_offset_eq m tl pos) (conj A (conj B (conj C (conj D E))))). Qed.
Print Assumptions C05_src_controlled_poll.

(* block_poll: the scan limit, the block length, whether a block is delivered and the position published *)
Theorem C05_src_block_poll : forall m tl pos off blimit ro,
  in_i32 (ro - off) = true -> in_i64 (pos + (ro - off)) = true ->
  src_img_block_term_offset m (tl - 1) pos = Ok (term_offset_of_pos tl pos) /\
  src_img_block_limit_offset m tl off blimit = Ok (Z.min (sat_add32 off blimit) tl) /\
  src_img_block_length m ro off = Ok (ro - off) /\
  src_img_block_nonempty m ro off = Ok (ro >? off) /\
  src_img_block_new_position m pos (ro - off) = Ok (pos + (ro - off)).
Proof. intros m tl pos off blimit ro H1 H2. destruct (src_img_block_result_eq m pos ro off H1 H2) as (A & B & C).
  exact (conj (src_img_block_term_offset_eq m tl pos) (conj (src_img_block_limit_offset_eq m tl off blimit) (conj A (conj B C)))). Qed.
Print Assumptions C05_src_block_poll.

(* term_reader::read (plain poll): Reader.read_loop's tests and steps *)
Theorem C05_src_term_read : forall m n limit off cap f,
  0 <= f_len f -> in_i32 (f_len f + 31) = true -> in_i32 (off + span f) = true ->
  in_i32 (off + HDR) = true -> in_i32 (f_len f - HDR) = true ->
  src_read_continue m n n limit off cap = Ok ((n <? limit) && (off <? cap)) /\
  src_read_stop m (f_len f) = Ok (f_len f <=? 0) /\
  src_read_advance m off (f_len f) = Ok (off + span f) /\
  src_read_data_offset m off = Ok (off + HDR) /\ src_read_data_length m (f_len f) = Ok (f_len f - HDR).
Proof. intros m n limit off cap f H0 H1 H2 H3 H4. destruct (src_read_loop_eq m n limit off cap (f_len f)) as (A & B).
  exact (conj A (conj B (conj (src_read_advance_eq m off f H0 H1 H2) (src_read_data_eq m off (f_len f) H3 H4)))). Qed.
Print Assumptions C05_src_term_read.

(* term_scan::scan (block_poll): Reader.scan_loop's tests and steps *)
Theorem C05_src_term_scan : forall m off limit start f,
  0 <= f_len f -> in_i32 (f_len f + 31) = true -> in_i32 (off + span f) = true ->
  src_scan_continue m off limit = Ok (off <? limit) /\
  src_scan_stop m (f_len f) = Ok (f_len f <=? 0) /\
  src_scan_aligned_frame_length m (f_len f) = Ok (span f) /\
  src_scan_padding_first m start off = Ok (start =? off) /\
  src_scan_over_limit m off (span f) limit = Ok (off + span f >? limit) /\
  src_scan_advance m off (span f) = Ok (off + span f).
Proof. intros m off limit start f H0 H1 H2. destruct (src_scan_decisions_eq m off limit (f_len f) start (span f)) as (A & B & C & D & E).
  exact (conj A (conj B (conj (src_scan_aligned_frame_length_eq m f H0 H1) (conj C (conj (D H2) (E H2)))))). Qed.
Print Assumptions C05_src_term_scan.

(* set_position / controlled_peek accept exactly the positions Image.validate_position accepts *)
Theorem C05_src_validate_position : forall m bits tl cur newp,
  0 <= bits <= 30 -> tl = 2 ^ bits -> 0 <= cur -> cur + tl < two63 ->
  exists r, src_img_validate_position m (tl - 1) cur newp = Ok r /\
            ((exists v, r = ROk v) <-> validate_position tl cur newp = true).
Proof. exact src_img_validate_position_eq. Qed.
Print Assumptions C05_src_validate_position.

(* frame layout used by every reader: length at 0, flags at 5, type at 6, term offset at 8 (LogBase.header_words) *)
Theorem C05_src_frame_layout : forall m o, in_i32 (o + 8) = true -> in_i32 o = true ->
  src_fd_length_offset m o = Ok o /\ src_fd_flags_offset m o = Ok (o + 5) /\
  src_fd_type_offset m o = Ok (o + 6) /\ src_fd_term_offset_offset m o = Ok (o + 8).
Proof. exact src_fd_offsets_layout. Qed.
Print Assumptions C05_src_frame_layout.

(* the two frame checks of frame_descriptor.rs *)
Theorem C05_src_frame_checks : forall m len,
  src_fd_check_header_length m len =
    Ok (if len =? HDR then ROk 0 else RErr "IllegalStateError::FrameHeaderLengthMustBeEqualToDataOffset" [GenConsts.DFH_LENGTH; len]) /\
  src_fd_check_max_frame_length m len =
    Ok (if Z.land len 31 =? 0 then ROk 0
        else RErr "IllegalStateError::MaxFrameLengthMustBeMultipleOfFrameAlignment" [GenConsts.FRAME_ALIGNMENT; len]).
Proof. intros. exact (conj (src_fd_check_header_length_eq m len) (src_fd_check_max_frame_length_eq m len)). Qed.
Print Assumptions C05_src_frame_checks.

Theorem C05_src_scan_outcome_roundtrip : forall m pad av, in_i32 pad = true -> in_i32 av = true -> 0 <= av ->
  (s <- src_scan_outcome m pad av ;; src_scan_available m s) = Ok av /\
  (s <- src_scan_outcome m pad av ;; src_scan_padding m s) = Ok pad.
Proof. exact src_scan_pack_roundtrip. Qed.
Print Assumptions C05_src_scan_outcome_roundtrip.

Theorem C05_src_create : forall m bits, 0 <= bits <= 30 ->
  src_img_term_length_mask m (2 ^ bits) = Ok (2 ^ bits - 1) /\
  src_img_position_bits_to_shift m (2 ^ bits) = Ok (bits_of (2 ^ bits)).
Proof. intros m bits H. split; [|exact (src_img_position_bits_to_shift_eq m bits H)].
  apply src_img_term_length_mask_eq.
  assert (1 <= 2 ^ bits <= 2 ^ 30) by (split; [change 1 with (2 ^ 0)|]; apply Z.pow_le_mono_r; lia).
  change (2 ^ 30) with 1073741824 in *. unfold in_i32, two31. lia. Qed.
Print Assumptions C05_src_create.

Example C05_src_example :
  src_img_bounded_limit_offset Debug (3 * 65536 + 4096) (3 * 65536 + 1024) 1024 65536 = Ok 4096 /\
  src_img_bounded_limit_offset Debug (- 2 ^ 62) (3 * 65536 + 1024) 1024 65536 = Ok 0 /\
  src_img_poll_term_offset Debug 65535 (3 * 65536 + 1024) = Ok 1024 /\
  src_img_validate_position Debug 65535 1024 2048 = Ok (ROk 0).
Proof. repeat split. Qed.
