(* Property C18 - vectored offer equals offering the concatenation.  Statements only; proofs in Proofs/BulkProofs.v and
   Proofs/C18Statements.v.  The model is that of the repaired loops (fixes/C18-bulk.diff); the loops the repository had
   before are modelled by the *_asis definitions and refuted below. *)
Require Import V.Base.MachineInt.
Require Import V.Generated.GenConsts.
Require Import V.Model.Descriptor.
Require Import V.Model.LogBase.
Require Import V.Model.Appender.
Require Import V.Model.ExclAppender.
Require Import V.Model.Publication.
Require Import V.Proofs.AppenderProofs.
Require Import V.Proofs.PublicationProofs.
Require Import V.Proofs.BulkProofs.
Require Import V.Proofs.C04Proofs.
Require Import V.Proofs.C04Statements.
Require Import V.Oracle.C04Oracle.
Require Import V.Oracle.C18Oracle.
Require Import V.Model.PubCases.
Require Import V.Proofs.C04OracleProofs.
Require Import V.Proofs.RenderWords.
Require Import V.Proofs.C04Bytes.
Require Import V.Proofs.C18Statements.
Require Import V.Proofs.C18Inside.
Open Scope Z_scope.

(* offer_bulk bufs = offer (concat bufs): same result, same resulting state (hence the same frames, flags, payload bytes,
   tail, term count, position) - for every state (not only reachable ones), every reserved-value supplier, both build modes,
   every way of cutting the message into buffers (empty buffers included), messages below and above the MTU payload *)
Theorem C18_equal : forall m rv s bufs,
  0 < max_payload_length (ps_log s) -> total bufs <= 1073741824 ->
  pub_bulk m rv s bufs = pub_offer m rv s (concat bufs).
Proof. exact pub_bulk_eq_offer. Qed.
Print Assumptions C18_equal.

(* the same at the level of the appenders, shared and exclusive *)
Theorem C18_equal_unfragmented : forall m rv l idx bufs tid,
  ta_append_unfragmented_bulk m rv l idx bufs (total bufs) tid = ta_append_unfragmented m rv l idx (concat bufs) tid.
Proof. exact ta_unfrag_bulk_eq. Qed.
Print Assumptions C18_equal_unfragmented.

Theorem C18_equal_fragmented : forall m rv l idx bufs mpl tid, 0 < mpl -> mpl < total bufs ->
  ta_append_fragmented_bulk m rv l idx bufs (total bufs) mpl tid = ta_append_fragmented m rv l idx (concat bufs) mpl tid.
Proof. exact ta_frag_bulk_eq. Qed.
Print Assumptions C18_equal_fragmented.

Theorem C18_equal_exclusive_appender : forall m rv l idx tid off bufs,
  eta_append_unfragmented_bulk m rv l idx tid off bufs (total bufs) = eta_append_unfragmented m rv l idx tid off (concat bufs).
Proof. exact eta_unfrag_bulk_eq. Qed.
Print Assumptions C18_equal_exclusive_appender.

(* every copy_from the vectored appends issue lies inside the range claimed for the message:
   unfragmented - inside the payload area [off + 32, off + 32 + length) of the one frame, itself inside [off, off + aligned length) *)
Theorem C18_inside_unfragmented : forall bufs off,
  copies_inside (off + 32) (off + 32 + total bufs) (bulk_unfrag_walk bufs (off + 32) (off + 32 + total bufs)) /\
  off <= off + 32 /\ off + 32 + total bufs <= off + align (total bufs + 32) 32.
Proof. exact unfrag_bulk_inside. Qed.
Print Assumptions C18_inside_unfragmented.

(* fragmented - all copies of all fragments inside [off, off + required_length), and the frames are those of the contiguous append *)
Theorem C18_inside_fragmented : forall l rv tid mpl b r off,
  0 < mpl -> mpl mod 32 = 0 -> mpl < total (b :: r) ->
  exists cs, bulk_frag_loop (frag_fuel (total (b :: r)) mpl) l rv tid mpl F_BEGIN (total (b :: r)) off (mkCursor b 0 r)
             = Ok (frag_loop (frag_fuel (total (b :: r)) mpl) l rv tid mpl (total (b :: r)) (concat (b :: r)) F_BEGIN (total (b :: r)) off, cs)
             /\ copies_inside off (off + frag_required_spec (total (b :: r)) mpl) cs.
Proof. exact frag_bulk_inside. Qed.
Print Assumptions C18_inside_fragmented.

(* each fragment's copies inside that fragment's own payload area, for every state of the buffer cursor the loop can be in *)
Theorem C18_inside_fragment : forall btw frame_offset cu,
  0 < btw -> cursor_ok cu -> btw <= zlen (cursor_data cu) ->
  copies_inside (frame_offset + HDR) (frame_offset + HDR + btw) (fst (bulk_inner (inner_fuel cu) btw 0 (frame_offset + HDR) cu)).
Proof. exact bulk_fragment_inside. Qed.
Print Assumptions C18_inside_fragment.

(* the oracle's equality predicate is true on the model's own pair of observations, from every reachable state *)
Theorem C18_oracle_equal : forall m rv s bufs, reachable m rv s -> total bufs <= 1073741824 ->
  pub_step m rv s (Bulk bufs) = pub_step m rv s (Offer (concat bufs)) /\
  twin_equal (pub_obs m s (fst (pub_step m rv s (Bulk bufs))) (snd (pub_step m rv s (Bulk bufs))))
             (pub_obs m s (fst (pub_step m rv s (Offer (concat bufs)))) (snd (pub_step m rv s (Offer (concat bufs))))) = true.
Proof. exact twin_equal_model. Qed.
Print Assumptions C18_oracle_equal.

(* ---- the inside part on rendered words (round 3): what the oracle reads ----
   `content_inv` / `mtu_aligned` / `creachable`: see Props/C04.v (the active partition's content ends at the tail, MTU a multiple of
   32; states reachable from an aligned hand-over point under the driver's cleaning contract).
   Every word of the three partitions that differs after a vectored offer lies in [tail, tail + required) of the active partition
   (accepted), is a word of the padding frame's header (end of term), or does not exist (refusal) - `twin_inside` is true on the
   model's own observation; stated for every offer / claim / bulk offer, the vectored one is `o = Bulk bufs` *)
Theorem C18_oracle_inside : forall m rv s n off o s0 r0 n0 off0,
  pub_inv n off s -> content_inv (ps_log s) n off -> mtu_aligned (ps_log s) -> op_ok (ps_log s) o -> is_append o = true ->
  twin_inside (geom_of (ps_log s) n0 off0) (op_len o) (pub_obs m s0 s r0)
              (pub_obs m s (fst (pub_step m rv s o)) (snd (pub_step m rv s o))) = true.
Proof. exact twin_inside_model. Qed.
Print Assumptions C18_oracle_inside.

(* the complete twin predicate (equality and inside) on the model's observations, from every state reachable under the cleaning
   contract *)
Theorem C18_oracle_twin : forall m rv s bufs s0 r0 n0 off0, creachable m rv s -> total bufs <= 1073741824 ->
  holds_twin (geom_of (ps_log s) n0 off0) (total bufs) (pub_obs m s0 s r0)
             (pub_obs m s (fst (pub_step m rv s (Bulk bufs))) (snd (pub_step m rv s (Bulk bufs))))
             (pub_obs m s (fst (pub_step m rv s (Offer (concat bufs)))) (snd (pub_step m rv s (Offer (concat bufs))))) = true.
Proof. exact holds_twin_model. Qed.
Print Assumptions C18_oracle_twin.

(* the exclusive appender's vectored append from every aligned hand-over point: `holds_xapp` (same result and log as the
   contiguous append, every changed word inside [off0, off0 + aligned frame length), or inside the padding header when the
   message does not fit) *)
Theorem C18_oracle_xapp : forall m rv h bufs,
  handover_ok h -> h_off0 h mod 32 = 0 -> total bufs <= h_mtu h - 32 ->
  let l := handover_log h in
  let idx := index_by_term_count (h_n0 h) in
  let tid := wrap32 (h_init h + h_n0 h) in
  holds_xapp (geom_of_handover h) (total bufs)
             (xapp_obs l (eta_append_unfragmented_bulk m rv l idx tid (h_off0 h) bufs (total bufs)))
             (xapp_obs l (eta_append_unfragmented m rv l idx tid (h_off0 h) (concat bufs))) = true.
Proof. exact holds_xapp_model. Qed.
Print Assumptions C18_oracle_xapp.

(* non-vacuity of `creachable`: after a trip, a rotation, a fragmented offer and a claim the state is reachable under the contract *)
Example C18_creachable_example :
  let h := mkHandover 7 1024 96 11 22 4 960 in
  let ops := [SetLimit 100000; Offer (payload 1 100); Clean; Offer (payload 2 100); Clean; Claim 8; Clean] in
  creachable Debug harness_rv (pub_run Debug harness_rv (pub_init (handover_log h)) ops) /\
  l_count (ps_log (pub_run Debug harness_rv (pub_init (handover_log h)) ops)) = 5.
Proof. cbv zeta. split; [|vm_compute; reflexivity]. apply creachable_cleaned.
  - unfold handover_ok, geometry_ok. cbn [h_init h_tlen h_mtu h_n0 h_off0].
    split; [split; [exists 10; split; [lia|reflexivity]|]|]; vm_compute; repeat split; discriminate.
  - split; reflexivity.
  - unfold hist_ok. repeat (constructor; [vm_compute; try exact I; repeat split; discriminate|]). constructor.
  - vm_compute. repeat split.
Qed.

(* non-vacuity / what the property is about: a 100-byte message cut 10 + 0 + 54 + 36 over a 64-byte payload gives the two
   fragments of the contiguous append; and the loops the repository had before the fix do not (witnesses) *)
Example C18_split_example :
  let msg := payload 5 100 in
  let bufs := [firstn 10 msg; []; firstn 54 (skipn 10 msg); skipn 64 msg] in
  concat bufs = msg /\
  bulk_frag_loop (frag_fuel 100 64) (handed_over 7 1024 96 1 2 3 0) harness_rv 10 64 F_BEGIN 100 0 (mkCursor (firstn 10 msg) 0 (tl bufs))
    = Ok (frag_loop (frag_fuel 100 64) (handed_over 7 1024 96 1 2 3 0) harness_rv 10 64 100 msg F_BEGIN 100 0,
          [mkCopy 32 10 (firstn 10 msg); mkCopy 42 0 []; mkCopy 42 54 (firstn 54 (skipn 10 msg)); mkCopy 128 36 (skipn 64 msg)]).
Proof. vm_compute. split; reflexivity. Qed.

Theorem C18_asis_unfragmented_refuted :
  bulk_unfrag_walk_asis [[1; 2; 3; 4]] 32 4 = [mkCopy 36 4 [1; 2; 3; 4]] /\
  ~ copies_inside 32 36 (bulk_unfrag_walk_asis [[1; 2; 3; 4]] 32 4) /\
  tile 32 (bulk_unfrag_walk_asis [[1; 2; 3; 4]] 32 4) = None.
Proof. exact unfrag_bulk_asis_outside. Qed.
Print Assumptions C18_asis_unfragmented_refuted.

Theorem C18_asis_fragmented_refuted :
  let b0 := repeat 7 10 in let b1 := repeat 9 200 in
  let '(cs1, cu1) := bulk_fragment_copies_asis [b0; b1] 64 0 0 in
  cu_off cu1 = 54 /\
  exists c, In c (fst (bulk_fragment_copies_asis [b0; b1] 64 96 (cu_off cu1))) /\ cp_n c = -44.
Proof. exact frag_bulk_asis_negative_copy. Qed.
Print Assumptions C18_asis_fragmented_refuted.
