(* Property C06, K1 source tie.  Statements only; proofs are in Proofs/GenSrcRingProofs.v.
   `src_rb_*` (Generated/GenSrcRing.v, Generated/GenSrcBits.v) are the Gallina reading of the bodies / named
   sub-expressions of src/concurrent/ring_buffer.rs and bit_utils.rs as they are in the repository under check today
   (tools/props/src_translate.py, regenerated on every run).  Each theorem says that the arithmetic or decision the
   hand-written model Model/Ring.v performs at that point is the one the source performs, on the whole typed domain:
   a changed operator, constant, cast, comparison or operand in the source breaks the theorem. *)
Require Import V.Base.MachineInt V.Base.MachineInt2 V.Base.MachineIntT V.Generated.GenConsts
               V.Model.LogBase V.Model.Ring V.Proofs.RingArith
               V.Generated.GenSrcBits V.Generated.GenSrcRing V.Proofs.GenSrcRingProofs.
From Coq Require Import String.
Open Scope Z_scope.

(* the record header: type in the high word, length in the low word *)
Theorem C06_src_make_header : forall m len ty, src_rb_make_header m len ty = Ok (make_header len ty).
Proof. exact src_rb_make_header_eq. Qed.
Print Assumptions C06_src_make_header.

(* ... and the reader's two accessors give back what was packed *)
Theorem C06_src_header_roundtrip : forall m len ty, in_i32 len = true -> in_i32 ty = true ->
  (h <- src_rb_make_header m len ty ;; src_rb_record_length m h) = Ok len /\
  (h <- src_rb_make_header m len ty ;; src_rb_message_type_id m h) = Ok ty.
Proof. exact header_roundtrip. Qed.
Print Assumptions C06_src_header_roundtrip.

Theorem C06_src_offsets : forall m o,
  src_rb_length_offset m o = Ok o /\ src_rb_type_offset m o = add32 m o 4 /\ src_rb_encoded_msg_offset m o = add32 m o HL.
Proof. intros. exact (conj (src_rb_length_offset_eq m o) (conj (src_rb_type_offset_eq m o) (src_rb_encoded_msg_offset_eq m o))). Qed.
Print Assumptions C06_src_offsets.

(* the two argument checks of write: exactly the guards of Ring.write_as *)
Theorem C06_src_write_guards : forall m typ maxl len,
  src_rb_check_msg_type_id m typ = Ok (if typ <? 1 then RErr "RingBufferError::NonPositiveMessageTypeId" [typ] else ROk 0) /\
  src_rb_check_msg_length m maxl len = Ok (if len >? maxl then RErr "RingBufferError::MessageTooLong" [maxl; len] else ROk 0).
Proof. intros. exact (conj (src_rb_check_msg_type_id_eq m typ) (src_rb_check_msg_length_eq m maxl len)). Qed.
Print Assumptions C06_src_write_guards.

(* record length and required capacity of a write *)
Theorem C06_src_write_lengths : forall m len rl,
  src_rb_write_record_len m len = add32 m len HL /\ src_rb_write_required_capacity m rl = ralign m rl.
Proof. intros. exact (conj (src_rb_write_record_len_eq m len) (src_rb_write_required_capacity_eq m rl)). Qed.
Print Assumptions C06_src_write_lengths.

(* claim: both capacity tests, the wrap decision, the front test and the new tail *)
Theorem C06_src_claim : forall m cp required tl hd padding, in_i32 (cp - 1) = true ->
  (a <- src_rb_claim_available_capacity m cp tl hd ;; src_rb_claim_lacks m required a) = lacks m cp required tl hd /\
  src_rb_claim_lacks_fresh m cp required tl hd = lacks m cp required tl hd /\
  (k <- src_rb_claim_mask m cp ;; i <- src_rb_claim_tail_index m tl k ;;
   e <- src_rb_claim_len_to_buffer_end m cp i ;; w <- src_rb_claim_wrap_needed m required e ;;
   Ok (if w : bool then Some e else None)) = wrap_needed m cp required tl /\
  (k <- src_rb_claim_mask m cp ;; i <- src_rb_claim_head_index m hd k ;; src_rb_claim_lacks_front m required i)
    = Ok (lacks_front cp required hd) /\
  (k <- src_rb_claim_mask m cp ;; src_rb_claim_tail_index m tl k) = Ok (mask_idx cp tl) /\
  src_rb_claim_new_tail m tl required padding = new_tail m tl required padding.
Proof. intros m cp required tl hd padding H.
  exact (conj (src_rb_claim_lacks_eq m cp required tl hd) (conj (src_rb_claim_lacks_fresh_eq m cp required tl hd)
        (conj (src_rb_claim_wrap_needed_eq m cp required tl H) (conj (src_rb_claim_lacks_front_eq m cp required hd H)
        (conj (src_rb_claim_tail_index_eq m cp tl H) (src_rb_claim_new_tail_eq m tl required padding)))))). Qed.
Print Assumptions C06_src_claim.

(* read: where it starts, how far it may go, when it stops, how it advances *)
Theorem C06_src_read : forall m cp hd bytes contiguous msgs limit len i, in_i32 (cp - 1) = true ->
  src_rb_read_head_index m cp hd = Ok (mask_idx cp hd) /\
  (j <- src_rb_read_head_index m cp hd ;; src_rb_read_contiguous_block_len m cp j) = sub32 m cp (mask_idx cp hd) /\
  src_rb_read_continue m bytes contiguous msgs limit = Ok ((bytes <? contiguous) && (msgs <? limit)) /\
  src_rb_read_record_index m i bytes = add32 m i bytes /\
  src_rb_read_stop m len = Ok (len <=? 0) /\
  src_rb_read_advance m bytes len = (al <- ralign m len ;; add32 m bytes al).
Proof. intros m cp hd bytes contiguous msgs limit len i H.
  exact (conj (src_rb_read_head_index_eq m cp hd H) (conj (src_rb_read_contiguous_eq m cp hd H)
        (conj (src_rb_read_continue_eq m bytes contiguous msgs limit) (conj (src_rb_read_record_index_eq m i bytes)
        (conj (src_rb_read_stop_eq m len) (src_rb_read_advance_eq m bytes len)))))). Qed.
Print Assumptions C06_src_read.

Theorem C06_src_size : forall m st, src_rb_size m (r_tail st) (r_head st) = size m st.
Proof. exact src_rb_size_eq. Qed.
Print Assumptions C06_src_size.

(* is_power_of_two is true exactly on 2^0 .. 2^30 *)
Theorem C06_src_is_power_of_two : forall m v, in_i32 v = true ->
  exists b, src_is_power_of_two m v = Ok b /\ (b = true <-> exists k, 0 <= k <= 30 /\ v = 2 ^ k).
Proof. exact src_is_power_of_two_spec. Qed.
Print Assumptions C06_src_is_power_of_two.

(* ManyToOneRingBuffer::new on a buffer of 2^k + TRAILER_LENGTH bytes: capacity, longest message (capacity / 8,
   the bound of Ring.write_as) and the five counters at the offsets Ring.render_trailer uses *)
Theorem C06_src_new : forall m cp, cap_ok cp ->
  src_rb_new m (cp + TRAILER) =
  Ok (RStruct [("capacity", cp); ("consumer_heartbeat", cp + HB_OFF); ("correlation_id_counter", cp + CORR_OFF);
               ("head_cache_position", cp + HC_OFF); ("head_position", cp + HEAD_OFF); ("max_msg_len", cp / 8);
               ("tail_position", cp + TAIL_OFF)]%string).
Proof. exact src_rb_new_spec. Qed.
Print Assumptions C06_src_new.

Theorem C06_src_new_refuses : forall m bc, in_i32 bc = true -> in_i32 (bc - TRAILER) = true ->
  (~ exists k, 0 <= k <= 30 /\ bc - TRAILER = 2 ^ k) ->
  src_rb_new m bc = Ok (RErr "RingBufferError::CapacityIsNotTwoPower" [bc - TRAILER]).
Proof. exact src_rb_new_refuses. Qed.
Print Assumptions C06_src_new_refuses.

(* the hypotheses are satisfiable: a 1 KiB ring *)
Example C06_src_example :
  cap_ok 1024 /\ in_i32 (1024 - 1) = true /\
  src_rb_new Debug (1024 + TRAILER) =
  Ok (RStruct [("capacity", 1024); ("consumer_heartbeat", 1664); ("correlation_id_counter", 1536);
               ("head_cache_position", 1280); ("head_position", 1408); ("max_msg_len", 128);
               ("tail_position", 1152)]%string) /\
  src_rb_make_header Release 16 7 = Ok 30064771088.
Proof. split; [exists 10; split; [lia|reflexivity]|]. repeat split. Qed.
