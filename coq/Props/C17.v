(* Property C17 — position / term arithmetic is consistent, including term-id
   wrap-around.  Statements only; proofs are in Proofs/DescriptorProofs.v. *)
Require Import V.Base.MachineInt V.Generated.GenConsts V.Model.Descriptor
               V.Proofs.DescriptorProofs V.Oracle.C17Oracle V.Proofs.C17OracleProofs.
Open Scope Z_scope.

(* position from (term id, offset) = elapsed terms x term length + offset *)
Theorem C17_position : forall m init n bits off,
  in_i32 init = true -> 0 <= n < two31 -> 0 <= bits <= 31 -> 0 <= off <= 2 ^ bits ->
  compute_position m (wrap32 (init + n)) off bits init = Ok (n * 2 ^ bits + off).
Proof. exact compute_position_spec. Qed.
Print Assumptions C17_position.

Theorem C17_begin : forall init n bits,
  in_i32 init = true -> 0 <= n < two31 -> 0 <= bits <= 31 ->
  compute_term_begin_position (wrap32 (init + n)) bits init = n * 2 ^ bits + 0.
Proof. exact compute_term_begin_position_spec. Qed.
Print Assumptions C17_begin.

Theorem C17_nonneg : forall n bits off, 0 <= n -> 0 <= bits -> 0 <= off -> 0 <= n * 2 ^ bits + off.
Proof. exact spec_position_nonneg. Qed.
Print Assumptions C17_nonneg.

Theorem C17_monotone : forall n1 o1 n2 o2 bits,
  0 <= bits -> 0 <= o1 < 2 ^ bits -> 0 <= o2 < 2 ^ bits -> 0 <= n1 -> 0 <= n2 ->
  (n1 < n2 \/ (n1 = n2 /\ o1 < o2)) -> n1 * 2 ^ bits + o1 < n2 * 2 ^ bits + o2.
Proof. exact spec_position_mono. Qed.
Print Assumptions C17_monotone.

(* the partition chosen from the term id, the term count and the position agree *)
Theorem C17_partition_agree : forall init n bits off,
  in_i32 init = true -> 0 <= n < two31 -> 0 <= bits <= 31 -> 0 <= off < 2 ^ bits ->
  index_by_term init (wrap32 (init + n)) = n mod 3 /\
  index_by_term_count n = n mod 3 /\
  index_by_position (n * 2 ^ bits + off) bits = n mod 3.
Proof. exact partitions_agree. Qed.
Print Assumptions C17_partition_agree.

(* the position in a fragment's header = position after consuming that fragment *)
Theorem C17_header_position : forall m init n bits off len,
  in_i32 init = true -> 0 <= n < two31 -> 5 <= bits <= 30 ->
  0 <= off -> 0 < len -> off mod 32 = 0 -> off + align len 32 <= 2 ^ bits ->
  header_position m init bits (wrap32 (init + n)) off len = Ok (n * 2 ^ bits + off + align len 32).
Proof. exact header_position_spec. Qed.
Print Assumptions C17_header_position.

Theorem C17_consistency_check : forall init n c,
  in_i32 init = true -> 0 <= n < two31 -> in_i32 c = true ->
  term_count_consistent c (wrap32 (init + n)) init = true <-> c = n.
Proof. exact consistency_check_spec. Qed.
Print Assumptions C17_consistency_check.

(* rotation advances term id, term count and the next tail by exactly one term *)
Theorem C17_rotate : forall m init n s,
  in_i32 init = true -> 0 <= n < two31 - 1 -> meta_consistent init n s ->
  exists s', rotate_log m s n (wrap32 (init + n)) = Ok s' /\
    count s' = n + 1 /\
    get_tail s' ((n + 1) mod 3) = raw_tail_of_term (wrap32 (init + n + 1)) /\
    (forall j, 0 <= j < 3 -> j <> (n + 1) mod 3 -> get_tail s' j = get_tail s j).
Proof. exact rotate_log_spec. Qed.
Print Assumptions C17_rotate.

Theorem C17_rotate_idempotent : forall m init n s s',
  in_i32 init = true -> 0 <= n < two31 - 1 -> meta_consistent init n s ->
  rotate_log m s n (wrap32 (init + n)) = Ok s' -> rotate_log m s' n (wrap32 (init + n)) = Ok s'.
Proof. exact rotate_log_idempotent. Qed.
Print Assumptions C17_rotate_idempotent.

(* the oracle applied to the model's own results is true on the whole domain:
   the predicate used to judge the implementation is the predicate proved here *)
Theorem C17_oracle_position : forall m init n bits off,
  in_i32 init = true -> 0 <= n < two31 -> 0 <= bits <= 31 -> 0 <= off <= 2 ^ bits ->
  holds_position init n bits off
    (compute_position m (wrap32 (init + n)) off bits init)
    (Ok (compute_term_begin_position (wrap32 (init + n)) bits init))
    (Ok (index_by_term init (wrap32 (init + n))))
    (Ok (index_by_term_count n))
    (Ok (index_by_position (n * 2 ^ bits + off) bits)) = true.
Proof. exact oracle_position_model. Qed.
Print Assumptions C17_oracle_position.

Theorem C17_oracle_header : forall m init n bits off len,
  in_i32 init = true -> 0 <= n < two31 -> 5 <= bits <= 30 ->
  0 <= off -> 0 < len -> off mod 32 = 0 -> off + align len 32 <= 2 ^ bits ->
  holds_header init n bits off len (header_position m init bits (wrap32 (init + n)) off len) = true.
Proof. exact oracle_header_model. Qed.
Print Assumptions C17_oracle_header.

Theorem C17_oracle_rotate : forall m init n s,
  in_i32 init = true -> 0 <= n < two31 - 1 -> meta_consistent init n s ->
  holds_rotate init n s (rotate_log m s n (wrap32 (init + n))) = true.
Proof. exact oracle_rotate_model. Qed.
Print Assumptions C17_oracle_rotate.

(* non-vacuity: a wrapped term id satisfies the hypotheses and gives the expected numbers *)
Example C17_wrap_example :
  compute_position Debug (wrap32 (2147483647 + 5)) 96 16 2147483647 = Ok (5 * 65536 + 96)
  /\ wrap32 (2147483647 + 5) = -2147483644
  /\ meta_consistent 2147483647 1
       {| tail0 := raw_tail_of_term (wrap32 (2147483647 + 3 - 3)) ; tail1 := raw_tail_of_term (wrap32 (2147483647+1)) + 4096;
          tail2 := raw_tail_of_term (wrap32 (2147483647 + 2 - 3)) + 77; count := 1 |}.
Proof. repeat split; vm_compute; reflexivity. Qed.
