(* Property C17 — position / term arithmetic is consistent, including term-id
   wrap-around.  Statements only; proofs are in Proofs/DescriptorProofs.v (hand-written model) and
   Proofs/GenDescriptorProofs.v (theorems C17_src_...: the same statements for the functions that
   tools/props/c17_translate.py translates from the Rust source on every run, Generated/GenDescriptor.v). *)
Require Import V.Base.MachineInt V.Base.MachineInt2 V.Generated.GenConsts V.Model.Descriptor
               V.Proofs.DescriptorProofs V.Oracle.C17Oracle V.Proofs.C17OracleProofs
               V.Generated.GenDescriptor V.Proofs.GenDescriptorProofs.
Open Scope Z_scope.

(* position from (term id, offset) = elapsed terms x term length + offset *)
Theorem C17_position : forall m init n bits off,
  in_i32 init = true -> 0 <= n < two31 -> 0 <= bits <= 31 -> 0 <= off <= 2 ^ bits ->
  compute_position m (wrap32 (init + n)) off bits init = Ok (n * 2 ^ bits + off).
Proof. exact compute_position_spec. Qed.
Print Assumptions C17_position.

Theorem C17_begin : forall init n bits,
  in_i32 init = true -> 0 <= n < two31 -> 0 <= bits <= 31 ->
  compute_term_begin_position (wrap32 (init + n)) bits init = n * 2 ^ bits + 0.
Proof. exact compute_term_begin_position_spec. Qed.
Print Assumptions C17_begin.

Theorem C17_nonneg : forall n bits off, 0 <= n -> 0 <= bits -> 0 <= off -> 0 <= n * 2 ^ bits + off.
Proof. exact spec_position_nonneg. Qed.
Print Assumptions C17_nonneg.

Theorem C17_monotone : forall n1 o1 n2 o2 bits,
  0 <= bits -> 0 <= o1 < 2 ^ bits -> 0 <= o2 < 2 ^ bits -> 0 <= n1 -> 0 <= n2 ->
  (n1 < n2 \/ (n1 = n2 /\ o1 < o2)) -> n1 * 2 ^ bits + o1 < n2 * 2 ^ bits + o2.
Proof. exact spec_position_mono. Qed.
Print Assumptions C17_monotone.

(* the partition chosen from the term id, the term count and the position agree *)
Theorem C17_partition_agree : forall init n bits off,
  in_i32 init = true -> 0 <= n < two31 -> 0 <= bits <= 31 -> 0 <= off < 2 ^ bits ->
  index_by_term init (wrap32 (init + n)) = n mod 3 /\
  index_by_term_count n = n mod 3 /\
  index_by_position (n * 2 ^ bits + off) bits = n mod 3.
Proof. exact partitions_agree. Qed.
Print Assumptions C17_partition_agree.

(* the position in a fragment's header = position after consuming that fragment *)
Theorem C17_header_position : forall m init n bits off len,
  in_i32 init = true -> 0 <= n < two31 -> 5 <= bits <= 30 ->
  0 <= off -> 0 < len -> off mod 32 = 0 -> off + align len 32 <= 2 ^ bits ->
  header_position m init bits (wrap32 (init + n)) off len = Ok (n * 2 ^ bits + off + align len 32).
Proof. exact header_position_spec. Qed.
Print Assumptions C17_header_position.

Theorem C17_consistency_check : forall init n c,
  in_i32 init = true -> 0 <= n < two31 -> in_i32 c = true ->
  term_count_consistent c (wrap32 (init + n)) init = true <-> c = n.
Proof. exact consistency_check_spec. Qed.
Print Assumptions C17_consistency_check.

(* rotation advances term id, term count and the next tail by exactly one term *)
Theorem C17_rotate : forall m init n s,
  in_i32 init = true -> 0 <= n < two31 - 1 -> meta_consistent init n s ->
  exists s', rotate_log m s n (wrap32 (init + n)) = Ok s' /\
    count s' = n + 1 /\
    get_tail s' ((n + 1) mod 3) = raw_tail_of_term (wrap32 (init + n + 1)) /\
    (forall j, 0 <= j < 3 -> j <> (n + 1) mod 3 -> get_tail s' j = get_tail s j).
Proof. exact rotate_log_spec. Qed.
Print Assumptions C17_rotate.

Theorem C17_rotate_idempotent : forall m init n s s',
  in_i32 init = true -> 0 <= n < two31 - 1 -> meta_consistent init n s ->
  rotate_log m s n (wrap32 (init + n)) = Ok s' -> rotate_log m s' n (wrap32 (init + n)) = Ok s'.
Proof. exact rotate_log_idempotent. Qed.
Print Assumptions C17_rotate_idempotent.

(* the oracle applied to the model's own results is true on the whole domain:
   the predicate used to judge the implementation is the predicate proved here *)
Theorem C17_oracle_position : forall m init n bits off,
  in_i32 init = true -> 0 <= n < two31 -> 0 <= bits <= 31 -> 0 <= off <= 2 ^ bits ->
  holds_position init n bits off
    (compute_position m (wrap32 (init + n)) off bits init)
    (Ok (compute_term_begin_position (wrap32 (init + n)) bits init))
    (Ok (index_by_term init (wrap32 (init + n))))
    (Ok (index_by_term_count n))
    (Ok (index_by_position (n * 2 ^ bits + off) bits)) = true.
Proof. exact oracle_position_model. Qed.
Print Assumptions C17_oracle_position.

Theorem C17_oracle_header : forall m init n bits off len,
  in_i32 init = true -> 0 <= n < two31 -> 5 <= bits <= 30 ->
  0 <= off -> 0 < len -> off mod 32 = 0 -> off + align len 32 <= 2 ^ bits ->
  holds_header init n bits off len (header_position m init bits (wrap32 (init + n)) off len) = true.
Proof. exact oracle_header_model. Qed.
Print Assumptions C17_oracle_header.

Theorem C17_oracle_rotate : forall m init n s,
  in_i32 init = true -> 0 <= n < two31 - 1 -> meta_consistent init n s ->
  holds_rotate init n s (rotate_log m s n (wrap32 (init + n))) = true.
Proof. exact oracle_rotate_model. Qed.
Print Assumptions C17_oracle_rotate.

(* a late caller of rotate_log (the log is already at term count n+1, the new term may already hold data) changes nothing *)
Theorem C17_oracle_rotate_late : forall m init n s,
  in_i32 init = true -> 0 <= n < two31 - 2 -> meta_consistent init (n + 1) s ->
  holds_rotate_late s (rotate_log m s n (wrap32 (init + n))) = true.
Proof. exact oracle_rotate_late_model. Qed.
Print Assumptions C17_oracle_rotate_late.

(* ... and the same for a caller any number k >= 1 of rotations behind, on the meta data the harness builds (all three tail
   counters carry the term ids a log at term count n+k has): the active partition is never rewound *)
Theorem C17_oracle_rotate_late_k : forall m init n k o0 o1 o2,
  in_i32 init = true -> 0 <= n -> 1 <= k -> n + k < two31 - 1 ->
  0 <= o0 < two32 -> 0 <= o1 < two32 -> 0 <= o2 < two32 ->
  let s := c17_meta init (n + k) o0 o1 o2 in
  holds_rotate_late s (rotate_log m s n (wrap32 (init + n))) = true.
Proof. exact oracle_rotate_late_k_model. Qed.
Print Assumptions C17_oracle_rotate_late_k.

(* Publication::position(): the term id and the offset are cut out of the raw tail counter; the offset is clamped to
   the term length, so a tail that has overshot the term (tripped append, rotation pending, or the last term) never
   yields a position past the term end / the end of the position space. *)
Theorem C17_oracle_ppos : forall m init n0 bits off0,
  in_i32 init = true -> 0 <= n0 < two31 -> 0 <= bits <= 30 -> 0 <= off0 < two32 ->
  holds_ppos init n0 bits off0 (model_ppos m init n0 bits off0) = true.
Proof. exact oracle_ppos_model. Qed.
Print Assumptions C17_oracle_ppos.

Example C17_ppos_example :
  model_ppos Release 2147483647 (two31 - 1) 16 (65536 + 96) = Ok (two31 * 65536)
  /\ holds_ppos 2147483647 (two31 - 1) 16 (65536 + 96) (Ok (two31 * 65536 + 96)) = false.
Proof. split; vm_compute; reflexivity. Qed.

(* ------------------------------------------------------------------------------------------
   The same statements for the functions translated from the source (K1).  `src_f m args` is the
   Gallina reading of the body of the Rust function f as it is in the repository under check today:
   operand types, checked / wrapping operators, casts, shifts, masks and constants included. *)

Theorem C17_src_position : forall m init n bits off,
  in_i32 init = true -> 0 <= n < two31 -> 0 <= bits <= 31 -> 0 <= off <= 2 ^ bits ->
  src_compute_position m (wrap32 (init + n)) off bits init = Ok (n * 2 ^ bits + off).
Proof. exact src_compute_position_spec. Qed.
Print Assumptions C17_src_position.

Theorem C17_src_begin : forall m init n bits,
  in_i32 init = true -> 0 <= n < two31 -> 0 <= bits <= 31 ->
  src_compute_term_begin_position m (wrap32 (init + n)) bits init = Ok (n * 2 ^ bits + 0).
Proof. exact src_compute_term_begin_position_spec. Qed.
Print Assumptions C17_src_begin.

Theorem C17_src_partition_agree : forall m init n bits off,
  in_i32 init = true -> 0 <= n < two31 -> 0 <= bits <= 31 -> 0 <= off < 2 ^ bits ->
  src_index_by_term m init (wrap32 (init + n)) = Ok (n mod 3) /\
  src_index_by_term_count m n = Ok (n mod 3) /\
  src_index_by_position m (n * 2 ^ bits + off) bits = Ok (n mod 3).
Proof. exact src_partitions_agree. Qed.
Print Assumptions C17_src_partition_agree.

Theorem C17_src_header_position : forall m init n bits off len,
  in_i32 init = true -> 0 <= n < two31 -> 5 <= bits <= 30 ->
  0 <= off -> 0 < len -> off mod 32 = 0 -> off + align len 32 <= 2 ^ bits ->
  src_header_position m init bits (wrap32 (init + n)) off len = Ok (n * 2 ^ bits + off + align len 32).
Proof. exact src_header_position_spec. Qed.
Print Assumptions C17_src_header_position.

(* a raw tail splits back into the term id and the (capped) offset it was packed from *)
Theorem C17_src_tail_split : forall m t o term_length,
  in_i32 t = true -> 0 <= o < two32 -> 0 <= term_length < two31 ->
  src_term_id m (raw_tail_of_term t + o) = Ok t /\
  src_term_offset m (raw_tail_of_term t + o) term_length = Ok (Z.min o term_length).
Proof. exact src_tail_split. Qed.
Print Assumptions C17_src_tail_split.

(* next / previous partition stay inside 0..2 and undo each other *)
Theorem C17_src_partition_step : forall m i, 0 <= i < 3 ->
  src_next_partition_index m i = Ok ((i + 1) mod 3) /\
  src_previous_partition_index m i = Ok ((i + 2) mod 3) /\
  (j <- src_next_partition_index m i ;; src_previous_partition_index m j) = Ok i.
Proof. exact src_partition_step. Qed.
Print Assumptions C17_src_partition_step.

(* align to a power of two = checked add of 2^k - 1, then round down to a multiple of 2^k *)
Theorem C17_src_align : forall m v k, 0 <= k <= 30 ->
  src_align m v (2 ^ k) = (s <- add32 m v (2 ^ k - 1) ;; Ok (s / 2 ^ k * 2 ^ k)).
Proof. exact src_align_pow2. Qed.
Print Assumptions C17_src_align.

Theorem C17_src_max_message_length : forall m bits, 16 <= bits <= 30 ->
  src_compute_max_message_length m (2 ^ bits) = Ok (Z.min (2 ^ (bits - 3)) (2 ^ 24)).
Proof. exact src_max_message_length_spec. Qed.
Print Assumptions C17_src_max_message_length.

Theorem C17_src_rotate : forall m init n s,
  in_i32 init = true -> 0 <= n < two31 - 1 -> meta_consistent init n s ->
  exists s', src_rotate_log m s n (wrap32 (init + n)) = Ok s' /\
    count s' = n + 1 /\
    get_tail s' ((n + 1) mod 3) = raw_tail_of_term (wrap32 (init + n + 1)) /\
    (forall j, 0 <= j < 3 -> j <> (n + 1) mod 3 -> get_tail s' j = get_tail s j).
Proof. exact src_rotate_log_spec. Qed.
Print Assumptions C17_src_rotate.

Theorem C17_src_rotate_idempotent : forall m init n s s',
  in_i32 init = true -> 0 <= n < two31 - 1 -> meta_consistent init n s ->
  src_rotate_log m s n (wrap32 (init + n)) = Ok s' -> src_rotate_log m s' n (wrap32 (init + n)) = Ok s'.
Proof. exact src_rotate_log_idempotent. Qed.
Print Assumptions C17_src_rotate_idempotent.

(* the hand-written model of Model/Descriptor.v (the one the differential run executes) and the source
   agree on the whole typed domain: every i32 / i64 argument, shift amounts 0..63 *)
Theorem C17_src_model_agree : forall m,
  (forall init active, src_index_by_term m init active = Ok (index_by_term init active)) /\
  (forall c, src_index_by_term_count m c = Ok (index_by_term_count c)) /\
  (forall p bits, 0 <= bits < 64 -> src_index_by_position m p bits = Ok (index_by_position p bits)) /\
  (forall a off bits init, 0 <= bits < 64 -> src_compute_position m a off bits init = compute_position m a off bits init) /\
  (forall a bits init, 0 <= bits < 64 ->
     src_compute_term_begin_position m a bits init = Ok (compute_term_begin_position a bits init)) /\
  (forall raw, src_term_id m raw = Ok (term_id_of raw)) /\
  (forall raw tl, src_term_offset m raw tl = Ok (term_offset_of raw tl)) /\
  (forall i, src_next_partition_index m i = next_partition_index m i) /\
  (forall i, src_previous_partition_index m i = previous_partition_index m i) /\
  (forall v, src_align m v GenConsts.FRAME_ALIGNMENT = align32 m v) /\
  (forall init bits tid off len, 0 <= bits < 64 ->
     src_header_position m init bits tid off len = header_position m init bits tid off len) /\
  (forall s c t, src_rotate_log m s c t = rotate_log m s c t).
Proof. exact src_model_agree. Qed.
Print Assumptions C17_src_model_agree.

(* a shift amount outside 0..63 panics in a Debug build (the hand-written model leaves that case out) *)
Theorem C17_src_shift_panics : forall a off bits init, ~ 0 <= bits < 64 ->
  src_compute_position Debug a off bits init = Panic /\ src_index_by_position Debug a bits = Panic.
Proof. exact src_shift_panics. Qed.
Print Assumptions C17_src_shift_panics.

(* the oracle is true on what the source computes *)
Theorem C17_src_oracle_position : forall m init n bits off,
  in_i32 init = true -> 0 <= n < two31 -> 0 <= bits <= 31 -> 0 <= off <= 2 ^ bits ->
  holds_position init n bits off
    (src_compute_position m (wrap32 (init + n)) off bits init)
    (src_compute_term_begin_position m (wrap32 (init + n)) bits init)
    (src_index_by_term m init (wrap32 (init + n)))
    (src_index_by_term_count m n)
    (src_index_by_position m (n * 2 ^ bits + off) bits) = true.
Proof. exact src_oracle_position. Qed.
Print Assumptions C17_src_oracle_position.

Theorem C17_src_oracle_header : forall m init n bits off len,
  in_i32 init = true -> 0 <= n < two31 -> 5 <= bits <= 30 ->
  0 <= off -> 0 < len -> off mod 32 = 0 -> off + align len 32 <= 2 ^ bits ->
  holds_header init n bits off len (src_header_position m init bits (wrap32 (init + n)) off len) = true.
Proof. exact src_oracle_header. Qed.
Print Assumptions C17_src_oracle_header.

Theorem C17_src_oracle_rotate : forall m init n s,
  in_i32 init = true -> 0 <= n < two31 - 1 -> meta_consistent init n s ->
  holds_rotate init n s (src_rotate_log m s n (wrap32 (init + n))) = true.
Proof. exact src_oracle_rotate. Qed.
Print Assumptions C17_src_oracle_rotate.

(* non-vacuity: a wrapped term id satisfies the hypotheses and gives the expected numbers *)
Example C17_wrap_example :
  compute_position Debug (wrap32 (2147483647 + 5)) 96 16 2147483647 = Ok (5 * 65536 + 96)
  /\ wrap32 (2147483647 + 5) = -2147483644
  /\ meta_consistent 2147483647 1
       {| tail0 := raw_tail_of_term (wrap32 (2147483647 + 3 - 3)) ; tail1 := raw_tail_of_term (wrap32 (2147483647+1)) + 4096;
          tail2 := raw_tail_of_term (wrap32 (2147483647 + 2 - 3)) + 77; count := 1 |}.
Proof. repeat split; vm_compute; reflexivity. Qed.

Example C17_src_wrap_example :
  src_compute_position Debug (wrap32 (2147483647 + 5)) 96 16 2147483647 = Ok (5 * 65536 + 96)
  /\ src_index_by_position Release (5 * 65536 + 96) 16 = Ok 2
  /\ src_header_position Debug 2147483647 16 (wrap32 (2147483647 + 5)) 64 100 = Ok (5 * 65536 + 64 + 128)
  /\ src_term_id Debug (raw_tail_of_term (-2147483644) + 4096) = Ok (-2147483644)
  /\ src_compute_position Debug 7 0 64 7 = Panic.
Proof. repeat split; vm_compute; reflexivity. Qed.
