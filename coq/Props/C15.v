(* Property C15 - counters: ids are unique while live, reuse waits for the cool-down, reads are total.
   Statements only; proofs are in Proofs/CountersProofs.v, Proofs/C15OracleProofs.v, Proofs/C15Witness.v.

   [run m ops (mgr0 nm nv timeout)] is the history of observations of the model (Model/Counters.v,
   the code with fixes/C15-*.diff applied) from the empty manager over buffers of nm metadata records and
   nv value slots.  [holds_with g c ops obs spec0] evaluates clause [c] of the oracle (Oracle/C15Oracle.v)
   after every operation, against book-keeping derived from the history alone, for as long as the
   history respects the API contract [contract_step] (free on live ids only, value writes on live ids or - late writes of a former
   owner - on freed ids not handed out again, clock and cool-down within i64 milliseconds, u64 values, a key
   callback that stays inside its view).
   All theorems quantify over every operation list, every pair of slot counts inside the geometry
   [cfg_ok] (offsets fit i32) and both build modes. *)
Require Import V.Base.MachineInt.
Require Import V.Generated.GenConsts.
Require Import V.Model.Counters.
Require Import V.Oracle.C15Oracle.
Require Import V.Proofs.CountersProofs.
Require Import V.Proofs.C15OracleProofs.
Require Import V.Proofs.C15Witness.
Open Scope Z_scope.

(* the whole oracle on the model's own observations: the predicate used to judge the implementation
   is true of every history of the model *)
Theorem C15_oracle_holds : forall m nm nv timeout ops,
  holds nm nv timeout ops (run m ops (mgr0 nm nv timeout)) = true.
Proof. exact holds_model. Qed.
Print Assumptions C15_oracle_holds.

(* live ids are pairwise distinct and inside both buffers: allocate never returns an id that is live *)
Theorem C15_unique : forall m nm nv timeout ops, let g := mkcfg nm nv timeout in
  cfg_ok g = true -> holds_with g (c_unique g) ops (run m ops (mgr0 nm nv timeout)) spec0 = true.
Proof. exact holds_unique. Qed.
Print Assumptions C15_unique.

(* an id that was freed at clock t_f comes back only when now >= t_f + timeout; a never-used id only while
   fewer than min(nm,nv) ids were handed out; counter_value right after allocation is 0 *)
Theorem C15_reuse : forall m nm nv timeout ops, let g := mkcfg nm nv timeout in
  cfg_ok g = true -> holds_with g (c_reuse g) ops (run m ops (mgr0 nm nv timeout)) spec0 = true.
Proof. exact holds_reuse. Qed.
Print Assumptions C15_reuse.

(* allocate fails exactly when label / key are rejected or no slot can be handed out, with Err (never Panic),
   and the enumeration afterwards shows the same counters; free / set / clock never fail inside the contract *)
Theorem C15_fail_closed : forall m nm nv timeout ops, let g := mkcfg nm nv timeout in
  cfg_ok g = true -> holds_with g (c_fail_closed g) ops (run m ops (mgr0 nm nv timeout)) spec0 = true.
Proof. exact holds_fail_closed. Qed.
Print Assumptions C15_fail_closed.

(* ... and in whatever state: an allocation that returns an error has changed nothing at all
   (no record, no value, not the free list, not the high water mark) *)
Theorem C15_fail_closed_state : forall t ks label s e s1,
  allocate_opt t ks label s = (CErr e, s1) -> s1 = s.
Proof. exact allocate_err_unchanged. Qed.
Print Assumptions C15_fail_closed_state.

(* for_each enumerates exactly the live ids, ascending, after every operation; at a dump with the type, the
   key prefix and the label that were stored; the iterator yields the same records *)
Theorem C15_enumerate : forall m nm nv timeout ops, let g := mkcfg nm nv timeout in
  cfg_ok g = true -> holds_with g c_enumerate ops (run m ops (mgr0 nm nv timeout)) spec0 = true.
Proof. exact holds_enumerate. Qed.
Print Assumptions C15_enumerate.

(* at every dump: no accessor panics on any probed id, ids inside both buffers answer Ok and all others Err;
   a live id reads back value / state / deadline / label, a freed one its state and deadline;
   find_counter_id_by_registration_id returns the first enumerated match and is_active holds of it *)
Theorem C15_total : forall m nm nv timeout ops, let g := mkcfg nm nv timeout in
  cfg_ok g = true -> holds_with g (c_total g) ops (run m ops (mgr0 nm nv timeout)) spec0 = true.
Proof. exact holds_total. Qed.
Print Assumptions C15_total.

(* a reader that runs during an allocation (here: from inside the key callback, which allocate_opt calls after the
   header and key are written and before label and state are) sees exactly the counters stored before it: the
   enumeration is the old live set and the record being built does not read as allocated *)
Theorem C15_snapshot : forall m nm nv timeout ops, let g := mkcfg nm nv timeout in
  cfg_ok g = true -> holds_with g c_snapshot ops (run m ops (mgr0 nm nv timeout)) spec0 = true.
Proof. exact holds_snapshot. Qed.
Print Assumptions C15_snapshot.

(* the state that reader looks at is an intermediate state of allocate_opt itself *)
Theorem C15_snapshot_is_midway : forall t ks label s,
  allocate_opt t ks label s = bindM (alloc_mid t ks label) (fun id => write_tail id label) s.
Proof. exact allocate_opt_via_mid. Qed.
Print Assumptions C15_snapshot_is_midway.

(* a history inside the contract never panics and ends in a state covered by the simulation *)
Theorem C15_no_panic : forall m nm nv timeout ops, let g := mkcfg nm nv timeout in let s0 := mgr0 nm nv timeout in
  cfg_ok g = true -> in_contract g ops (run m ops s0) spec0 = true ->
  R g (final m ops s0) (spec_after ops (run m ops s0) spec0) /\
  length (run m ops s0) = length ops /\
  forallb (fun ob => negb (obs_panicked ob)) (run m ops s0) = true.
Proof. exact no_panic_in_contract. Qed.
Print Assumptions C15_no_panic.

(* every reader accessor is total for EVERY integer id in every such state: Ok exactly for 0 <= id < min(nm,nv),
   Err IdOutOfRange otherwise, never Panic; for_each, iter and the registration look-up do not panic either *)
Theorem C15_reader_total : forall g s sp id, R g s sp ->
  (if (0 <=? id) && (id <? g_n g)
   then exists v st d l, counter_value s id = COk v /\ counter_state s id = COk st /\
                         free_to_reuse_deadline s id = COk d /\ counter_label s id = COk l
   else counter_value s id = CErr IdOutOfRange /\ counter_state s id = CErr IdOutOfRange /\
        free_to_reuse_deadline s id = CErr IdOutOfRange /\ counter_label s id = CErr IdOutOfRange)
  /\ is_panic (for_each s) = false /\ is_panic (iter s) = false
  /\ (forall t reg, is_panic (find_counter_id_by_registration_id s t reg) = false).
Proof. exact reader_total_all. Qed.
Print Assumptions C15_reader_total.

(* a live counter reads back what allocate stored and the last value set *)
Theorem C15_reads_back : forall g s sp id, R g s sp -> In id (sp_live sp) ->
  counter_value s id = COk (i_value (sp_info sp id)) /\
  counter_state s id = COk ST_ALLOCATED /\
  counter_label s id = COk (i_label (sp_info sp id)) /\
  In (id, i_type (sp_info sp id), r_key (meta s id), i_label (sp_info sp id))
     (match for_each s with COk l => l | _ => [] end) /\
  firstn (length (i_key (sp_info sp id))) (r_key (meta s id)) = i_key (sp_info sp id).
Proof. exact live_reads_back. Qed.
Print Assumptions C15_reads_back.

(* the code before the repairs does not have the property: concrete counter-examples *)
Theorem C15_v0_validate_accepts_slot_count :
  counter_value_v0 (mgr0 2 2 10) 2 = CPanic /\ counter_state_v0 (mgr0 2 2 10) 2 = CPanic /\
  counter_value (mgr0 2 2 10) 2 = CErr IdOutOfRange.
Proof. exact v0_validate_accepts_slot_count. Qed.
Print Assumptions C15_v0_validate_accepts_slot_count.

Theorem C15_v0_failed_allocate_leaks_slot :
  let '(r1, s1) := allocate_opt_v0 1 KNone (mk_label 381 0 (-1)) (mgr0 2 2 10) in
  let '(r2, s2) := allocate_opt_v0 1 KNone (mk_label 3 0 (-1)) s1 in
  r1 = CErr LabelTooLong /\ hwm s1 = 1 /\ r2 = COk 1 /\ counter_state s2 1 = COk ST_ALLOCATED /\
  for_each_ids s2 = COk [].
Proof. exact v0_failed_allocate_leaks_slot. Qed.
Print Assumptions C15_v0_failed_allocate_leaks_slot.

Theorem C15_v0_iter_stops_at_reclaimed :
  let s := final Debug [Alloc 1 KNone (mk_label 1 0 (-1)); Alloc 2 KNone (mk_label 2 0 (-1)); Free 0] (mgr0 2 2 10) in
  iter_v0 s = COk [] /\ for_each_ids s = COk [1] /\ (exists i, iter s = COk [i]).
Proof. exact v0_iter_stops_at_reclaimed. Qed.
Print Assumptions C15_v0_iter_stops_at_reclaimed.

(* non-vacuity: a history that stays inside the contract to its end, with a late value write on a freed id,
   a refused reuse before the deadline, a reuse at the deadline that reads 0, an exhausted manager, rejected
   arguments and multi-byte UTF-8 labels of 380 and 382 bytes; the geometry holds for
   the largest buffers the harness uses and for 2 GiB-scale ones *)
Example C15_example_in_contract :
  cfg_ok (mkcfg 3 3 10) = true /\ cfg_ok (mkcfg 16 16 4611686018427387904) = true /\
  cfg_ok (mkcfg 4194302 16777214 0) = true /\
  in_contract (mkcfg 3 3 10) example_ops (run Debug example_ops (mgr0 3 3 10)) spec0 = true /\
  map (fun ob => match ob with OStep r _ _ => r | ODump _ => COk (-2) | OSnap r _ _ _ => r end) (run Debug example_ops (mgr0 3 3 10)) =
  [COk 0; COk 1; COk 0; COk 0; COk 0; COk 0; COk 2; CErr ValuesFull; COk 0; CErr LabelTooLong; CErr KeyTooLong;
   CErr LabelNotConvertible; CErr LabelTooLong; COk 0; COk (-2)] /\
  nth 13 (run Debug example_ops (mgr0 3 3 10)) (ODump (dump_of (mgr0 0 0 0))) = OSnap (COk 0) (COk 0) (COk [0; 1; 2]) [(COk [1; 2], COk ST_RECLAIMED)].
Proof. vm_compute. auto 10. Qed.
