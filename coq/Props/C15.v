(* Property C15 (work in progress: statements are added as the proofs land). *)
Require Import V.Base.MachineInt V.Generated.GenConsts V.Model.Counters V.Oracle.C15Oracle.
Open Scope Z_scope.

Example C15_smoke :
  holds 2 2 10 [Alloc 1 KNone (mk_label 3 0 (-1)); Dump]
        (run Debug [Alloc 1 KNone (mk_label 3 0 (-1)); Dump] (mgr0 2 2 10)) = true.
Proof. vm_compute. reflexivity. Qed.
