(* Property C09 - registration protocol: add / find / release follow the driver's answers exactly.
   Statements only; proofs are in Proofs/ConductorInv.v, Proofs/ConductorProofs.v, Proofs/C09OracleProofs.v.
   The model (Model/Conductor.v) describes the conductor with the repairs of fixes/C09-*.diff and fixes/C10-*.diff.
   `inv` is the invariant that holds in every state any history reaches (C09_invariant). *)
Require Import V.Base.MachineInt.
Require Import V.Generated.GenConsts.
Require Import V.Model.Conductor.
Require Import V.Proofs.ConductorBase.
Require Import V.Proofs.ConductorInv.
Require Import V.Proofs.ConductorProofs.
Require Import V.Proofs.ConductorClose.
Require Import V.Proofs.ConductorChan.
Require Import V.Oracle.C09Oracle.
Require Import V.Proofs.C09OracleProofs.
Open Scope Z_scope.

(* every state reached by any history of operations satisfies the invariant *)
Theorem C09_invariant : forall c c0 now0 ops, inv (fst (run c (init c0 now0) ops)).
Proof. intros. apply run_inv. apply init_inv. Qed.
Print Assumptions C09_invariant.

(* add_*: an accepted request returns the next correlation id, writes exactly the one command of its kind with the
   caller's arguments, the client id and that id, registers it as Awaiting at the current time, and touches nothing else *)
Theorem C09_add_accepted : forall k a1 a2 a3 s s' r cbs cmds,
  do_add k a1 a2 a3 s = (s', (Ok r, cbs, cmds)) ->
  r = [next_corr s] /\ cbs = [] /\
  cmds = [Cmd (add_cmd_type k a1) (client_id s) (next_corr s) (add_cmd_args k a1 a2 a3)] /\
  lookup (next_corr s) (getm k s') = Some (new_entry (now s) a1 a2 a3) /\
  next_corr s' = next_corr s + 1 /\ driver_active s = true /\ closed s = false /\
  (forall k' id, k' <> k \/ id <> next_corr s -> lookup id (getm k' s') = lookup id (getm k' s)).
Proof. exact add_accepted. Qed.
Print Assumptions C09_add_accepted.

(* a rejected request writes nothing and changes nothing - except that a command the full ring refused has used up its
   correlation id *)
Theorem C09_add_rejected : forall k a1 a2 a3 s s' e cbs cmds,
  do_add k a1 a2 a3 s = (s', (Err e, cbs, cmds)) ->
  (s' = s \/ (ring_full s = true /\ e = IllegalState /\ s' = set_next_corr (next_corr s + 1) s)) /\ cbs = [] /\ cmds = [].
Proof. exact add_rejected. Qed.
Print Assumptions C09_add_rejected.

(* every refusal of an add has its reason: the driver is inactive, the client is closed, the arguments are illegal (a counter
   key / label over its limit, or a command that does not fit the 512-byte command buffer - `add_illegal`), or the ring refused
   the write; conversely legal arguments on an open client with an active driver and room in the ring are accepted - in
   particular a command of exactly 512 bytes *)
Theorem C09_add_refused_why : forall k a1 a2 a3 s s' e cbs cmds,
  do_add k a1 a2 a3 s = (s', (Err e, cbs, cmds)) ->
  (e = DriverInactive /\ driver_active s = false) \/ (e = Closed /\ closed s = true) \/
  (e = IllegalArg /\ add_illegal k a1 a2 a3 = true) \/ (e = IllegalState /\ ring_full s = true).
Proof. exact add_refused_why. Qed.
Print Assumptions C09_add_refused_why.
Theorem C09_add_legal_accepted : forall k a1 a2 a3 s,
  driver_active s = true -> closed s = false -> add_illegal k a1 a2 a3 = false -> ring_full s = false ->
  exists s', do_add k a1 a2 a3 s = (s', (Ok [next_corr s], [], [Cmd (add_cmd_type k a1) (client_id s) (next_corr s) (add_cmd_args k a1 a2 a3)])).
Proof. exact add_legal_accepted. Qed.
Print Assumptions C09_add_legal_accepted.
Example C09_exact_fit : add_illegal KPub 1 1 488 = false /\ add_illegal KPub 1 1 489 = true /\ add_illegal KSub 1 1 480 = false /\
  add_illegal KSub 1 1 481 = true /\ add_illegal KCtr 1 112 372 = false /\ add_illegal KCtr 1 112 373 = true /\ add_illegal KCtr 1 0 381 = true.
Proof. repeat split; vm_compute; reflexivity. Qed.

(* the id handed out is fresh: no registration of any kind carries it and it is not the client id *)
Theorem C09_add_fresh : forall s k, inv s -> lookup (next_corr s) (getm k s) = None /\ client_id s <> next_corr s.
Proof. exact fresh_id. Qed.
Print Assumptions C09_add_fresh.

(* over any history: the correlation ids of all commands written are strictly increasing from the first free id on
   (hence pairwise distinct and never reused), and every command carries the client id *)
Theorem C09_command_ids : forall c ops s,
  increasing_from (next_corr s) (map cmd_id (all_cmds (snd (run c s ops)))) /\
  Forall (fun x => cmd_client x = client_id s) (all_cmds (snd (run c s ops))) /\
  next_corr s + Z.of_nat (length (all_cmds (snd (run c s ops)))) <= next_corr (fst (run c s ops)).
Proof. intros. apply run_cmd_ids. Qed.
Print Assumptions C09_command_ids.

Theorem C09_command_ids_distinct : forall n l, increasing_from n l -> Forall (fun x => n <= x) l /\ NoDup l.
Proof. exact increasing_lt. Qed.
Print Assumptions C09_command_ids_distinct.

(* find_* while Awaiting: NotReady (destinations: false) within the driver time-out, NoResponse after it; nothing changes *)
Theorem C09_find_awaiting : forall c k r s e,
  closed s = false -> lookup r (getm k s) = Some e -> e_status e = Awaiting -> e_obj e = None ->
  do_find c k r s =
    (s, ((if e_treg e + c_tdrv c <? now s then Err NoResponse
          else match k with KDest => Ok [0] | _ => Err NotReady end), [], [])).
Proof. exact find_awaiting. Qed.
Print Assumptions C09_find_awaiting.

(* the matching ready answer: the registration becomes Registered with the driver's fields, the on_new_* callback fires
   once; a duplicated or late ready answer (registration no longer Awaiting) changes nothing and fires nothing *)
Theorem C09_ready_answer_publication : forall corr orig stream session limit chstat s e,
  lookup corr (pubs s) = Some e -> e_status e = Awaiting ->
  exists s', on_event (EvPubReady corr orig stream session limit chstat) s = (s', [CbNewPub corr stream session (e_a1 e)], false) /\
    lookup corr (pubs s') = Some (set_ready session limit chstat orig (e_obj e) e).
Proof. exact ready_answer_pub. Qed.
Print Assumptions C09_ready_answer_publication.
Theorem C09_ready_answer_subscription : forall corr chstat s e,
  lookup corr (subs s) = Some e -> e_status e = Awaiting ->
  exists s' e', on_event (EvSubReady corr chstat) s = (s', [CbNewSub corr (e_a2 e) (e_a1 e)], false) /\
    lookup corr (subs s') = Some e' /\ e_status e' = Registered /\
    e_obj e' = Some (mkObj false (-1) false [] chstat 0 0).
Proof. exact ready_answer_sub. Qed.
Print Assumptions C09_ready_answer_subscription.
Theorem C09_duplicate_ready_ignored : forall corr chstat s e,
  lookup corr (subs s) = Some e -> e_status e <> Awaiting -> on_event (EvSubReady corr chstat) s = (s, [], false).
Proof. exact ready_answer_not_awaiting_sub. Qed.
Print Assumptions C09_duplicate_ready_ignored.
Theorem C09_duplicate_publication_ready_ignored : forall corr orig stream session limit chstat s e,
  lookup corr (pubs s) = Some e -> e_status e <> Awaiting ->
  on_event (EvPubReady corr orig stream session limit chstat) s = (s, [], false).
Proof. exact ready_answer_not_awaiting_pub. Qed.
Print Assumptions C09_duplicate_publication_ready_ignored.

(* exclusive publications: the same (they are looked up, dropped and timed out through the same theorems below, which hold
   for every kind; on the implementation side they are reached through the hook find_exclusive_publication_for_verif) *)
Theorem C09_ready_answer_exclusive_publication : forall id stream session limit chstat s e,
  lookup id (xpubs s) = Some e -> e_status e = Awaiting ->
  exists s', on_event (EvXPubReady id stream session limit chstat) s = (s', [CbNewXPub id stream session (e_a1 e)], false) /\
    lookup id (xpubs s') = Some (set_ready session limit chstat (-1) (e_obj e) e).
Proof. exact ready_answer_xpub. Qed.
Print Assumptions C09_ready_answer_exclusive_publication.
Theorem C09_duplicate_exclusive_publication_ready_ignored : forall id stream session limit chstat s e,
  lookup id (xpubs s) = Some e -> e_status e <> Awaiting -> on_event (EvXPubReady id stream session limit chstat) s = (s, [], false).
Proof. exact ready_answer_not_awaiting_xpub. Qed.
Print Assumptions C09_duplicate_exclusive_publication_ready_ignored.

(* first lookup after the ready answer: a new handle, from then on held *)
Theorem C09_find_ready : forall c k r s e,
  k <> KDest -> closed s = false -> lookup r (getm k s) = Some e ->
  (match e_obj e with Some o => o_user o = false | None => e_status e = Registered /\ (k = KPub \/ k = KXPub) end) ->
  exists s', do_find c k r s = (s', (Ok [next_h s], [], [])) /\ held k r (next_h s) s' /\ next_h s' = next_h s + 1.
Proof. exact find_first_held. Qed.
Print Assumptions C09_find_ready.

(* the same handle on every lookup while it is held: in any history that does not drop it and in which the driver sends no
   channel endpoint error, every lookup of (k, r) returns that handle - or reports that the client has been closed.
   (With channel endpoint errors: C09_find_same_while_held_chan below.) *)
Theorem C09_find_same_while_held : forall c k r h, k <> KDest -> forall ops s,
  inv s -> (held k r h s \/ closed s = true) -> ~ In (DropHandle k r) ops -> no_chan ops ->
  Forall (fun p => fst p = Find k r -> snd p = (Ok [h], [], []) \/ snd p = (Err Closed, [], []))
         (combine ops (snd (run c s ops))).
Proof. exact find_same_while_held. Qed.
Print Assumptions C09_find_same_while_held.

(* the same with channel endpoint errors in the history: every lookup of (k, r) returns that handle, or reports that the
   client has been closed, or - once a channel endpoint error has ended the registration - that it is unknown; `gone` (no
   entry, id below the correlation counter) is for good *)
Theorem C09_find_same_while_held_chan : forall c k r h, k <> KDest -> forall ops s,
  inv s -> (held k r h s \/ closed s = true \/ gone k r s) -> ~ In (DropHandle k r) ops ->
  Forall (fun p => fst p = Find k r ->
                   snd p = (Ok [h], [], []) \/ snd p = (Err Closed, [], []) \/ snd p = (Err NotFound, [], []))
         (combine ops (snd (run c s ops))).
Proof. exact find_same_while_held_chan. Qed.
Print Assumptions C09_find_same_while_held_chan.

(* ---- channel endpoint errors: ErrorResponse with error code 4; the id it carries is a channel status indicator id ---- *)
(* the listener adapter sends error code 4 to on_channel_endpoint_error_response, every other code to on_error_response *)
Theorem C09_error_dispatch : forall corr code,
  ev_error corr code = if code =? GenConsts.ERROR_CODE_CHANNEL_ENDPOINT_ERROR then EvChanError corr else EvError corr code.
Proof. reflexivity. Qed.
Print Assumptions C09_error_dispatch.

(* a registration whose handle is alive (a subscription from its ready answer on, a publication / exclusive publication from
   its first lookup on) and sits on that channel status indicator (compared as i32): the registration is forgotten - the next
   lookup says NotFound -, the error handler is told, and the handle the user holds is closed (a subscription: no images) *)
Theorem C09_chan_error_ends : forall c k r x s e o,
  inv s -> closed s = false -> (k = KSub \/ k = KPub \/ k = KXPub) ->
  lookup r (getm k s) = Some e -> e_obj e = Some o -> chan_id k o = wrap32 x ->
  let s' := fst (fst (on_event (EvChanError x) s)) in
  lookup r (getm k s') = None /\ do_find c k r s' = (s', (Err NotFound, [], [])) /\
  In (CbErr (EChannelEndpoint x)) (snd (fst (on_event (EvChanError x) s))) /\
  (o_user o = true -> exists o', user_obj k r s' = Some o' /\ o_closed o' = true /\ o_h o' = o_h o /\ (k = KSub -> o_images o' = [])).
Proof. exact chan_error_ends. Qed.
Print Assumptions C09_chan_error_ends.

(* every other registration is exactly as it was: one without a live handle (Awaiting, Errored, a publication that was never
   looked up, a dropped handle), one on another channel status indicator, every counter and destination *)
Theorem C09_chan_error_others_untouched : forall k r x s,
  inv s ->
  (match lookup r (getm k s) with
   | Some e => match k with KSub | KPub | KXPub => chan_hit k x e = None | _ => True end
   | None => True end) ->
  lookup r (getm k (fst (fst (on_event (EvChanError x) s)))) = lookup r (getm k s).
Proof. exact chan_error_others. Qed.
Print Assumptions C09_chan_error_others_untouched.

(* the driver's error is reported once: by the first lookup, which also forgets the registration *)
Theorem C09_find_error_once : forall c k r s e,
  k <> KDest -> closed s = false -> lookup r (getm k s) = Some e -> e_status e = Errored -> e_obj e = None ->
  exists s', do_find c k r s = (s', (Err (Registration (e_code e)), [], [])) /\ lookup r (getm k s') = None /\
             do_find c k r s' = (s', (Err NotFound, [], [])).
Proof. exact find_errored. Qed.
Print Assumptions C09_find_error_once.

(* destinations keep reporting the driver's error (find_destination_response never forgets the request) *)
Theorem C09_find_destination_error : forall c r s e,
  closed s = false -> lookup r (dests s) = Some e -> e_status e = Errored ->
  do_find c KDest r s = (s, (Err (Registration (e_code e)), [], [])).
Proof. exact find_dest_errored. Qed.
Print Assumptions C09_find_destination_error.

(* dropping a held handle (the ring accepts the command) writes exactly one Remove* command with the registration id and
   the next correlation id, and removes the registration; nothing else changes *)
Theorem C09_release : forall k r h s, k <> KDest -> inv s -> held k r h s -> ring_full s = false ->
  exists s' cbs,
    do_drop k r s = (s', (Ok [1], cbs, [Cmd (remove_cmd_type k) (client_id s) (next_corr s) [r]])) /\
    lookup r (getm k s') = None /\ next_corr s' = next_corr s + 1 /\
    (forall k' r', k' <> k \/ r' <> r -> lookup r' (getm k' s') = lookup r' (getm k' s)).
Proof. exact release_held. Qed.
Print Assumptions C09_release.

(* the same drop while the driver does not read its command ring and the ring is full: no command; a subscription /
   exclusive publication is released locally all the same, a publication / counter keeps its registration with a dead
   handle (release_publication / release_counter return the error); nothing else changes *)
Theorem C09_release_refused : forall k r h s, k <> KDest -> inv s -> held k r h s -> ring_full s = true ->
  exists s' cbs, do_drop k r s = (s', (Ok [1], cbs, [])) /\ next_corr s' = next_corr s + 1 /\
    (forall k' r', k' <> k \/ r' <> r -> lookup r' (getm k' s') = lookup r' (getm k' s)) /\
    match k with
    | KPub | KCtr => exists e, lookup r (getm k s') = Some e /\ e_status e = Dropped /\ e_obj e = None
    | _ => lookup r (getm k s') = None
    end.
Proof. exact release_held_refused. Qed.
Print Assumptions C09_release_refused.

(* the user's own close() on the publication / exclusive publication handle it holds: the conductor is not involved - no
   command, no callback, every registration and every held handle as before - so the later drop still writes its one Remove
   command (C09_release applies to the state after the close()) *)
Theorem C09_close_handle : forall k r s,
  let s' := fst (do_close_handle k r s) in
  (forall k', getm k' s' = getm k' s) /\ orphans s' = orphans s /\ next_corr s' = next_corr s /\ next_h s' = next_h s /\ closed s' = closed s /\
  snd (fst (snd (do_close_handle k r s))) = [] /\ snd (snd (do_close_handle k r s)) = [] /\
  (forall k2 r2 h, held k2 r2 h s -> held k2 r2 h s').
Proof. exact close_handle_spec. Qed.
Print Assumptions C09_close_handle.

(* over any history the number of ClientClose commands is that of `close_writes`: one, written by the first close,
   unless the ring refuses it at that moment; without refusals: exactly one iff the history contains a close *)
Theorem C09_client_close_once : forall c ops s,
  count_close (snd (run c s ops)) = close_writes (close_sent s) (ring_full s) ops.
Proof. intros. apply client_close_once. Qed.
Print Assumptions C09_client_close_once.

Theorem C09_client_close_once_no_refusal : forall ops, (forall b, In (SetRingFull b) ops -> b = false) ->
  forall sent, close_writes sent false ops =
    (if sent then 0%nat else if existsb (fun o => match o with Close => true | _ => false end) ops then 1%nat else 0%nat).
Proof. exact close_writes_no_refusal. Qed.
Print Assumptions C09_client_close_once_no_refusal.

(* an answer whose id is not registered in the map of its kind - an unknown id or the id of a registration of another
   kind - changes nothing (the global counter callbacks fire for every counter of the driver, as the source says) *)
Theorem C09_unknown_event_ignored : forall ev s,
  is_client_timeout ev = false -> is_chan_error ev = false ->
  (match ev_kind ev with Some k => lookup (ev_id ev) (getm k s) = None | None => forall k, lookup (ev_id ev) (getm k s) = None end) ->
  on_event ev s = (s, counter_cbs ev, false).
Proof. exact event_unknown. Qed.
Print Assumptions C09_unknown_event_ignored.

(* an event about r1 leaves every registration r2 <> r1 of every kind exactly as it was (a channel endpoint error names a
   channel, not a registration: C09_chan_error_others_untouched says what it leaves alone) *)
Theorem C09_event_isolation : forall ev s k r2,
  is_client_timeout ev = false -> is_chan_error ev = false -> r2 <> ev_id ev ->
  lookup r2 (getm k (fst (fst (on_event ev s)))) = lookup r2 (getm k s).
Proof. exact event_isolation. Qed.
Print Assumptions C09_event_isolation.

(* the oracle that judges the implementation is true on the model's own observations, for every history *)
Theorem C09_oracle_model : forall c0 now0 tdrv tis ops,
  holds_c09 c0 now0 tdrv tis ops (run_obs c0 now0 tdrv tis ops) = true.
Proof. exact c09_oracle_model. Qed.
Print Assumptions C09_oracle_model.

(* ---- the hypotheses are satisfiable: concrete histories ---- *)
Definition ex_ops : list op :=
  [SetDriverHb 1000000; Add KPub 3 7 0; Add KSub 4 9 0; Add KCtr 5 8 3; Find KPub 1;
   DoWork (BEvent (EvPubReady 1 1 7 55 3 4)); DoWork (BEvent (EvSubReady 2 6)); DoWork (BEvent (EvSubReady 2 8));
   DoWork (BEvent (EvError 3 5)); Find KPub 1; Find KPub 1; Find KSub 2; Find KSub 2; Find KCtr 3; Find KCtr 3;
   DropHandle KPub 1; Find KPub 1; Close].

Example C09_example_run :
  map (fun x : out => fst (fst x)) (run_obs 0 1000000 10000 5000 ex_ops) =
  [Ok []; Ok [1]; Ok [2]; Ok [3]; Err NotReady; Ok [1]; Ok [1]; Ok [1]; Ok [1]; Ok [0]; Ok [0]; Ok [1]; Ok [1];
   Err (Registration 5); Err NotFound; Ok [1]; Err NotFound; Ok [0]]
  /\ all_cmds (run_obs 0 1000000 10000 5000 ex_ops) =
     [Cmd 1 0 1 [3; 7]; Cmd 4 0 2 [-1; 4; 9]; Cmd 9 0 3 [5; 8; 3]; Cmd 2 0 4 [1]; Cmd 11 0 5 []]
  /\ holds_c09 0 1000000 10000 5000 ex_ops (run_obs 0 1000000 10000 5000 ex_ops) = true.
Proof. repeat split; vm_compute; reflexivity. Qed.

(* exclusive publications and a channel endpoint error: the subscription (cached) and the held exclusive publication on
   channel status indicator 6 are ended (id 2^32+6 is 6 as i32), the publication on 7 and the one never looked up stay *)
Definition ex_chan : list op :=
  [SetDriverHb 1000000; Add KXPub 3 7 0; Add KSub 4 9 0; Add KPub 5 8 0; Add KPub 5 9 0;
   DoWork (BEvent (EvXPubReady 1 7 55 3 6)); DoWork (BEvent (EvSubReady 2 6)); DoWork (BEvent (EvPubReady 3 3 8 56 3 7));
   DoWork (BEvent (EvPubReady 4 4 9 57 3 6));
   Find KXPub 1; Find KXPub 1; Find KPub 3; Peek KXPub 1;
   DoWork (BEvent (ev_error 4294967302 4)); Find KXPub 1; Find KSub 2; Find KPub 3; Find KPub 4; Peek KXPub 1; DropHandle KXPub 1].

Example C09_example_chan :
  map (fun x : out => fst (fst x)) (run_obs 0 1000000 10000 5000 ex_chan) =
  [Ok []; Ok [1]; Ok [2]; Ok [3]; Ok [4]; Ok [1]; Ok [1]; Ok [1]; Ok [1];
   Ok [0]; Ok [0]; Ok [1]; Ok [0; 0; 0; 55; 6; 0];
   Ok [1]; Err NotFound; Err NotFound; Ok [1]; Ok [2]; Ok [0; 1; 0; 55; 6; 0]; Ok [1]]
  /\ nth 13 (map (fun x : out => snd (fst x)) (run_obs 0 1000000 10000 5000 ex_chan)) [] =
     [CbErr (EChannelEndpoint 4294967302); CbErr (EChannelEndpoint 4294967302)]
  /\ all_cmds (run_obs 0 1000000 10000 5000 ex_chan) =
     [Cmd 3 0 1 [3; 7]; Cmd 4 0 2 [-1; 4; 9]; Cmd 1 0 3 [5; 8]; Cmd 1 0 4 [5; 9]]
  /\ holds_c09 0 1000000 10000 5000 ex_chan (run_obs 0 1000000 10000 5000 ex_chan) = true.
Proof. repeat split; vm_compute; reflexivity. Qed.

(* a state in which a handle is held (hypothesis of C09_find_same_while_held and C09_release) *)
Example C09_example_held :
  let s := fst (run (mkCfg 10000 5000) (init 0 1000000)
                   [SetDriverHb 1000000; Add KSub 4 9 0; DoWork (BEvent (EvSubReady 1 6)); Find KSub 1]) in
  inv s /\ held KSub 1 0 s /\ closed s = false.
Proof. cbn zeta. split; [apply C09_invariant|]. split; [|vm_compute; reflexivity].
  eexists. split; [vm_compute; reflexivity|]. split; reflexivity. Qed.

(* the oracle is not vacuous: it rejects the observations of the unrepaired implementation *)
Example C09_oracle_rejects_duplicate_handle :
  holds_c09 0 1000000 10000 5000
    [SetDriverHb 1000000; Add KSub 4 9 0; DoWork (BEvent (EvSubReady 1 6)); Find KSub 1; DoWork (BEvent (EvSubReady 1 8)); Find KSub 1]
    [(Ok [], [], []); (Ok [1], [], [Cmd 4 0 1 [-1; 4; 9]]); (Ok [1], [CbNewSub 1 9 4], []); (Ok [0], [], []);
     (Ok [1], [CbNewSub 1 9 4], []); (Ok [1], [], [])] = false
  /\ holds_c09 0 1000000 10000 5000 [Close] [(Ok [0], [CbClose], [])] = false.
Proof. split; vm_compute; reflexivity. Qed.
