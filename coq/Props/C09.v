(* Property C09 - registration protocol. Statements only; proofs are in Proofs/ConductorProofs.v. *)
Require Import V.Base.MachineInt V.Generated.GenConsts V.Model.Conductor V.Oracle.C09Oracle.
Open Scope Z_scope.

Example C09_placeholder_example :
  holds_c09 0 1000 10000 5000 [Add KPub 3 7 0; Find KPub 1]
    (run_obs 0 1000 10000 5000 [Add KPub 3 7 0; Find KPub 1]) = true.
Proof. vm_compute. reflexivity. Qed.
