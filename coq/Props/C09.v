(* Property C09 - registration protocol: add / find / release follow the driver's answers exactly.
   Statements only; proofs are in Proofs/ConductorInv.v, Proofs/ConductorProofs.v, Proofs/C09OracleProofs.v.
   The model (Model/Conductor.v) describes the conductor with the repairs of fixes/C09-*.diff and fixes/C10-*.diff.
   `inv` is the invariant that holds in every state any history reaches (C09_invariant). *)
Require Import V.Base.MachineInt.
Require Import V.Generated.GenConsts.
Require Import V.Model.Conductor.
Require Import V.Proofs.ConductorBase.
Require Import V.Proofs.ConductorInv.
Require Import V.Proofs.ConductorProofs.
Require Import V.Proofs.ConductorClose.
Require Import V.Oracle.C09Oracle.
Require Import V.Proofs.C09OracleProofs.
Open Scope Z_scope.

(* every state reached by any history of operations satisfies the invariant *)
Theorem C09_invariant : forall c c0 now0 ops, inv (fst (run c (init c0 now0) ops)).
Proof. intros. apply run_inv. apply init_inv. Qed.
Print Assumptions C09_invariant.

(* add_*: an accepted request returns the next correlation id, writes exactly the one command of its kind with the
   caller's arguments, the client id and that id, registers it as Awaiting at the current time, and touches nothing else *)
Theorem C09_add_accepted : forall k a1 a2 a3 s s' r cbs cmds,
  do_add k a1 a2 a3 s = (s', (Ok r, cbs, cmds)) ->
  r = [next_corr s] /\ cbs = [] /\
  cmds = [Cmd (add_cmd_type k a1) (client_id s) (next_corr s) (add_cmd_args k a1 a2 a3)] /\
  lookup (next_corr s) (getm k s') = Some (new_entry (now s) a1 a2 a3) /\
  next_corr s' = next_corr s + 1 /\ driver_active s = true /\ closed s = false /\
  (forall k' id, k' <> k \/ id <> next_corr s -> lookup id (getm k' s') = lookup id (getm k' s)).
Proof. exact add_accepted. Qed.
Print Assumptions C09_add_accepted.

(* a rejected request writes nothing and changes nothing *)
Theorem C09_add_rejected : forall k a1 a2 a3 s s' e cbs cmds,
  do_add k a1 a2 a3 s = (s', (Err e, cbs, cmds)) -> s' = s /\ cbs = [] /\ cmds = [].
Proof. exact add_rejected. Qed.
Print Assumptions C09_add_rejected.

(* the id handed out is fresh: no registration of any kind carries it and it is not the client id *)
Theorem C09_add_fresh : forall s k, inv s -> lookup (next_corr s) (getm k s) = None /\ client_id s <> next_corr s.
Proof. exact fresh_id. Qed.
Print Assumptions C09_add_fresh.

(* over any history: the correlation ids of all commands written are consecutive from the first free id (hence pairwise
   distinct and never reused), and every command carries the client id *)
Theorem C09_command_ids : forall c ops s,
  consecutive_from (next_corr s) (map cmd_id (all_cmds (snd (run c s ops)))) /\
  Forall (fun x => cmd_client x = client_id s) (all_cmds (snd (run c s ops))) /\
  next_corr (fst (run c s ops)) = next_corr s + Z.of_nat (length (all_cmds (snd (run c s ops)))).
Proof. intros. apply run_cmd_ids. Qed.
Print Assumptions C09_command_ids.

Theorem C09_command_ids_distinct : forall n l, consecutive_from n l -> Forall (fun x => n <= x) l /\ NoDup l.
Proof. exact consecutive_lt. Qed.
Print Assumptions C09_command_ids_distinct.

(* find_* while Awaiting: NotReady (destinations: false) within the driver time-out, NoResponse after it; nothing changes *)
Theorem C09_find_awaiting : forall c k r s e,
  closed s = false -> lookup r (getm k s) = Some e -> e_status e = Awaiting -> e_obj e = None ->
  do_find c k r s =
    (s, ((if e_treg e + c_tdrv c <? now s then Err NoResponse
          else match k with KDest => Ok [0] | _ => Err NotReady end), [], [])).
Proof. exact find_awaiting. Qed.
Print Assumptions C09_find_awaiting.

(* the matching ready answer: the registration becomes Registered with the driver's fields, the on_new_* callback fires
   once; a duplicated or late ready answer (registration no longer Awaiting) changes nothing and fires nothing *)
Theorem C09_ready_answer_publication : forall corr orig stream session limit chstat s e,
  lookup corr (pubs s) = Some e -> e_status e = Awaiting ->
  exists s', on_event (EvPubReady corr orig stream session limit chstat) s = (s', [CbNewPub corr stream session (e_a1 e)], false) /\
    lookup corr (pubs s') = Some (set_ready session limit chstat orig (e_obj e) e).
Proof. exact ready_answer_pub. Qed.
Print Assumptions C09_ready_answer_publication.
Theorem C09_ready_answer_subscription : forall corr chstat s e,
  lookup corr (subs s) = Some e -> e_status e = Awaiting ->
  exists s' e', on_event (EvSubReady corr chstat) s = (s', [CbNewSub corr (e_a2 e) (e_a1 e)], false) /\
    lookup corr (subs s') = Some e' /\ e_status e' = Registered /\
    e_obj e' = Some (mkObj false (-1) false [] chstat 0 0).
Proof. exact ready_answer_sub. Qed.
Print Assumptions C09_ready_answer_subscription.
Theorem C09_duplicate_ready_ignored : forall corr chstat s e,
  lookup corr (subs s) = Some e -> e_status e <> Awaiting -> on_event (EvSubReady corr chstat) s = (s, [], false).
Proof. exact ready_answer_not_awaiting_sub. Qed.
Print Assumptions C09_duplicate_ready_ignored.
Theorem C09_duplicate_publication_ready_ignored : forall corr orig stream session limit chstat s e,
  lookup corr (pubs s) = Some e -> e_status e <> Awaiting ->
  on_event (EvPubReady corr orig stream session limit chstat) s = (s, [], false).
Proof. exact ready_answer_not_awaiting_pub. Qed.
Print Assumptions C09_duplicate_publication_ready_ignored.

(* first lookup after the ready answer: a new handle, from then on held *)
Theorem C09_find_ready : forall c k r s e,
  k <> KDest -> closed s = false -> lookup r (getm k s) = Some e ->
  (match e_obj e with Some o => o_user o = false | None => e_status e = Registered /\ (k = KPub \/ k = KXPub) end) ->
  exists s', do_find c k r s = (s', (Ok [next_h s], [], [])) /\ held k r (next_h s) s' /\ next_h s' = next_h s + 1.
Proof. exact find_first_held. Qed.
Print Assumptions C09_find_ready.

(* the same handle on every lookup while it is held: in any history that does not drop it, every lookup of (k, r)
   returns that handle - or reports that the client has been closed *)
Theorem C09_find_same_while_held : forall c k r h, k <> KDest -> forall ops s,
  inv s -> (held k r h s \/ closed s = true) -> ~ In (DropHandle k r) ops ->
  Forall (fun p => fst p = Find k r -> snd p = (Ok [h], [], []) \/ snd p = (Err Closed, [], []))
         (combine ops (snd (run c s ops))).
Proof. exact find_same_while_held. Qed.
Print Assumptions C09_find_same_while_held.

(* the driver's error is reported once: by the first lookup, which also forgets the registration *)
Theorem C09_find_error_once : forall c k r s e,
  k <> KDest -> closed s = false -> lookup r (getm k s) = Some e -> e_status e = Errored -> e_obj e = None ->
  exists s', do_find c k r s = (s', (Err (Registration (e_code e)), [], [])) /\ lookup r (getm k s') = None /\
             do_find c k r s' = (s', (Err NotFound, [], [])).
Proof. exact find_errored. Qed.
Print Assumptions C09_find_error_once.

(* destinations keep reporting the driver's error (find_destination_response never forgets the request) *)
Theorem C09_find_destination_error : forall c r s e,
  closed s = false -> lookup r (dests s) = Some e -> e_status e = Errored ->
  do_find c KDest r s = (s, (Err (Registration (e_code e)), [], [])).
Proof. exact find_dest_errored. Qed.
Print Assumptions C09_find_destination_error.

(* dropping a held handle writes exactly one Remove* command with the registration id and a fresh correlation id, and
   removes the registration; nothing else changes *)
Theorem C09_release : forall k r h s, k <> KDest -> inv s -> held k r h s ->
  exists s' cbs,
    do_drop k r s = (s', (Ok [1], cbs, [Cmd (remove_cmd_type k) (client_id s) (next_corr s) [r]])) /\
    lookup r (getm k s') = None /\ next_corr s' = next_corr s + 1 /\
    (forall k' r', k' <> k \/ r' <> r -> lookup r' (getm k' s') = lookup r' (getm k' s)).
Proof. exact release_held. Qed.
Print Assumptions C09_release.

(* over any history exactly one ClientClose is written iff the history contains a close (none if one was sent before) *)
Theorem C09_client_close_once : forall c ops s,
  count_close (snd (run c s ops)) =
    (if close_sent s then 0%nat else if existsb (fun o => match o with Close => true | _ => false end) ops then 1%nat else 0%nat).
Proof. intros. apply client_close_once. Qed.
Print Assumptions C09_client_close_once.

(* an answer whose id is not registered in the map of its kind - an unknown id or the id of a registration of another
   kind - changes nothing (the global counter callbacks fire for every counter of the driver, as the source says) *)
Theorem C09_unknown_event_ignored : forall ev s,
  is_client_timeout ev = false ->
  (match ev_kind ev with Some k => lookup (ev_id ev) (getm k s) = None | None => forall k, lookup (ev_id ev) (getm k s) = None end) ->
  on_event ev s = (s, counter_cbs ev, false).
Proof. exact event_unknown. Qed.
Print Assumptions C09_unknown_event_ignored.

(* an event about r1 leaves every registration r2 <> r1 of every kind exactly as it was *)
Theorem C09_event_isolation : forall ev s k r2,
  is_client_timeout ev = false -> r2 <> ev_id ev ->
  lookup r2 (getm k (fst (fst (on_event ev s)))) = lookup r2 (getm k s).
Proof. exact event_isolation. Qed.
Print Assumptions C09_event_isolation.

(* the oracle that judges the implementation is true on the model's own observations, for every history *)
Theorem C09_oracle_model : forall c0 now0 tdrv tis ops,
  holds_c09 c0 now0 tdrv tis ops (run_obs c0 now0 tdrv tis ops) = true.
Proof. exact c09_oracle_model. Qed.
Print Assumptions C09_oracle_model.

(* ---- the hypotheses are satisfiable: concrete histories ---- *)
Definition ex_ops : list op :=
  [SetDriverHb 1000000; Add KPub 3 7 0; Add KSub 4 9 0; Add KCtr 5 8 3; Find KPub 1;
   DoWork (BEvent (EvPubReady 1 1 7 55 3 4)); DoWork (BEvent (EvSubReady 2 6)); DoWork (BEvent (EvSubReady 2 8));
   DoWork (BEvent (EvError 3 5)); Find KPub 1; Find KPub 1; Find KSub 2; Find KSub 2; Find KCtr 3; Find KCtr 3;
   DropHandle KPub 1; Find KPub 1; Close].

Example C09_example_run :
  map (fun x : out => fst (fst x)) (run_obs 0 1000000 10000 5000 ex_ops) =
  [Ok []; Ok [1]; Ok [2]; Ok [3]; Err NotReady; Ok [1]; Ok [1]; Ok [1]; Ok [1]; Ok [0]; Ok [0]; Ok [1]; Ok [1];
   Err (Registration 5); Err NotFound; Ok [1]; Err NotFound; Ok [0]]
  /\ all_cmds (run_obs 0 1000000 10000 5000 ex_ops) =
     [Cmd 1 0 1 [3; 7]; Cmd 4 0 2 [-1; 4; 9]; Cmd 9 0 3 [5; 8; 3]; Cmd 2 0 4 [1]; Cmd 11 0 5 []]
  /\ holds_c09 0 1000000 10000 5000 ex_ops (run_obs 0 1000000 10000 5000 ex_ops) = true.
Proof. repeat split; vm_compute; reflexivity. Qed.

(* a state in which a handle is held (hypothesis of C09_find_same_while_held and C09_release) *)
Example C09_example_held :
  let s := fst (run (mkCfg 10000 5000) (init 0 1000000)
                   [SetDriverHb 1000000; Add KSub 4 9 0; DoWork (BEvent (EvSubReady 1 6)); Find KSub 1]) in
  inv s /\ held KSub 1 0 s /\ closed s = false.
Proof. cbn zeta. split; [apply C09_invariant|]. split; [|vm_compute; reflexivity].
  eexists. split; [vm_compute; reflexivity|]. split; reflexivity. Qed.

(* the oracle is not vacuous: it rejects the observations of the unrepaired implementation *)
Example C09_oracle_rejects_duplicate_handle :
  holds_c09 0 1000000 10000 5000
    [SetDriverHb 1000000; Add KSub 4 9 0; DoWork (BEvent (EvSubReady 1 6)); Find KSub 1; DoWork (BEvent (EvSubReady 1 8)); Find KSub 1]
    [(Ok [], [], []); (Ok [1], [], [Cmd 4 0 1 [-1; 4; 9]]); (Ok [1], [CbNewSub 1 9 4], []); (Ok [0], [], []);
     (Ok [1], [CbNewSub 1 9 4], []); (Ok [1], [], [])] = false
  /\ holds_c09 0 1000000 10000 5000 [Close] [(Ok [0], [CbClose], [])] = false.
Proof. split; vm_compute; reflexivity. Qed.
