(* Property C20 - Multi-image subscription polling: bounded, fair, and sessions never mix.
   Statements only; proofs are in Proofs/SubscriptionProofs.v, AssemblerProofs.v, C20OracleProofs.v. *)
Require Import V.Base.MachineInt.
Require Import V.Generated.GenConsts.
Require Import V.Model.LogBase.
Require Import V.Model.Reader.
Require Import V.Model.Image.
Require Import V.Model.Subscription.
Require Import V.Model.Assembler.
Require Import V.Oracle.C05Cases.
Require Import V.Oracle.C05Oracle.
Require Import V.Oracle.C20Cases.
Require Import V.Oracle.C20Oracle.
Require Import V.Proofs.SubscriptionProofs.
Require Import V.Proofs.AssemblerProofs.
Require Import V.Proofs.C20OracleProofs.
Require Import V.Proofs.C20HistoryProofs.
Open Scope Z_scope.

(* poll_inner with any poll flavour that returns between 0 and the limit it is given: the total is at most
   fragment_limit (0 for a limit <= 0), no image is polled twice, the list keeps its length and the index stays in [0, len] *)
Theorem C20_bounded : forall (I X : Type) (pk : I -> Z -> Z * I * list X),
  (forall im lim, 0 < lim -> 0 <= fst (fst (pk im lim)) <= lim) ->
  forall (s : sub I) limit, 0 <= s_rr s ->
  let '(total, s', xs, polled) := poll_inner pk s limit in
  0 <= total <= Z.max 0 limit /\ NoDup polled /\
  Forall (fun j => 0 <= j < Z.of_nat (length (s_images s))) polled /\
  length (s_images s') = length (s_images s) /\ 0 <= s_rr s' <= Z.of_nat (length (s_images s)).
Proof. exact @poll_inner_bounded. Qed.
Print Assumptions C20_bounded.

(* ... and Image::poll / Image::controlled_poll are such flavours for every log, position, limit and script
   (no well-formedness needed), so the bound holds for Subscription::poll and Subscription::controlled_poll *)
Theorem C20_bounded_poll : forall (s : sub slot) limit, 0 <= s_rr s ->
  let '(total, s', ds, polled) := poll_inner pk_poll s limit in
  0 <= total <= Z.max 0 limit /\ NoDup polled /\
  Forall (fun j => 0 <= j < Z.of_nat (length (s_images s))) polled /\
  length (s_images s') = length (s_images s) /\ 0 <= s_rr s' <= Z.of_nat (length (s_images s)).
Proof. exact sub_poll_bounded. Qed.
Print Assumptions C20_bounded_poll.

Theorem C20_bounded_controlled_poll : forall salt tab (s : sub slot) limit, 0 <= s_rr s ->
  let '(total, s', ds, polled) := poll_inner (pk_cpoll salt tab) s limit in
  0 <= total <= Z.max 0 limit /\ NoDup polled /\
  Forall (fun j => 0 <= j < Z.of_nat (length (s_images s))) polled /\
  length (s_images s') = length (s_images s) /\ 0 <= s_rr s' <= Z.of_nat (length (s_images s)).
Proof. exact sub_cpoll_bounded. Qed.
Print Assumptions C20_bounded_controlled_poll.

(* fairness: with a fixed list of n images, among any n+1 consecutive calls every index is the starting index
   (from a fresh subscription the sequence is 0,1,..,n-1,0,0,1,..) ... *)
Theorem C20_fair : forall n rr i, 0 < n -> 0 <= rr <= n -> 0 <= i < n ->
  In i (fst (rr_run n rr (Z.to_nat (n + 1)))).
Proof. exact rr_fair. Qed.
Print Assumptions C20_fair.

(* ... and the starting image is polled first with the whole fragment limit, whatever the backlogs of the others *)
Theorem C20_first_full_limit : forall (I X : Type) (pk : I -> Z -> Z * I * list X) (s : sub I) limit im0,
  0 <= s_rr s -> 0 < limit ->
  nth_error (s_images s) (Z.to_nat (fst (rr_next (Z.of_nat (length (s_images s))) (s_rr s)))) = Some im0 ->
  let '(total, s', xs, polled) := poll_inner pk s limit in
  exists rest ys, polled = fst (rr_next (Z.of_nat (length (s_images s))) (s_rr s)) :: rest /\
                  xs = snd (pk im0 limit) ++ ys.
Proof. exact @poll_inner_first. Qed.
Print Assumptions C20_first_full_limit.

(* ... and when it is given a positive limit it leaves behind at least the first committed frame at its position, be it
   data or the padding frame that closes a term (slot_ok / os_wf: the image of a well-formed harness slot at a position
   where the property speaks; os_frames: the committed frames visible at its position).  Together with C20_fair: an image
   with frames at its position moves forward at least once in any n+1 consecutive calls with a positive limit, so an image
   standing on an end-of-term padding frame reaches the data of the next term within 2(n+1) calls.
   (controlled_poll: unless the first frame is a data frame that the handler answers Abort.) *)
Theorem C20_starting_image_advances : forall sl lim,
  slot_ok sl -> im_closed (slot_image sl) = false -> os_wf (oslot_of sl) = true ->
  0 < lim -> os_frames (oslot_of sl) <> [] ->
  let '(n, sl', ds) := pk_poll sl lim in im_pos (slot_image sl) < im_pos (slot_image sl').
Proof. exact poll_advances. Qed.
Print Assumptions C20_starting_image_advances.

Theorem C20_starting_image_advances_controlled : forall salt tab sl lim,
  slot_ok sl -> im_closed (slot_image sl) = false -> os_wf (oslot_of sl) = true ->
  0 < lim -> must_advance (script_for salt tab sl) (os_frames (oslot_of sl)) = true ->
  let '(n, sl', ds) := pk_cpoll salt tab sl lim in im_pos (slot_image sl) < im_pos (slot_image sl').
Proof. exact cpoll_advances. Qed.
Print Assumptions C20_starting_image_advances_controlled.

(* images added or removed between calls: whatever the index was, the next starting index is inside the list *)
Theorem C20_index_in_range : forall len rr, 0 <= len -> 0 <= rr ->
  let '(s, rr') := rr_next len rr in (0 < len -> 0 <= s < len) /\ 0 <= rr' <= len.
Proof. exact rr_after_change. Qed.
Print Assumptions C20_index_in_range.

(* sessions never mix: for every sequence of fragments of any sessions in any interleaving, what the delegate receives
   for session s is what the single-session machine delivers on the fragments of s alone *)
Theorem C20_sessions : forall s xs bs,
  of_session s (snd (assemble bs xs)) = map (pair s) (snd (run1 (bget bs s) (proj s xs))) /\
  bget (fst (assemble bs xs)) s = fst (run1 (bget bs s) (proj s xs)).
Proof. exact assemble_session. Qed.
Print Assumptions C20_sessions.

Theorem C20_sessions_independent : forall s xs ys bs,
  proj s xs = proj s ys -> of_session s (snd (assemble bs xs)) = of_session s (snd (assemble bs ys)).
Proof. exact sessions_independent. Qed.
Print Assumptions C20_sessions_independent.

(* the single-session machine delivers every message of a well-formed fragment stream intact, once, in order,
   from any state (chunks_ok: at least one chunk, and a fragmented message starts with a non-empty chunk) *)
Theorem C20_reassembly : forall msgs st, Forall chunks_ok msgs ->
  snd (run1 st (concat (map fragments_of msgs))) = map (@concat Z) msgs.
Proof. exact run1_messages. Qed.
Print Assumptions C20_reassembly.

(* joined in the middle of a message: nothing is delivered before the first BEGIN / unfragmented frame,
   and everything after it is *)
Theorem C20_midjoin : forall mid, Forall (fun x => has_flags (fst x) F_BEGIN = false) mid -> run1 None mid = (None, []).
Proof. exact run1_midjoin. Qed.
Print Assumptions C20_midjoin.

Theorem C20_midjoin_then_messages : forall mid msgs,
  Forall (fun x => has_flags (fst x) F_BEGIN = false) mid -> Forall chunks_ok msgs ->
  snd (run1 None (mid ++ concat (map fragments_of msgs))) = map (@concat Z) msgs.
Proof. exact run1_midjoin_then_messages. Qed.
Print Assumptions C20_midjoin_then_messages.

(* ---- the oracle is true on the model, for every operation and every history ----
   st_rel: the oracle's bookkeeping (image list, positions as observed, starting index, per-session reassembly state) agrees
   with the model's state; st_inv: slots well-built (frames carry their image's session id, positive lengths), ids distinct,
   listed images open; sessions_distinct: one image per session.  case_ok: geometry / offsets non-negative, frame lengths
   positive, session ids of the slots distinct, block limits in i32. *)
Theorem C20_oracle_step : forall m nslots ost st o, sop_ok o ->
  st_rel ost st -> st_inv nslots st -> sessions_distinct st ->
  let '(ob, st') := sstep m nslots st o in
  judge_sop ost o ob = true /\ st_rel (onext20 ost o ob) st' /\ st_inv nslots st' /\ sessions_distinct st'.
Proof. exact sstep_judged. Qed.
Print Assumptions C20_oracle_step.

Theorem C20_oracle_history : forall m slots initial ops, case_ok slots ops ->
  holds_sub_case slots initial ops (run_sub_case m slots initial ops) = true.
Proof. exact sub_case_judged. Qed.
Print Assumptions C20_oracle_history.

(* ---- non-vacuity ---- *)
Example C20_case_ok_example :
  case_ok [(16, 5, 77, 0, (0, 0, 4, false, [(1, 192, 40, 1, 0); (1, 192, 41, 2, 0); (1, 192, 42, 3, 0); (1, 192, 43, 4, 0)]));
           (16, 9, 88, 64, (0, 64, 3, false, [(1, 128, 64, 8, 0); (1, 64, 64, 9, 0); (1, 192, 33, 10, 0)]))]
          [SPoll 2; SBlock 64; SCPoll 3 1 [Commit; Abort]].
Proof. unfold case_ok. split; [|split].
  - repeat constructor; cbn; lia.
  - repeat constructor; cbn; intuition lia.
  - repeat constructor. Qed.

(* fairness across a term end: image 1 (session 88) has caught up and stands exactly on the padding frame that closes its
   term 2 while images 0 and 2 always have data; limit 1.  Call 2 starts with image 1: it consumes the padding (no fragment,
   position 196608 = start of term 3) and the rest of the budget goes to image 2; the publisher continues in term 3 (roll);
   when image 1 starts again (call 7) it is served the first fragment of term 3. *)
Definition pad_slots : list sslot :=
  [(16, 5, 77, 0, (0, 0, 5, false, [(1, 128, 96, 1, 0); (1, 0, 96, 2, 0); (1, 64, 40, 3, 0); (1, 192, 50, 4, 0); (1, 192, 60, 5, 0)]));
   (16, 2147483647, 88, 2 * 65536 + 4096 + 64, (2, 4096, 2, false, [(1, 192, 50, 20, 0); (0, 0, 65536 - 4096 - 64, 0, 0)]));
   (16, -3, 99, 131072, (2, 0, 4, false, [(1, 192, 40, 12, 0); (1, 192, 41, 13, 0); (1, 192, 42, 14, 0); (1, 192, 43, 15, 0)]))].
Definition pad_ops : list sop :=
  [SPoll 1; SPoll 1; SPoll 1; SPoll 1; SRoll 1 3 false [(1, 128, 96, 21, 0); (1, 64, 40, 22, 0); (1, 192, 44, 23, 0)];
   SPoll 1; SPoll 1; SPoll 1].
Example C20_padding_example :
  case_ok pad_slots pad_ops /\
  map (fun ob : sobs => let '(ret, raws, _, ps) := ob in (ret, map fo_session raws, ps)) (run_sub_case Debug pad_slots [0; 1; 2] pad_ops)
  = [(Ok 1, [77], [96; 135232; 131072]);
     (Ok 1, [99], [96; 196608; 131136]);
     (Ok 1, [99], [96; 196608; 131200]);
     (Ok 1, [77], [192; 196608; 131200]);
     (Ok 0, [], [192; 196608; 131200]);
     (Ok 1, [77], [256; 196608; 131200]);
     (Ok 1, [88], [256; 196704; 131200]);
     (Ok 1, [99], [256; 196704; 131264])].
Proof. split; [|vm_compute; reflexivity]. unfold case_ok. split; [|split].
  - repeat constructor; cbn; lia.
  - repeat constructor; cbn; intuition lia.
  - repeat constructor; cbn; lia. Qed.

Example C20_fair_example : fst (rr_run 3 0 8) = [0; 1; 2; 0; 0; 1; 2; 0] /\ fst (rr_run 3 2 4) = [2; 0; 0; 1].
Proof. split; reflexivity. Qed.

(* two sessions interleaved at fragment granularity, session 7 joined in the middle of a message *)
Example C20_sessions_example :
  snd (assemble []
        [mkFrag 7 0 [9]; mkFrag 5 128 [1; 2]; mkFrag 7 64 [9]; mkFrag 7 128 [3]; mkFrag 5 0 [4]; mkFrag 7 64 [5; 6];
         mkFrag 5 64 [7]; mkFrag 7 192 [8]])
  = [(7, [3; 5; 6]); (5, [1; 2; 4; 7]); (7, [8])]
  /\ chunks_ok [[1; 2]; [4]; [7]] /\ fragments_of [[1; 2]; [4]; [7]] = [(128, [1; 2]); (0, [4]); (64, [7])].
Proof. repeat split; try reflexivity; try discriminate. Qed.

(* a subscription over three images with data everywhere: limit 2, five calls *)
Example C20_run_example :
  run_sub_case Debug
    [(16, 5, 77, 0, (0, 0, 4, false, [(1, 192, 40, 1, 0); (1, 192, 41, 2, 0); (1, 192, 42, 3, 0); (1, 192, 43, 4, 0)]));
     (16, 9, 88, 64, (0, 64, 3, false, [(1, 128, 64, 8, 0); (1, 64, 64, 9, 0); (1, 192, 33, 10, 0)]));
     (16, -3, 99, 131072, (2, 0, 2, false, [(1, 192, 40, 12, 0); (1, 192, 41, 13, 0)]))]
    [0; 1; 2] [SPoll 2; SPoll 2; SPoll 2; SPoll 2; SPoll 2]
  = [(Ok 2, [(32, 8, 192, Ok 64, 77, 255137); (96, 9, 192, Ok 128, 77, 846091)], [(77, 8, 255137); (77, 9, 846091)], [128; 64; 131072]);
     (Ok 2, [(96, 32, 128, Ok 128, 88, 185604); (160, 32, 64, Ok 192, 88, 610418)], [(88, 64, 397742)], [128; 192; 131072]);
     (Ok 2, [(32, 8, 192, Ok 131136, 99, 691462); (96, 9, 192, Ok 131200, 99, 372214)], [(99, 8, 691462); (99, 9, 372214)], [128; 192; 131200]);
     (Ok 2, [(160, 10, 192, Ok 192, 77, 268963); (224, 11, 192, Ok 256, 77, 580905)], [(77, 10, 268963); (77, 11, 580905)], [256; 192; 131200]);
     (Ok 1, [(224, 1, 192, Ok 256, 88, 278)], [(88, 1, 278)], [256; 256; 131200])].
Proof. vm_compute. reflexivity. Qed.
