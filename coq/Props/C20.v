(* Property C20 - Multi-image subscription polling: bounded, fair, and sessions never mix.
   Statements only; proofs are in Proofs/SubscriptionProofs.v, AssemblerProofs.v, C20OracleProofs.v, C20HistoryProofs.v,
   BufferBuilderProofs.v, AssemblerBBProofs.v, C20BBProofs.v (the reassembly buffer as the code manages it) and
   SubThreadsProofs.v (a poll against a concurrent add / remove of an image). *)
Require Import V.Base.MachineInt.
Require Import V.Generated.GenConsts.
Require Import V.Model.LogBase.
Require Import V.Model.Reader.
Require Import V.Model.Image.
Require Import V.Model.Subscription.
Require Import V.Model.Assembler.
Require Import V.Oracle.C05Cases.
Require Import V.Oracle.C05Oracle.
Require Import V.Oracle.C20Cases.
Require Import V.Oracle.C20Oracle.
Require Import V.Proofs.SubscriptionProofs.
Require Import V.Proofs.AssemblerProofs.
Require Import V.Proofs.C20OracleProofs.
Require Import V.Proofs.C20HistoryProofs.
Require Import V.Generated.GenBufferBuilder.
Require Import V.Model.BufferBuilder.
Require Import V.Model.AssemblerBB.
Require Import V.Model.SubThreads.
Require Import V.Proofs.BufferBuilderProofs.
Require Import V.Proofs.AssemblerBBProofs.
Require Import V.Proofs.C20BBProofs.
Require Import V.Proofs.SubThreadsProofs.
Open Scope Z_scope.

(* poll_inner with any poll flavour that returns between 0 and the limit it is given: the total is at most
   fragment_limit (0 for a limit <= 0), no image is polled twice, the list keeps its length and the index stays in [0, len] *)
Theorem C20_bounded : forall (I X : Type) (pk : I -> Z -> Z * I * list X),
  (forall im lim, 0 < lim -> 0 <= fst (fst (pk im lim)) <= lim) ->
  forall (s : sub I) limit, 0 <= s_rr s ->
  let '(total, s', xs, polled) := poll_inner pk s limit in
  0 <= total <= Z.max 0 limit /\ NoDup polled /\
  Forall (fun j => 0 <= j < Z.of_nat (length (s_images s))) polled /\
  length (s_images s') = length (s_images s) /\ 0 <= s_rr s' <= Z.of_nat (length (s_images s)).
Proof. exact @poll_inner_bounded. Qed.
Print Assumptions C20_bounded.

(* ... and Image::poll / Image::controlled_poll are such flavours for every log, position, limit and script
   (no well-formedness needed), so the bound holds for Subscription::poll and Subscription::controlled_poll *)
Theorem C20_bounded_poll : forall (s : sub slot) limit, 0 <= s_rr s ->
  let '(total, s', ds, polled) := poll_inner pk_poll s limit in
  0 <= total <= Z.max 0 limit /\ NoDup polled /\
  Forall (fun j => 0 <= j < Z.of_nat (length (s_images s))) polled /\
  length (s_images s') = length (s_images s) /\ 0 <= s_rr s' <= Z.of_nat (length (s_images s)).
Proof. exact sub_poll_bounded. Qed.
Print Assumptions C20_bounded_poll.

Theorem C20_bounded_controlled_poll : forall salt tab (s : sub slot) limit, 0 <= s_rr s ->
  let '(total, s', ds, polled) := poll_inner (pk_cpoll salt tab) s limit in
  0 <= total <= Z.max 0 limit /\ NoDup polled /\
  Forall (fun j => 0 <= j < Z.of_nat (length (s_images s))) polled /\
  length (s_images s') = length (s_images s) /\ 0 <= s_rr s' <= Z.of_nat (length (s_images s)).
Proof. exact sub_cpoll_bounded. Qed.
Print Assumptions C20_bounded_controlled_poll.

(* fairness: with a fixed list of n images, among any n+1 consecutive calls every index is the starting index
   (from a fresh subscription the sequence is 0,1,..,n-1,0,0,1,..) ... *)
Theorem C20_fair : forall n rr i, 0 < n -> 0 <= rr <= n -> 0 <= i < n ->
  In i (fst (rr_run n rr (Z.to_nat (n + 1)))).
Proof. exact rr_fair. Qed.
Print Assumptions C20_fair.

(* ... and the starting image is polled first with the whole fragment limit, whatever the backlogs of the others *)
Theorem C20_first_full_limit : forall (I X : Type) (pk : I -> Z -> Z * I * list X) (s : sub I) limit im0,
  0 <= s_rr s -> 0 < limit ->
  nth_error (s_images s) (Z.to_nat (fst (rr_next (Z.of_nat (length (s_images s))) (s_rr s)))) = Some im0 ->
  let '(total, s', xs, polled) := poll_inner pk s limit in
  exists rest ys, polled = fst (rr_next (Z.of_nat (length (s_images s))) (s_rr s)) :: rest /\
                  xs = snd (pk im0 limit) ++ ys.
Proof. exact @poll_inner_first. Qed.
Print Assumptions C20_first_full_limit.

(* ... and when it is given a positive limit it leaves behind at least the first committed frame at its position, be it
   data or the padding frame that closes a term (slot_ok / os_wf: the image of a well-formed harness slot at a position
   where the property speaks; os_frames: the committed frames visible at its position).  Together with C20_fair: an image
   with frames at its position moves forward at least once in any n+1 consecutive calls with a positive limit, so an image
   standing on an end-of-term padding frame reaches the data of the next term within 2(n+1) calls.
   (controlled_poll: unless the first frame is a data frame that the handler answers Abort.) *)
Theorem C20_starting_image_advances : forall sl lim,
  slot_ok sl -> im_closed (slot_image sl) = false -> os_wf (oslot_of sl) = true ->
  0 < lim -> os_frames (oslot_of sl) <> [] ->
  let '(n, sl', ds) := pk_poll sl lim in im_pos (slot_image sl) < im_pos (slot_image sl').
Proof. exact poll_advances. Qed.
Print Assumptions C20_starting_image_advances.

Theorem C20_starting_image_advances_controlled : forall salt tab sl lim,
  slot_ok sl -> im_closed (slot_image sl) = false -> os_wf (oslot_of sl) = true ->
  0 < lim -> must_advance (script_for salt tab sl) (os_frames (oslot_of sl)) = true ->
  let '(n, sl', ds) := pk_cpoll salt tab sl lim in im_pos (slot_image sl) < im_pos (slot_image sl').
Proof. exact cpoll_advances. Qed.
Print Assumptions C20_starting_image_advances_controlled.

(* images added or removed between calls: whatever the index was, the next starting index is inside the list *)
Theorem C20_index_in_range : forall len rr, 0 <= len -> 0 <= rr ->
  let '(s, rr') := rr_next len rr in (0 < len -> 0 <= s < len) /\ 0 <= rr' <= len.
Proof. exact rr_after_change. Qed.
Print Assumptions C20_index_in_range.

(* sessions never mix: for every sequence of fragments of any sessions in any interleaving, what the delegate receives
   for session s is what the single-session machine delivers on the fragments of s alone *)
Theorem C20_sessions : forall s xs bs,
  of_session s (snd (assemble bs xs)) = map (pair s) (snd (run1 (bget bs s) (proj s xs))) /\
  bget (fst (assemble bs xs)) s = fst (run1 (bget bs s) (proj s xs)).
Proof. exact assemble_session. Qed.
Print Assumptions C20_sessions.

Theorem C20_sessions_independent : forall s xs ys bs,
  proj s xs = proj s ys -> of_session s (snd (assemble bs xs)) = of_session s (snd (assemble bs ys)).
Proof. exact sessions_independent. Qed.
Print Assumptions C20_sessions_independent.

(* the single-session machine delivers every message of a well-formed fragment stream intact, once, in order,
   from any state (chunks_ok: at least one chunk, and a fragmented message starts with a non-empty chunk) *)
Theorem C20_reassembly : forall msgs st, Forall chunks_ok msgs ->
  snd (run1 st (concat (map fragments_of msgs))) = map (@concat Z) msgs.
Proof. exact run1_messages. Qed.
Print Assumptions C20_reassembly.

(* joined in the middle of a message: nothing is delivered before the first BEGIN / unfragmented frame,
   and everything after it is *)
Theorem C20_midjoin : forall mid, Forall (fun x => has_flags (fst x) F_BEGIN = false) mid -> run1 None mid = (None, []).
Proof. exact run1_midjoin. Qed.
Print Assumptions C20_midjoin.

Theorem C20_midjoin_then_messages : forall mid msgs,
  Forall (fun x => has_flags (fst x) F_BEGIN = false) mid -> Forall chunks_ok msgs ->
  snd (run1 None (mid ++ concat (map fragments_of msgs))) = map (@concat Z) msgs.
Proof. exact run1_midjoin_then_messages. Qed.
Print Assumptions C20_midjoin_then_messages.

(* ---- the oracle is true on the model, for every operation and every history ----
   st_rel: the oracle's bookkeeping (image list, positions as observed, starting index, per-session reassembly state) agrees
   with the model's state; st_inv: slots well-built (frames carry their image's session id, positive lengths), ids distinct,
   listed images open; sessions_distinct: one image per session.  case_ok: geometry / offsets non-negative, frame lengths
   positive, session ids of the slots distinct, block limits in i32. *)
Theorem C20_oracle_step : forall m nslots ost st o, sop_ok o ->
  st_rel ost st -> st_inv nslots st -> sessions_distinct st ->
  let '(ob, st') := sstep m nslots st o in
  judge_sop ost o ob = true /\ st_rel (onext20 ost o ob) st' /\ st_inv nslots st' /\ sessions_distinct st'.
Proof. exact sstep_judged. Qed.
Print Assumptions C20_oracle_step.

Theorem C20_oracle_history : forall m slots initial ops, case_ok slots ops ->
  holds_sub_case slots initial ops (run_sub_case m slots initial ops) = true.
Proof. exact sub_case_judged. Qed.
Print Assumptions C20_oracle_history.

(* ================================================================================================================ *)
(* The reassembly buffer as the code manages it (src/buffer_builder.rs, Model/BufferBuilder.v): capacity, limit, memory,
   i32 arithmetic of a debug and of a release build.  bb_ok b: HDR <= limit <= capacity, 2 <= capacity <= MAX (what `new`
   establishes and every operation keeps).  prescribed c r c': c' is the first capacity of the sequence
   c, c + c/2, (c + c/2) + (c + c/2)/2, ... (each at most MAX = i32::MAX - 8) that is >= r.
   BB_SAFE = 1431655765 is the largest capacity whose growth step fits an i32. *)

(* new: limit HDR, nothing appended, capacity between the minimum and 2^30; for initial lengths 1 .. 2^30 the capacity holds
   the initial length and is less than twice as large (or the minimum) *)
Theorem C20_builder_new : forall m n b, bb_new m n = Ok b ->
  bb_ok b /\ bb_limit b = HDR /\ bb_content b = [] /\ BB_MIN_CAPACITY <= bb_cap b <= 1073741824 /\
  (1 <= n <= 1073741824 -> n <= bb_cap b /\ (BB_MIN_CAPACITY < bb_cap b -> bb_cap b < 2 * n)).
Proof. exact new_spec. Qed.
Print Assumptions C20_builder_new.

(* append, whenever it returns: the limit grows by exactly the length, the bytes [HDR, limit) are the old ones followed by the
   new ones (no byte lost, none reordered, also across a reallocation), the capacity stays when it suffices and is the
   prescribed one otherwise *)
Theorem C20_builder_append : forall m b bytes b', bb_ok b -> bb_append m b bytes = Ok b' ->
  bb_ok b' /\ bb_limit b' = bb_limit b + Z.of_nat (length bytes) /\
  bb_content b' = bb_content b ++ bytes /\
  (bb_limit b + Z.of_nat (length bytes) <= bb_cap b -> bb_cap b' = bb_cap b) /\
  (bb_cap b < bb_limit b + Z.of_nat (length bytes) ->
     prescribed (bb_cap b) (bb_limit b + Z.of_nat (length bytes)) (bb_cap b')).
Proof. exact append_spec. Qed.
Print Assumptions C20_builder_append.

(* ... it does return, in a debug and in a release build, while the new limit is at most BB_SAFE + 1 ... *)
Theorem C20_builder_append_succeeds : forall m b bytes, bb_ok b -> bb_limit b + Z.of_nat (length bytes) <= BB_SAFE + 1 ->
  exists b', bb_append m b bytes = Ok b'.
Proof. exact append_succeeds. Qed.
Print Assumptions C20_builder_append_succeeds.

(* ... a release build up to MAX ... *)
Theorem C20_builder_append_succeeds_release : forall b bytes, bb_ok b -> bb_limit b + Z.of_nat (length bytes) <= BB_MAX_CAPACITY ->
  exists b', bb_append Release b bytes = Ok b'.
Proof. exact append_succeeds_release. Qed.
Print Assumptions C20_builder_append_succeeds_release.

(* ... and it never loops for ever, whatever is appended *)
Theorem C20_builder_never_hangs : forall m b bytes, bb_ok b -> bb_append m b bytes <> Hang.
Proof. exact append_never_hangs. Qed.
Print Assumptions C20_builder_never_hangs.

(* a whole message: any sequence of fragment payloads appended after a reset is there in order, all of it *)
Theorem C20_builder_message : forall m chunks b b', bb_ok b -> bb_appends m (bb_reset b) chunks = Ok b' ->
  bb_content b' = concat chunks /\ bb_limit b' = HDR + Z.of_nat (length (concat chunks)) /\ bb_cap b <= bb_cap b' /\ bb_ok b'.
Proof. intros m chunks b b' Hok H. destruct (reset_spec b Hok) as (R1 & R2 & R3 & R4).
  destruct (appends_spec m chunks _ _ R1 H) as (A1 & A2 & A3 & A4). rewrite R3 in A2. rewrite R2 in A3. rewrite R4 in A4.
  cbn [app] in A2. split; [exact A2|]. split; [exact A3|]. split; [exact A4|exact A1]. Qed.
Print Assumptions C20_builder_message.

Theorem C20_builder_message_succeeds : forall m chunks b, bb_ok b -> HDR + Z.of_nat (length (concat chunks)) <= BB_SAFE + 1 ->
  exists b', bb_appends m (bb_reset b) chunks = Ok b'.
Proof. intros m chunks b Hok H. destruct (reset_spec b Hok) as (R1 & R2 & _). apply appends_succeed; [assumption|]. rewrite R2. exact H. Qed.
Print Assumptions C20_builder_message_succeeds.

(* the growth loop: sound for every capacity a builder can have, total up to BB_SAFE + 1 in both builds, ends for every
   capacity >= 2; a capacity of 0 or 1 makes it loop for ever (the defect repaired by C20-buffer-builder-min-capacity) *)
Theorem C20_growth_sound : forall m fuel c r c', 0 <= c <= BB_MAX_CAPACITY -> fsc m fuel c r = Ok c' -> prescribed c r c'.
Proof. exact fsc_sound. Qed.
Print Assumptions C20_growth_sound.

Theorem C20_growth_complete : forall m c r, 2 <= c -> c < r -> r <= BB_SAFE + 1 ->
  exists c', find_suitable_capacity m c r = Ok c' /\ prescribed c r c'.
Proof. exact fsc_complete. Qed.
Print Assumptions C20_growth_complete.

Theorem C20_growth_terminates : forall m c r, 2 <= c <= BB_MAX_CAPACITY -> find_suitable_capacity m c r <> Hang.
Proof. exact fsc_terminates. Qed.
Print Assumptions C20_growth_terminates.

Theorem C20_growth_loops_below_2 : forall m c r, 0 <= c <= 1 -> c < r -> forall fuel, fsc m fuel c r = Hang.
Proof. exact fsc_loops_below_2. Qed.
Print Assumptions C20_growth_loops_below_2.

(* beyond BB_SAFE the builds differ: a release build clamps to MAX and reports MaxCapacityReached above it, a debug build
   panics on the overflowing sum; whatever a debug build returns a release build returns too *)
Theorem C20_growth_release_complete : forall c r, 2 <= c -> c < r -> r <= BB_MAX_CAPACITY ->
  exists c', find_suitable_capacity Release c r = Ok c' /\ prescribed c r c'.
Proof. exact fsc_release_complete. Qed.
Print Assumptions C20_growth_release_complete.

Theorem C20_growth_release_beyond_max : forall c r, 2 <= c <= BB_MAX_CAPACITY -> BB_MAX_CAPACITY < r ->
  find_suitable_capacity Release c r = Err IllegalState.
Proof. exact fsc_release_beyond_max. Qed.
Print Assumptions C20_growth_release_beyond_max.

Theorem C20_growth_debug : forall fuel c r,
  (fsc Debug fuel c r = Panic \/ fsc Debug fuel c r = fsc Release fuel c r) /\
  (BB_SAFE < c <= BB_MAX_CAPACITY -> fsc Debug (S fuel) c r = Panic).
Proof. intros. split; [apply fsc_debug_refines|apply fsc_debug_panics_above_safe]. Qed.
Print Assumptions C20_growth_debug.

(* ---- the assembler over real builders refines the assembler over ideal byte lists (Model/Assembler.v), so C20_sessions,
   C20_reassembly, C20_midjoin and the reassembly clause of C01 hold for the code's buffer management: whenever
   on_fragment / a fragment sequence returns, the delegate got the same messages and the builders hold the same bytes ... *)
Theorem C20_assembler_refines : forall m ibl xs bs bs' out, builders_ok bs ->
  assemble_bb m ibl bs xs = Ok (bs', out) ->
  builders_ok bs' /\ assemble (ideal_of bs) xs = (ideal_of bs', out).
Proof. exact assemble_bb_refines. Qed.
Print Assumptions C20_assembler_refines.

(* ... and it does return (no hang, no panic) from a fresh assembler for every fragment sequence of any sessions with less than
   BB_SAFE payload bytes in total, for every initial buffer length whose round-up fits an i64 (new_ok_small) *)
Theorem C20_assembler_exact : forall m ibl xs, - two63 < ibl <= 4611686018427387904 -> HDR + frag_bytes xs <= BB_SAFE + 1 ->
  exists bs', assemble_bb m ibl [] xs = Ok (bs', snd (assemble [] xs)) /\ ideal_of bs' = fst (assemble [] xs).
Proof. intros m ibl xs Hi Hb. apply assemble_bb_exact; [apply new_ok_small; exact Hi|exact Hb]. Qed.
Print Assumptions C20_assembler_exact.

(* sessions never mix, with the real builders *)
Theorem C20_sessions_real : forall m ibl s xs bs', - two63 < ibl <= 4611686018427387904 -> HDR + frag_bytes xs <= BB_SAFE + 1 ->
  forall out, assemble_bb m ibl [] xs = Ok (bs', out) ->
  of_session s out = map (pair s) (snd (run1 None (proj s xs))).
Proof. intros m ibl s xs bs' Hi Hb out H. destruct (C20_assembler_exact m ibl xs Hi Hb) as (bs2 & E & _).
  rewrite E in H. inversion H; subst. apply (proj1 (assemble_session s xs [])). Qed.
Print Assumptions C20_sessions_real.

(* the run the implementation is compared with uses the real builders; whenever it returns it is the run over ideal byte lists,
   hence accepted by the oracle *)
Theorem C20_run_real_refines : forall m ibl slots initial ops obs,
  run_sub_case_bb m ibl slots initial ops = Ok obs -> run_sub_case m slots initial ops = obs.
Proof. exact run_sub_case_bb_refines. Qed.
Print Assumptions C20_run_real_refines.

Theorem C20_oracle_history_real : forall m ibl slots initial ops obs, case_ok slots ops ->
  run_sub_case_bb m ibl slots initial ops = Ok obs -> holds_sub_case slots initial ops obs = true.
Proof. exact sub_case_bb_judged. Qed.
Print Assumptions C20_oracle_history_real.

(* the BufferBuilder oracle (limit, bytes, prescribed capacity after every operation) accepts every run of the model, and
   holds_find accepts find_suitable_capacity, in both builds *)
Theorem C20_oracle_builder : forall m initial ops, holds_bb_case initial ops (run_bb_case m initial ops) = true.
Proof. exact bb_case_judged. Qed.
Print Assumptions C20_oracle_builder.

Theorem C20_oracle_find : forall m cap req, holds_find cap req (find_suitable_capacity m cap req) = true.
Proof. exact find_judged. Qed.
Print Assumptions C20_oracle_find.

(* ================================================================================================================ *)
(* A poll against a concurrent add / remove of an image (Model/SubThreads.v).  What synchronises the application thread
   and the conductor thread is the std Mutex around the Subscription (Arc<Mutex<Subscription>>; poll_inner, add_image,
   remove_image take &mut self); AtomicVec's begin_change / end_change never see a concurrent reader.  The thread model
   takes one step per shared-memory action: lock, the two loads of `load`, the round_robin_index lines, ONE STEP PER IMAGE
   of the two loops, the three stores of `store`, unlock; any interleaving of any number of threads (schedule = list of thread
   ids, entries of blocked threads skipped).  `history` = the completed requests in lock-acquisition order. *)

(* mutual exclusion; under it the seqlock comparison of `load` always succeeds at once *)
Theorem C20_mutex_invariant : forall (I X : Type) (pk : I -> Z -> Z * I * list X) (c0 c : config I X),
  initial c0 -> reach pk true c0 c ->
  (forall t, in_cs (th_pc (c_thr c t)) = true <-> m_holder (c_sh c) = Some t) /\
  (forall t1 t2, in_cs (th_pc (c_thr c t1)) = true -> in_cs (th_pc (c_thr c t2)) = true -> t1 = t2) /\
  ((forall t, in_store (th_pc (c_thr c t)) = false) -> m_begin (c_sh c) = m_end (c_sh c)).
Proof. exact @mutex_invariant. Qed.
Print Assumptions C20_mutex_invariant.

(* every schedule is equivalent to running the requests one after another in lock-acquisition order with
   poll_inner / add_image / remove_image of Model/Subscription.v: every request is atomic *)
Theorem C20_linearizable : forall (I X : Type) (pk : I -> Z -> Z * I * list X) (c0 : config I X) n fuel sched,
  initial c0 -> (forall t, (n <= t)%nat -> th_todo (c_thr c0 t) = []) ->
  let c := run pk true n fuel sched c0 in
  all_done n c = true ->
  seq_run pk (map h_req (history (c_log c))) (mkSub (m_buf (c_sh c0)) (m_rr (c_sh c0)))
    = (mkSub (m_buf (c_sh c)) (m_rr (c_sh c)), map h_res (history (c_log c))) /\
  (forall t, reqs_of t (history (c_log c)) = th_todo (c_thr c0 t)).
Proof. exact @linearizable. Qed.
Print Assumptions C20_linearizable.

(* (the hypothesis all_done is met by every schedule once the drain has enough fuel) *)
Theorem C20_schedules_complete : forall (I X : Type) (pk : I -> Z -> Z * I * list X) (c0 : config I X),
  initial c0 -> forall n sched, (forall t, (n <= t)%nat -> th_todo (c_thr c0 t) = []) ->
  exists f0, forall fuel, (f0 <= fuel)%nat -> all_done n (run pk true n fuel sched c0) = true.
Proof. exact @drain_completes. Qed.
Print Assumptions C20_schedules_complete.

(* a poll racing with one add / remove sees either the old or the new image list, never a mixture ... *)
Theorem C20_poll_sees_old_or_new : forall (I X : Type) (pk : I -> Z -> Z * I * list X) l rr lim fuel sched (q : req I) (l' : list I),
  0 <= rr ->
  (exists im, q = RAdd im /\ l' = l ++ [im]) \/ (exists p, q = RRemove p /\ l' = remove_first p l) ->
  let c := run pk true 2 fuel sched (init_cfg l rr [[RPoll lim]; [q]]) in
  all_done 2 c = true ->
  exists rp, In (0%nat, RPoll lim, rp) (history (c_log c)) /\
    (rp = poll_res (poll_inner pk (mkSub l rr) lim) \/ rp = poll_res (poll_inner pk (mkSub l' rr) lim)).
Proof. exact @poll_sees_old_or_new. Qed.
Print Assumptions C20_poll_sees_old_or_new.

(* ... and in every completed poll of every schedule, whatever the other threads add or remove meanwhile, every image of the
   list the poll saw is polled at most once and the total stays within the limit; no request panics *)
Theorem C20_poll_round_once : forall (I X : Type) (pk : I -> Z -> Z * I * list X) (c0 c : config I X) t lim total xs polled,
  (forall im l, 0 < l -> 0 <= fst (fst (pk im l)) <= l) ->
  initial c0 -> reach pk true c0 c ->
  In (t, RPoll lim, RsPoll total xs polled) (history (c_log c)) ->
  exists pre post s,
    history (c_log c) = pre ++ (t, RPoll lim, RsPoll total xs polled) :: post /\
    seq_run pk (map h_req pre) (seq0 c0) = (s, map h_res pre) /\
    RsPoll total xs polled = poll_res (poll_inner pk s lim) /\
    NoDup polled /\ Forall (fun j => 0 <= j < Z.of_nat (length (s_images s))) polled /\
    0 <= total <= Z.max 0 lim.
Proof. exact @poll_round_nodup. Qed.
Print Assumptions C20_poll_round_once.

Theorem C20_no_panic_under_mutex : forall (I X : Type) (pk : I -> Z -> Z * I * list X) (c0 c : config I X),
  initial c0 -> reach pk true c0 c -> forall e, In e (history (c_log c)) -> h_res e <> RsPanic.
Proof. exact @no_panic. Qed.
Print Assumptions C20_no_panic_under_mutex.

(* without the mutex the sequence numbers alone would not do: `load` hands out a reference to the live vector, so a poll
   interleaved with a remove panics in get_mut(i).expect(..) (first schedule) or polls a mixture of the old and the new list
   (second schedule: images 100 and 300 - neither [100; 200] of the old list nor [200; 300] of the new one) *)
Theorem C20_seqlock_alone_not_enough :
  (let c := run wpk false 2 30 s_panic (wcfg 10) in
   all_done 2 c = true /\ results 0 c = [RsPanic] /\
   results 1 c = [RsRemove (Some ([100; 200; 300], 0))] /\ final c = ([201; 301], 0, 0, 1)) /\
  (let c := run wpk false 2 30 s_mix (wcfg 2) in
   all_done 2 c = true /\ results 0 c = [RsPoll 2 [100; 300] [0; 1]] /\
   results 1 c = [RsRemove (Some ([101; 200; 300], 0))] /\ final c = ([200; 301], 0, 0, 1) /\
   poll_res (poll_inner wpk (mkSub [100; 200; 300] 0) 2) = RsPoll 2 [100; 200] [0; 1] /\
   poll_res (poll_inner wpk (mkSub [200; 300] 0) 2) = RsPoll 2 [200; 300] [0; 1]).
Proof. exact seqlock_alone_not_enough. Qed.
Print Assumptions C20_seqlock_alone_not_enough.

(* ---- non-vacuity ---- *)
Example C20_case_ok_example :
  case_ok [(16, 5, 77, 0, (0, 0, 4, false, [(1, 192, 40, 1, 0); (1, 192, 41, 2, 0); (1, 192, 42, 3, 0); (1, 192, 43, 4, 0)]));
           (16, 9, 88, 64, (0, 64, 3, false, [(1, 128, 64, 8, 0); (1, 64, 64, 9, 0); (1, 192, 33, 10, 0)]))]
          [SPoll 2; SBlock 64; SCPoll 3 1 [Commit; Abort]].
Proof. unfold case_ok. split; [|split].
  - repeat constructor; cbn; lia.
  - repeat constructor; cbn; intuition lia.
  - repeat constructor. Qed.

(* fairness across a term end: image 1 (session 88) has caught up and stands exactly on the padding frame that closes its
   term 2 while images 0 and 2 always have data; limit 1.  Call 2 starts with image 1: it consumes the padding (no fragment,
   position 196608 = start of term 3) and the rest of the budget goes to image 2; the publisher continues in term 3 (roll);
   when image 1 starts again (call 7) it is served the first fragment of term 3. *)
Definition pad_slots : list sslot :=
  [(16, 5, 77, 0, (0, 0, 5, false, [(1, 128, 96, 1, 0); (1, 0, 96, 2, 0); (1, 64, 40, 3, 0); (1, 192, 50, 4, 0); (1, 192, 60, 5, 0)]));
   (16, 2147483647, 88, 2 * 65536 + 4096 + 64, (2, 4096, 2, false, [(1, 192, 50, 20, 0); (0, 0, 65536 - 4096 - 64, 0, 0)]));
   (16, -3, 99, 131072, (2, 0, 4, false, [(1, 192, 40, 12, 0); (1, 192, 41, 13, 0); (1, 192, 42, 14, 0); (1, 192, 43, 15, 0)]))].
Definition pad_ops : list sop :=
  [SPoll 1; SPoll 1; SPoll 1; SPoll 1; SRoll 1 3 false [(1, 128, 96, 21, 0); (1, 64, 40, 22, 0); (1, 192, 44, 23, 0)];
   SPoll 1; SPoll 1; SPoll 1].
Example C20_padding_example :
  case_ok pad_slots pad_ops /\
  map (fun ob : sobs => let '(ret, raws, _, ps) := ob in (ret, map fo_session raws, ps)) (run_sub_case Debug pad_slots [0; 1; 2] pad_ops)
  = [(Ok 1, [77], [96; 135232; 131072]);
     (Ok 1, [99], [96; 196608; 131136]);
     (Ok 1, [99], [96; 196608; 131200]);
     (Ok 1, [77], [192; 196608; 131200]);
     (Ok 0, [], [192; 196608; 131200]);
     (Ok 1, [77], [256; 196608; 131200]);
     (Ok 1, [88], [256; 196704; 131200]);
     (Ok 1, [99], [256; 196704; 131264])].
Proof. split; [|vm_compute; reflexivity]. unfold case_ok. split; [|split].
  - repeat constructor; cbn; lia.
  - repeat constructor; cbn; intuition lia.
  - repeat constructor; cbn; lia. Qed.

Example C20_fair_example : fst (rr_run 3 0 8) = [0; 1; 2; 0; 0; 1; 2; 0] /\ fst (rr_run 3 2 4) = [2; 0; 0; 1].
Proof. split; reflexivity. Qed.

(* two sessions interleaved at fragment granularity, session 7 joined in the middle of a message *)
Example C20_sessions_example :
  snd (assemble []
        [mkFrag 7 0 [9]; mkFrag 5 128 [1; 2]; mkFrag 7 64 [9]; mkFrag 7 128 [3]; mkFrag 5 0 [4]; mkFrag 7 64 [5; 6];
         mkFrag 5 64 [7]; mkFrag 7 192 [8]])
  = [(7, [3; 5; 6]); (5, [1; 2; 4; 7]); (7, [8])]
  /\ chunks_ok [[1; 2]; [4]; [7]] /\ fragments_of [[1; 2]; [4]; [7]] = [(128, [1; 2]); (0, [4]); (64, [7])].
Proof. repeat split; try reflexivity; try discriminate. Qed.

(* a subscription over three images with data everywhere: limit 2, five calls *)
Example C20_run_example :
  run_sub_case Debug
    [(16, 5, 77, 0, (0, 0, 4, false, [(1, 192, 40, 1, 0); (1, 192, 41, 2, 0); (1, 192, 42, 3, 0); (1, 192, 43, 4, 0)]));
     (16, 9, 88, 64, (0, 64, 3, false, [(1, 128, 64, 8, 0); (1, 64, 64, 9, 0); (1, 192, 33, 10, 0)]));
     (16, -3, 99, 131072, (2, 0, 2, false, [(1, 192, 40, 12, 0); (1, 192, 41, 13, 0)]))]
    [0; 1; 2] [SPoll 2; SPoll 2; SPoll 2; SPoll 2; SPoll 2]
  = [(Ok 2, [(32, 8, 192, Ok 64, 77, 255137); (96, 9, 192, Ok 128, 77, 846091)], [(77, 8, 255137); (77, 9, 846091)], [128; 64; 131072]);
     (Ok 2, [(96, 32, 128, Ok 128, 88, 185604); (160, 32, 64, Ok 192, 88, 610418)], [(88, 64, 397742)], [128; 192; 131072]);
     (Ok 2, [(32, 8, 192, Ok 131136, 99, 691462); (96, 9, 192, Ok 131200, 99, 372214)], [(99, 8, 691462); (99, 9, 372214)], [128; 192; 131200]);
     (Ok 2, [(160, 10, 192, Ok 192, 77, 268963); (224, 11, 192, Ok 256, 77, 580905)], [(77, 10, 268963); (77, 11, 580905)], [256; 192; 131200]);
     (Ok 1, [(224, 1, 192, Ok 256, 88, 278)], [(88, 1, 278)], [256; 256; 131200])].
Proof. vm_compute. reflexivity. Qed.

(* the reassembly buffer: a message of twelve 40-byte fragments from the smallest buffer; the capacity walks the prescribed
   sequence 64, 96, 144, 216, 324, 486, 729 and every byte is there *)
Example C20_builder_example :
  map (fun ob : bobs => let '(r, l, c, _) := ob in (r, l, c))
      (run_bb_case Debug 1 (map (fun k => BAppend k 40) [1; 2; 3; 4; 5; 6; 7; 8; 9; 10; 11; 12]))
  = [(Ok 0, 32, 64); (Ok 0, 72, 96); (Ok 0, 112, 144); (Ok 0, 152, 216); (Ok 0, 192, 216); (Ok 0, 232, 324); (Ok 0, 272, 324);
     (Ok 0, 312, 324); (Ok 0, 352, 486); (Ok 0, 392, 486); (Ok 0, 432, 486); (Ok 0, 472, 486); (Ok 0, 512, 729)]
  /\ (exists b, bb_new Debug 1 = Ok b /\ bb_ok b /\
       exists b', bb_appends Debug (bb_reset b) (map (fun k => payload k 40) [1; 2; 3]) = Ok b' /\
                  bb_content b' = payload 1 40 ++ payload 2 40 ++ payload 3 40)
  /\ find_suitable_capacity Debug 64 100 = Ok 144 /\ prescribed 64 100 144
  /\ find_suitable_capacity Release 1500000000 2000000000 = Ok 2147483639 /\ find_suitable_capacity Debug 1500000000 2000000000 = Panic
  /\ find_suitable_capacity Release 2147483639 2147483647 = Err IllegalState.
Proof. split; [vm_compute; reflexivity|]. split.
  - eexists. split; [vm_compute; reflexivity|]. split; [vm_compute; intuition discriminate|].
    eexists. split; [vm_compute; reflexivity|vm_compute; reflexivity].
  - split; [vm_compute; reflexivity|]. split.
    + exists 2%nat. split; [lia|]. split; [vm_compute; reflexivity|]. split; [lia|]. intros j Hj. assert (j = 1%nat) by lia. subst. vm_compute. reflexivity.
    + repeat split; vm_compute; reflexivity. Qed.
