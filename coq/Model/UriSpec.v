(* C19 - the *specification* side, written by hand from the Aeron channel-URI protocol
   (CommonContext / ChannelUriStringBuilder of the reference implementation), independent of the
   Rust source and of the generated tables:

     * the protocol's parameter name of every builder setter and the textual form of its value,
     * which argument values a setter accepts (`legal`),
     * an abstract builder (`sstep`, `srun`) in which every setter affects only its own parameter,
     * `expected`: prefix, media and parameter map the built string has to parse to,
     * `tables_ok`: the decidable condition on K1-generated tables under which the table
       interpreter (Model/UriBuilder.v) refines the abstract builder.

   Definitions only. *)
Require Import V.Base.MachineInt.
Require Import V.Model.UriTypes.
Open Scope Z_scope.

Definition lit (s : string) : str := str_of_string s.

Definition P_SPY : str := lit "aeron-spy".
Definition P_AERON : str := lit "aeron".
Definition P_UDP : str := lit "udp".
Definition P_IPC : str := lit "ipc".
Definition P_TAG : str := lit "tag:".
Definition P_TRUE : str := lit "true".
Definition P_FALSE : str := lit "false".
Definition P_SESSION_ID : str := lit "session-id".

(* how a parameter's value is written *)
Inductive pkind := KStr | KInt | KBool | KTagged.     (* KTagged: decimal, prefixed by "tag:" when is_session_tagged(true) *)

Record prow := { p_setter : string; p_name : str; p_ty : argty; p_kind : pkind }.

(* builder setter -> protocol parameter *)
Definition spec_params : list prow :=
  [ {| p_setter := "endpoint";           p_name := lit "endpoint";      p_ty := TStr;  p_kind := KStr |};
    {| p_setter := "network_interface";  p_name := lit "interface";     p_ty := TStr;  p_kind := KStr |};
    {| p_setter := "control_endpoint";   p_name := lit "control";       p_ty := TStr;  p_kind := KStr |};
    {| p_setter := "control_mode";       p_name := lit "control-mode";  p_ty := TStr;  p_kind := KStr |};
    {| p_setter := "tags";               p_name := lit "tags";          p_ty := TStr;  p_kind := KStr |};
    {| p_setter := "alias";              p_name := lit "alias";         p_ty := TStr;  p_kind := KStr |};
    {| p_setter := "congestion_control"; p_name := lit "cc";            p_ty := TStr;  p_kind := KStr |};
    {| p_setter := "reliable";           p_name := lit "reliable";      p_ty := TBool; p_kind := KBool |};
    {| p_setter := "ttl";                p_name := lit "ttl";           p_ty := TU8;   p_kind := KInt |};
    {| p_setter := "mtu";                p_name := lit "mtu";           p_ty := TU32;  p_kind := KInt |};
    {| p_setter := "term_length";        p_name := lit "term-length";   p_ty := TI32;  p_kind := KInt |};
    {| p_setter := "initial_term_id";    p_name := lit "init-term-id";  p_ty := TI32;  p_kind := KInt |};
    {| p_setter := "term_id";            p_name := lit "term-id";       p_ty := TI32;  p_kind := KInt |};
    {| p_setter := "term_offset";        p_name := lit "term-offset";   p_ty := TU32;  p_kind := KInt |};
    {| p_setter := "session_id";         p_name := P_SESSION_ID;        p_ty := TI32;  p_kind := KTagged |};
    {| p_setter := "linger";             p_name := lit "linger";        p_ty := TI64;  p_kind := KInt |};
    {| p_setter := "sparse";             p_name := lit "sparse";        p_ty := TBool; p_kind := KBool |};
    {| p_setter := "eos";                p_name := lit "eos";           p_ty := TBool; p_kind := KBool |};
    {| p_setter := "tether";             p_name := lit "tether";        p_ty := TBool; p_kind := KBool |};
    {| p_setter := "group";              p_name := lit "group";         p_ty := TBool; p_kind := KBool |};
    {| p_setter := "rejoin";             p_name := lit "rejoin";        p_ty := TBool; p_kind := KBool |} ].

Definition find_param (n : string) : option prow := find (fun p => String.eqb (p_setter p) n) spec_params.

(* the setters that are not plain parameter setters, with their argument types *)
Definition special_setters : list (string * argty) :=
  [ ("prefix", TStr); ("reset_prefix", TUnit); ("media", TStr); ("clear", TUnit); ("is_session_tagged", TBool);
    ("reset_reliable", TUnit); ("reset_rejoin", TUnit) ]%string.

Definition setter_ty (n : string) : option argty :=
  match find (fun q => String.eqb (fst q) n) special_setters with
  | Some q => Some (snd q)
  | None => match find_param n with Some p => Some (p_ty p) | None => None end
  end.

Definition all_setter_names : list string := map fst special_setters ++ map p_setter spec_params.

Definition arg_typed (t : argty) (a : arg) : bool :=
  match t, a with
  | TStr, AStr _ => true
  | TBool, ABool _ => true
  | TU8, AInt z => (0 <=? z) && (z <? 256)
  | TU32, AInt z => (0 <=? z) && (z <? two32)
  | TI32, AInt z => in_i32 z
  | TI64, AInt z => in_i64 z
  | TUnit, AUnit => true
  | _, _ => false
  end.

Definition op_typed (o : op) : bool :=
  match setter_ty (fst o) with Some t => arg_typed t (snd o) | None => false end.

(* ---- which values a setter accepts ----------------------------------------------------------- *)

(* utils::bit_utils::is_power_of_two / log_buffer_descriptor::check_term_length as they are: which term
   lengths exist is the business of the log-buffer properties, C19 only needs *some* fixed predicate *)
Definition spec_is_pow2 (v : Z) : bool := (0 <? v) && (Z.land v (- v) =? v).
Definition spec_term_length_ok (v : Z) : bool :=
  negb (v <? 65536) && negb (v >? 1073741824) && spec_is_pow2 v.

Definition legal (n : string) (a : arg) : bool :=
  if String.eqb n "prefix" then is_empty (arg_str a) || str_eqb (arg_str a) P_SPY
  else if String.eqb n "media" then str_eqb (arg_str a) P_UDP || str_eqb (arg_str a) P_IPC
  else if String.eqb n "control_mode" then str_eqb (arg_str a) (lit "manual") || str_eqb (arg_str a) (lit "dynamic")
  else if String.eqb n "mtu" then (32 <=? arg_int a) && (arg_int a <=? 65504) && (arg_int a mod 32 =? 0)
  else if String.eqb n "term_length" then spec_term_length_ok (arg_int a)
  else if String.eqb n "term_offset" then (arg_int a <=? 1073741824) && (arg_int a mod 32 =? 0)
  else if String.eqb n "linger" then 0 <=? arg_int a
  else true.

(* ---- the abstract builder -------------------------------------------------------------------- *)

Record sstate := mkS {
  sp_prefix : option str;
  sp_media : option str;
  sp_vals : string -> option arg;       (* by setter name: the last accepted argument *)
  sp_tagged : bool
}.

Definition s_init : sstate := mkS None None (fun _ => None) false.

Definition set_val (a : sstate) (n : string) (v : option arg) : sstate :=
  mkS (sp_prefix a) (sp_media a) (fun m => if String.eqb m n then v else sp_vals a m) (sp_tagged a).

Definition sstep (a : sstate) (o : op) : sstate * bool :=
  let n := fst o in
  let x := snd o in
  if String.eqb n "prefix" then
    if legal n x then (mkS (Some (arg_str x)) (sp_media a) (sp_vals a) (sp_tagged a), true) else (a, false)
  else if String.eqb n "reset_prefix" then (mkS None (sp_media a) (sp_vals a) (sp_tagged a), true)
  else if String.eqb n "media" then
    if legal n x then (mkS (sp_prefix a) (Some (arg_str x)) (sp_vals a) (sp_tagged a), true) else (a, false)
  else if String.eqb n "clear" then (s_init, true)
  else if String.eqb n "is_session_tagged" then
    (mkS (sp_prefix a) (sp_media a) (sp_vals a) (match x with ABool b => b | _ => false end), true)
  else if String.eqb n "reset_reliable" then (set_val a "reliable" None, true)
  else if String.eqb n "reset_rejoin" then (set_val a "rejoin" None, true)
  else match find_param n with
       | Some p => if legal n x then (set_val a n (Some x), true) else (a, false)
       | None => (a, false)
       end.

Fixpoint srun (a : sstate) (ops : list op) : sstate * list bool :=
  match ops with
  | [] => (a, [])
  | o :: r => let '(a1, ok) := sstep a o in
              let '(a2, oks) := srun a1 r in (a2, ok :: oks)
  end.

(* ---- what the built string has to parse to ---------------------------------------------------- *)

Definition render (k : pkind) (tagged : bool) (x : arg) : str :=
  match k with
  | KStr => arg_str x
  | KInt => dec (arg_int x)
  | KBool => match x with ABool true => P_TRUE | _ => P_FALSE end
  | KTagged => if tagged then P_TAG ++ dec (arg_int x) else dec (arg_int x)
  end.

Definition expected_entry (a : sstate) (p : prow) : params :=
  match sp_vals a (p_setter p) with
  | Some x => [(p_name p, render (p_kind p) (sp_tagged a) x)]
  | None => []
  end.

Definition expected_params (a : sstate) : params := flat_map (expected_entry a) spec_params.
Definition expected_prefix (a : sstate) : str := match sp_prefix a with Some p => p | None => [] end.

(* same map: equally many entries, and every entry of `a` is in `b` (keys of a parsed map are distinct) *)
Definition params_equiv (a b : params) : bool :=
  (Z.of_nat (List.length a) =? Z.of_nat (List.length b))
  && forallb (fun kv => match lookup (fst kv) b with Some v => str_eqb v (snd kv) | None => false end) a.

Definition has_bar (s : str) : bool := existsb (fun c => c =? CH_BAR) s.
Definition op_no_bar (o : op) : bool := negb (has_bar (arg_str (snd o))).

(* ---- the URI grammar ------------------------------------------------------------------------------ *)

Definition name_ok (k : str) : bool :=
  negb (is_empty k) && forallb (fun c => negb (c =? CH_EQ) && negb (c =? CH_BAR)) k.

Definition entry_ok (kv : str * str) : bool := name_ok (fst kv) && negb (has_bar (snd kv)).

Fixpoint keys_distinct (ps : params) : bool :=
  match ps with
  | [] => true
  | (k, _) :: r => negb (existsb (fun kv => str_eqb k (fst kv)) r) && keys_distinct r
  end.

Definition media_char_ok (c : Z) : bool :=
  negb (c =? CH_QMARK) && negb (c =? CH_EQ) && negb (c =? CH_BAR) && negb (c =? CH_COLON).

Definition spec_join (kvs : params) : str :=
  match kvs with
  | [] => []
  | kv :: r => [CH_QMARK] ++ fst kv ++ [CH_EQ] ++ snd kv
               ++ List.concat (map (fun kv => [CH_BAR] ++ fst kv ++ [CH_EQ] ++ snd kv) r)
  end.

Definition spec_uri (prefix media : str) (kvs : params) : str :=
  (if is_empty prefix then [] else prefix ++ [CH_COLON]) ++ P_AERON ++ [CH_COLON] ++ media ++ spec_join kvs.

Definition grammar_ok (prefix media : str) (kvs : params) : bool :=
  (is_empty prefix || str_eqb prefix P_SPY)
  && forallb media_char_ok media
  && forallb entry_ok kvs
  && (match kvs with [] => str_eqb media P_UDP || str_eqb media P_IPC | _ => true end).

(* a later occurrence of a key replaces an earlier one *)
Definition last_wins (kvs : params) : params := fold_left (fun acc kv => insert (fst kv) (snd kv) acc) kvs [].

(* ---- tables_ok ---------------------------------------------------------------------------------- *)

Definition iexp_eq_dec : forall a b : iexp, {a = b} + {a <> b}.
Proof. decide equality; apply Z.eq_dec. Defined.
Definition subj_eq_dec : forall a b : subj, {a = b} + {a <> b}.
Proof. decide equality. Defined.
Definition cond_eq_dec : forall a b : cond, {a = b} + {a <> b}.
Proof. decide equality; try apply iexp_eq_dec; try apply subj_eq_dec; try apply Z.eq_dec; apply (list_eq_dec Z.eq_dec). Defined.
Definition check_eq_dec : forall a b : check, {a = b} + {a <> b}.
Proof. decide equality; try apply cond_eq_dec; apply string_dec. Defined.
Definition rhs_eq_dec : forall a b : rhs, {a = b} + {a <> b}.
Proof. decide equality. Defined.
Definition argty_eq_dec : forall a b : argty, {a = b} + {a <> b}.
Proof. decide equality. Defined.
Definition fmt_eq_dec : forall a b : fmt, {a = b} + {a <> b}.
Proof. decide equality; apply string_dec. Defined.
Definition assign_eq_dec : forall a b : string * rhs, {a = b} + {a <> b}.
Proof. decide equality; [apply rhs_eq_dec | apply string_dec]. Defined.
Definition emit_row_eq_dec : forall a b : emit_row, {a = b} + {a <> b}.
Proof. decide equality; [apply fmt_eq_dec | apply (list_eq_dec Z.eq_dec) | apply string_dec]. Defined.

Definition eqb_of {A} (d : forall a b : A, {a = b} + {a <> b}) (a b : A) : bool := if d a b then true else false.

(* the early-return checks each setter is expected to make, on its *argument* *)
Definition not_in_frame_alignment : cond := CNe (IAnd IArg (ICastU32 (ISub (ILit 32) (ILit 1)))) (ILit 0).
Definition spec_checks (n : string) : list check :=
  if String.eqb n "prefix" then [CkIf (CAnd (CNot (CStrEmpty SArg)) (CNot (CStrEq SArg P_SPY)))]
  else if String.eqb n "media" then [CkIf (CAnd (CNot (CStrEq SArg P_UDP)) (CNot (CStrEq SArg P_IPC)))]
  else if String.eqb n "control_mode" then
    [CkIf (CAnd (CNot (CStrEq SArg (lit "manual"))) (CNot (CStrEq SArg (lit "dynamic"))))]
  else if String.eqb n "mtu" then [CkIf (CNot (CInRange 32 65504 IArg)); CkIf not_in_frame_alignment]
  else if String.eqb n "term_length" then [CkIf (CTermLengthBad IArg)]
  else if String.eqb n "term_offset" then [CkIf (CGt IArg (ICastU32 (ILit 1073741824))); CkIf not_in_frame_alignment]
  else if String.eqb n "linger" then [CkIf (CLt IArg (ILit 0))]
  else [].

Definition rhs_of (k : pkind) : rhs :=
  match k with KStr => RSomeStrArg | KInt | KTagged => RSomeIntArg | KBool => RSomeBool01Arg end.
Definition fmt_of (flag : string) (k : pkind) : fmt :=
  match k with KStr => FmtStr | KInt => FmtInt | KBool => FmtBool | KTagged => FmtTagged flag end.

Definition find_row (T : tables) (n : string) : option setter_row :=
  find (fun r => String.eqb (s_name r) n) (t_setters T).

(* the (first) field the setter named n assigns *)
Definition field_of (T : tables) (n : string) : string :=
  match find_row T n with
  | Some r => match s_assigns r with fr :: _ => fst fr | [] => EmptyString end
  | None => EmptyString
  end.

Definition flag_field (T : tables) : string := field_of T "is_session_tagged".

(* the row of setter n has exactly this shape *)
Definition row_is (T : tables) (n : string) (t : argty) (cks : list check) (asg : list (string * rhs)) : bool :=
  match find_row T n with
  | Some r => eqb_of argty_eq_dec (s_arg r) t
              && eqb_of (list_eq_dec check_eq_dec) (s_checks r) cks
              && eqb_of (list_eq_dec assign_eq_dec) (s_assigns r) asg
  | None => false
  end.

Definition emit_row_of (T : tables) (p : prow) : emit_row :=
  {| e_field := field_of T (p_setter p); e_name := p_name p; e_fmt := fmt_of (flag_field T) (p_kind p) |}.

Definition param_fields (T : tables) : list string := map (fun p => field_of T (p_setter p)) spec_params.
Definition all_fields (T : tables) : list string :=
  t_prefix_field T :: t_media_field T :: flag_field T :: param_fields T.

Fixpoint nodupb {A} (d : forall a b : A, {a = b} + {a <> b}) (l : list A) : bool :=
  match l with
  | [] => true
  | x :: r => negb (existsb (eqb_of d x) r) && nodupb d r
  end.

Definition memb {A} (d : forall a b : A, {a = b} + {a <> b}) (x : A) (l : list A) : bool := existsb (eqb_of d x) l.

(* clear(): every Option field back to None, the flag back to false, nothing else *)
Definition clear_ok (T : tables) : bool :=
  match find_row T "clear" with
  | Some r =>
      eqb_of argty_eq_dec (s_arg r) TUnit
      && eqb_of (list_eq_dec check_eq_dec) (s_checks r) []
      && forallb (fun fr => memb string_dec (fst fr) (all_fields T)
                            && (eqb_of rhs_eq_dec (snd fr) RNone
                                || (eqb_of string_dec (fst fr) (flag_field T) && eqb_of rhs_eq_dec (snd fr) RFalse)))
                 (s_assigns r)
      && forallb (fun f => memb string_dec f (map fst (s_assigns r))) (all_fields T)
  | None => false
  end.

Definition tables_ok (T : tables) : bool :=
  (* every setter of the Rust source is one the specification knows *)
  forallb (fun r => memb string_dec (s_name r) all_setter_names) (t_setters T)
  (* parameter setters: typed, checked as specified (on the new value), assign their own field only *)
  && forallb (fun p => row_is T (p_setter p) (p_ty p) (spec_checks (p_setter p))
                             [(field_of T (p_setter p), rhs_of (p_kind p))]) spec_params
  (* the other setters *)
  && row_is T "prefix" TStr (spec_checks "prefix") [(t_prefix_field T, RSomeStrArg)]
  && row_is T "reset_prefix" TUnit [] [(t_prefix_field T, RNone)]
  && row_is T "media" TStr (spec_checks "media") [(t_media_field T, RSomeStrArg)]
  && row_is T "is_session_tagged" TBool [] [(flag_field T, RBoolArg)]
  && row_is T "reset_reliable" TUnit [] [(field_of T "reliable", RNone)]
  && row_is T "reset_rejoin" TUnit [] [(field_of T "rejoin", RNone)]
  && clear_ok T
  (* no two of them share a field *)
  && nodupb string_dec (all_fields T)
  (* build(): every parameter field is printed exactly under its protocol name, nothing else is *)
  && forallb (fun e => memb emit_row_eq_dec e (map (emit_row_of T) spec_params)) (t_emits T)
  && forallb (fun p => memb emit_row_eq_dec (emit_row_of T p) (t_emits T)) spec_params
  && nodupb (list_eq_dec Z.eq_dec) (map e_name (t_emits T))
  && eqb_of (list_eq_dec Z.eq_dec) (t_scheme T) P_AERON.

(* the rows that make tables_ok false, for the report: setters whose row is not as specified,
   and emit rows that do not print a parameter field under its protocol name *)
Definition bad_setters (T : tables) : list string :=
  filter (fun n => negb
    (match find_param n with
     | Some p => row_is T n (p_ty p) (spec_checks n) [(field_of T n, rhs_of (p_kind p))]
     | None =>
         if String.eqb n "prefix" then row_is T n TStr (spec_checks n) [(t_prefix_field T, RSomeStrArg)]
         else if String.eqb n "reset_prefix" then row_is T n TUnit [] [(t_prefix_field T, RNone)]
         else if String.eqb n "media" then row_is T n TStr (spec_checks n) [(t_media_field T, RSomeStrArg)]
         else if String.eqb n "is_session_tagged" then row_is T n TBool [] [(flag_field T, RBoolArg)]
         else if String.eqb n "reset_reliable" then row_is T n TUnit [] [(field_of T "reliable", RNone)]
         else if String.eqb n "reset_rejoin" then row_is T n TUnit [] [(field_of T "rejoin", RNone)]
         else if String.eqb n "clear" then clear_ok T
         else false
     end)) all_setter_names.

Definition shared_fields (T : tables) : list string :=
  filter (fun f => negb (Z.of_nat (List.length (filter (eqb_of string_dec f) (all_fields T))) =? 1)) (all_fields T).

Definition bad_emits (T : tables) : list string :=
  map e_field (filter (fun e => negb (memb emit_row_eq_dec e (map (emit_row_of T) spec_params))) (t_emits T))
  ++ map p_setter (filter (fun p => negb (memb emit_row_eq_dec (emit_row_of T p) (t_emits T))) spec_params).
