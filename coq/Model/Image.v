(* Subscriber side of the term-log model, part 2: src/image.rs.
   poll, bounded_poll, controlled_poll, bounded_controlled_poll, controlled_peek, block_poll,
   position, set_position / validate_position, close - as the code is, operand widths included where
   the source narrows (`as i32`) or can overflow in a debug build.

   The handler's answers are supplied as a script `list action` (one answer per fragment handed over,
   `Continue` once the script is exhausted).  Every call returns
       (return value, fragments handed to the handler, values written to the subscriber position
        counter in order, image afterwards)
   `outcome` = Panic when the call panics before doing anything (assert on the partition index,
   debug-build overflow).  Definitions only. *)
Require Import V.Base.MachineInt.
Require Import V.Generated.GenConsts.
Require Import V.Model.LogBase.
Require Import V.Model.Descriptor.
Require Import V.Model.Reader.
Open Scope Z_scope.

(* The image as far as polling is concerned.  im_pos is the subscriber position counter (a slot of the
   counter values buffer; only the image writes it while it is open), im_final the position frozen by close. *)
Record image := mkImage { im_pos : Z; im_closed : bool; im_final : Z; im_session : Z }.

Definition set_pos (im : image) (p : Z) : image := mkImage p (im_closed im) (im_final im) (im_session im).

(* position_bits_to_shift = number_of_trailing_zeroes(capacity); term lengths are powers of two *)
Definition bits_of (tl : Z) : Z := Z.log2 tl.

(* The partition and offset a position selects:
     term_offset = (position as i32) & term_length_mask      (bounded_poll: (position & mask as i64) as i32, same value)
     index = index_by_position(position, bits); assert!((0..PARTITION_COUNT).contains(&index)) *)
Definition term_offset_of_pos (tl pos : Z) : Z := Z.land (wrap32 pos) (tl - 1).

Definition sel (l : log) (pos : Z) : outcome (list frame * Z) :=
  let off := term_offset_of_pos (l_tlen l) pos in
  let idx := index_by_position pos (bits_of (l_tlen l)) in
  if (0 <=? idx) && (idx <? PARTITION_COUNT) then Ok (view (part l idx) off, off) else Panic.

(* result of one call *)
Definition call_result := (outcome Z * list dlv * list Z * image)%type.

Definition after_writes (im : image) (ws : list Z) : image := set_pos im (last ws (im_pos im)).

(* ---- poll ---- *)
Definition image_poll (l : log) (im : image) (limit : Z) : outcome call_result :=
  if im_closed im then Ok (Ok 0, [], [], im) else
  let pos := im_pos im in
  v <- sel l pos ;;
  let '(fs, off) := v in
  let '(o, n, ds) := term_read (l_tlen l) fs off limit in
  let np := pos + (o - off) in
  let ws := if np >? pos then [np] else [] in
  Ok (Ok n, ds, ws, after_writes im ws).

(* i64::saturating_sub / saturating_add *)
Definition sat64 (z : Z) : Z := Z.max (- two63) (Z.min (two63 - 1) z).

(* bounded_poll / bounded_controlled_poll (after fix C05-bound-truncation):
     limit_position.saturating_sub(initial_position).saturating_add(offset as i64).clamp(0, capacity) as i32 *)
Definition limit_offset (cap bound pos off : Z) : Z :=
  wrap32 (Z.max 0 (Z.min cap (sat64 (sat64 (bound - pos) + off)))).

(* ---- bounded_poll ---- *)
Definition image_bounded_poll (l : log) (im : image) (bound limit : Z) : outcome call_result :=
  if im_closed im then Ok (Ok 0, [], [], im) else
  let pos := im_pos im in
  v <- sel l pos ;;
  let '(fs, off) := v in
  let lo := limit_offset (l_tlen l) bound pos off in
  let '(o, n, ds) := read_loop lo limit fs off 0 in
  let np := pos + (o - off) in
  let ws := if np >? pos then [np] else [] in
  Ok (Ok n, ds, ws, after_writes im ws).

(* the loop of controlled_poll (endo = capacity) and bounded_controlled_poll (endo = end_offset):
     while fragments_read < fragment_limit && resulting_offset < endo {
       length <= 0 => break;  frame_offset = resulting_offset;  resulting_offset += aligned_length;
       padding => continue;
       action = handler(..).unwrap();
       Abort  => { resulting_offset -= aligned_length; break }
       fragments_read += 1;
       Break  => break
       Commit => { initial_position += (resulting_offset - initial_offset) as i64; initial_offset = resulting_offset;
                   subscriber_position.set_ordered(initial_position) } }
   state: (resulting_offset, fragments_read, initial_position, initial_offset) *)
Fixpoint cloop (endo limit : Z) (fs : list frame) (sc : list action) (off n ipos ioff : Z)
  : (Z * Z * Z * Z) * list dlv * list Z :=
  if (n <? limit) && (off <? endo) then
    match fs with
    | [] => ((off, n, ipos, ioff), [], [])
    | f :: r =>
        let off' := off + span f in
        if is_pad f then cloop endo limit r sc off' n ipos ioff
        else match hd Continue sc with
             | Abort => ((off' - span f, n, ipos, ioff), [(off, f)], [])
             | Break => ((off', n + 1, ipos, ioff), [(off, f)], [])
             | Commit =>
                 let ipos' := ipos + (off' - ioff) in
                 let '(st, ds, ws) := cloop endo limit r (tl sc) off' (n + 1) ipos' off' in
                 (st, (off, f) :: ds, ipos' :: ws)
             | Continue =>
                 let '(st, ds, ws) := cloop endo limit r (tl sc) off' (n + 1) ipos ioff in
                 (st, (off, f) :: ds, ws)
             end
    end
  else ((off, n, ipos, ioff), [], []).

(*   let resulting_position = initial_position + (resulting_offset - initial_offset) as i64;
     if resulting_position > initial_position { set_ordered(resulting_position) }  fragments_read *)
Definition cfinish (im : image) (r : (Z * Z * Z * Z) * list dlv * list Z) : call_result :=
  let '((roff, n, ipos, ioff), ds, ws) := r in
  let rp := ipos + (roff - ioff) in
  let ws' := ws ++ (if rp >? ipos then [rp] else []) in
  (Ok n, ds, ws', after_writes im ws').

(* ---- controlled_poll ---- *)
Definition image_controlled_poll (l : log) (im : image) (limit : Z) (sc : list action) : outcome call_result :=
  if im_closed im then Ok (Ok 0, [], [], im) else
  let pos := im_pos im in
  v <- sel l pos ;;
  let '(fs, off) := v in
  Ok (cfinish im (cloop (l_tlen l) limit fs sc off 0 pos off)).

(* ---- bounded_controlled_poll ---- *)
Definition image_bounded_controlled_poll (l : log) (im : image) (bound limit : Z) (sc : list action)
  : outcome call_result :=
  if im_closed im then Ok (Ok 0, [], [], im) else
  let pos := im_pos im in
  v <- sel l pos ;;
  let '(fs, off) := v in
  let eo := limit_offset (l_tlen l) bound pos off in
  Ok (cfinish im (cloop eo limit fs sc off 0 pos off)).

(* validate_position: limit = (current - (current & mask)) + mask + 1;
   new < current || new > limit => Err; new & (FRAME_ALIGNMENT - 1) != 0 => Err *)
Definition validate_position (tl cur newp : Z) : bool :=
  let mask := tl - 1 in
  let lim := (cur - Z.land cur mask) + mask + 1 in
  negb ((newp <? cur) || (newp >? lim)) && (Z.land newp (FA - 1) =? 0).

(* the loop of controlled_peek:
     while position < limit_position && offset < capacity {
       length <= 0 => break;  frame_offset = offset;  offset += aligned_length;
       padding => { position += (offset - initial_offset); initial_offset = offset; resulting_position = position; continue }
       action = handler(..).unwrap();   Abort => break;
       position += (offset - initial_offset); initial_offset = offset;
       if header.flags() & END_FRAG != 0 { resulting_position = position }
       Break => break } *)
Fixpoint ploop (cap limitpos : Z) (fs : list frame) (sc : list action) (off pos ioff rpos : Z) : Z * list dlv :=
  if (pos <? limitpos) && (off <? cap) then
    match fs with
    | [] => (rpos, [])
    | f :: r =>
        let off' := off + span f in
        if is_pad f then
          let pos' := pos + (off' - ioff) in ploop cap limitpos r sc off' pos' off' pos'
        else match hd Continue sc with
             | Abort => (rpos, [(off, f)])
             | a =>
                 let pos' := pos + (off' - ioff) in
                 let rpos' := if Z.land (f_flags f) F_END =? 0 then rpos else pos' in
                 match a with
                 | Break => (rpos', [(off, f)])
                 | _ => let '(x, ds) := ploop cap limitpos r (tl sc) off' pos' off' rpos' in (x, (off, f) :: ds)
                 end
             end
    end
  else (rpos, []).

(* ---- controlled_peek: never writes the counter; Err when the initial position does not validate ---- *)
Definition image_controlled_peek (l : log) (im : image) (ipos limitpos : Z) (sc : list action) : outcome call_result :=
  if im_closed im then Ok (Ok ipos, [], [], im) else
  if negb (validate_position (l_tlen l) (im_pos im) ipos) then Ok (Err IllegalArg, [], [], im) else
  v <- sel l ipos ;;
  let '(fs, off) := v in
  let '(rp, ds) := ploop (l_tlen l) limitpos fs sc off ipos off ipos in
  Ok (Ok rp, ds, [], im).

(* i32::saturating_add *)
Definition sat_add32 (a b : Z) : Z := Z.max (- two31) (Z.min (two31 - 1) (a + b)).

(* ---- block_poll (after fix C05-block-poll-limit: the sum saturates; before, `term_offset + block_length_limit` panicked in
   a debug build and wrapped negative in a release build as soon as it reached 2^31, so that block_poll(handler, i32::MAX)
   never delivered anything unless the position was at the start of a term) ----
     limit_offset = min(term_offset.saturating_add(block_length_limit), capacity)
     resulting_offset = scan(term_buffer, term_offset, limit_offset); length = resulting_offset - term_offset
     if resulting_offset > term_offset { term_id = get::<i32>(term_offset + TERM_ID_FIELD_OFFSET);
         handler(term_buffer, term_offset, length, session_id, term_id); set_ordered(position + length) }
   the block handed over is recorded as a delivery of the first frame at term_offset, the length is the return value.
   (`m` is kept as a parameter: no operation of the repaired function depends on the build mode.) *)
Definition image_block_poll (m : mode) (l : log) (im : image) (blimit : Z) : outcome call_result :=
  if im_closed im then Ok (Ok 0, [], [], im) else
  let pos := im_pos im in
  v <- sel l pos ;;
  let '(fs, off) := v in
  let lo := Z.min (sat_add32 off blimit) (l_tlen l) in
  let ro := term_scan fs off lo in
  let len := ro - off in
  if ro >? off then
    Ok (Ok len, match fs with f :: _ => [(off, f)] | [] => [] end, [pos + len], after_writes im [pos + len])
  else Ok (Ok len, [], [], im).

(* ---- position / set_position / close ---- *)
Definition image_position (im : image) : Z := if im_closed im then im_final im else im_pos im.

Definition image_set_position (l : log) (im : image) (p : Z) : call_result :=
  if im_closed im then (Ok 0, [], [], im) else
  if validate_position (l_tlen l) (im_pos im) p then (Ok 0, [], [p], set_pos im p)
  else (Err IllegalArg, [], [], im).

Definition image_close (im : image) : image :=
  if im_closed im then im else mkImage (im_pos im) true (im_pos im) (im_session im).

(* ---- what a fragment handler can read of one delivery ----
   (offset, length, flags, Header::position(), session id, stream id, term id, reserved value, payload) *)
Definition handler_args (m : mode) (l : log) (d : dlv) :=
  let '(o, f) := d in
  (o + HDR, f_len f - HDR, f_flags f,
   header_position m (l_init l) (bits_of (l_tlen l)) (f_term_id f) o (f_len f),
   f_session f, f_stream f, f_term_id f, f_reserved f, f_body f).
