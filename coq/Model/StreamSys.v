(* The composed system of C01: one publisher (shared Publication or ExclusivePublication, Model/Publication.v /
   Model/ExclPublication.v), one Image (Model/Image.v) polling the SAME log, and the FragmentAssembler
   (Model/Assembler.v, builders keyed by session id) behind the image's fragment handler.
   Nothing is re-modelled here: a step of the system is the existing step function of the component the
   operation addresses, applied to the shared log.

   The environment (the media driver, played by the harness) owns three operations: the publication limit,
   the connected flag and the cleaning of partitions; `env_ok` is the contract it keeps
   (limit_within_window, clean_before_reuse, the driver never cleans a partition that is in use) together
   with the application's discipline on its one BufferClaim (commit / abort exactly once, nothing else
   published while the claim is open) and the range this property speaks about (lengths an i32 can carry).
   Definitions only. *)
Require Import V.Base.MachineInt.
Require Import V.Generated.GenConsts.
Require Import V.Model.Descriptor.
Require Import V.Model.LogBase.
Require Import V.Model.Appender.
Require Import V.Model.Publication.
Require Import V.Model.ExclPublication.
Require Import V.Model.Reader.
Require Import V.Model.Image.
Require Import V.Model.Assembler.
Require Import V.Spec.Stream.
Open Scope Z_scope.

Inductive sop :=
| SOffer (k len : Z)        (* offer the message  payload k len *)
| SClaim (len : Z)          (* try_claim(len) on the application's one BufferClaim *)
| SCommit (k : Z)           (* fill the claimed range with  payload k (claimed length), commit() *)
| SAbort                    (* abort() *)
| SPoll (limit : Z)         (* Image::poll(assembler.handler(), limit) *)
| SSetLimit (v : Z)         (* driver: publication limit counter := v *)
| SClean (i : Z)            (* driver: zero partition i *)
| SSetConnected (b : bool)  (* driver: is-connected flag *)
| SClose.                   (* publication.close() *)

(* the documented ways an offer / a claim is refused without any effect *)
Definition refusal (e : err) : bool :=
  match e with BackPressured | NotConnected | MaxPositionExceeded | TooLong | Closed => true | _ => false end.

(* the two publisher flavours behind one interface *)
Record flavour := mkFlavour {
  fl_state : Type;
  fl_pub : fl_state -> pubstate;                    (* log, closed flag, the claim held *)
  fl_with_pub : fl_state -> pubstate -> fl_state;
  fl_step : mode -> (Z -> Z -> list Z -> Z) -> fl_state -> op -> fl_state * outcome Z;
  fl_position : mode -> fl_state -> outcome Z
}.
Definition shared : flavour := mkFlavour pubstate (fun s => s) (fun _ p => p) pub_step pub_position.
Definition exclusive : flavour := mkFlavour xpub x_pub x_with_pub xpub_step xpub_position.

Record sys (F : flavour) := mkSys {
  sy_pub : fl_state F;
  sy_img : image;
  sy_asm : builders;
  sy_open : bool              (* the application's BufferClaim holds a claim it has neither committed nor aborted *)
}.
Arguments mkSys {F}. Arguments sy_pub {F}. Arguments sy_img {F}. Arguments sy_asm {F}. Arguments sy_open {F}.

Definition sys_log {F} (s : sys F) : log := ps_log (fl_pub F (sy_pub s)).

(* what the assembler reads of a fragment handed over by the image *)
Definition frag_of_dlv (d : dlv) : frag := mkFrag (f_session (snd d)) (f_flags (snd d)) (f_body (snd d)).

Definition claimed_len (p : pubstate) : Z :=
  match ps_claim p with Some (_, _, fl) => fl - HDR | None => 0 end.

(* the publisher-side operation (Model/Publication.v `op`) an operation of the system stands for *)
Definition pub_op (p : pubstate) (o : sop) : op :=
  match o with
  | SOffer k len => Offer (payload k len)
  | SClaim len => Claim len
  | SCommit k => Publication.Commit (payload k (claimed_len p))
  | SAbort => Publication.Abort
  | SSetLimit v => SetLimit v
  | SSetConnected b => SetConnected b
  | SClose => Close
  | SPoll _ | SClean _ => SetConnected (l_connected (ps_log p))      (* never used: handled below *)
  end.

(* raw result of one operation: publisher / poll return value, fragments handed to the assembler's handler,
   messages the assembler handed to the delegate (session id, bytes) *)
Definition rres := (outcome Z * list dlv * list msg)%type.

Definition sys_step (F : flavour) (m : mode) (rv : Z -> Z -> list Z -> Z) (s : sys F) (o : sop) : sys F * rres :=
  match o with
  | SPoll limit =>
      match image_poll (sys_log s) (sy_img s) limit with
      | Ok (r, ds, _, im') =>
          let '(bs', ms) := assemble (sy_asm s) (map frag_of_dlv ds) in
          (mkSys (sy_pub s) im' bs' (sy_open s), (r, ds, ms))
      | _ => (s, (Panic, [], []))
      end
  | SClean i =>
      let p := fl_pub F (sy_pub s) in
      (mkSys (fl_with_pub F (sy_pub s) (with_log p (set_part (ps_log p) i []))) (sy_img s) (sy_asm s) (sy_open s),
       (Ok 0, [], []))
  | _ =>
      let '(p', r) := fl_step F m rv (sy_pub s) (pub_op (fl_pub F (sy_pub s)) o) in
      let open' := match o with
                   | SClaim _ => if is_ok r then true else sy_open s
                   | SCommit _ | SAbort => false
                   | _ => sy_open s
                   end in
      (mkSys p' (sy_img s) (sy_asm s) open', (r, [], []))
  end.

Fixpoint sys_run (F : flavour) (m : mode) (rv : Z -> Z -> list Z -> Z) (s : sys F) (ops : list sop) : sys F :=
  match ops with [] => s | o :: r => sys_run F m rv (fst (sys_step F m rv s o)) r end.

Fixpoint sys_trace (F : flavour) (m : mode) (rv : Z -> Z -> list Z -> Z) (s : sys F) (ops : list sop) : list (sop * rres) :=
  match ops with
  | [] => []
  | o :: r => let '(s', x) := sys_step F m rv s o in (o, x) :: sys_trace F m rv s' r
  end.

(* ---- the environment contract, as a boolean on (state, next operation) ---- *)
Definition part_clean (l : log) (i : Z) : bool := match part l i with [] => true | _ => false end.

Definition below_limit (F : flavour) (m : mode) (s : sys F) : bool :=
  match fl_position F m (sy_pub s) with Ok q => q <? l_limit (sys_log s) | _ => false end.

Definition append_ok (F : flavour) (m : mode) (s : sys F) (len : Z) : bool :=
  (0 <=? len) && (len <=? 1073741824) && negb (sy_open s) &&
  (* clean_before_reuse: whenever the publisher may write, the partition the log rotates into next is zero *)
  (negb (below_limit F m s) || part_clean (sys_log s) (next_index (sys_log s))).

Definition env_ok (F : flavour) (m : mode) (s : sys F) (o : sop) : bool :=
  let l := sys_log s in
  let n := l_count l in
  let tl := l_tlen l in
  let sp := im_pos (sy_img s) in
  match o with
  | SOffer _ len | SClaim len => append_ok F m s len
  | SCommit _ | SAbort => sy_open s
  | SSetLimit v =>                                      (* limit_within_window; the window is at most half a term beyond the *)
      (v <=? sp + tl) && (v <=? tl * two31 + tl / 2)    (* end of the position space (Proofs/PublicationProofs.v limit_ok)  *)
  | SClean i =>                                         (* only a partition nobody uses *)
      (0 <=? i) && (i <? 3) && negb (i =? n mod 3) &&
      (negb (sp / tl <=? n - 1) || negb (i =? (n - 1) mod 3)) &&
      (negb (sp / tl <=? n - 2) || negb (i =? (n - 2) mod 3))
  | SPoll _ | SSetConnected _ | SClose => true
  end.

Fixpoint contract (F : flavour) (m : mode) (rv : Z -> Z -> list Z -> Z) (s : sys F) (ops : list sop) : bool :=
  match ops with
  | [] => true
  | o :: r => env_ok F m s o && contract F m rv (fst (sys_step F m rv s o)) r
  end.

(* ---- what the abstract machine of Spec/Stream.v is fed with ---- *)
Definition event_of (p : pubstate) (o : sop) (x : rres) (q : outcome Z) : event :=
  let '(r, _, ms) := x in
  match o with
  | SOffer k len => EvOffer (payload k len) r q
  | SClaim len => EvClaim len r q
  | SCommit k => EvCommit (payload k (claimed_len p))
  | SAbort => EvAbort
  | SPoll _ => EvPoll (map snd ms)
  | _ => EvEnv
  end.

(* the event of one step: the operation, its result, and position() right after it *)
Definition step_event (F : flavour) (m : mode) (rv : Z -> Z -> list Z -> Z) (s : sys F) (o : sop) : event :=
  event_of (fl_pub F (sy_pub s)) o (snd (sys_step F m rv s o)) (fl_position F m (sy_pub (fst (sys_step F m rv s o)))).

Fixpoint sys_events (F : flavour) (m : mode) (rv : Z -> Z -> list Z -> Z) (s : sys F) (ops : list sop) : list event :=
  match ops with
  | [] => []
  | o :: r => step_event F m rv s o :: sys_events F m rv (fst (sys_step F m rv s o)) r
  end.

(* ---- initial states ---- *)
Definition join_position (tlen n0 off0 : Z) : Z := n0 * tlen + off0.
Definition image0 (tlen n0 off0 session : Z) : image := mkImage (join_position tlen n0 off0) false 0 session.

Definition sys0_shared (init tlen mtu session stream n0 off0 : Z) : sys shared :=
  mkSys (F := shared) (pub_init (handed_over init tlen mtu session stream n0 off0)) (image0 tlen n0 off0 session) [] false.

Definition sys0_exclusive (init tlen mtu session stream n0 off0 : Z) : outcome (sys exclusive) :=
  x <- xpub_new (handed_over init tlen mtu session stream n0 off0) ;;
  Ok (mkSys (F := exclusive) x (image0 tlen n0 off0 session) [] false).

Definition sgeom_of (tlen mtu n0 off0 : Z) : sgeom := mkSGeom tlen (mtu - HDR) (join_position tlen n0 off0).

(* ---- observation printed by the harness after every operation ----
   (result, [fragment], [message], publisher position(), subscriber position)
   fragment = (offset of the payload in the term, length, flags, Header::position(), session id, term id, reserved value, hash of the bytes)
   message  = (session id, length, hash of the bytes) *)
Definition bhash (bs : list Z) : Z := fold_left (fun h b => (h * 31 + b + 1) mod 1000000007) bs 7.

Definition frag_obs (m : mode) (l : log) (d : dlv) :=
  let '(o, f) := d in
  (o + HDR, f_len f - HDR, f_flags f,
   header_position m (l_init l) (Image.bits_of (l_tlen l)) (f_term_id f) o (f_len f),
   f_session f, f_term_id f, f_reserved f, bhash (f_body f)).

Definition msg_obs (x : msg) := (fst x, zlen (snd x), bhash (snd x)).

Definition sys_obs (F : flavour) (m : mode) (s' : sys F) (x : rres) :=
  let '(r, ds, ms) := x in
  (r, map (frag_obs m (sys_log s')) ds, map msg_obs ms, fl_position F m (sy_pub s'), image_position (sy_img s')).

Fixpoint sys_observe (F : flavour) (m : mode) (rv : Z -> Z -> list Z -> Z) (s : sys F) (ops : list sop) :=
  match ops with
  | [] => []
  | o :: r => let '(s', x) := sys_step F m rv s o in sys_obs F m s' x :: sys_observe F m rv s' r
  end.

(* the cases the harness runs: kind "s" / "x", geometry, hand-over point, operations *)
Definition SESSION : Z := 11.
Definition STREAM : Z := 22.
Definition c01_shared (m : mode) (tlen mtu init n0 off0 : Z) (ops : list sop) :=
  sys_observe shared m harness_rv (sys0_shared init tlen mtu SESSION STREAM n0 off0) ops.
Definition c01_exclusive (m : mode) (tlen mtu init n0 off0 : Z) (ops : list sop) :=
  match sys0_exclusive init tlen mtu SESSION STREAM n0 off0 with
  | Ok s => sys_observe exclusive m harness_rv s ops
  | _ => []
  end.
