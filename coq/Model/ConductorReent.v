(* Re-entrant calls: what happens when a user callback calls back into the client (properties C09 / C10).

   The source carries a flag for this, `is_in_callback` (set by CallbackGuard around every user callback), and every API entry
   point starts with `ensure_not_reentrant()`. Two facts of the code as it is decide what a re-entrant call does:
     - every route from user code to a `&mut ClientConductor` method goes through `Arc<Mutex<ClientConductor>>::lock()`
       (Aeron::add_publication & co, the handles' methods and destructors); user callbacks run inside such a method - a duty
       cycle (AgentRunner / AgentInvoker lock the agent for `do_work`), `on_close`, or a handle's destructor - i.e. while the
       calling thread already holds that mutex. std::sync::Mutex is not re-entrant: the second `lock()` on the same thread never
       returns. A re-entrant call therefore never reaches `ensure_not_reentrant`: it dead-locks the conductor thread;
     - `ensure_not_reentrant` itself would not refuse the call either: it reports AeronError::ReentrantException to the error
       handler and lets the call proceed (tools/props/c10.py re-reads this from the source on every run, check K1-reentrant).
   So the flag is true exactly while the mutex is held by a callback's thread, and is never observed true by an entry point.

   The model: the environment decides what the user's callbacks do (`RScript n`: 0 - they only record their arguments; otherwise
   they call the client: 1 add_publication, 2 find_publication, 3 release_publication, all through the conductor's mutex as
   `Aeron` does). An operation that fires at least one user callback while such a script is installed hangs at its first
   callback (outcome Hang; nothing of the operation is observable, the conductor's mutex is never released: the history ends). *)
Require Import V.Base.MachineInt.
Require Import V.Generated.GenConsts.
Require Import V.Model.Conductor.
Open Scope Z_scope.

Inductive rop :=
| ROp (o : op)
| RScript (n : Z).

Record rst := mkR { r_s : st; r_script : Z }.

Definition rinit (c0 now0 : Z) : rst := mkR (init c0 now0) 0.

Definition fires (cbs : list cb) : bool := match cbs with [] => false | _ => true end.

Definition rstep (c : config) (x : rst) (o : rop) : rst * out :=
  match o with
  | RScript n => (mkR (r_s x) n, (Ok [], [], []))
  | ROp o =>
      let '(s', (r, cbs, cmds)) := step c (r_s x) o in
      if negb (r_script x =? 0) && fires cbs
      then (x, (Hang, [], []))       (* the first callback's call locks the mutex its own thread holds *)
      else (mkR s' (r_script x), (r, cbs, cmds))
  end.

Definition is_hang (x : out) : bool := match fst (fst x) with Hang => true | _ => false end.

(* a hang ends the history: the conductor's mutex stays locked, no later operation can be observed *)
Fixpoint rrun (c : config) (x : rst) (ops : list rop) : list out :=
  match ops with
  | [] => []
  | o :: rest => let '(x1, y) := rstep c x o in if is_hang y then [y] else y :: rrun c x1 rest
  end.

Definition rrun_obs (c0 now0 tdrv tis : Z) (ops : list rop) : list out :=
  rrun (mkCfg tdrv tis) (rinit c0 now0) ops.

(* the history as the judges of C09 / C10 see it: installing a script is an operation without effect on the conductor *)
Definition plain (o : rop) : op := match o with ROp o => o | RScript _ => Tick 0 end.
