(* Models of src/concurrent/agent_invoker.rs and of the loop of src/concurrent/agent_runner.rs.

   The agent is a script: what on_start / on_close return and what the successive do_work calls return (after
   the script: Ok 0).  Events record the calls made on the agent, on the exception handler and on the idle
   strategy, in order. *)
From Coq Require Import ZArith List Bool Lia.
Require Import V.Base.MachineInt.
Import ListNotations.
Open Scope Z_scope.

Inductive gev := GStart | GWork | GClose | GErr | GIdle (n : Z).

Inductive wres := WOk (n : Z) | WErr.

(* ---------------------------------------------------------------------------------------------------- *)
(* AgentInvoker *)

Record inv := mkInv { i_started : bool; i_running : bool; i_closed : bool; i_work : list wres }.
Record agent_cfg := mkCfg { a_start_err : bool; a_close_err : bool }.

Inductive iop := IStart | IInvoke | IClose | IQuery.

Definition inv_init (w : list wres) : inv := mkInv false false false w.

Definition close_inv (c : agent_cfg) (s : inv) : inv * list gev :=
  if i_closed s then (s, [])
  else (mkInv (i_started s) false true (i_work s), GClose :: (if a_close_err c then [GErr] else [])).

Definition b2z (b : bool) : Z := if b then 1 else 0.

(* returns (state, returned value, events) *)
Definition inv_step (c : agent_cfg) (s : inv) (o : iop) : inv * Z * list gev :=
  match o with
  | IStart =>
      if i_started s then (s, 0, [])
      else
        let s1 := mkInv true (i_running s) (i_closed s) (i_work s) in
        if a_start_err c then
          let '(s2, ev) := close_inv c s1 in (s2, 0, GStart :: GErr :: ev)
        else (mkInv true true (i_closed s) (i_work s), 0, [GStart])
  | IInvoke =>
      if i_running s then
        match i_work s with
        | [] => (s, 0, [GWork])
        | WOk n :: r => (mkInv (i_started s) (i_running s) (i_closed s) r, n, [GWork])
        | WErr :: r => (mkInv (i_started s) (i_running s) (i_closed s) r, 0, [GWork; GErr])
        end
      else (s, 0, [])
  | IClose => let '(s2, ev) := close_inv c s in (s2, 0, ev)
  | IQuery => (s, 4 * b2z (i_started s) + 2 * b2z (i_running s) + b2z (i_closed s), [])
  end.

Fixpoint inv_run (c : agent_cfg) (s : inv) (ops : list iop) : list (Z * list gev) :=
  match ops with
  | [] => []
  | o :: r => let '(s', v, ev) := inv_step c s o in (v, ev) :: inv_run c s' r
  end.

Fixpoint inv_final (c : agent_cfg) (s : inv) (ops : list iop) : inv :=
  match ops with
  | [] => s
  | o :: r => let '(s', _, _) := inv_step c s o in inv_final c s' r
  end.

(* what the harness prints *)
Definition inv_obs (c : agent_cfg) (w : list wres) (ops : list iop) : list (outcome Z * list gev) :=
  map (fun p => (Ok (fst p), snd p)) (inv_run c (inv_init w) ops).

(* ---------------------------------------------------------------------------------------------------- *)
(* AgentRunner::run: the stop channel is a FIFO of booleans; each do_work of the script may append to it
   (in the repository only AgentStopper::stop sends, and only `true`). *)

Definition witem := (wres * list bool)%type.

(* one pass of `loop { .. }`: None = break *)
Definition loop_head (q : list bool) : option (list bool) :=
  match q with
  | true :: _ => None
  | false :: r => Some r
  | [] => Some []
  end.

(* `extra` = do_work calls the harness's agent still answers after its script (each asks for the stop) *)
Fixpoint run_loop (fuel : nat) (q : list bool) (w : list witem) (extra : nat) : outcome unit * list gev :=
  match fuel with
  | O => (Hang, [])
  | S f =>
      match loop_head q with
      | None => (Ok tt, [])
      | Some q1 =>
          match w with
          | (WOk n, sig) :: r => let '(o, ev) := run_loop f (q1 ++ sig) r extra in (o, GWork :: GIdle n :: ev)
          | (WErr, sig) :: r => let '(o, ev) := run_loop f (q1 ++ sig) r extra in (o, GWork :: GErr :: ev)
          | [] =>
              match extra with
              | O => (Hang, [GWork])
              | S x => let '(o, ev) := run_loop f (q1 ++ [true]) [] x in (o, GWork :: GIdle 0 :: ev)
              end
          end
      end
  end.

Definition sig_total (w : list witem) : nat := fold_right (fun i a => (length (snd i) + a)%nat) 0%nat w.
Definition runner_fuel (pre : list bool) (w : list witem) : nat := (length pre + sig_total w + length w + 12)%nat.
Definition runner_extra : nat := 64.   (* the harness's agent answers that many do_work calls after its script *)

Definition runner_obs (c : agent_cfg) (pre : list bool) (w : list witem) : outcome Z * list gev :=
  let '(o, ev) := run_loop (runner_fuel pre w) pre w runner_extra in
  match o with
  | Ok _ => (Ok 0, (GStart :: (if a_start_err c then [GErr] else [])) ++ ev ++ GClose :: (if a_close_err c then [GErr] else []))
  | _ => (Hang, (GStart :: (if a_start_err c then [GErr] else [])) ++ ev)
  end.

(* ---------------------------------------------------------------------------------------------------- *)
(* AgentRunner::start / AgentStopper::stop on a real thread: what must be seen after stop() whatever the
   interleaving was.  Idle strategies of the crate: the NoOp strategy is `unimplemented!()`: the agent thread dies
   in its first idle_opt call, on_close never runs and stop() panics on the closed channel. *)
Inductive strat := SSleep | SYield | SSpin | SNoOp.
Inductive wpat := PZero | POne | PErr | PMix.
Inductive stopres := StopOk | StopPanic | StopHang | StartErr.

Definition idles (w : wpat) : bool := match w with PErr => false | _ => true end.
Definition errs (w : wpat) : bool := match w with PErr | PMix => true | _ => false end.

Definition thr_obs (s : strat) (w : wpat) : stopres * Z * Z * Z * Z :=
  match s with
  | SNoOp => if idles w then (StopPanic, 1, 0, 1, 0) else (StopOk, 1, 1, 1, 1)
  | _ => (StopOk, 1, 1, 1, b2z (errs w))
  end.
