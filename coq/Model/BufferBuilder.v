(* src/buffer_builder.rs - BufferBuilder as the code is: capacity, limit, the memory it owns, new / limit / set_limit /
   reset / append / find_suitable_capacity / ensure_capacity, all arithmetic on `Index` = i32 with the operators of the
   source (`+` panics on overflow in a debug build and wraps in a release build), and src/utils/bit_utils.rs
   find_next_power_of_two_i64 (used by `new`).  There is no `compact` in this port.

   The two constants and the growth shift come from Generated/GenBufferBuilder.v, which tools/props/c20_translate.py
   regenerates from the source text on every run (the constants are private, the compiled-constant dump cannot see them)
   after checking that every function body still has the shape mirrored here.

   Memory.  `bb_mem` is what the owned allocation holds from offset 0 on; bytes beyond the end of the list are zero
   (alloc_zeroed).  The first HDR bytes are reserved and never written.  `append` copies the source bytes to offset
   `limit`; growing allocates a zeroed buffer and copies the first `limit` bytes, so whatever was beyond `limit` (stale
   bytes left by an earlier `reset`) is zero afterwards.  The message handed to the delegate is [HDR, limit).

   Not modelled: the source pointer of `append` (no bounds check against the source buffer in the code - the caller hands
   over the bytes), allocation failure, `Drop`.  A negative `limit` (only `set_limit` can produce one: it has no lower
   bound check) or a negative length make the code compute pointers outside the allocation: modelled as `Crash`.
   Definitions only. *)
Require Import V.Base.MachineInt.
Require Import V.Base.MachineInt2.
Require Import V.Generated.GenConsts.
Require Import V.Generated.GenBufferBuilder.
Require Import V.Model.LogBase.
Open Scope Z_scope.

Record bb := mkBB { bb_cap : Z; bb_limit : Z; bb_mem : list Z }.

(* ---- bit_utils::find_next_power_of_two_i64 ----
     value -= 1;  for i in 1,2,4,8,16,32 { value |= value >> i }  value + 1
   or-ing the arithmetic right shifts sets every bit below the leading one: -1 for a negative value,
   2^(log2 v + 1) - 1 for a positive one, 0 for 0 *)
Definition fill_below (v : Z) : Z :=
  if v <? 0 then -1 else if v =? 0 then 0 else 2 ^ (Z.log2 v + 1) - 1.

Definition next_pow2_i64 (m : mode) (value : Z) : outcome Z :=
  v <- sub64 m value 1 ;; add64 m (fill_below v) 1.

(* BufferBuilder::new(initial_length: isize)   (isize = i64 on the targets the crate is built for)
     len = max(find_next_power_of_two_i64(initial_length as i64) as Index, BUFFER_BUILDER_MIN_CAPACITY)
     capacity: len, limit: HDR, buffer: alloc_zeroed(len) *)
Definition bb_new (m : mode) (initial_length : Z) : outcome bb :=
  p <- next_pow2_i64 m initial_length ;;
  Ok (mkBB (Z.max (wrap32 p) BB_MIN_CAPACITY) HDR []).

Definition bb_reset (b : bb) : bb := mkBB (bb_cap b) HDR (bb_mem b).

(* set_limit: if limit >= self.capacity { Err(LimitOutsideRange) } else { self.limit = limit }   (no lower bound) *)
Definition bb_set_limit (b : bb) (limit : Z) : outcome bb :=
  if limit >=? bb_cap b then Err IllegalArg else Ok (mkBB (bb_cap b) limit (bb_mem b)).

(* ---- find_suitable_capacity(current_capacity, required_capacity) ----
     let mut capacity = current_capacity;
     loop {
       let new_capacity = capacity + (capacity >> 1);
       if new_capacity < capacity || new_capacity > MAX {
         if capacity == MAX { return Err(MaxCapacityReached) }
         capacity = MAX;
       } else { capacity = new_capacity; }
       if capacity >= required_capacity { break; }
     }
     Ok(capacity)
   The loop has no bound of its own (with a capacity of 0 or 1 it never ends): fuel, `Hang` when it runs out.
   FSC_FUEL iterations are more than any capacity >= 2 needs (BufferBuilderProofs.fsc_terminates). *)
Definition grow_once (m : mode) (capacity : Z) : outcome Z := add32 m capacity (shr32 capacity BB_GROW_SHIFT).

Fixpoint fsc (m : mode) (fuel : nat) (capacity required : Z) : outcome Z :=
  match fuel with
  | O => Hang
  | S f =>
      nc <- grow_once m capacity ;;
      c <- (if (nc <? capacity) || (nc >? BB_MAX_CAPACITY)
            then (if capacity =? BB_MAX_CAPACITY then Err IllegalState else Ok BB_MAX_CAPACITY)
            else Ok nc) ;;
      if c >=? required then Ok c else fsc m f c required
  end.

Definition FSC_FUEL : nat := 96.
Definition find_suitable_capacity (m : mode) (capacity required : Z) : outcome Z := fsc m FSC_FUEL capacity required.

(* ---- memory ---- *)
Definition pad_to (n : Z) (mem : list Z) : list Z := mem ++ repeat 0 (Z.to_nat n - length mem).
(* bytes [off, off + len) *)
Definition mem_read (mem : list Z) (off len : Z) : list Z :=
  firstn (Z.to_nat len) (skipn (Z.to_nat off) (pad_to (off + len) mem)).
(* write `bytes` at offset `off` *)
Definition mem_write (mem : list Z) (off : Z) (bytes : list Z) : list Z :=
  firstn (Z.to_nat off) (pad_to off mem) ++ bytes ++ skipn (Z.to_nat off + length bytes) mem.

(* ---- ensure_capacity(additional_capacity) ----
     let required_capacity = self.limit + additional_capacity;                 (i32 +)
     if required_capacity > self.capacity {
        new_capacity = find_suitable_capacity(self.capacity, required_capacity)?;
        new_buffer = alloc_zeroed(new_capacity); copy_nonoverlapping(self.buffer, new_buffer, self.limit as usize); ... }
   When the sum overflows a release build sees a negative requirement, does not grow, and `append` then copies past the
   allocation: Crash.  *)
Definition bb_ensure (m : mode) (b : bb) (additional : Z) : outcome bb :=
  if (bb_limit b <? 0) || (additional <? 0) then Crash else
  if negb (in_i32 (bb_limit b + additional)) then (match m with Debug => Panic | Release => Crash end) else
  let required := bb_limit b + additional in
  if required >? bb_cap b then
    nc <- find_suitable_capacity m (bb_cap b) required ;;
    Ok (mkBB nc (bb_limit b) (firstn (Z.to_nat (bb_limit b)) (pad_to (bb_limit b) (bb_mem b))))
  else Ok b.

(* ---- append(buffer, offset, length, header): ensure_capacity(length)?; copy length bytes to buffer + limit; limit += length *)
Definition bb_append (m : mode) (b : bb) (bytes : list Z) : outcome bb :=
  let len := Z.of_nat (length bytes) in
  b1 <- bb_ensure m b len ;;
  l' <- add32 m (bb_limit b1) len ;;
  Ok (mkBB (bb_cap b1) l' (mem_write (bb_mem b1) (bb_limit b1) bytes)).

(* what the delegate is handed: AtomicBuffer::new(builder.buffer(), builder.limit()), offset HDR, length limit - HDR *)
Definition bb_content (b : bb) : list Z := mem_read (bb_mem b) HDR (bb_limit b - HDR).

(* ---- the capacity the growth rule prescribes (statement vocabulary) ----
   one growth step without machine arithmetic: capacity + capacity / 2, at most MAX *)
Definition grow_spec (c : Z) : Z := Z.min BB_MAX_CAPACITY (c + c / 2 ^ BB_GROW_SHIFT).
Fixpoint grow_iter (k : nat) (c : Z) : Z := match k with O => c | S k' => grow_iter k' (grow_spec c) end.
(* the largest capacity whose growth step does not overflow i32: debug and release builds agree up to here *)
Definition BB_SAFE : Z := 1431655765.
