(* Client -> driver commands (C13).
   Model side: `encode_cmd`, mirroring every DriverProxy method through the flyweight it uses: the
   512-byte zeroed scratch buffer, struct-field stores at the offsets of the overlay structs
   (K1: Generated/GenLayout.v), Flyweight::put / put_bytes / string_put with the scratch buffer's
   bounds checks, the length each flyweight reports, then ManyToOneRingBuffer::write on a fresh ring.
   Specification side: `decode_cmd_spec`, written from the Aeron control protocol layouts with
   literal offsets, independent of the flyweights.  Definitions only. *)
Require Import V.Base.MachineInt V.Generated.GenConsts V.Generated.GenLayout.
Require Import V.Model.WireBytes V.Model.WireCodes.
Open Scope Z_scope.

Inductive remove_kind := RmPublication | RmSubscription | RmCounter.
Inductive destination_kind := DsAdd | DsRemove | DsAddRcv | DsRemoveRcv.

(* what the caller asked for *)
Inductive request :=
| RqAddPublication (exclusive : bool) (channel : bytes) (stream_id : Z)
| RqRemove (k : remove_kind) (registration_id : Z)
| RqAddSubscription (channel : bytes) (stream_id : Z)
| RqKeepalive
| RqDestination (k : destination_kind) (registration_id : Z) (channel : bytes)
| RqAddCounter (type_id : Z) (key label : bytes)
| RqClientClose
| RqTerminateDriver (token : bytes).

Definition request_cmd (r : request) : cmd :=
  match r with
  | RqAddPublication false _ _ => AddPublication
  | RqAddPublication true _ _ => AddExclusivePublication
  | RqRemove RmPublication _ => RemovePublication
  | RqRemove RmSubscription _ => RemoveSubscription
  | RqRemove RmCounter _ => RemoveCounter
  | RqAddSubscription _ _ => AddSubscription
  | RqKeepalive => ClientKeepAlive
  | RqDestination DsAdd _ _ => AddDestination
  | RqDestination DsRemove _ _ => RemoveDestination
  | RqDestination DsAddRcv _ _ => AddRcvDestination
  | RqDestination DsRemoveRcv _ _ => RemoveRcvDestination
  | RqAddCounter _ _ _ => AddCounter
  | RqClientClose => ClientClose
  | RqTerminateDriver _ => TerminateDriver
  end.

(* the correlation id a request carries on the wire: the id drawn from the ring for it, except
   keepalive (0) and terminate-driver (-1), which draw none *)
Definition draws_correlation_id (r : request) : bool :=
  match r with RqKeepalive | RqTerminateDriver _ => false | _ => true end.
Definition wire_correlation_id (drawn : Z) (r : request) : Z :=
  match r with RqKeepalive => 0 | RqTerminateDriver _ => -1 | _ => drawn end.

(* ---------------- model of the code ---------------- *)
Definition CMD_BUF : Z := 512.      (* DriverProxyCommandBuffer: [u8; 512], zeroed *)

(* AtomicBuffer::bounds_check(idx, len) on the scratch buffer: assert!(idx + len <= 512) *)
Definition bcheck (off len : Z) : bool := off + len <=? CMD_BUF.

(* Flyweight::put_bytes / put::<i32> (base offset 0) *)
Definition bput_bytes (buf : bytes) (off : Z) (data : bytes) : outcome bytes :=
  if bcheck off (Zlength data) then Ok (put_bytes buf off data) else Panic.
Definition bput_i32 (buf : bytes) (off v : Z) : outcome bytes := bput_bytes buf off (enc_i32 v).
(* Flyweight::string_put -> AtomicBuffer::put_string: bounds_check(off, len + 4); put i32 len; put_bytes *)
Definition bput_string (buf : bytes) (off : Z) (s : bytes) : outcome bytes :=
  if bcheck off (Zlength s + 4) then
    b1 <- bput_i32 buf off (Zlength s) ;;
    bput_bytes b1 (off + 4) s
  else Panic.
(* a store through the overlay-struct pointer, m_struct->field = v (the struct itself was
   bounds-checked once by overlay_struct, every struct is shorter than the buffer) *)
Definition set_i32 (buf : bytes) (off v : Z) : bytes := put_i32 buf off v.
Definition set_i64 (buf : bytes) (off v : Z) : bytes := put_i64 buf off v.

Definition OFF_client_id : Z := OFF_CorrelatedMessageDefn_client_id.
Definition OFF_correlation_id : Z := OFF_CorrelatedMessageDefn_correlation_id.

(* the length the repaired DriverProxy computes before encoding (…Flyweight::encoded_length) *)
Definition encoded_length (r : request) : Z :=
  match r with
  | RqAddPublication _ ch _ => OFF_PublicationMessageDefn_channel_data + Zlength ch
  | RqAddSubscription ch _ => OFF_SubscriptionMessageDefn_channel_data + Zlength ch
  | RqDestination _ _ ch => OFF_DestinationMessageDefn_channel_data + Zlength ch
  | RqAddCounter _ key label => COUNTER_MESSAGE_LENGTH + 4 + align4 (Zlength key) + 4 + Zlength label
  | RqTerminateDriver tok => TERMINATE_DRIVER_LENGTH + Zlength tok
  | RqRemove _ _ => REMOVE_MESSAGE_LENGTH
  | RqKeepalive | RqClientClose => CORRELATED_MESSAGE_LENGTH
  end.

(* the closure each DriverProxy method passes to write_command_to_driver: fills the zeroed scratch
   buffer and reports the message length; `corr` is the correlation id on the wire *)
Definition fill (cl corr : Z) (r : request) : outcome (bytes * Z) :=
  let b0 := zeros CMD_BUF in
  match r with
  | RqAddPublication _ ch stream =>
      let b := set_i64 b0 OFF_client_id cl in
      let b := set_i64 b OFF_correlation_id corr in
      let b := set_i32 b OFF_PublicationMessageDefn_stream_id stream in
      b <- bput_string b OFF_PublicationMessageDefn_channel_length ch ;;
      Ok (b, OFF_PublicationMessageDefn_channel_data + get_i32 b OFF_PublicationMessageDefn_channel_length)
  | RqRemove _ reg =>
      let b := set_i64 b0 OFF_client_id cl in
      let b := set_i64 b OFF_correlation_id corr in
      let b := set_i64 b OFF_RemoveMessageDefn_registration_id reg in
      Ok (b, REMOVE_MESSAGE_LENGTH)
  | RqAddSubscription ch stream =>
      let b := set_i64 b0 OFF_client_id cl in
      let b := set_i64 b OFF_SubscriptionMessageDefn_registration_correlation_id (-1) in
      let b := set_i64 b OFF_correlation_id corr in
      let b := set_i32 b OFF_SubscriptionMessageDefn_stream_id stream in
      b <- bput_string b OFF_SubscriptionMessageDefn_channel_length ch ;;
      Ok (b, OFF_SubscriptionMessageDefn_channel_data + get_i32 b OFF_SubscriptionMessageDefn_channel_length)
  | RqKeepalive | RqClientClose =>
      let b := set_i64 b0 OFF_client_id cl in
      let b := set_i64 b OFF_correlation_id corr in
      Ok (b, CORRELATED_MESSAGE_LENGTH)
  | RqDestination _ reg ch =>
      let b := set_i64 b0 OFF_client_id cl in
      let b := set_i64 b OFF_DestinationMessageDefn_registration_id reg in
      let b := set_i64 b OFF_correlation_id corr in
      b <- bput_string b OFF_DestinationMessageDefn_channel_length ch ;;
      Ok (b, OFF_DestinationMessageDefn_channel_data + get_i32 b OFF_DestinationMessageDefn_channel_length)
  | RqAddCounter type_id key label =>
      let b := set_i64 b0 OFF_client_id cl in
      let b := set_i64 b OFF_correlation_id corr in
      let b := set_i32 b OFF_CounterMessageDefn_type_id type_id in
      (* set_key_buffer: put::<i32>(key_length_offset, len); if len > 0 put_bytes(key_length_offset + 4, key) *)
      let klo := COUNTER_MESSAGE_LENGTH in
      b <- bput_i32 b klo (Zlength key) ;;
      b <- (if Zlength key >? 0 then bput_bytes b (klo + 4) key else Ok b) ;;
      (* label_length_offset: key_length_offset + 4 + align(key_length(), 4), key_length() read back *)
      let llo := klo + 4 + align4 (get_i32 b klo) in
      b <- bput_string b llo label ;;
      let llo' := klo + 4 + align4 (get_i32 b klo) in
      Ok (b, llo' + 4 + get_i32 b llo')
  | RqTerminateDriver tok =>
      let b := set_i64 b0 OFF_client_id cl in
      let b := set_i64 b OFF_correlation_id corr in
      let b := set_i32 b OFF_TerminateDriverDefn_token_length (Zlength tok) in
      b <- (if Zlength tok >? 0 then bput_bytes b TERMINATE_DRIVER_LENGTH tok else Ok b) ;;
      Ok (b, TERMINATE_DRIVER_LENGTH + get_i32 b OFF_TerminateDriverDefn_token_length)
  end.

(* one DriverProxy call on a fresh ring: the record (type, bytes) handed to ManyToOneRingBuffer::write,
   or the rejection.  `drawn` is the id next_correlation_id would hand out. *)
Definition encode_cmd (cl drawn : Z) (r : request) : outcome (cmd * bytes) :=
  if encoded_length r >? CMD_BUF then Err TooLong       (* ensure_command_fits, before anything else *)
  else
    f <- fill cl (wire_correlation_id drawn r) r ;;
    let '(b, len) := f in
    Ok (request_cmd r, slice b 0 len).

(* what a caller and the driver see of one call on a fresh ring whose correlation counter is c0
   (the proxy took c0 as its client id, so the next id is c0 + 1):
     API result (the correlation id for the calls that return one, 0 otherwise),
     the records in the ring as (type id, bytes), the ring's tail, the next correlation id *)
Definition RING_HEADER : Z := 8.
Definition proxy_call (c0 : Z) (r : request) : outcome Z * list (Z * bytes) * Z * Z :=
  let cl := c0 in
  let drawn := wrap64 (c0 + 1) in
  match encode_cmd cl drawn r with
  | Ok (c, bs) =>
      let next := if draws_correlation_id r then wrap64 (c0 + 2) else drawn in
      (Ok (if draws_correlation_id r then drawn else 0), [(to_id c, bs)], align (Zlength bs + RING_HEADER) 8, next)
  | Err e => (Err e, [], 0, drawn)
  | Panic => (Panic, [], 0, if draws_correlation_id r then wrap64 (c0 + 2) else drawn)
  | Hang => (Hang, [], 0, drawn) | Crash => (Crash, [], 0, drawn)
  end.

(* ---------------- specification: the protocol's layouts, literal offsets ---------------- *)
(*   CorrelatedMessage     client_id i64 @0, correlation_id i64 @8                                   (16 bytes)
     PublicationMessage    + stream_id i32 @16, channel string @20
     SubscriptionMessage   + registration_correlation_id i64 @16, stream_id i32 @24, channel string @28
     RemoveMessage         + registration_id i64 @16                                                 (24 bytes)
     DestinationMessage    + registration_correlation_id i64 @16, channel string @24
     CounterMessage        + type_id i32 @16, key length i32 @20, key bytes @24, label length at the next
                             4-byte aligned offset after the key, label bytes
     TerminateDriver       + token length i32 @16, token bytes @20
   A string is an i32 length followed by that many bytes; the record ends with its last field. *)
Definition get_lstr (bs : bytes) (off : Z) : option (bytes * Z) :=
  let len := get_i32 bs off in
  if (0 <=? len) && (off + 4 + len <=? Zlength bs) then Some (slice bs (off + 4) len, off + 4 + len) else None.

Definition decode_body (t : Z) (bs : bytes) : option request :=
  if (t =? 1) || (t =? 3) then
    if 20 <=? Zlength bs then
      match get_lstr bs 20 with
      | Some (ch, e) => if e =? Zlength bs then Some (RqAddPublication (t =? 3) ch (get_i32 bs 16)) else None
      | None => None
      end
    else None
  else if (t =? 2) || (t =? 5) || (t =? 10) then
    if Zlength bs =? 24 then
      Some (RqRemove (if t =? 2 then RmPublication else if t =? 5 then RmSubscription else RmCounter) (get_i64 bs 16))
    else None
  else if t =? 4 then
    if 28 <=? Zlength bs then
      match get_lstr bs 28 with
      | Some (ch, e) =>
          if (e =? Zlength bs) && (get_i64 bs 16 =? -1) then Some (RqAddSubscription ch (get_i32 bs 24)) else None
      | None => None
      end
    else None
  else if t =? 6 then (if Zlength bs =? 16 then Some RqKeepalive else None)
  else if t =? 11 then (if Zlength bs =? 16 then Some RqClientClose else None)
  else if (t =? 7) || (t =? 8) || (t =? 12) || (t =? 13) then
    if 24 <=? Zlength bs then
      match get_lstr bs 24 with
      | Some (ch, e) =>
          if e =? Zlength bs then
            Some (RqDestination (if t =? 7 then DsAdd else if t =? 8 then DsRemove else if t =? 12 then DsAddRcv else DsRemoveRcv)
                                (get_i64 bs 16) ch)
          else None
      | None => None
      end
    else None
  else if t =? 9 then
    if 20 <=? Zlength bs then
      match get_lstr bs 20 with
      | Some (key, e) =>
          let lo := align4 e in
          match get_lstr bs lo with
          | Some (label, e2) => if e2 =? Zlength bs then Some (RqAddCounter (get_i32 bs 16) key label) else None
          | None => None
          end
      | None => None
      end
    else None
  else if t =? 14 then
    if 16 <=? Zlength bs then
      match get_lstr bs 16 with
      | Some (tok, e) => if e =? Zlength bs then Some (RqTerminateDriver tok) else None
      | None => None
      end
    else None
  else None.

(* (client id, correlation id, request) of a record *)
Definition decode_cmd_spec (t : Z) (bs : bytes) : option (Z * Z * request) :=
  if 16 <=? Zlength bs then
    match decode_body t bs with
    | Some r => Some (get_i64 bs 0, get_i64 bs 8, r)
    | None => None
    end
  else None.

(* the protocol's length of a request's record *)
Definition spec_length (r : request) : Z :=
  match r with
  | RqAddPublication _ ch _ => 24 + Zlength ch
  | RqAddSubscription ch _ => 32 + Zlength ch
  | RqDestination _ _ ch => 28 + Zlength ch
  | RqAddCounter _ key label => 24 + align4 (Zlength key) + 4 + Zlength label
  | RqTerminateDriver tok => 20 + Zlength tok
  | RqRemove _ _ => 24
  | RqKeepalive | RqClientClose => 16
  end.

(* the protocol-side encoder: the record as a field list (a string = i32 length, then the bytes) *)
Definition request_fields (cl corr : Z) (r : request) : list field :=
  match r with
  | RqAddPublication _ ch s => [FI64 cl; FI64 corr; FI32 s; FI32 (Zlength ch); FRaw ch]
  | RqRemove _ reg => [FI64 cl; FI64 corr; FI64 reg]
  | RqAddSubscription ch s => [FI64 cl; FI64 corr; FI64 (-1); FI32 s; FI32 (Zlength ch); FRaw ch]
  | RqKeepalive | RqClientClose => [FI64 cl; FI64 corr]
  | RqDestination _ reg ch => [FI64 cl; FI64 corr; FI64 reg; FI32 (Zlength ch); FRaw ch]
  | RqAddCounter t key label =>
      [FI64 cl; FI64 corr; FI32 t; FI32 (Zlength key); FRaw key; FPad (pad4 (Zlength key)); FI32 (Zlength label); FRaw label]
  | RqTerminateDriver tok => [FI64 cl; FI64 corr; FI32 (Zlength tok); FRaw tok]
  end.
Definition encode_cmd_spec (cl corr : Z) (r : request) : bytes := fencs (request_fields cl corr r).

Definition wf_request (r : request) : bool :=
  match r with
  | RqAddPublication _ ch s => all_bytes ch && in_i32 s
  | RqRemove _ reg => in_i64 reg
  | RqAddSubscription ch s => all_bytes ch && in_i32 s
  | RqDestination _ reg ch => in_i64 reg && all_bytes ch
  | RqAddCounter t key label => in_i32 t && all_bytes key && all_bytes label
  | RqTerminateDriver tok => all_bytes tok
  | RqKeepalive | RqClientClose => true
  end.

Definition request_eq_dec (a b : request) : {a = b} + {a <> b}.
Proof. repeat decide equality. Defined.
