(* C13, sequences: several DriverProxy calls on one to-driver ring that is drained only now and
   then.  `ring` is a deliberately small model of what ManyToOneRingBuffer::write accepts and what
   ::read hands out when one thread uses it (positions, the cached head, the queue of records and
   padding records); it is meant to be replaced by the full ring model of C06 (Model/Ring.v).
   Definitions only. *)
Require Import V.Base.MachineInt.
Require Import V.Model.WireBytes V.Model.WireCodes V.Model.WireCommands.
Open Scope Z_scope.

Inductive entry := EPad (len : Z) | ERec (t : Z) (bs : bytes).
Record ring := { cap : Z; head : Z; tail : Z; hcache : Z; q : list entry }.

Definition fresh_ring (capacity : Z) : ring := {| cap := capacity; head := 0; tail := 0; hcache := 0; q := [] |}.

Definition aligned_record (len : Z) : Z := align (len + RING_HEADER) 8.

(* ManyToOneRingBuffer::claim without contention: Some (cached head afterwards, padding) or None
   (RingBufferError::InsufficientCapacity) *)
Definition ring_claim (r : ring) (required : Z) : option (Z * Z) :=
  let hc1 :=
    if required >? cap r - (tail r - hcache r) then
      if required >? cap r - (tail r - head r) then None else Some (head r)
    else Some (hcache r) in
  match hc1 with
  | None => None
  | Some hc =>
      let to_end := cap r - tail r mod cap r in
      if required >? to_end then
        if required >? hc mod cap r then
          if required >? head r mod cap r then None else Some (head r, to_end)
        else Some (hc, to_end)
      else Some (hc, 0)
  end.

(* ManyToOneRingBuffer::write: check_msg_length (max_msg_len = capacity / 8), claim, copy.
   None = the write was refused (MessageTooLong or InsufficientCapacity). *)
Definition ring_write (r : ring) (t : Z) (bs : bytes) : option ring :=
  if Zlength bs >? cap r / 8 then None
  else
    let required := aligned_record (Zlength bs) in
    match ring_claim r required with
    | None => None
    | Some (hc, padding) =>
        Some {| cap := cap r; head := head r; tail := tail r + required + padding; hcache := hc;
                q := q r ++ (if padding =? 0 then [] else [EPad padding]) ++ [ERec t bs] |}
    end.

(* ManyToOneRingBuffer::read(handler, limit): records from the head up to the end of the buffer,
   at most `limit` messages; padding records are consumed silently *)
Fixpoint read_loop (block : Z) (es : list entry) (bytes_read msgs limit : Z) : list (Z * bytes) * list entry * Z :=
  match es with
  | [] => ([], [], bytes_read)
  | e :: es' =>
      if (bytes_read <? block) && (msgs <? limit) then
        match e with
        | EPad l => read_loop block es' (bytes_read + align l 8) msgs limit
        | ERec t bs =>
            let '(rs, rest, br) := read_loop block es' (bytes_read + aligned_record (Zlength bs)) (msgs + 1) limit in
            ((t, bs) :: rs, rest, br)
        end
      else ([], es, bytes_read)
  end.
Definition ring_read (r : ring) (limit : Z) : list (Z * bytes) * ring :=
  let '(rs, rest, br) := read_loop (cap r - head r mod cap r) (q r) 0 0 limit in
  (rs, {| cap := cap r; head := head r + br; tail := tail r; hcache := hcache r; q := rest |}).

(* ---- the proxy on top of it ---- *)
Inductive op := OpCall (r : request) | OpDrain (limit : Z).
Inductive step_obs := Call (res : outcome Z) | Drained (recs : list (Z * bytes)).

Record proxy_state := { ps_ring : ring; ps_next : Z }.

(* one DriverProxy call: ensure_command_fits; next_correlation_id (for the calls that draw one);
   encode into the scratch buffer; ring write, whose refusal becomes
   IllegalStateError::CouldNotWriteCommandToDriver *)
Definition proxy_step_call (cl : Z) (s : proxy_state) (r : request) : outcome Z * proxy_state :=
  if encoded_length r >? CMD_BUF then (Err TooLong, s)
  else
    let drawn := ps_next s in
    let next' := if draws_correlation_id r then wrap64 (drawn + 1) else drawn in
    match encode_cmd cl drawn r with
    | Ok (c, bs) =>
        match ring_write (ps_ring s) (to_id c) bs with
        | Some rg => (Ok (if draws_correlation_id r then drawn else 0), {| ps_ring := rg; ps_next := next' |})
        | None => (Err IllegalState, {| ps_ring := ps_ring s; ps_next := next' |})
        end
    | Err e => (Err e, s)
    | Panic => (Panic, {| ps_ring := ps_ring s; ps_next := next' |})
    | Hang => (Hang, s) | Crash => (Crash, s)
    end.

Definition proxy_step (cl : Z) (s : proxy_state) (o : op) : step_obs * proxy_state :=
  match o with
  | OpCall r => let '(res, s') := proxy_step_call cl s r in (Call res, s')
  | OpDrain limit =>
      let '(rs, rg) := ring_read (ps_ring s) limit in (Drained rs, {| ps_ring := rg; ps_next := ps_next s |})
  end.

Fixpoint proxy_run (cl : Z) (s : proxy_state) (ops : list op) : list step_obs * proxy_state :=
  match ops with
  | [] => ([], s)
  | o :: ops' =>
      let '(ob, s1) := proxy_step cl s o in
      let '(obs, s2) := proxy_run cl s1 ops' in (ob :: obs, s2)
  end.

(* a client created on a ring of `capacity` bytes whose correlation counter stood at c0:
   the observations of the steps, then tail, head and the next correlation id *)
Definition proxy_seq (c0 capacity : Z) (ops : list op) : list step_obs * Z * Z * Z :=
  let '(obs, s) := proxy_run c0 {| ps_ring := fresh_ring capacity; ps_next := wrap64 (c0 + 1) |} ops in
  (obs, tail (ps_ring s), head (ps_ring s), ps_next s).
