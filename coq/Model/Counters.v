(* Model of src/concurrent/counters.rs (CountersManager, CountersReader, CountersReaderIter)
   and of the two counter look-ups of src/heartbeat_timestamp.rs.

   The model describes the code with the three repairs of fixes/C15-*.diff applied
   (validate_counter_id uses `>=` against the slot count of both buffers, the iterator skips
   reclaimed records, allocate_opt validates its arguments and the capacity before it takes an id).
   The order of effects of the code *before* the repair is kept as [allocate_opt_v0] /
   [validate_v0] / [iter_v0] together with the witnesses that refute the property on it
   (Proofs/CountersProofs.v, section "the unrepaired code").

   State is structured: one record per 512-byte metadata slot, one u64 per 128-byte value slot.
   Buffer capacities are exact multiples of the record lengths (nm, nv = slot counts).
   Every buffer access goes through [meta_access] / [val_access], which perform the i32 offset
   arithmetic of the source and AtomicBuffer::bounds_check; an i32 overflow in an offset is
   [CPanic] (that is the debug build; the theorems show that no offset overflows on the quantified
   domain, where the release build then computes the same numbers).
   A negative offset is [CPanic] as well: no operation of the repaired code passes one to the
   buffer, and `free` / `set_counter_value` on ids that are not live are outside the API contract.
   Definitions only. *)
Require Import V.Base.MachineInt.
Require Import V.Generated.GenConsts.
Open Scope Z_scope.

Definition CL : Z := GenConsts.COUNTER_LENGTH.        (* 128 *)
Definition ML : Z := GenConsts.METADATA_LENGTH.       (* 512 *)
Definition MAXLAB : Z := GenConsts.MAX_LABEL_LENGTH.  (* 380 *)
Definition MAXKEY : Z := GenConsts.MAX_KEY_LENGTH.    (* 112 *)
Definition ST_UNUSED : Z := GenConsts.RECORD_UNUSED.
Definition ST_ALLOCATED : Z := GenConsts.RECORD_ALLOCATED.
Definition ST_RECLAIMED : Z := GenConsts.RECORD_RECLAIMED.
Definition NOT_FREE : Z := GenConsts.NOT_FREE_TO_REUSE.
Definition OFF_TYPE : Z := GenConsts.TYPE_ID_OFFSET.
Definition OFF_DEADLINE : Z := GenConsts.FREE_TO_REUSE_DEADLINE_OFFSET.
Definition OFF_KEY : Z := GenConsts.KEY_OFFSET.
Definition OFF_LLEN : Z := GenConsts.LABEL_LENGTH_OFFSET.

(* ---- results: the IllegalArgumentError kinds of the counters code are kept apart ---- *)
Inductive cerr :=
| LabelNotConvertible | LabelTooLong | KeyAmbiguous | KeyTooLong | ValuesFull | MetaFull | IdOutOfRange.

Inductive cres (A : Type) := COk (a : A) | CErr (e : cerr) | CPanic.
Arguments COk {A} a. Arguments CErr {A} e. Arguments CPanic {A}.

Definition bindC {A B} (x : cres A) (f : A -> cres B) : cres B :=
  match x with COk a => f a | CErr e => CErr e | CPanic => CPanic end.
Notation "x <~ e ;; k" := (bindC e (fun x => k)) (at level 61, e at next level, right associativity).

Definition is_panic {A} (x : cres A) : bool := match x with CPanic => true | _ => false end.

(* ---- state ---- *)
Record rec := mkrec {
  r_state : Z; r_type : Z; r_deadline : Z;      (* i32, i32, u64 *)
  r_key : list Z;                               (* the 112 key bytes *)
  r_llen : Z;                                   (* i32 label length *)
  r_label : list Z }.                           (* the 380 label bytes *)

Definition rec0 : rec := mkrec 0 0 0 (repeat 0 112) 0 (repeat 0 380).

Record mgr := mkmgr {
  nm : Z; nv : Z;                 (* slot counts of the metadata / values buffer *)
  meta : Z -> rec; vals : Z -> Z;
  free_list : list Z; hwm : Z;
  now : Z; timeout : Z }.         (* the injected clock's current value; free_to_reuse_timeout_ms *)

Definition mgr0 (nm nv timeout : Z) : mgr :=
  mkmgr nm nv (fun _ => rec0) (fun _ => 0) [] 0 0 timeout.

Definition mcap (s : mgr) : Z := nm s * ML.
Definition vcap (s : mgr) : Z := nv s * CL.

Definition upd {A} (f : Z -> A) (i : Z) (x : A) : Z -> A := fun j => if j =? i then x else f j.

Definition set_meta (s : mgr) (id : Z) (r : rec) : mgr :=
  mkmgr (nm s) (nv s) (upd (meta s) id r) (vals s) (free_list s) (hwm s) (now s) (timeout s).
Definition set_val (s : mgr) (id v : Z) : mgr :=
  mkmgr (nm s) (nv s) (meta s) (upd (vals s) id v) (free_list s) (hwm s) (now s) (timeout s).
Definition set_free_list (s : mgr) (l : list Z) : mgr :=
  mkmgr (nm s) (nv s) (meta s) (vals s) l (hwm s) (now s) (timeout s).
Definition set_hwm (s : mgr) (h : Z) : mgr :=
  mkmgr (nm s) (nv s) (meta s) (vals s) (free_list s) h (now s) (timeout s).
Definition set_now (s : mgr) (t : Z) : mgr :=
  mkmgr (nm s) (nv s) (meta s) (vals s) (free_list s) (hwm s) t (timeout s).

Definition with_state (r : rec) (v : Z) := mkrec v (r_type r) (r_deadline r) (r_key r) (r_llen r) (r_label r).
Definition with_type_deadline (r : rec) (t d : Z) := mkrec (r_state r) t d (r_key r) (r_llen r) (r_label r).
Definition with_deadline (r : rec) (d : Z) := mkrec (r_state r) (r_type r) d (r_key r) (r_llen r) (r_label r).
(* put_bytes of [new] at the start of an area holding [old] *)
Definition overwrite (old new : list Z) : list Z := new ++ skipn (length new) old.
Definition with_key (r : rec) (k : list Z) :=
  mkrec (r_state r) (r_type r) (r_deadline r) (overwrite (r_key r) k) (r_llen r) (r_label r).
Definition with_label (r : rec) (l : list Z) :=
  mkrec (r_state r) (r_type r) (r_deadline r) (r_key r) (Z.of_nat (length l)) (overwrite (r_label r) l).

(* ---- i32 offset arithmetic and AtomicBuffer::bounds_check ---- *)
Definition imul (a b : Z) : cres Z := if in_i32 (a * b) then COk (a * b) else CPanic.
Definition iadd (a b : Z) : cres Z := if in_i32 (a + b) then COk (a + b) else CPanic.
Definition bcheck (cap idx len : Z) : cres unit :=
  e <~ iadd idx len ;; if (0 <=? idx) && (0 <=? len) && (e <=? cap) then COk tt else CPanic.

(* CountersReader::metadata_offset / counter_offset *)
Definition metadata_offset (id : Z) : cres Z := imul id ML.
Definition counter_offset (id : Z) : cres Z := imul id CL.

(* an access of [len] bytes at offset [fo] inside metadata record [id] *)
Definition meta_access (s : mgr) (id fo len : Z) : cres rec :=
  off <~ metadata_offset id ;; a <~ iadd off fo ;; _ <~ bcheck (mcap s) a len ;; COk (meta s id).
Definition val_access (s : mgr) (id : Z) : cres Z :=
  off <~ counter_offset id ;; _ <~ bcheck (vcap s) off 8 ;; COk (vals s id).

(* AtomicBuffer::get_string at the label of record [id]: length word, then that many bytes.
   A length outside 0..380 would read past the record (or, negative, build a slice of 2^64 - n
   bytes); the structured state cannot express that and says CPanic - the theorems show the
   manager never stores such a length. *)
Definition get_label (s : mgr) (id : Z) : cres (list Z) :=
  r <~ meta_access s id OFF_LLEN 4 ;;
  let n := r_llen r in
  if (n <? 0) || (n >? MAXLAB) then CPanic else
  _ <~ meta_access s id (OFF_LLEN + 4) n ;;
  COk (firstn (Z.to_nat n) (r_label r)).

(* ---- state-and-result monad: the state at the point of failure is kept ---- *)
Definition M (A : Type) := mgr -> cres A * mgr.
Definition retM {A} (a : A) : M A := fun s => (COk a, s).
Definition failM {A} (e : cerr) : M A := fun s => (CErr e, s).
Definition bindM {A B} (x : M A) (f : A -> M B) : M B := fun s =>
  match x s with
  | (COk a, s1) => f a s1
  | (CErr e, s1) => (CErr e, s1)
  | (CPanic, s1) => (CPanic, s1)
  end.
Notation "x <- e ;;; k" := (bindM e (fun x => k)) (at level 61, e at next level, right associativity).
Definition readM {A} (f : mgr -> cres A) : M A := fun s => (f s, s).
Definition modM (f : mgr -> mgr) : M unit := fun s => (COk tt, f s).

(* ---- CountersManager ---- *)
Inductive keysrc := KNone | KOpt (k : list Z) | KFunc (k : list Z) | KBoth (k1 k2 : list Z).

Definition has_nul (l : list Z) : bool := existsb (Z.eqb 0) l.
Definition zlen {A} (l : list A) : Z := Z.of_nat (length l).
Definition key_ambiguous (ks : keysrc) : bool := match ks with KBoth _ _ => true | _ => false end.
Definition key_too_long (ks : keysrc) : bool :=
  match ks with KOpt k => zlen k >? MAXKEY | KBoth k _ => zlen k >? MAXKEY | _ => false end.

Definition check_counters_capacity (s : mgr) (id : Z) : cres unit :=
  o <~ counter_offset id ;; e <~ iadd o CL ;; if e >? vcap s then CErr ValuesFull else COk tt.
Definition check_meta_data_capacity (s : mgr) (off : Z) : cres unit :=
  e <~ iadd off ML ;; if e >? mcap s then CErr MetaFull else COk tt.

(* now_ms as i64 >= get_volatile::<i64>(metadata_offset(id) + FREE_TO_REUSE_DEADLINE_OFFSET) *)
Definition reusable (s : mgr) (id : Z) : cres bool :=
  r <~ meta_access s id OFF_DEADLINE 8 ;; COk (wrap64 (r_deadline r) <=? wrap64 (now s)).

(* free_list.iter().enumerate().find(..) then free_list.remove(index) *)
Fixpoint find_reusable (s : mgr) (l : list Z) : cres (option (Z * list Z)) :=
  match l with
  | [] => COk None
  | id :: tl =>
      b <~ reusable s id ;;
      if b then COk (Some (id, tl)) else
      r <~ find_reusable s tl ;;
      COk (match r with Some (x, rest) => Some (x, id :: rest) | None => None end)
  end.

Definition put_val (id v : Z) : M unit := fun s =>
  match val_access s id with COk _ => (COk tt, set_val s id v) | CErr e => (CErr e, s) | CPanic => (CPanic, s) end.
Definition put_meta (id fo len : Z) (f : rec -> rec) : M unit := fun s =>
  match meta_access s id fo len with
  | COk r => (COk tt, set_meta s id (f r)) | CErr e => (CErr e, s) | CPanic => (CPanic, s) end.

(* next_counter_id of the repaired code: the high water mark moves only when the slot exists *)
Definition next_counter_id : M Z :=
  f <- readM (fun s => find_reusable s (free_list s)) ;;;
  match f with
  | Some (id, rest) =>
      _ <- modM (fun s => set_free_list s rest) ;;;
      _ <- put_val id 0 ;;;
      retM id
  | None =>
      id <- readM (fun s => COk (hwm s)) ;;;
      _ <- readM (fun s => check_counters_capacity s id) ;;;
      off <- readM (fun _ => metadata_offset id) ;;;
      _ <- readM (fun s => check_meta_data_capacity s off) ;;;
      h <- readM (fun _ => iadd id 1) ;;;
      _ <- modM (fun s => set_hwm s h) ;;;
      retM id
  end.

Definition write_record (id type_id : Z) (ks : keysrc) (label : list Z) : M Z :=
  (* get::<CounterMetaDataDefn>, two fields changed, put back *)
  _ <- put_meta id 0 ML (fun r => with_type_deadline r type_id NOT_FREE) ;;;
  _ <- match ks with
       | KOpt k => put_meta id OFF_KEY (zlen k) (fun r => with_key r k)
       | KFunc k =>      (* view(record_offset + KEY_OFFSET, MAX_KEY_LENGTH), the callback writes k at 0 *)
           _ <- readM (fun s => meta_access s id OFF_KEY MAXKEY) ;;;
           if zlen k >? MAXKEY then (fun s => (CPanic, s)) else put_meta id OFF_KEY (zlen k) (fun r => with_key r k)
       | _ => retM tt
       end ;;;
  _ <- put_meta id OFF_LLEN (zlen label + 4) (fun r => with_label r label) ;;;
  _ <- put_meta id 0 4 (fun r => with_state r ST_ALLOCATED) ;;;
  retM id.

Definition allocate_opt (type_id : Z) (ks : keysrc) (label : list Z) : M Z :=
  if has_nul label then failM LabelNotConvertible else
  if zlen label >? MAXLAB then failM LabelTooLong else
  if key_ambiguous ks then failM KeyAmbiguous else
  if key_too_long ks then failM KeyTooLong else
  id <- next_counter_id ;;;
  write_record id type_id ks label.

(* the allocation up to and including the key (for KFunc: the point at which the user's key callback runs,
   after it has written its key) and the rest of it; [allocate_opt_via_mid] (Proofs/CountersProofs.v) shows
   that allocate_opt is the one followed by the other, so the state [alloc_mid] ends in is the state a reader
   scheduled during the key callback looks at *)
Definition write_head (id type_id : Z) (ks : keysrc) : M unit :=
  _ <- put_meta id 0 ML (fun r => with_type_deadline r type_id NOT_FREE) ;;;
  match ks with
  | KOpt k => put_meta id OFF_KEY (zlen k) (fun r => with_key r k)
  | KFunc k =>
      _ <- readM (fun s => meta_access s id OFF_KEY MAXKEY) ;;;
      if zlen k >? MAXKEY then (fun s => (CPanic, s)) else put_meta id OFF_KEY (zlen k) (fun r => with_key r k)
  | _ => retM tt
  end.
Definition write_tail (id : Z) (label : list Z) : M Z :=
  _ <- put_meta id OFF_LLEN (zlen label + 4) (fun r => with_label r label) ;;;
  _ <- put_meta id 0 4 (fun r => with_state r ST_ALLOCATED) ;;;
  retM id.
Definition alloc_mid (type_id : Z) (ks : keysrc) (label : list Z) : M Z :=
  if has_nul label then failM LabelNotConvertible else
  if zlen label >? MAXLAB then failM LabelTooLong else
  if key_ambiguous ks then failM KeyAmbiguous else
  if key_too_long ks then failM KeyTooLong else
  id <- next_counter_id ;;;
  _ <- write_head id type_id ks ;;;
  retM id.

(* free: record offset, clock() + timeout on u64, deadline, state, push_back *)
Definition free (m : mode) (id : Z) : M unit :=
  d <- readM (fun s => match addu64 m (now s) (timeout s) with Ok d => COk d | _ => CPanic end) ;;;
  _ <- put_meta id OFF_DEADLINE 8 (fun r => with_deadline r d) ;;;
  _ <- put_meta id 0 4 (fun r => with_state r ST_RECLAIMED) ;;;
  modM (fun s => set_free_list s (free_list s ++ [id])).

Definition set_counter_value (id v : Z) : M unit := put_val id v.

(* ---- CountersReader ---- *)
Definition max_counter_id (s : mgr) : Z := Z.min (vcap s / CL) (mcap s / ML).
Definition validate (s : mgr) (id : Z) : cres unit :=
  if (id <? 0) || (id >=? max_counter_id s) then CErr IdOutOfRange else COk tt.

Definition counter_value (s : mgr) (id : Z) : cres Z := _ <~ validate s id ;; val_access s id.
Definition counter_state (s : mgr) (id : Z) : cres Z :=
  _ <~ validate s id ;; r <~ meta_access s id 0 4 ;; COk (r_state r).
Definition free_to_reuse_deadline (s : mgr) (id : Z) : cres Z :=
  _ <~ validate s id ;; r <~ meta_access s id OFF_DEADLINE 8 ;; COk (r_deadline r).
Definition counter_label (s : mgr) (id : Z) : cres (list Z) := _ <~ validate s id ;; get_label s id.

(* for_each: one step per METADATA_LENGTH of the metadata buffer; stops at the first unused record,
   skips the others that are not allocated.  entry = (id, type_id, 112 key bytes, label) *)
Definition entry : Type := Z * Z * list Z * list Z.
Fixpoint for_each_from (s : mgr) (fuel : nat) (id : Z) : cres (list entry) :=
  match fuel with
  | O => COk []
  | S f =>
      r <~ meta_access s id 0 4 ;;
      if r_state r =? ST_UNUSED then COk []
      else if r_state r =? ST_ALLOCATED then
        _ <~ meta_access s id 0 ML ;;
        lab <~ get_label s id ;;
        rest <~ for_each_from s f (id + 1) ;;
        COk ((id, r_type r, r_key r, lab) :: rest)
      else for_each_from s f (id + 1)
  end.
Definition for_each (s : mgr) : cres (list entry) := for_each_from s (Z.to_nat (nm s)) 0.
Definition for_each_ids (s : mgr) : cres (list Z) :=
  l <~ for_each s ;; COk (map (fun e : entry => let '(id, _, _, _) := e in id) l).

(* CountersReaderIter collected until the first None; item = (type_id, key bytes, label_length bytes of label) *)
Definition item : Type := Z * list Z * list Z.
Definition iter_item (r : rec) : cres item :=
  if (r_llen r <? 0) || (r_llen r >? MAXLAB) then CPanic
  else COk (r_type r, r_key r, firstn (Z.to_nat (r_llen r)) (r_label r)).
Fixpoint iter_from (s : mgr) (fuel : nat) (pos : Z) : cres (list item) :=
  match fuel with
  | O => COk []
  | S f =>
      p <~ imul pos ML ;;
      if p >? mcap s - ML then COk [] else
      r <~ meta_access s pos 0 4 ;;
      if r_state r =? ST_UNUSED then COk []
      else if r_state r =? ST_RECLAIMED then iter_from s f (pos + 1)
      else if r_state r =? ST_ALLOCATED then
        _ <~ meta_access s pos 0 ML ;;
        it <~ iter_item r ;;
        rest <~ iter_from s f (pos + 1) ;;
        COk (it :: rest)
      else CPanic           (* unreachable!() *)
  end.
Definition iter (s : mgr) : cres (list item) := iter_from s (S (Z.to_nat (nm s))) 0.

(* ---- heartbeat_timestamp.rs ---- *)
Fixpoint le_bytes (l : list Z) : Z := match l with [] => 0 | b :: t => b + 256 * le_bytes t end.
Definition key_i64 (r : rec) : Z := wrap64 (le_bytes (firstn 8 (r_key r))).

(* for i in 0..max_counter_id: counter_state(i).expect(..) == ALLOCATED && key == registration_id && type == type_id *)
Fixpoint find_from (s : mgr) (fuel : nat) (i type_id reg : Z) : cres Z :=
  match fuel with
  | O => COk (-1)
  | S f =>
      st <~ match counter_state s i with COk v => COk v | _ => CPanic end ;;
      if st =? ST_ALLOCATED then
        r <~ meta_access s i OFF_KEY 8 ;;
        if reg =? key_i64 r then
          _ <~ meta_access s i OFF_TYPE 4 ;;
          if r_type r =? type_id then COk i else find_from s f (i + 1) type_id reg
        else find_from s f (i + 1) type_id reg
      else find_from s f (i + 1) type_id reg
  end.
Definition find_counter_id_by_registration_id (s : mgr) (type_id reg : Z) : cres Z :=
  find_from s (Z.to_nat (max_counter_id s)) 0 type_id reg.

Definition is_active (s : mgr) (id type_id reg : Z) : cres bool :=
  r <~ meta_access s id OFF_KEY 8 ;;
  if reg =? key_i64 r then
    _ <~ meta_access s id OFF_TYPE 4 ;;
    if r_type r =? type_id then
      st <~ match counter_state s id with COk v => COk v | _ => CPanic end ;;
      COk (st =? ST_ALLOCATED)
    else COk false
  else COk false.

(* ---- histories ---- *)
Inductive op :=
| Alloc (type_id : Z) (ks : keysrc) (label : list Z)
| Free (id : Z)
| SetVal (id v : Z)
| SetClock (t : Z)
| Dump
(* allocate_opt with a key callback that writes [k] and then looks at the counters through a reader on
   the same buffers (for_each, counter_state of the id being allocated), as a concurrent reader would *)
| AllocSnap (type_id : Z) (k : list Z) (label : list Z).

Fixpoint zrange (a : Z) (n : nat) : list Z := match n with O => [] | S k => a :: zrange (a + 1) k end.

(* ids the reader accessors are probed with at a Dump *)
Definition probe_ids (s : mgr) : list Z :=
  [- two31; -1] ++ zrange 0 (Z.to_nat (Z.max (nm s) (nv s) + 2)) ++ [two31 - 1].

(* digests used to keep the dumps small (harness/c15 computes the same numbers):
   polynomial hashes modulo 2^61 - 1; trailing zero bytes do not change [hash] *)
Definition HP : Z := 2305843009213693951.
Definition hash (l : list Z) : Z := fold_right (fun b acc => (b + 257 * acc) mod HP) 0 l.
Definition hashw (l : list Z) : Z := fold_right (fun w acc => (w + 1000003 * acc) mod HP) 0 l.
(* a byte list without its trailing zeros *)
Definition strip0 (l : list Z) : list Z :=
  fold_right (fun b acc => match acc with [] => if b =? 0 then [] else [b] | _ => b :: acc end) [] l.

(* unsigned little-endian 32-bit words of a byte area *)
Fixpoint words_of (l : list Z) : list Z :=
  match l with
  | a :: b :: c :: d :: t => (a + 256 * b + 65536 * c + 16777216 * d) :: words_of t
  | [] => []
  | _ => [le_bytes l]
  end.
Definition rec_words (r : rec) : list Z :=
  [r_state r mod two32; r_type r mod two32; r_deadline r mod two32; r_deadline r / two32]
  ++ words_of (r_key r) ++ [r_llen r mod two32] ++ words_of (r_label r).
Definition render_meta (s : mgr) : Z :=
  hashw (flat_map (fun id => rec_words (meta s id)) (zrange 0 (Z.to_nat (nm s)))).
Definition render_vals (s : mgr) : Z :=
  hashw (flat_map (fun id => [vals s id mod two32; vals s id / two32] ++ repeat 0 30) (zrange 0 (Z.to_nat (nv s)))).

Definition probe : Type := Z * cres Z * cres Z * cres Z * cres Z.
Definition probe_of (s : mgr) (id : Z) : probe :=
  (id, counter_value s id, counter_state s id, free_to_reuse_deadline s id,
   l <~ counter_label s id ;; COk (hash l)).

(* what a dump shows of an enumerated counter: the key without its trailing zeros *)
Definition entry_view (e : entry) : entry := let '(id, t, k, l) := e in (id, t, strip0 k, l).
Definition item_view (i : item) : Z * Z * Z := let '(t, k, l) := i in (t, hash k, hash l).

(* lookups tried at a Dump: for each enumerated counter its own (type, key) and a key that is absent *)
Definition lookups (s : mgr) : list (cres Z * cres bool) :=
  match for_each s with
  | COk l => map (fun e : entry => let '(id, t, k, _) := e in
                  let reg := wrap64 (le_bytes (firstn 8 k)) in
                  (find_counter_id_by_registration_id s t reg, is_active s id t reg)) l
             ++ [(find_counter_id_by_registration_id s 11 (-77), COk false)]
  | _ => []
  end.

Definition dump : Type :=
  cres (list entry) * cres (list (Z * Z * Z)) * list probe * list (cres Z * cres bool) * Z * Z.
Definition dump_of (s : mgr) : dump :=
  (l <~ for_each s ;; COk (map entry_view l), l <~ iter s ;; COk (map item_view l),
   map (probe_of s) (probe_ids s), lookups s, render_meta s, render_vals s).

Inductive obs :=
| OStep (res : cres Z) (val_after : cres Z) (ids : cres (list Z))
| ODump (d : dump)
(* as OStep, plus what the key callback saw (empty when the callback did not run): for_each ids, counter_state(id) *)
| OSnap (res : cres Z) (val_after : cres Z) (ids : cres (list Z)) (snap : list (cres (list Z) * cres Z)).

(* one operation: observation and next state *)
Definition step (m : mode) (o : op) (s : mgr) : obs * mgr :=
  match o with
  | Alloc t ks label =>
      let '(r, s1) := allocate_opt t ks label s in
      (OStep r (match r with COk id => counter_value s1 id | _ => COk 0 end) (for_each_ids s1), s1)
  | Free id =>
      let '(r, s1) := free m id s in
      (OStep (match r with COk _ => COk 0 | CErr e => CErr e | CPanic => CPanic end) (COk 0) (for_each_ids s1), s1)
  | SetVal id v =>
      let '(r, s1) := set_counter_value id v s in
      (OStep (match r with COk _ => COk 0 | CErr e => CErr e | CPanic => CPanic end) (COk 0) (for_each_ids s1), s1)
  | SetClock t => let s1 := set_now s t in (OStep (COk 0) (COk 0) (for_each_ids s1), s1)
  | Dump => (ODump (dump_of s), s)
  | AllocSnap t k label =>
      let '(r, s1) := allocate_opt t (KFunc k) label s in
      let snap := match alloc_mid t (KFunc k) label s with
                  | (COk id, sm) => [(for_each_ids sm, counter_state sm id)]
                  | _ => []
                  end in
      (OSnap r (match r with COk id => counter_value s1 id | _ => COk 0 end) (for_each_ids s1) snap, s1)
  end.

Definition obs_panicked (o : obs) : bool :=
  match o with OStep r _ _ => is_panic r | ODump _ => false | OSnap r _ _ _ => is_panic r end.

(* the history stops at the first operation that panics (the harness does the same) *)
Fixpoint run (m : mode) (ops : list op) (s : mgr) : list obs :=
  match ops with
  | [] => []
  | o :: rest => let '(ob, s1) := step m o s in
                 if obs_panicked ob then [ob] else ob :: run m rest s1
  end.
Fixpoint final (m : mode) (ops : list op) (s : mgr) : mgr :=
  match ops with
  | [] => s
  | o :: rest => let '(ob, s1) := step m o s in if obs_panicked ob then s1 else final m rest s1
  end.

(* deterministic labels / keys of the generators (harness/c15 computes the same bytes) *)
Definition mk_label (len seed nul : Z) : list Z :=
  map (fun i => if i =? nul then 0 else 33 + (seed * 31 + i * 7) mod 90) (zrange 0 (Z.to_nat len)).
(* a label of [len] bytes made of len/w UTF-8 characters of w bytes each (w = 2, 3, 4: U+00C0.., U+2080.., U+1F600..)
   followed by len mod w ASCII characters; w = 1 is [mk_label] without a NUL *)
Definition utf8_char (w c : Z) : list Z :=
  if w =? 2 then [195; 128 + c mod 64]
  else if w =? 3 then [226; 130; 128 + c mod 64]
  else [240; 159; 152; 128 + c mod 64].
Definition mk_label_u (len seed w : Z) : list Z :=
  if w <=? 1 then mk_label len seed (-1) else
  flat_map (fun c => utf8_char w (seed + c)) (zrange 0 (Z.to_nat (len / w)))
  ++ map (fun i => 33 + (seed * 31 + i * 7) mod 90) (zrange 0 (Z.to_nat (len mod w))).
Definition mk_key (len seed : Z) : list Z :=
  map (fun i => (seed * 31 + i * 7 + 1) mod 251) (zrange 0 (Z.to_nat len)).

(* ---- the code before the repairs (order of effects of the source at commit 2e01368) ---- *)
Definition next_counter_id_v0 : M Z :=
  f <- readM (fun s => find_reusable s (free_list s)) ;;;
  match f with
  | Some (id, rest) =>
      _ <- modM (fun s => set_free_list s rest) ;;;
      _ <- put_val id 0 ;;;
      retM id
  | None =>
      id <- readM (fun s => COk (hwm s)) ;;;
      h <- readM (fun _ => iadd id 1) ;;;
      _ <- modM (fun s => set_hwm s h) ;;;
      retM id
  end.

Definition allocate_opt_v0 (type_id : Z) (ks : keysrc) (label : list Z) : M Z :=
  id <- next_counter_id_v0 ;;;
  if has_nul label then failM LabelNotConvertible else
  if zlen label >? MAXLAB then failM LabelTooLong else
  _ <- readM (fun s => check_counters_capacity s id) ;;;
  off <- readM (fun _ => metadata_offset id) ;;;
  _ <- readM (fun s => check_meta_data_capacity s off) ;;;
  _ <- put_meta id 0 ML (fun r => with_type_deadline r type_id NOT_FREE) ;;;
  if key_ambiguous ks then failM KeyAmbiguous else
  if key_too_long ks then failM KeyTooLong else
  _ <- match ks with
       | KOpt k => put_meta id OFF_KEY (zlen k) (fun r => with_key r k)
       | KFunc k =>
           _ <- readM (fun s => meta_access s id OFF_KEY MAXKEY) ;;;
           if zlen k >? MAXKEY then (fun s => (CPanic, s)) else put_meta id OFF_KEY (zlen k) (fun r => with_key r k)
       | _ => retM tt
       end ;;;
  _ <- put_meta id OFF_LLEN (zlen label + 4) (fun r => with_label r label) ;;;
  _ <- put_meta id 0 4 (fun r => with_state r ST_ALLOCATED) ;;;
  retM id.

(* max_counter_id = values capacity / COUNTER_LENGTH, test `id > max_counter_id` *)
Definition validate_v0 (s : mgr) (id : Z) : cres unit :=
  if (id <? 0) || (id >? vcap s / CL) then CErr IdOutOfRange else COk tt.
Definition counter_value_v0 (s : mgr) (id : Z) : cres Z := _ <~ validate_v0 s id ;; val_access s id.
Definition counter_state_v0 (s : mgr) (id : Z) : cres Z :=
  _ <~ validate_v0 s id ;; r <~ meta_access s id 0 4 ;; COk (r_state r).

(* the iterator stopped at the first reclaimed record *)
Fixpoint iter_from_v0 (s : mgr) (fuel : nat) (pos : Z) : cres (list item) :=
  match fuel with
  | O => COk []
  | S f =>
      p <~ imul pos ML ;;
      if p >? mcap s - ML then COk [] else
      r <~ meta_access s pos 0 4 ;;
      if (r_state r =? ST_UNUSED) || (r_state r =? ST_RECLAIMED) then COk []
      else if r_state r =? ST_ALLOCATED then
        _ <~ meta_access s pos 0 ML ;;
        it <~ iter_item r ;;
        rest <~ iter_from_v0 s f (pos + 1) ;;
        COk (it :: rest)
      else CPanic
  end.
Definition iter_v0 (s : mgr) : cres (list item) := iter_from_v0 s (S (Z.to_nat (nm s))) 0.

(* the "flood" case of the harness: fill the manager, then any number of further allocations - each
   returns an error and changes nothing (Proofs/CountersProofs.v allocate_err_unchanged), so their
   number does not matter - then one more; observation as harness/c15 case_flood prints it *)
Definition flood_obs (nm nv : Z) : Z * Z * cres Z * cres (list Z) * cres Z :=
  let n := Z.min nm nv in
  let fill := map (fun i => Alloc 0 KNone (mk_label 2 i (-1))) (zrange 0 (Z.to_nat n)) in
  let s := final Debug fill (mgr0 nm nv 10) in
  let '(r, s1) := allocate_opt 0 KNone [108; 97; 115; 116] s in
  (n, 0, r, for_each_ids s1, l <~ counter_label s1 0 ;; COk (hash l)).
