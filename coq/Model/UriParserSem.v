(* C19 - the syntax tree the K1 translator (tools/props/c19parser_translate.py) reads off
   `ChannelUri::parse`, `Display for ChannelUri` and `ChannelUri::add_session_id` in src/channel_uri.rs
   (written to coq/Generated/GenUriParser.v on every run), and its meaning: an interpreter for the
   statement forms the three functions are written in.  Definitions only; that the interpreter run on
   the generated trees is the hand-written model of Model/Uri.v, for every input, is proved in
   Proofs/UriParserGenProofs.v - so a changed arm of the Rust text breaks a proof obligation.

   The translator only transcribes syntax (it renames the `String` locals to their declaration index and
   sorts the fields of an error literal by name); what a statement *does* is defined here. Anything outside
   these forms is not translated (the translator fails closed and emits `stuck_parser`). *)
Require Import V.Base.MachineInt.
Require Import V.Model.UriTypes.
Require Import V.Model.Uri.
Open Scope Z_scope.

(* ---- syntax ------------------------------------------------------------------------------------ *)

(* a `String` local is referred to by the index of its `let mut x = String::new();` *)
Inductive sexp :=
| ETake (v : nat)        (* std::mem::take(&mut v) : yields v, leaves "" *)
| EMove (v : nat)        (* v *)
| EClone (v : nat).      (* v.clone() *)

Inductive cexp :=
| CChar (c : Z)                  (* c == 'x' *)
| CIsEmpty (v : nat)             (* v.is_empty() *)
| CEqConst (v : nat) (k : str)   (* v == CONST *)
| CNotE (a : cexp) | CAndE (a b : cexp) | COrE (a b : cexp).

(* value of a field of an error literal *)
Inductive fexp :=
| FChar                  (* c *)
| FIndexPlusPos          (* index + position *)
| FOrigUri               (* orig_uri.to_string() *)
| FVar (v : nat)         (* a String local *)
| FState.                (* state *)

(* `IllegalStateError::Variant { field: value, .. }` / `IllegalArgumentError::Variant(value)`;
   the fields of a tuple variant are called "0", "1", ..; fields sorted by name *)
Inductive gerr := GErr (cls variant : string) (fields : list (string * fexp)).

Inductive stmt :=
| SMatchState (arms : sarms)               (* match state { State::A => .., _ => .. } *)
| SMatchChar (arms : carms)                (* match c { 'x' | 'y' => .., _ => .. } *)
| SIf (c : cexp) (t e : block)             (* if c { t } else { e } *)
| SAssign (v : nat) (e : sexp)             (* v = e; *)
| SSetState (s : string)                   (* state = State::S; *)
| SPush (v : nat)                          (* v.push(c); *)
| SInsert (k v : sexp)                     (* params.insert(k, v); *)
| SReturnErr (e : gerr)                    (* return Err(e.into()); *)
with block := BNil | BCons (s : stmt) (b : block)
with sarms := SANil | SACons (pat : option string) (b : block) (r : sarms)        (* None = `_` *)
with carms := CANil | CACons (pat : option (list Z)) (b : block) (r : carms).     (* None = `_` *)

(* `let position = ..` *)
Inductive pexp :=
| PNum (z : Z) | PLen (k : str) (* CONST.len() *) | PAdd (a b : pexp)
| PIfPrefixEmpty (a b : pexp).   (* if prefix.is_empty() { a } else { b } *)

Record parser := {
  gp_states : list string;        (* variants of `enum State` *)
  (* let (uri, prefix) = orig_uri.strip_prefix(A).map(|uri| (uri, B)).unwrap_or((orig_uri, C)); *)
  gp_spy_prefix : str;  gp_spy_qualifier : str;  gp_no_prefix : str;
  (* let uri = uri.strip_prefix(A).ok_or_else(|| E)?; *)
  gp_scheme_prefix : str;  gp_scheme_err : gerr;
  gp_position : pexp;
  gp_nstrings : nat;              (* number of `let mut x = String::new();` *)
  gp_init_state : string;         (* let mut state = State::S; *)
  gp_body : block;                (* body of `for (index, c) in uri.chars().enumerate()` *)
  gp_finish : block;              (* the statements between the loop and the final `Ok(..)` *)
  gp_result_media : nat           (* Ok(Arc::new(Mutex::new(ChannelUri::new(String::from(prefix), <this local>, params)))) *)
}.

(* ---- meaning ----------------------------------------------------------------------------------- *)

Record menv := { m_strs : list str; m_params : params; m_state : string }.

Inductive mres := MGo (e : menv) | MRet (r : perr) | MStuck.

Fixpoint set_nth (n : nat) (x : str) (l : list str) : option (list str) :=
  match n, l with
  | O, _ :: r => Some (x :: r)
  | S n', y :: r => match set_nth n' x r with Some r' => Some (y :: r') | None => None end
  | _, [] => None
  end.

Definition get_str (e : menv) (v : nat) : option str := nth_error (m_strs e) v.
Definition set_str (e : menv) (v : nat) (x : str) : option menv :=
  match set_nth v x (m_strs e) with
  | Some l => Some {| m_strs := l; m_params := m_params e; m_state := m_state e |}
  | None => None
  end.

Definition eval_sexp (x : sexp) (e : menv) : option (str * menv) :=
  match x with
  | ETake v => match get_str e v, set_str e v [] with Some s, Some e' => Some (s, e') | _, _ => None end
  | EMove v | EClone v => match get_str e v with Some s => Some (s, e) | None => None end
  end.

Fixpoint eval_cexp (cur : option (Z * Z)) (c : cexp) (e : menv) : option bool :=
  match c with
  | CChar x => match cur with Some (ch, _) => Some (ch =? x) | None => None end
  | CIsEmpty v => match get_str e v with Some s => Some (is_empty s) | None => None end
  | CEqConst v k => match get_str e v with Some s => Some (str_eqb s k) | None => None end
  | CNotE a => match eval_cexp cur a e with Some b => Some (negb b) | None => None end
  | CAndE a b => match eval_cexp cur a e, eval_cexp cur b e with Some x, Some y => Some (x && y) | _, _ => None end
  | COrE a b => match eval_cexp cur a e, eval_cexp cur b e with Some x, Some y => Some (x || y) | _, _ => None end
  end.

(* the error values of utils/errors.rs that `parse` builds, as the constructors of Model/Uri.v; an error literal the
   model does not know (other variant, other fields, other field values) has no meaning: the interpreter is stuck *)
Definition fexp_eq_dec : forall a b : fexp, {a = b} + {a <> b}.
Proof. decide equality; apply Nat.eq_dec. Defined.
Definition field_eq_dec : forall a b : string * fexp, {a = b} + {a <> b}.
Proof. decide equality; [apply fexp_eq_dec | apply string_dec]. Defined.
Definition fields_are (a b : list (string * fexp)) : bool := if list_eq_dec field_eq_dec a b then true else false.

Definition ILLEGAL_STATE : string := "IllegalStateError".
Definition ILLEGAL_ARGUMENT : string := "IllegalArgumentError".

Definition eval_gerr (cur : option (Z * Z)) (g : gerr) (e : menv) : option perr :=
  let '(GErr cls variant fields) := g in
  if String.eqb cls ILLEGAL_STATE then
    match cur with
    | Some (c, idx) =>
        if String.eqb variant "EncounteredCharacterWithinMediaDefinition"
           && fields_are fields [("c", FChar); ("index", FIndexPlusPos); ("uri", FOrigUri)]%string then Some (ECharInMedia c idx)
        else if String.eqb variant "EmptyKeyNotAllowed"
           && fields_are fields [("index", FIndexPlusPos); ("uri", FOrigUri)]%string then Some (EEmptyKey idx)
        else if String.eqb variant "InvalidEndOfKey"
           && fields_are fields [("index", FIndexPlusPos); ("uri", FOrigUri)]%string then Some (EInvalidEndOfKey idx)
        else None
    | None => None
    end
  else if String.eqb cls ILLEGAL_ARGUMENT then
    if String.eqb variant "UriMustStartWithAeron" && fields_are fields [("uri", FOrigUri)]%string then Some EMustStartWithAeron
    else if String.eqb variant "NoMoreInputFound" && fields_are fields [("state", FState)]%string then Some ENoMoreInput
    else if String.eqb variant "UnknownMedia" then
      match fields with
      | [(n, FVar v)] => if String.eqb n "0" then match get_str e v with Some s => Some (EUnknownMedia s) | None => None end else None
      | _ => None
      end
    else None
  else None.

Fixpoint mem_z (x : Z) (l : list Z) : bool := match l with [] => false | y :: r => (x =? y) || mem_z x r end.

(* cur = Some (c, index + position) inside the loop, None after it *)
Fixpoint exec (cur : option (Z * Z)) (s : stmt) (e : menv) {struct s} : mres :=
  match s with
  | SMatchState arms => exec_sarms cur arms e
  | SMatchChar arms => match cur with Some (c, _) => exec_carms cur c arms e | None => MStuck end
  | SIf c t f => match eval_cexp cur c e with
                 | Some true => exec_block cur t e
                 | Some false => exec_block cur f e
                 | None => MStuck
                 end
  | SAssign v x => match eval_sexp x e with
                   | Some (s, e1) => match set_str e1 v s with Some e2 => MGo e2 | None => MStuck end
                   | None => MStuck
                   end
  | SSetState st => MGo {| m_strs := m_strs e; m_params := m_params e; m_state := st |}
  | SPush v => match cur, get_str e v with
               | Some (c, _), Some s => match set_str e v (s ++ [c]) with Some e' => MGo e' | None => MStuck end
               | _, _ => MStuck
               end
  | SInsert k v => match eval_sexp k e with
                   | Some (ks, e1) => match eval_sexp v e1 with
                                      | Some (vs, e2) => MGo {| m_strs := m_strs e2; m_params := insert ks vs (m_params e2);
                                                                m_state := m_state e2 |}
                                      | None => MStuck
                                      end
                   | None => MStuck
                   end
  | SReturnErr g => match eval_gerr cur g e with Some r => MRet r | None => MStuck end
  end
with exec_block (cur : option (Z * Z)) (b : block) (e : menv) {struct b} : mres :=
  match b with
  | BNil => MGo e
  | BCons s r => match exec cur s e with MGo e' => exec_block cur r e' | x => x end
  end
with exec_sarms (cur : option (Z * Z)) (a : sarms) (e : menv) {struct a} : mres :=
  match a with
  | SANil => MStuck
  | SACons None b _ => exec_block cur b e
  | SACons (Some st) b r => if String.eqb st (m_state e) then exec_block cur b e else exec_sarms cur r e
  end
with exec_carms (cur : option (Z * Z)) (c : Z) (a : carms) (e : menv) {struct a} : mres :=
  match a with
  | CANil => MStuck
  | CACons None b _ => exec_block cur b e
  | CACons (Some l) b r => if mem_z c l then exec_block cur b e else exec_carms cur c r e
  end.

Inductive gres (A : Type) := GOk (a : A) | GFail (e : perr) | GStuck.
Arguments GOk {A} a. Arguments GFail {A} e. Arguments GStuck {A}.

(* a result of the hand-written model as a result of the interpreter (which is never stuck on it) *)
Definition lift {A} (r : presult A) : gres A := match r with POk a => GOk a | PErr e => GFail e end.

(* the `for` loop followed by the statements after it; idx = index + position *)
Fixpoint gloop (P : parser) (e : menv) (idx : Z) (s : str) : gres (str * params) :=
  match s with
  | [] => match exec_block None (gp_finish P) e with
          | MGo e' => match get_str e' (gp_result_media P) with Some m => GOk (m, m_params e') | None => GStuck end
          | MRet r => GFail r
          | MStuck => GStuck
          end
  | c :: r => match exec_block (Some (c, idx)) (gp_body P) e with
              | MGo e' => gloop P e' (idx + 1) r
              | MRet r => GFail r
              | MStuck => GStuck
              end
  end.

(* `.len()` counts bytes; for the ASCII constants it is applied to that is the number of characters
   (that they are ASCII is part of the proof obligation, Proofs/UriParserGenProofs.v) *)
Definition is_ascii (s : str) : bool := forallb (fun c => (0 <=? c) && (c <? 128)) s.

Fixpoint eval_pexp (p : pexp) (prefix : str) : option Z :=
  match p with
  | PNum z => Some z
  | PLen k => if is_ascii k then Some (str_len k) else None
  | PAdd a b => match eval_pexp a prefix, eval_pexp b prefix with Some x, Some y => Some (x + y) | _, _ => None end
  | PIfPrefixEmpty a b => if is_empty prefix then eval_pexp a prefix else eval_pexp b prefix
  end.

Definition init_env (P : parser) : menv :=
  {| m_strs := repeat [] (gp_nstrings P); m_params := []; m_state := gp_init_state P |}.

Definition gparse (P : parser) (s : str) : gres uri :=
  let '(rest, prefix) := match strip_prefix (gp_spy_prefix P) s with
                         | Some r => (r, gp_spy_qualifier P)
                         | None => (s, gp_no_prefix P)
                         end in
  match strip_prefix (gp_scheme_prefix P) rest with
  | None => match eval_gerr None (gp_scheme_err P) (init_env P) with Some r => GFail r | None => GStuck end
  | Some body =>
      match eval_pexp (gp_position P) prefix with
      | None => GStuck
      | Some position =>
          match gloop P (init_env P) position body with
          | GOk (media, ps) => GOk (mkUri prefix media ps)
          | GFail r => GFail r
          | GStuck => GStuck
          end
      end
  end.

(* what the translator emits when the source no longer fits the statement forms above *)
Definition stuck_parser : parser :=
  {| gp_states := []; gp_spy_prefix := []; gp_spy_qualifier := []; gp_no_prefix := []; gp_scheme_prefix := [];
     gp_scheme_err := GErr "" "" []; gp_position := PNum 0; gp_nstrings := 0; gp_init_state := "";
     gp_body := BCons (SMatchState SANil) BNil; gp_finish := BCons (SMatchState SANil) BNil; gp_result_media := 0 |}.

(* ---- Display ------------------------------------------------------------------------------------- *)

Inductive dpiece :=
| DField (f : string)       (* &self.<f> *)
| DStr (s : str).           (* CONST or "literal" *)

Inductive fpiece := FLit (s : str) | FArg (n : nat).   (* pieces of a format string; FArg n = the n-th name of the `for` pattern *)

Inductive dcond :=
| DNot (c : dcond)
| DFieldEmpty (f : string)               (* self.<f>.is_empty() *)
| DFieldEndsWith (f : string) (c : Z).   (* self.<f>.ends_with('c') *)

Inductive dstmt :=
| DAdd (p : dpiece)                      (* sb += p; *)
| DIf (c : dcond) (b : dblock)           (* if c { b } *)
| DFor (f : string) (body : list fpiece) (* for (k, v) in &self.<f> { sb += &format!(..); .. } *)
| DPop                                   (* sb.pop(); *)
with dblock := DNil | DCons (s : dstmt) (b : dblock).

Definition dfield_str (prefix media : str) (f : string) : option str :=
  if String.eqb f "prefix" then Some prefix else if String.eqb f "media" then Some media else None.

Fixpoint eval_dcond (c : dcond) (prefix media : str) (ord : params) : option bool :=
  match c with
  | DNot a => match eval_dcond a prefix media ord with Some b => Some (negb b) | None => None end
  | DFieldEmpty f => if String.eqb f "params" then Some (match ord with [] => true | _ => false end)
                     else match dfield_str prefix media f with Some s => Some (is_empty s) | None => None end
  | DFieldEndsWith f ch => match dfield_str prefix media f with
                           | Some s => Some (match rev s with c :: _ => c =? ch | [] => false end)
                           | None => None
                           end
  end.

Definition render_entry (body : list fpiece) (kv : str * str) : str :=
  List.concat (map (fun p => match p with FLit s => s | FArg O => fst kv | FArg _ => snd kv end) body).
Definition fpiece_ok (p : fpiece) : bool := match p with FLit _ => true | FArg n => Nat.leb n 1 end.

(* `ord` = the order in which the HashMap iterator yields the entries *)
Fixpoint dexec (s : dstmt) (prefix media : str) (ord : params) (sb : str) {struct s} : option str :=
  match s with
  | DAdd (DStr x) => Some (sb ++ x)
  | DAdd (DField f) => match dfield_str prefix media f with Some x => Some (sb ++ x) | None => None end
  | DIf c b => match eval_dcond c prefix media ord with
               | Some true => dexec_block b prefix media ord sb
               | Some false => Some sb
               | None => None
               end
  | DFor f body => if String.eqb f "params" && forallb fpiece_ok body
                   then Some (sb ++ List.concat (map (render_entry body) ord)) else None
  | DPop => Some (removelast sb)
  end
with dexec_block (b : dblock) (prefix media : str) (ord : params) (sb : str) {struct b} : option str :=
  match b with
  | DNil => Some sb
  | DCons s r => match dexec s prefix media ord sb with Some sb' => dexec_block r prefix media ord sb' | None => None end
  end.

(* let mut sb = String::..; <block>; write!(f, "{}", &sb) *)
Definition gdisplay (b : dblock) (prefix media : str) (ord : params) : option str := dexec_block b prefix media ord [].

Definition stuck_display : dblock := DCons (DAdd (DField "")) DNil.

(* ---- the observation `p <s>` of the harness (parse, to_string(), parse again) computed from the translated trees alone;
   C19_k1_observations: it is Model/Uri.v's parse_obs. The driver evaluates it instead of parse_obs when C19_MODEL=generated
   (used to test the interpreter itself: on a changed source that still translates, it must follow the implementation) ---- *)

Definition gpobs (r : gres uri) : pobs :=
  match r with GOk u => pobs_of (POk u) | GFail e => OErr e | GStuck => OPanic end.

Definition gparse_obs (P : parser) (D : dblock) (s : str) : pobs * dobs * pobs :=
  match gparse P s with
  | GOk u => match gdisplay D (u_prefix u) (u_media u) (sort_params (u_params u)) with
             | Some x => (gpobs (GOk u), Disp x, gpobs (gparse P x))
             | None => (gpobs (GOk u), DPanic, ONone)
             end
  | GFail e => (OErr e, NoDisp, ONone)
  | GStuck => (OPanic, NoDisp, ONone)
  end.

(* ---- add_session_id ------------------------------------------------------------------------------- *)

(* let u = Self::parse(channel)?; lock; u.put(<key>, session_id.to_string()); Ok(u.to_string()) *)
Record sid_fn := { sid_key : str; sid_ok : bool }.
