(* Thread-level model of Publication::offer_opt (src/publication.rs) over the shared TermAppender
   (src/concurrent/logbuffer/term_appender.rs), HeaderWriter::write (header.rs), rotate_log
   (log_buffer_descriptor.rs): one program counter per shared-memory access that hook H2 reports.

     read limit (get_volatile) ; read active term count (get_volatile) ; read raw tail (get_volatile) ;
     [consistency check, limit check]  ; get_and_add on the raw tail ; [check_term] ;
     per fragment:  put_ordered(-len) ; header burst (overlay_struct) ; copy_from body ; [put flags] ;
                    put reserved value ; put_ordered(+len)
     end of term:   [padding iff term_offset < term_length: put_ordered(-len) ; header burst ; put type ; put_ordered(+len)]
                    rotate_log: ( plain get of the next tail ; CAS tail )* ; CAS active term count

   plus the environment thread (media driver side): set the publication limit, zero a partition.
   Shared state: three partitions of frame slots, the raw tails, the active term count, the limit and
   is-connected words. One granted step = perform the access the thread is parked at and run to the
   next access (what the deterministic scheduler of the harness does).
   Definitions only. *)
Require Import V.Base.MachineInt.
Require Import V.Generated.GenConsts.
Require Import V.Model.LogBase.
Require Import V.Model.Descriptor.
Require Import V.Model.Sched.
Open Scope Z_scope.

(* ---- geometry / identity of the log (constant during a run) ---- *)
Record cfg := mkCfg {
  c_init : Z;      (* initial term id *)
  c_bits : Z;      (* term length = 2^bits *)
  c_mtu : Z;
  c_sess : Z; c_strm : Z;
  c_n0 : Z; c_off0 : Z      (* the log was handed over at term count n0, tail offset off0 *)
}.
Definition TL (c : cfg) : Z := 2 ^ c_bits c.
Definition max_payload (c : cfg) : Z := c_mtu c - HDR.
Definition max_msg (c : cfg) : Z := Z.min (TL c / 8) GenConsts.MAX_MESSAGE_LENGTH.
Definition max_pos (c : cfg) : Z := TL c * two31.                 (* (capacity as i64) << 31 *)

(* regions as the harness registers them: 0..2 term partitions, 3 log meta data, 4 counter values *)
Definition R_META : Z := 3.
Definition R_CNT : Z := 4.
Definition LIMIT_ID : Z := 1.
Definition SUBPOS_ID : Z := 2.
Definition LIMIT_OFF : Z := GenConsts.COUNTER_LENGTH * LIMIT_ID.
Definition SUBPOS_OFF : Z := GenConsts.COUNTER_LENGTH * SUBPOS_ID.
Definition TAIL_OFF (p : Z) : Z := GenConsts.TERM_TAIL_COUNTER_OFFSET + p * 8.
Definition COUNT_OFF : Z := GenConsts.LOG_ACTIVE_TERM_COUNT_OFFSET.
Definition CONN_OFF : Z := GenConsts.LOG_IS_CONNECTED_OFFSET.

(* ---- term memory: one slot per frame start ---- *)
Record slot := mkSlot {
  s_len : Z; s_ver : Z; s_flags : Z; s_type : Z; s_toff : Z; s_sess : Z; s_strm : Z; s_tid : Z; s_resv : Z;
  s_body : list Z }.
Definition zslot : slot := mkSlot 0 0 0 0 0 0 0 0 0 [].

Definition set_len (s : slot) (v : Z) : slot :=
  mkSlot v (s_ver s) (s_flags s) (s_type s) (s_toff s) (s_sess s) (s_strm s) (s_tid s) (s_resv s) (s_body s).
(* HeaderWriter::write after the length word: version, flags = BEGIN|END, type = DATA, term offset, session, stream, term id *)
Definition set_hdr (c : cfg) (s : slot) (off tid : Z) : slot :=
  mkSlot (s_len s) GenConsts.CURRENT_VERSION F_UNFRAG T_DATA off (c_sess c) (c_strm c) tid (s_resv s) (s_body s).
Definition set_body (s : slot) (b : list Z) : slot :=
  mkSlot (s_len s) (s_ver s) (s_flags s) (s_type s) (s_toff s) (s_sess s) (s_strm s) (s_tid s) (s_resv s) b.
Definition set_flags (s : slot) (v : Z) : slot :=
  mkSlot (s_len s) (s_ver s) v (s_type s) (s_toff s) (s_sess s) (s_strm s) (s_tid s) (s_resv s) (s_body s).
Definition set_type (s : slot) (v : Z) : slot :=
  mkSlot (s_len s) (s_ver s) (s_flags s) v (s_toff s) (s_sess s) (s_strm s) (s_tid s) (s_resv s) (s_body s).
Definition set_resv (s : slot) (v : Z) : slot :=
  mkSlot (s_len s) (s_ver s) (s_flags s) (s_type s) (s_toff s) (s_sess s) (s_strm s) (s_tid s) v (s_body s).

Definition mem := Z -> Z -> slot.                       (* partition -> offset -> slot *)
Definition mupd (m : mem) (p o : Z) (s : slot) : mem :=
  fun p' o' => if (p' =? p) && (o' =? o) then s else m p' o'.
Definition mclean (m : mem) (p : Z) : mem := fun p' o' => if p' =? p then zslot else m p' o'.

Record shared := mkSh {
  sh_mem : mem;
  sh_tail : Z -> Z;          (* partition -> raw tail = term_id * 2^32 + offset *)
  sh_count : Z;              (* active term count *)
  sh_limit : Z;              (* publication limit counter *)
  sh_conn : Z;               (* is-connected word *)
  sh_subpos : Z              (* subscriber position counter (written by the reader machine, C03) *)
}.
Definition with_mem (s : shared) (m : mem) := mkSh m (sh_tail s) (sh_count s) (sh_limit s) (sh_conn s) (sh_subpos s).
Definition with_tail (s : shared) (p v : Z) :=
  mkSh (sh_mem s) (fun p' => if p' =? p then v else sh_tail s p') (sh_count s) (sh_limit s) (sh_conn s) (sh_subpos s).
Definition with_count (s : shared) (v : Z) := mkSh (sh_mem s) (sh_tail s) v (sh_limit s) (sh_conn s) (sh_subpos s).
Definition with_limit (s : shared) (v : Z) := mkSh (sh_mem s) (sh_tail s) (sh_count s) v (sh_conn s) (sh_subpos s).
Definition with_subpos (s : shared) (v : Z) := mkSh (sh_mem s) (sh_tail s) (sh_count s) (sh_limit s) (sh_conn s) v.

(* the log as the driver hands it over (harness TestLog::new): active partition carries init+n0 / off0,
   the two others init+n0+1-3 and init+n0+2-3 with offset 0; all term bytes zero *)
Definition raw_of (tid off : Z) : Z := tid * two32 + off.
Definition init_shared (c : cfg) (limit : Z) : shared :=
  let a := (c_n0 c) mod 3 in
  let t := wrap32 (c_init c + c_n0 c) in
  mkSh (fun _ _ => zslot)
       (fun p => if p =? a then raw_of t (c_off0 c)
                 else if p =? (a + 1) mod 3 then raw_of (wrap32 (t + 1 - 3)) 0
                 else raw_of (wrap32 (t + 2 - 3)) 0)
       (c_n0 c) limit 0 (c_n0 c * TL c + c_off0 c).

(* ---- publisher machine ---- *)
Inductive ppc :=
| PReadLimit | PReadCount | PReadTail | PBackPressure | PFaa
| PNegLen | PHdr | PBody | PFlags | PResv | PPosLen
| ENegLen | EHdr | EType | EPosLen
| RReadNext | RCasTail | RCasCount
| PDone | PPanicked.

Record plocal := mkPL {
  p_pc : ppc;
  p_todo : list (list Z);          (* messages still to be offered; the head is the one being attempted *)
  p_budget : nat;                  (* attempts left after the current one *)
  p_res : list (outcome Z);        (* result of every finished attempt, oldest first *)
  p_limit : Z; p_count : Z; p_raw : Z;     (* values read by the current attempt *)
  p_faa : Z;                       (* raw tail returned by get_and_add *)
  p_foff : Z; p_rem : Z; p_flags : Z;      (* fragment loop: frame offset, bytes remaining, flags *)
  p_next : Z                       (* rotate_log: raw tail read from the next partition *)
}.
Definition pl_pc (l : plocal) (pc : ppc) : plocal :=
  mkPL pc (p_todo l) (p_budget l) (p_res l) (p_limit l) (p_count l) (p_raw l) (p_faa l) (p_foff l) (p_rem l) (p_flags l) (p_next l).
Definition pl_limit (l : plocal) (v : Z) : plocal :=
  mkPL PReadCount (p_todo l) (p_budget l) (p_res l) v (p_count l) (p_raw l) (p_faa l) (p_foff l) (p_rem l) (p_flags l) (p_next l).
Definition pl_count (l : plocal) (v : Z) : plocal :=
  mkPL PReadTail (p_todo l) (p_budget l) (p_res l) (p_limit l) v (p_raw l) (p_faa l) (p_foff l) (p_rem l) (p_flags l) (p_next l).
Definition pl_raw (l : plocal) (v : Z) : plocal :=
  mkPL (p_pc l) (p_todo l) (p_budget l) (p_res l) (p_limit l) (p_count l) v (p_faa l) (p_foff l) (p_rem l) (p_flags l) (p_next l).
Definition pl_faa (l : plocal) (v : Z) : plocal :=
  mkPL (p_pc l) (p_todo l) (p_budget l) (p_res l) (p_limit l) (p_count l) (p_raw l) v (p_foff l) (p_rem l) (p_flags l) (p_next l).
Definition pl_frag (l : plocal) (pc : ppc) (foff rem flags : Z) : plocal :=
  mkPL pc (p_todo l) (p_budget l) (p_res l) (p_limit l) (p_count l) (p_raw l) (p_faa l) foff rem flags (p_next l).
Definition pl_next (l : plocal) (pc : ppc) (v : Z) : plocal :=
  mkPL pc (p_todo l) (p_budget l) (p_res l) (p_limit l) (p_count l) (p_raw l) (p_faa l) (p_foff l) (p_rem l) (p_flags l) v.

(* the thread body of the harness: offer each message, retrying the same message while the result is an
   error, `budget` attempts in all *)
Definition p_start (todo : list (list Z)) (budget : nat) (res : list (outcome Z)) : plocal :=
  match todo, budget with
  | [], _ | _, O => mkPL PDone todo budget res 0 0 0 0 0 0 0 0
  | _, S b => mkPL PReadLimit todo b res 0 0 0 0 0 0 0 0
  end.
Definition finish (r : outcome Z) (l : plocal) : plocal :=
  let todo' := match r with Ok _ => tl (p_todo l) | _ => p_todo l end in
  p_start todo' (p_budget l) (p_res l ++ [r]).
Definition p_panic (l : plocal) : plocal :=
  mkPL PPanicked (p_todo l) (p_budget l) (p_res l ++ [Panic]) (p_limit l) (p_count l) (p_raw l) (p_faa l) (p_foff l) (p_rem l)
       (p_flags l) (p_next l).

Definition cur_msg (l : plocal) : list Z := hd [] (p_todo l).
Definition mlen (l : plocal) : Z := Z.of_nat (length (cur_msg l)).
Definition lo32u (raw : Z) : Z := raw mod two32.                        (* raw_tail & 0xFFFF_FFFF *)
Definition r_idx (l : plocal) : Z := index_by_term_count (p_count l).   (* the appender / partition chosen *)
Definition r_off (l : plocal) : Z := lo32u (p_raw l).
Definition r_tid (l : plocal) : Z := term_id_of (p_raw l).
Definition r_pos (c : cfg) (l : plocal) : Z :=
  compute_term_begin_position (r_tid l) (c_bits c) (c_init c) + r_off l.
Definition f_off (l : plocal) : Z := lo32u (p_faa l).
Definition f_tid (l : plocal) : Z := term_id_of (p_faa l).

Definition is_fragmented (c : cfg) (n : Z) : bool := max_payload c <? n.
(* bytes claimed by one offer of n payload bytes *)
Definition required (c : cfg) (n : Z) : Z :=
  if is_fragmented c n then
    let mp := max_payload c in
    (n / mp) * (mp + HDR) + (if 0 <? n mod mp then align (n mod mp + HDR) FA else 0)
  else align (n + HDR) FA.

(* new_position on success: (position - term_offset as i32) + resulting_offset *)
Definition ok_position (c : cfg) (l : plocal) : outcome Z :=
  let np := (r_pos c l - wrap32 (r_off l)) + (f_off l + required c (mlen l)) in
  if 0 <=? np then Ok np else Err (UnknownCode np).

Definition ev (t : nat) (a : accessor) (reg off len v v2 before : Z) : event := mkEv t a reg off len v v2 before.

(* what happens between the tail read and the next shared access *)
Definition after_read_tail (c : cfg) (l : plocal) : plocal :=
  if negb (p_count l =? wrap32 (r_tid l - c_init c)) then finish (Err AdminAction) l
  else if r_pos c l <? p_limit l then
    if is_fragmented c (mlen l) && (max_msg c <? mlen l) then finish (Err TooLong) l
    else pl_pc l PFaa
  else if max_pos c <=? r_pos c l + mlen l then finish (Err MaxPositionExceeded) l
  else pl_pc l PBackPressure.

(* new_position when the appender reported TERM_APPENDER_FAILED *)
Definition after_eol (c : cfg) (l : plocal) : plocal :=
  if max_pos c <? r_pos c l + wrap32 (r_off l) then finish (Err MaxPositionExceeded) l
  else pl_pc l RReadNext.

Definition after_faa (c : cfg) (l : plocal) : plocal :=
  if negb (f_tid l =? r_tid l) then p_panic l                      (* check_term fails: expect() panics *)
  else if TL c <? f_off l + required c (mlen l) then
    (if f_off l <? TL c then pl_pc l ENegLen else after_eol c l)
  else pl_frag l PNegLen (f_off l) (mlen l) F_BEGIN.

Definition frag_bytes (c : cfg) (l : plocal) : Z := Z.min (p_rem l) (max_payload c).
Definition frag_len (c : cfg) (l : plocal) : Z := frag_bytes c l + HDR.
Definition frag_body (c : cfg) (l : plocal) : list Z :=
  firstn (Z.to_nat (frag_bytes c l)) (skipn (Z.to_nat (mlen l - p_rem l)) (cur_msg l)).
Definition frag_flags (c : cfg) (l : plocal) : Z :=
  if p_rem l <=? max_payload c then Z.lor (p_flags l) F_END else p_flags l.

Definition after_commit (c : cfg) (l : plocal) : plocal :=
  let rem' := p_rem l - frag_bytes c l in
  if rem' <=? 0 then finish (ok_position c l) l
  else pl_frag l PNegLen (p_foff l + align (frag_len c l) FA) rem' 0.

Definition next_index (l : plocal) : Z := index_by_term_count (p_count l + 1).
Definition next_tid (l : plocal) : Z := wrap32 (r_tid l + 1).

Definition pstep (c : cfg) (t : nat) (s : shared) (l : plocal) : option (shared * plocal * event) :=
  let p := r_idx l in
  let m := sh_mem s in
  match p_pc l with
  | PReadLimit => Some (s, pl_limit l (sh_limit s), ev t GetVolatile R_CNT LIMIT_OFF 8 0 0 (sh_limit s))
  | PReadCount => Some (s, pl_count l (sh_count s), ev t GetVolatile R_META COUNT_OFF 4 0 0 (sh_count s))
  | PReadTail => let raw := sh_tail s p in
                 Some (s, after_read_tail c (pl_raw l raw), ev t GetVolatile R_META (TAIL_OFF p) 8 0 0 raw)
  | PBackPressure =>
      Some (s, finish (Err (if sh_conn s =? 1 then BackPressured else NotConnected)) l,
            ev t GetVolatile R_META CONN_OFF 4 0 0 (sh_conn s))
  | PFaa => let raw := sh_tail s p in
            let d := required c (mlen l) in
            Some (with_tail s p (wrap64 (raw + d)), after_faa c (pl_faa l raw),
                  ev t GetAndAddI64 R_META (TAIL_OFF p) 8 d 0 raw)
  | PNegLen => let o := p_foff l in
               Some (with_mem s (mupd m p o (set_len (m p o) (- frag_len c l))), pl_pc l PHdr,
                     ev t PutOrdered p o 4 (- frag_len c l) 0 0)
  | PHdr => let o := p_foff l in
            Some (with_mem s (mupd m p o (set_hdr c (m p o) o (f_tid l))), pl_pc l PBody,
                  ev t RegionWrite p o HDR 0 0 0)
  | PBody => let o := p_foff l in
             Some (with_mem s (mupd m p o (set_body (m p o) (frag_body c l))),
                   pl_pc l (if is_fragmented c (mlen l) then PFlags else PResv),
                   ev t CopyFrom p (o + HDR) (frag_bytes c l) 0 0 0)
  | PFlags => let o := p_foff l in
              Some (with_mem s (mupd m p o (set_flags (m p o) (frag_flags c l))), pl_pc l PResv,
                    ev t Put p (o + GenConsts.DFH_FLAGS_FIELD_OFFSET) 1 (frag_flags c l) 0 0)
  | PResv => let o := p_foff l in
             Some (with_mem s (mupd m p o (set_resv (m p o) 0)), pl_pc l PPosLen,
                   ev t Put p (o + GenConsts.DFH_RESERVED_VALUE_FIELD_OFFSET) 8 0 0 0)
  | PPosLen => let o := p_foff l in
               Some (with_mem s (mupd m p o (set_len (m p o) (frag_len c l))), after_commit c l,
                     ev t PutOrdered p o 4 (frag_len c l) 0 0)
  | ENegLen => let o := f_off l in
               Some (with_mem s (mupd m p o (set_len (m p o) (- (TL c - o)))), pl_pc l EHdr,
                     ev t PutOrdered p o 4 (- (TL c - o)) 0 0)
  | EHdr => let o := f_off l in
            Some (with_mem s (mupd m p o (set_hdr c (m p o) o (f_tid l))), pl_pc l EType,
                  ev t RegionWrite p o HDR 0 0 0)
  | EType => let o := f_off l in
             Some (with_mem s (mupd m p o (set_type (m p o) T_PAD)), pl_pc l EPosLen,
                   ev t Put p (o + GenConsts.DFH_TYPE_FIELD_OFFSET) 2 T_PAD 0 0)
  | EPosLen => let o := f_off l in
               Some (with_mem s (mupd m p o (set_len (m p o) (TL c - o))), after_eol c l,
                     ev t PutOrdered p o 4 (TL c - o) 0 0)
  | RReadNext => let q := next_index l in
                 let raw := sh_tail s q in
                 Some (s, pl_next l (if term_id_of raw =? wrap32 (next_tid l - PARTITION_COUNT) then RCasTail else RCasCount) raw,
                       ev t Get R_META (TAIL_OFF q) 8 0 0 raw)
  | RCasTail => let q := next_index l in
                let cur := sh_tail s q in
                let new := raw_tail_of_term (next_tid l) in
                Some (if cur =? p_next l then with_tail s q new else s,
                      pl_pc l (if cur =? p_next l then RCasCount else RReadNext),
                      ev t CompareAndSetI64 R_META (TAIL_OFF q) 8 (p_next l) new cur)
  | RCasCount => let cur := sh_count s in
                 Some (if cur =? p_count l then with_count s (p_count l + 1) else s,
                       finish (Err AdminAction) l,
                       ev t CompareAndSetI32 R_META COUNT_OFF 4 (p_count l) (p_count l + 1) cur)
  | PDone | PPanicked => None
  end.

(* ---- environment (media driver side) ---- *)
Inductive envop := SetLimit (v : Z) | Clean (p : Z).
Record elocal := mkEL { e_ops : list envop; e_done : list (outcome Z) }.

Definition estep (c : cfg) (t : nat) (s : shared) (l : elocal) : option (shared * elocal * event) :=
  match e_ops l with
  | [] => None
  | SetLimit v :: r => Some (with_limit s v, mkEL r (e_done l), ev t PutOrdered R_CNT LIMIT_OFF 8 v 0 0)
  | Clean p :: r => Some (with_mem s (mclean (sh_mem s) p), mkEL r (e_done l), ev t SetMemory p 0 (TL c) 0 0 0)
  end.

(* ---- the system of C02: any number of publishers and environment threads ---- *)
Inductive thread := TPub (l : plocal) | TEnv (l : elocal) | TIdle.

Definition tstep (c : cfg) (t : nat) (s : shared) (th : thread) : option (shared * thread * event) :=
  match th with
  | TPub l => match pstep c t s l with Some (s', l', e) => Some (s', TPub l', e) | None => None end
  | TEnv l => match estep c t s l with Some (s', l', e) => Some (s', TEnv l', e) | None => None end
  | TIdle => None
  end.

(* ---- rendering (what the harness dumps) ---- *)
Definition frame_of_slot (s : slot) : frame :=
  mkFrame (s_len s) (s_ver s) (s_flags s) (s_type s) (s_toff s) (s_sess s) (s_strm s) (s_tid s) (s_resv s) (s_body s).
Definition render_slot (o : Z) (s : slot) : list (Z * Z) :=
  nonzero (header_words o (s_len s) (frame_of_slot s) ++ words_of_bytes (o + HDR) (s_body s)).
Fixpoint render_part (m : Z -> slot) (o : Z) (n : nat) : list (Z * Z) :=
  match n with O => [] | S n' => render_slot o (m o) ++ render_part m (o + FA) n' end.
Definition render_mem (c : cfg) (m : mem) (p : Z) : list (Z * Z) := render_part (m p) 0 (Z.to_nat (TL c / FA)).

Definition dump (c : cfg) (s : shared) :=
  (sh_count s, [sh_tail s 0; sh_tail s 1; sh_tail s 2],
   [render_mem c (sh_mem s) 0; render_mem c (sh_mem s) 1; render_mem c (sh_mem s) 2], sh_limit s, sh_subpos s).

Inductive status := Done | Stopped | Panicked.
Definition thread_obs (stop : nat -> option nat) (granted : nat -> nat) (t : nat) (th : thread) : status * list (outcome Z) :=
  match th with
  | TPub l => (match p_pc l with PDone => Done | PPanicked => Panicked | _ => Stopped end, p_res l)
  | TEnv l => (match e_ops l with [] => Done | _ => Stopped end, e_done l)
  | TIdle => (Done, [])
  end.

Definition threads_of (ths : list thread) : nat -> thread := fun t => nth t ths TIdle.

(* one case: run and observe in the harness's format *)
Definition run_case (c : cfg) (limit : Z) (ths : list thread) (sched : list nat) (stops : list (option nat)) :=
  let n := length ths in
  let '(s, th, g, tr) := run (tstep c) n (Z.to_nat 20000) (stop_of stops) sched (init_shared c limit, threads_of ths) in
  (map ev_tuple tr, map (fun t => thread_obs (stop_of stops) g t (th t)) (seq 0 n), dump c s,
   @nil (Z * Z * Z * Z * list Z)).

Definition pub (budget : nat) (msgs : list (list Z)) : thread := TPub (p_start msgs budget []).
Definition env (ops : list envop) : thread := TEnv (mkEL ops []).
