(* Model of src/concurrent/logbuffer/exclusive_term_appender.rs: the exclusive publisher owns the tail,
   so every flavour first stores (term_id, resulting_offset) into the raw tail and then writes frames at the
   term offset the publication passes in.  append_unfragmented_message_bulk is modelled as repaired
   (fixes/C18-bulk.diff); its loop is the same as the shared appender's.  Definitions only. *)
Require Import V.Base.MachineInt.
Require Import V.Generated.GenConsts.
Require Import V.Model.Descriptor.
Require Import V.Model.LogBase.
Require Import V.Model.Appender.
Open Scope Z_scope.

(* put_raw_tail_ordered: (term_id as i64 * (1 << 32)) | term_offset as i64 *)
Definition excl_raw_tail (term_id term_offset : Z) : Z :=
  if 0 <=? term_offset then term_id * two32 + term_offset else Z.lor (term_id * two32) term_offset.
Definition put_raw_tail (l : log) (idx term_id term_offset : Z) : log := set_tail l idx (excl_raw_tail term_id term_offset).

Definition excl_end_of_log (l : log) (idx term_id term_offset : Z) : appended :=
  mkAppended (put_padding l idx term_offset term_id) TERM_APPENDER_FAILED None.

(* ExclusiveTermAppender::claim *)
Definition eta_claim (m : mode) (l : log) (idx term_id term_offset len : Z) : outcome appended :=
  '(fl, al) <- unfrag_lengths m len ;;
  resulting <- add32 m term_offset al ;;
  let l1 := put_raw_tail l idx term_id resulting in
  if l_tlen l <? resulting then Ok (excl_end_of_log l1 idx term_id term_offset)
  else if term_offset + fl <=? l_tlen l
  then Ok (mkAppended (set_part l1 idx (term_put (part l1 idx) term_offset
                                          [Claimed (data_frame l1 term_offset fl term_id F_UNFRAG T_DATA 0 [])]))
                      resulting (Some (idx, term_offset, fl)))
  else Panic.

(* ExclusiveTermAppender::append_unfragmented_message *)
Definition eta_append_unfragmented (m : mode) (rv : Z -> Z -> list Z -> Z) (l : log) (idx term_id term_offset : Z) (msg : list Z)
  : outcome appended :=
  '(fl, al) <- unfrag_lengths m (zlen msg) ;;
  resulting <- add32 m term_offset al ;;
  let l1 := put_raw_tail l idx term_id resulting in
  if l_tlen l <? resulting then Ok (excl_end_of_log l1 idx term_id term_offset)
  else Ok (mkAppended (set_part l1 idx (term_put (part l1 idx) term_offset
                                          [Committed (data_frame l1 term_offset fl term_id F_UNFRAG T_DATA (rv term_offset fl msg) msg)]))
                      resulting None).

(* ExclusiveTermAppender::append_fragmented_message *)
Definition eta_append_fragmented (m : mode) (rv : Z -> Z -> list Z -> Z) (l : log) (idx term_id term_offset : Z) (msg : list Z) (mpl : Z)
  : outcome appended :=
  let len := zlen msg in
  required <- frag_required m len mpl ;;
  resulting <- add32 m term_offset required ;;
  let l1 := put_raw_tail l idx term_id resulting in
  if l_tlen l <? resulting then Ok (excl_end_of_log l1 idx term_id term_offset)
  else
    let frames := frag_loop (frag_fuel len mpl) l1 rv term_id mpl len msg F_BEGIN len term_offset in
    Ok (mkAppended (set_part l1 idx (term_put (part l1 idx) term_offset frames)) resulting None).

(* ExclusiveTermAppender::append_unfragmented_message_bulk (repaired) *)
Definition eta_append_unfragmented_bulk (m : mode) (rv : Z -> Z -> list Z -> Z) (l : log) (idx term_id term_offset : Z)
                                        (bufs : list (list Z)) (len : Z) : outcome appended :=
  '(fl, al) <- unfrag_lengths m len ;;
  resulting <- add32 m term_offset al ;;
  let l1 := put_raw_tail l idx term_id resulting in
  if l_tlen l <? resulting then Ok (excl_end_of_log l1 idx term_id term_offset)
  else
    let cs := bulk_unfrag_walk bufs (term_offset + HDR) (term_offset + HDR + len) in
    match tile (term_offset + HDR) cs with
    | Some body =>
        if zlen body =? len then
          Ok (mkAppended (set_part l1 idx (term_put (part l1 idx) term_offset
                                             [Committed (data_frame l1 term_offset fl term_id F_UNFRAG T_DATA (rv term_offset fl body) body)]))
                         resulting None)
        else Crash
    | None => Crash
    end.
