(* Model of src/publication.rs (shared Publication) on top of Model/Appender.v:
   offer_opt / offer_part, try_claim (+ BufferClaim commit / abort), offer_bulk, close, position,
   new_position, back_pressure_status and the two length checks, plus the environment's operations on the
   same log (publication limit counter, is-connected flag, cleaning of the partition the log rotates into next).
   Definitions only. *)
Require Import V.Base.MachineInt.
Require Import V.Generated.GenConsts.
Require Import V.Model.Descriptor.
Require Import V.Model.LogBase.
Require Import V.Model.LogDelta.
Require Import V.Model.Appender.
Open Scope Z_scope.

Inductive op :=
| Offer (msg : list Z)              (* offer(buffer) with a buffer holding exactly msg *)
| Claim (len : Z)                   (* try_claim(len, &mut claim) on the harness's one BufferClaim *)
| Commit (body : list Z)            (* write body into the claimed range, then claim.commit() *)
| Abort                             (* claim.abort() *)
| Bulk (bufs : list (list Z))       (* offer_bulk(buffers) *)
| SetLimit (v : Z)                  (* environment: publication limit counter := v *)
| SetConnected (b : bool)           (* environment: is-connected flag *)
| Close                             (* close() *)
| Clean.                            (* environment: the driver zeroes the partition the log rotates into next *)

Definition is_append (o : op) : bool :=
  match o with Offer _ | Claim _ | Bulk _ => true | _ => false end.

Record pubstate := mkPub { ps_log : log; ps_closed : bool; ps_claim : option (Z * Z * Z) }.

Definition meta_of (l : log) : meta := {| tail0 := l_t0 l; tail1 := l_t1 l; tail2 := l_t2 l; count := l_count l |}.
Definition with_meta (l : log) (s : meta) : log :=
  mkLog (l_p0 l) (l_p1 l) (l_p2 l) (tail0 s) (tail1 s) (tail2 s) (count s)
        (l_init l) (l_tlen l) (l_mtu l) (l_session l) (l_stream l) (l_limit l) (l_connected l).

(* back_pressure_status *)
Definition back_pressure_status (m : mode) (l : log) (position len : Z) : outcome Z :=
  v <- add64 m position len ;;
  if max_possible_position l <=? v then Err MaxPositionExceeded
  else if l_connected l then Err BackPressured else Err NotConnected.

(* Publication::new_position, given the log as the appender left it *)
Definition pub_new_position (m : mode) (l : log) (term_count term_offset32 tid position resulting : Z) : log * outcome Z :=
  if 0 <? resulting then
    match (a <- sub64 m position term_offset32 ;; add64 m a resulting) with
    | Ok np => (l, if 0 <=? np then Ok np else Err (UnknownCode np))
    | Err e => (l, Err e) | Panic => (l, Panic) | Hang => (l, Hang) | Crash => (l, Crash)
    end
  else
    match add64 m position term_offset32 with
    | Ok v =>
        if max_possible_position l <? v then (l, Err MaxPositionExceeded)
        else match rotate_log m (meta_of l) term_count tid with
             | Ok s' => (with_meta l s', Err AdminAction)
             | _ => (l, Panic)
             end
    | _ => (l, Panic)
    end.

(* the common skeleton of offer_opt / offer_bulk / try_claim after their own pre-checks:
   `act l idx term_id` is the call of the appender (Err TooLong = the early return of the length check made after the limit test) *)
Definition pub_try (m : mode) (s : pubstate) (len : Z) (act : log -> Z -> Z -> outcome appended) : pubstate * outcome Z :=
  if ps_closed s then (s, Err Closed) else
  let l := ps_log s in
  let limit := l_limit l in
  let term_count := l_count l in
  let idx := index_by_term_count term_count in
  if idx <? 0 then (s, Panic) else            (* appenders[negative as usize] *)
  let raw := tail l idx in
  let term_offset := raw mod two32 in
  let tid := term_id_of raw in
  match add64 m (compute_term_begin_position tid (bits_of l) (l_init l)) term_offset with
  | Ok position =>
      if negb (term_count =? wrap32 (tid - l_init l)) then (s, Err AdminAction)
      else if position <? limit then
        match act l idx tid with
        | Ok a =>
            let '(l2, r) := pub_new_position m (a_log a) term_count (wrap32 term_offset) tid position (a_result a) in
            (mkPub l2 (ps_closed s) (match a_claim a with Some c => Some c | None => ps_claim s end), r)
        | Err TooLong => (s, Err TooLong)
        | Err _ => (s, Panic)                   (* resulting_offset.expect(..) *)
        | Panic => (s, Panic) | Hang => (s, Hang) | Crash => (s, Crash)
        end
      else
        match back_pressure_status m l position len with
        | Ok _ => (s, Panic) | Err e => (s, Err e) | Panic => (s, Panic) | Hang => (s, Hang) | Crash => (s, Crash)
        end
  | _ => (s, Panic)
  end.

Definition pub_offer (m : mode) (rv : Z -> Z -> list Z -> Z) (s : pubstate) (msg : list Z) : pubstate * outcome Z :=
  let len := zlen msg in
  pub_try m s len (fun l idx tid =>
    if len <=? max_payload_length l then ta_append_unfragmented m rv l idx msg tid
    else if max_message_length l <? len then Err TooLong
    else ta_append_fragmented m rv l idx msg (max_payload_length l) tid).

Definition pub_claim (m : mode) (s : pubstate) (len : Z) : pubstate * outcome Z :=
  if max_payload_length (ps_log s) <? len then (s, Err TooLong)       (* check_payload_length comes first *)
  else pub_try m s len (fun l idx tid => ta_claim m l idx len tid).

Definition pub_bulk (m : mode) (rv : Z -> Z -> list Z -> Z) (s : pubstate) (bufs : list (list Z)) : pubstate * outcome Z :=
  match sum_caps m bufs with
  | Ok len =>
      if len =? 2147483647 then (s, Err IllegalState)
      else pub_try m s len (fun l idx tid =>
        if len <=? max_payload_length l then ta_append_unfragmented_bulk m rv l idx bufs len tid
        else if max_message_length l <? len then Err TooLong
        else ta_append_fragmented_bulk m rv l idx bufs len (max_payload_length l) tid)
  | _ => (s, Panic)
  end.

(* BufferClaim::commit / abort through the view the claim holds *)
Definition claim_apply (s : pubstate) (g : entry -> entry) : pubstate * outcome Z :=
  match ps_claim s with
  | None => (s, Panic)          (* expect("No buffer") *)
  | Some (i, off, fl) =>
      let l := ps_log s in
      (mkPub (set_part l i (term_update (part l i) off g)) (ps_closed s) (ps_claim s), Ok 0)
  end.
Definition pub_commit (s : pubstate) (body : list Z) : pubstate * outcome Z :=
  match ps_claim s with
  | Some (i, off, fl) => if fl - HDR <? zlen body then (s, Panic) else claim_apply s (commit_entry body)
  | None => (s, Panic)
  end.

(* the partition the log rotates into next *)
Definition next_index (l : log) : Z := (index_by_term_count (l_count l) + 1) mod 3.

Definition with_log (s : pubstate) (l : log) : pubstate := mkPub l (ps_closed s) (ps_claim s).

(* operations every publication flavour shares (environment, claim handling, close) *)
Definition env_step (s : pubstate) (o : op) : pubstate * outcome Z :=
  match o with
  | Commit body => pub_commit s body
  | Abort => claim_apply s abort_entry
  | SetLimit v => (with_log s (set_limit (ps_log s) v), Ok 0)
  | SetConnected b => (with_log s (set_connected (ps_log s) b), Ok 0)
  | Close => (mkPub (ps_log s) true (ps_claim s), Ok 0)
  | Clean => (with_log s (set_part (ps_log s) (next_index (ps_log s)) []), Ok 0)
  | _ => (s, Ok 0)
  end.

Definition pub_step (m : mode) (rv : Z -> Z -> list Z -> Z) (s : pubstate) (o : op) : pubstate * outcome Z :=
  match o with
  | Offer msg => pub_offer m rv s msg
  | Claim len => pub_claim m s len
  | Bulk bufs => pub_bulk m rv s bufs
  | _ => env_step s o
  end.

(* Publication::position *)
Definition pub_position (m : mode) (s : pubstate) : outcome Z :=
  if ps_closed s then Err Closed else
  let l := ps_log s in
  let raw := tail l (index_by_term_count (l_count l)) in
  compute_position m (term_id_of raw) (term_offset_of raw (l_tlen l)) (bits_of l) (l_init l).

Definition pub_init (l : log) : pubstate := mkPub l false None.

(* a history: the states and results it goes through *)
Fixpoint pub_run (m : mode) (rv : Z -> Z -> list Z -> Z) (s : pubstate) (ops : list op) : pubstate :=
  match ops with [] => s | o :: r => pub_run m rv (fst (pub_step m rv s o)) r end.

(* what the harness prints after every operation: (result, (count, raw tails, changed words of the 3 partitions), position()) *)
Definition pub_obs (m : mode) (s s' : pubstate) (r : outcome Z) := (r, log_delta (ps_log s) (ps_log s'), pub_position m s').
Fixpoint pub_trace (m : mode) (rv : Z -> Z -> list Z -> Z) (s : pubstate) (ops : list op) :=
  match ops with
  | [] => []
  | o :: r => let '(s', res) := pub_step m rv s o in pub_obs m s s' res :: pub_trace m rv s' r
  end.

(* reserved-value supplier of the harness: reads the frame it is handed - a position-weighted checksum over the payload
   bytes [offset + 32, offset + frame_length) of the term buffer - plus term offset and frame length *)
Fixpoint checksum_from (i : Z) (bs : list Z) : Z :=
  match bs with [] => 0 | b :: r => i * b + checksum_from (i + 1) r end.
Definition harness_rv (off flen : Z) (body : list Z) : Z := off * 1000003 + flen * 7 + 1 + checksum_from 1 body.
