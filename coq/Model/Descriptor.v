(* Model of src/concurrent/logbuffer/log_buffer_descriptor.rs position / term
   arithmetic, src/concurrent/logbuffer/header.rs Header::position, the
   term-count consistency test of Publication::offer_opt and rotate_log.
   Operand widths and checked / wrapping operators are those of the source.
   Definitions only. *)
Require Import V.Base.MachineInt.
Require Import V.Generated.GenConsts.

Definition PARTITION_COUNT : Z := GenConsts.PARTITION_COUNT.
Definition FRAME_ALIGNMENT : Z := GenConsts.FRAME_ALIGNMENT.

(* pub fn index_by_term(initial_term_id: i32, active_term_id: i32) -> Index
     (active_term_id.wrapping_sub(initial_term_id)) as Index % PARTITION_COUNT *)
Definition index_by_term (init active : Z) : Z :=
  rem_t (wrap32 (active - init)) PARTITION_COUNT.

(* (term_count % PARTITION_COUNT as i64) as Index *)
Definition index_by_term_count (term_count : Z) : Z :=
  wrap32 (rem_t term_count PARTITION_COUNT).

(* ((position >> position_bits_to_shift as i64) % PARTITION_COUNT as i64) as Index *)
Definition index_by_position (position bits : Z) : Z :=
  wrap32 (rem_t (shr64 position bits) PARTITION_COUNT).

(* let term_count: i64 = active_term_id.wrapping_sub(initial_term_id) as i64;
   (term_count << position_bits_to_shift as i64) + term_offset as i64 *)
Definition compute_position (m : mode) (active off bits init : Z) : outcome Z :=
  let term_count := wrap32 (active - init) in
  add64 m (shl64 term_count bits) off.

Definition compute_term_begin_position (active bits init : Z) : Z :=
  let term_count := wrap32 (active - init) in
  shl64 term_count bits.

(* (raw_tail >> 32) as i32 *)
Definition term_id_of (raw_tail : Z) : Z := wrap32 (shr64 raw_tail 32).
(* min(raw_tail & 0xFFFF_FFFF, term_length) as i32 *)
Definition term_offset_of (raw_tail term_length : Z) : Z :=
  wrap32 (Z.min (raw_tail mod two32) term_length).

Definition next_partition_index (m : mode) (i : Z) : outcome Z :=
  s <- add32 m i 1 ;; Ok (rem_t s PARTITION_COUNT).
Definition previous_partition_index (m : mode) (i : Z) : outcome Z :=
  s <- add32 m i (PARTITION_COUNT - 1) ;; Ok (rem_t s PARTITION_COUNT).

(* Header::position: align(term_offset + frame_length, FRAME_ALIGNMENT) then compute_position.
   align is (value + (alignment - 1)) & !(alignment - 1) on i32. *)
Definition align32 (m : mode) (v : Z) : outcome Z :=
  s <- add32 m v (FRAME_ALIGNMENT - 1) ;; Ok ((s / FRAME_ALIGNMENT) * FRAME_ALIGNMENT).
Definition header_position (m : mode) (init bits term_id off frame_len : Z) : outcome Z :=
  e <- add32 m off frame_len ;;
  r <- align32 m e ;;
  compute_position m term_id r bits init.

(* the consistency test of offer_opt / try_claim / offer_bulk:
   term_count != term_id.wrapping_sub(initial_term_id)  ==> AdminAction *)
Definition term_count_consistent (term_count term_id init : Z) : bool :=
  term_count =? wrap32 (term_id - init).

(* log meta data as far as rotation is concerned *)
Record meta := { tail0 : Z; tail1 : Z; tail2 : Z; count : Z }.
Definition get_tail (s : meta) (i : Z) : Z :=
  if i =? 0 then tail0 s else if i =? 1 then tail1 s else tail2 s.
Definition set_tail (s : meta) (i v : Z) : meta :=
  if i =? 0 then {| tail0 := v; tail1 := tail1 s; tail2 := tail2 s; count := count s |}
  else if i =? 1 then {| tail0 := tail0 s; tail1 := v; tail2 := tail2 s; count := count s |}
  else {| tail0 := tail0 s; tail1 := tail1 s; tail2 := v; count := count s |}.
Definition set_count (s : meta) (c : Z) : meta :=
  {| tail0 := tail0 s; tail1 := tail1 s; tail2 := tail2 s; count := c |}.

(* term_id as i64 * (1_i64 << 32) *)
Definition raw_tail_of_term (term_id : Z) : Z := term_id * two32.

(* rotate_log run without interference (the CAS on the tail succeeds the first
   time it is attempted; the CAS on the count compares with current_term_count). *)
Definition rotate_log (m : mode) (s : meta) (cur_count cur_term_id : Z) : outcome meta :=
  let next_term_id := wrap32 (cur_term_id + 1) in
  next_count <- add32 m cur_count 1 ;;
  let next_index := index_by_term_count next_count in
  let expected := wrap32 (next_term_id - PARTITION_COUNT) in
  let new_raw := raw_tail_of_term next_term_id in
  let raw := get_tail s next_index in
  let s1 := if term_id_of raw =? expected then set_tail s next_index new_raw else s in
  Ok (if count s1 =? cur_count then set_count s1 next_count else s1).

(* ---- specification side (what the property says) ---- *)
Definition spec_position (n bits off : Z) : Z := n * 2 ^ bits + off.
