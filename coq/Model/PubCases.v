(* Helpers for evaluating harness cases on the publisher-side models (the harness builds the same inputs). *)
Require Import V.Base.MachineInt.
Require Import V.Generated.GenConsts.
Require Import V.Model.Descriptor.
Require Import V.Model.LogBase.
Require Import V.Model.LogDelta.
Require Import V.Model.Appender.
Require Import V.Model.ExclAppender.
Require Import V.Model.Publication.
Require Import V.Model.ExclPublication.
Open Scope Z_scope.

(* message cut into consecutive buffers of the given lengths *)
Fixpoint split_lens (msg : list Z) (lens : list Z) : list (list Z) :=
  match lens with
  | [] => []
  | n :: r => firstn (Z.to_nat n) msg :: split_lens (skipn (Z.to_nat n) msg) r
  end.
Definition bulk_of (k : Z) (lens : list Z) : list (list Z) :=
  split_lens (payload k (fold_left Z.add lens 0)) lens.

Definition SESSION : Z := 11.
Definition STREAM : Z := 22.
Definition case_log (tlen mtu init n0 off0 : Z) : log := handed_over init tlen mtu SESSION STREAM n0 off0.

Definition shared_case (m : mode) (tlen mtu init n0 off0 : Z) (ops : list op) :=
  pub_trace m harness_rv (pub_init (case_log tlen mtu init n0 off0)) ops.
Definition excl_case (m : mode) (tlen mtu init n0 off0 : Z) (ops : list op) :=
  match xpub_new (case_log tlen mtu init n0 off0) with
  | Ok x => xpub_trace m harness_rv x ops
  | _ => []
  end.
Definition excl_case_asis (m : mode) (tlen mtu init n0 off0 : Z) (ops : list op) :=
  match xpub_new_asis (case_log tlen mtu init n0 off0) with
  | Ok x => xpub_trace m harness_rv x ops
  | _ => []
  end.

(* ---- C18: a vectored offer against the contiguous offer of the concatenation, both from the state the pre-ops reach ---- *)
Definition twin_case (m : mode) (tlen mtu init n0 off0 : Z) (pre : list op) (k : Z) (lens : list Z) :=
  let s0 := pub_init (case_log tlen mtu init n0 off0) in
  let sp := pub_run m harness_rv s0 pre in
  let before := last (pub_trace m harness_rv s0 pre) (pub_obs m s0 s0 (Ok 0)) in
  let '(sa, ra) := pub_step m harness_rv sp (Bulk (bulk_of k lens)) in
  let '(sb, rb) := pub_step m harness_rv sp (Offer (payload k (fold_left Z.add lens 0))) in
  (before, pub_obs m sp sa ra, pub_obs m sp sb rb).

Definition xapp_obs (l : log) (r : outcome appended) :=
  match r with
  | Ok a => (Ok (a_result a), LogDelta.log_delta l (a_log a))
  | Err e => (Err e, LogDelta.log_delta l l)
  | Panic => (Panic, LogDelta.log_delta l l)
  | Hang => (Hang, LogDelta.log_delta l l)
  | Crash => (Crash, LogDelta.log_delta l l)
  end.
Definition xapp_case (m : mode) (tlen mtu init n0 off0 k : Z) (lens : list Z) :=
  let l := case_log tlen mtu init n0 off0 in
  let idx := index_by_term_count n0 in
  let tid := wrap32 (init + n0) in
  let total := fold_left Z.add lens 0 in
  (xapp_obs l (eta_append_unfragmented_bulk m harness_rv l idx tid off0 (bulk_of k lens) total),
   xapp_obs l (eta_append_unfragmented m harness_rv l idx tid off0 (payload k total))).
