(* Helpers for evaluating harness cases on the publisher-side models (the harness builds the same inputs). *)
Require Import V.Base.MachineInt V.Generated.GenConsts V.Model.Descriptor V.Model.LogBase V.Model.Appender
               V.Model.ExclAppender V.Model.Publication V.Model.ExclPublication.
Open Scope Z_scope.

(* message cut into consecutive buffers of the given lengths *)
Fixpoint split_lens (msg : list Z) (lens : list Z) : list (list Z) :=
  match lens with
  | [] => []
  | n :: r => firstn (Z.to_nat n) msg :: split_lens (skipn (Z.to_nat n) msg) r
  end.
Definition bulk_of (k : Z) (lens : list Z) : list (list Z) :=
  split_lens (payload k (fold_left Z.add lens 0)) lens.

Definition SESSION : Z := 11.
Definition STREAM : Z := 22.
Definition case_log (tlen mtu init n0 off0 : Z) : log := handed_over init tlen mtu SESSION STREAM n0 off0.

Definition shared_case (m : mode) (tlen mtu init n0 off0 : Z) (ops : list op) :=
  pub_trace m harness_rv (pub_init (case_log tlen mtu init n0 off0)) ops.
Definition excl_case (m : mode) (tlen mtu init n0 off0 : Z) (ops : list op) :=
  match xpub_new (case_log tlen mtu init n0 off0) with
  | Ok x => xpub_trace m harness_rv x ops
  | _ => []
  end.
Definition excl_case_asis (m : mode) (tlen mtu init n0 off0 : Z) (ops : list op) :=
  match xpub_new_asis (case_log tlen mtu init n0 off0) with
  | Ok x => xpub_trace m harness_rv x ops
  | _ => []
  end.
