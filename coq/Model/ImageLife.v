(* Model of the image life-cycle and of the managed log-buffer registry of src/client_conductor.rs
   (property C12): on_available_image, on_unavailable_image, release_subscription (Drop for Subscription),
   close_all_resources (Agent::on_close), get_log_buffers, on_new_publication / release_publication as far
   as they hold log buffers, linger_resource, on_check_managed_resources and the resource-check timer of
   on_heartbeat_check_timeouts; Subscription::{add_image, remove_image, close_and_remove_images, images},
   AtomicVec::{add, remove, take}, Image::close.

   on_check_managed_resources is modelled as REPAIRED by fixes/C12-linger-underflow.diff
   (`now > t + linger` / `now <= t + linger` instead of `now - linger > t` / `now - linger <= t` on u64).

   Reference counts are not stored: whether a registry entry's LogBuffers is referenced from outside the
   registry (Arc::strong_count > 1) is computed from the objects that hold a clone of the Arc: images in the
   image lists of live subscriptions, images in lingering lists, image clones the application keeps,
   publication state entries and publication handles.

   Scope (documented in tools/props/c12.py): a subscription / publication is always taken through
   add_* -> driver's "ready" event -> find_* in one step, so the application holds the only strong handle;
   the liveness timers of C11 never fire (fresh driver heartbeat, no client heartbeat counter, huge
   inter-service timeout); only the resource-check timer matters.
   Fault: the to-driver ring may be full (`ringfull`, operations Stall / Drain): commands are refused.   Definitions only. *)
Require Import V.Base.MachineInt V.Generated.GenConsts V.Model.CondTimers.
Open Scope Z_scope.

(* an Image object: correlation id (also its key in the log-buffer registry) and an identity shared by its
   clones (the Arc<AtomicBool> closed flag) *)
Record img := mkImg { i_corr : Z; i_oid : Z }.
(* a Subscription object the application holds *)
Record sobj := mkSobj { so_reg : Z; so_imgs : list img; so_closed : bool; so_inmap : bool }.
(* a publication: p_held: the application holds the handle; p_inmap: the conductor still has its state entry (which holds
   the buffers too).  An entry lives while either is true. *)
Record pobj := mkPobj { p_reg : Z; p_key : Z; p_inmap : bool; p_held : bool }.
(* log_buffers_by_registration_id: key, mapped file, time_of_last_state_change_ms *)
Record entry := mkEntry { e_key : Z; e_file : Z; e_time : Z }.
(* a callback: kind (1 available, 2 unavailable), subscription registration id, correlation id, Image::is_closed
   at the time of the call, object identity (model only) *)
Record cb := mkCb { cb_kind : Z; cb_reg : Z; cb_corr : Z; cb_closed : Z; cb_oid : Z }.
Definition CB_AVAIL : Z := 1.
Definition CB_UNAVAIL : Z := 2.

Record st := mkSt {
  t_chk : Z;                        (* time_of_last_check_managed_resources_ms *)
  cclosed : bool;                   (* is_closed *)
  nid : Z;                          (* the ring's correlation counter *)
  noid : Z;                         (* next image object identity *)
  subs : list sobj;
  pubs : list pobj;
  clones : list img;                (* image clones kept by the application *)
  closed_oids : list Z;             (* identities of closed image objects *)
  registry : list entry;
  lingering : list (Z * list img);  (* lingering_image_lists, oldest first *)
  cblog : list cb;                  (* every image callback so far, oldest first *)
  ringfull : bool                   (* the to-driver ring refuses commands (stalled driver) *)
}.

Definition init (t0 cid : Z) : st := mkSt t0 false (cid + 1) 0 [] [] [] [] [] [] [] false.

Definition upd_subs s v := mkSt (t_chk s) (cclosed s) (nid s) (noid s) v (pubs s) (clones s) (closed_oids s) (registry s) (lingering s) (cblog s) (ringfull s).
Definition upd_pubs s v := mkSt (t_chk s) (cclosed s) (nid s) (noid s) (subs s) v (clones s) (closed_oids s) (registry s) (lingering s) (cblog s) (ringfull s).
Definition upd_clones s v := mkSt (t_chk s) (cclosed s) (nid s) (noid s) (subs s) (pubs s) v (closed_oids s) (registry s) (lingering s) (cblog s) (ringfull s).
Definition upd_registry s v := mkSt (t_chk s) (cclosed s) (nid s) (noid s) (subs s) (pubs s) (clones s) (closed_oids s) v (lingering s) (cblog s) (ringfull s).
Definition upd_lingering s v := mkSt (t_chk s) (cclosed s) (nid s) (noid s) (subs s) (pubs s) (clones s) (closed_oids s) (registry s) v (cblog s) (ringfull s).
Definition upd_nid s v := mkSt (t_chk s) (cclosed s) v (noid s) (subs s) (pubs s) (clones s) (closed_oids s) (registry s) (lingering s) (cblog s) (ringfull s).
Definition upd_full s v := mkSt (t_chk s) (cclosed s) (nid s) (noid s) (subs s) (pubs s) (clones s) (closed_oids s) (registry s) (lingering s) (cblog s) v.
Definition upd_t_chk s v := mkSt v (cclosed s) (nid s) (noid s) (subs s) (pubs s) (clones s) (closed_oids s) (registry s) (lingering s) (cblog s) (ringfull s).

Definition uses (k : Z) (i : img) : bool := i_corr i =? k.
(* Arc::strong_count(&entry.log_buffers) > 1 *)
Definition in_use (s : st) (k : Z) : bool :=
  existsb (fun o => existsb (uses k) (so_imgs o)) (subs s)
  || existsb (fun l => existsb (uses k) (snd l)) (lingering s)
  || existsb (uses k) (clones s)
  || existsb (fun p => p_key p =? k) (pubs s).

Definition has_key (k : Z) (r : list entry) : bool := existsb (fun e => e_key e =? k) r.
(* get_log_buffers: an existing entry is re-armed (time := MAX_MOMENT), else the file is mapped and entered *)
Definition acquire (r : list entry) (k file : Z) : list entry :=
  if has_key k r then map (fun e => if e_key e =? k then mkEntry (e_key e) (e_file e) MAX_MOMENT else e) r
  else r ++ [mkEntry k file MAX_MOMENT].

(* on_check_managed_resources(now) as repaired: first the registry, then the lingering lists *)
Definition check_entry (m : mode) (linger now : Z) (s : st) (e : entry) : outcome (option entry) :=
  if in_use s (e_key e) then Ok (Some e)
  else if e_time e =? MAX_MOMENT then Ok (Some (mkEntry (e_key e) (e_file e) now))
  else (old <- gt_sum m now (e_time e) linger ;; Ok (if old then None else Some e)).

Fixpoint check_registry (m : mode) (linger now : Z) (s : st) (r : list entry) : outcome (list entry) :=
  match r with
  | [] => Ok []
  | e :: rest =>
      x <- check_entry m linger now s e ;;
      rest' <- check_registry m linger now s rest ;;
      Ok (match x with Some e' => e' :: rest' | None => rest' end)
  end.

Fixpoint check_lingering (m : mode) (linger now : Z) (l : list (Z * list img)) : outcome (list (Z * list img)) :=
  match l with
  | [] => Ok []
  | (t, imgs) :: rest =>
      old <- gt_sum m now t linger ;;
      rest' <- check_lingering m linger now rest ;;
      Ok (if old then rest' else (t, imgs) :: rest')
  end.

Definition check_resources (m : mode) (linger now : Z) (s : st) : outcome st :=
  r <- check_registry m linger now s (registry s) ;;
  l <- check_lingering m linger now (lingering s) ;;
  Ok (upd_lingering (upd_registry s r) l).

(* the resource-check timer of on_heartbeat_check_timeouts *)
Definition timers (m : mode) (linger now : Z) (s : st) : outcome st :=
  due <- gt_sum m now (t_chk s) RESOURCE_TIMEOUT_MS ;;
  if due then (s' <- check_resources m linger now s ;; Ok (upd_t_chk s' now)) else Ok s.

Definition find_sub (reg : Z) (l : list sobj) : option sobj := find (fun o => so_reg o =? reg) l.
Definition set_sub (o' : sobj) (l : list sobj) : list sobj :=
  map (fun o => if so_reg o =? so_reg o' then o' else o) l.
Definition live (o : sobj) : bool := so_inmap o.

Definition linger (s : st) (now : Z) (imgs : list img) : st := upd_lingering s (lingering s ++ [(now, imgs)]).
Definition log_cb (s : st) (c : list cb) : st :=
  mkSt (t_chk s) (cclosed s) (nid s) (noid s) (subs s) (pubs s) (clones s) (closed_oids s) (registry s) (lingering s) (cblog s ++ c) (ringfull s).
Definition close_imgs (s : st) (imgs : list img) : st :=
  mkSt (t_chk s) (cclosed s) (nid s) (noid s) (subs s) (pubs s) (clones s) (closed_oids s ++ map i_oid imgs) (registry s) (lingering s) (cblog s) (ringfull s).

(* on_available_image *)
Definition on_available (s : st) (now corr reg file : Z) : st :=
  match find_sub reg (subs s) with
  | Some o =>
      if live o then
        let i := mkImg corr (noid s) in
        let s1 := upd_registry s (acquire (registry s) corr file) in
        let s2 := log_cb s1 [mkCb CB_AVAIL reg corr 0 (noid s)] in
        let s3 := upd_subs s2 (set_sub (mkSobj reg (so_imgs o ++ [i]) (so_closed o) (so_inmap o)) (subs s2)) in
        let s4 := mkSt (t_chk s3) (cclosed s3) (nid s3) (noid s3 + 1) (subs s3) (pubs s3) (clones s3) (closed_oids s3)
                       (registry s3) (lingering s3) (cblog s3) (ringfull s3) in
        linger s4 now (so_imgs o)
      else s
  | None => s
  end.

(* AtomicVec::remove: first element with the correlation id *)
Fixpoint remove_first (corr : Z) (l : list img) : option (img * list img) :=
  match l with
  | [] => None
  | i :: rest => if i_corr i =? corr then Some (i, rest)
                 else match remove_first corr rest with Some (x, r) => Some (x, i :: r) | None => None end
  end.

(* on_unavailable_image *)
Definition on_unavailable (s : st) (now corr reg : Z) : st :=
  match find_sub reg (subs s) with
  | Some o =>
      if live o then
        match remove_first corr (so_imgs o) with
        | Some (i, rest) =>
            let s1 := close_imgs s [i] in
            let s2 := upd_subs s1 (set_sub (mkSobj reg rest (so_closed o) (so_inmap o)) (subs s1)) in
            let s3 := log_cb s2 [mkCb CB_UNAVAIL reg corr 1 (i_oid i)] in
            linger s3 now (so_imgs o)
        | None => s
        end
      else s
  | None => s
  end.

Definition unavail_cbs (reg : Z) (imgs : list img) : list cb :=
  map (fun i => mkCb CB_UNAVAIL reg (i_corr i) 1 (i_oid i)) imgs.

(* Drop for Subscription -> release_subscription(reg, image_list.take()) *)
Definition drop_sub (s : st) (now reg : Z) : st :=
  match find_sub reg (subs s) with
  | Some o =>
      let others := filter (fun x => negb (so_reg x =? reg)) (subs s) in
      if so_inmap o then
        let s1 := upd_nid s (nid s + 1) in                    (* remove_subscription command *)
        let s2 := close_imgs s1 (so_imgs o) in
        let s3 := log_cb s2 (unavail_cbs reg (so_imgs o)) in
        linger (upd_subs s3 others) now (so_imgs o)
      else upd_subs s others                                   (* unknown registration: the images are just dropped *)
  | None => s
  end.

(* close_all_resources: every registered subscription that is not yet closed hands over its images
   (close_and_remove_images), each is closed and reported unavailable, the lists linger; all maps are cleared *)
Definition closing (o : sobj) : bool := so_inmap o && negb (so_closed o).
Definition closed_sub (o : sobj) : sobj :=
  if closing o then mkSobj (so_reg o) [] true false else mkSobj (so_reg o) (so_imgs o) (so_closed o) false.
Definition closing_imgs (l : list sobj) : list img := flat_map (fun o => if closing o then so_imgs o else []) l.
Definition closing_cbs (l : list sobj) : list cb := flat_map (fun o => if closing o then unavail_cbs (so_reg o) (so_imgs o) else []) l.
Definition closing_lists (now : Z) (l : list sobj) : list (Z * list img) :=
  flat_map (fun o => if closing o then [(now, so_imgs o)] else []) l.

(* Agent::on_close *)
Definition close_client (s : st) (now : Z) : st :=
  if cclosed s then s else
  mkSt (t_chk s) true (nid s) (noid s) (map closed_sub (subs s))
       (map (fun p => mkPobj (p_reg p) (p_key p) false true) (filter p_held (pubs s)))
       (clones s) (closed_oids s ++ map i_oid (closing_imgs (subs s))) (registry s)
       (lingering s ++ closing_lists now (subs s)) (cblog s ++ closing_cbs (subs s)) (ringfull s).

(* on_channel_endpoint_error_response for the channel status indicator the subscriptions of these histories are registered on
   (the publications sit on another one): every registered subscription that is not yet closed hands over its images
   (close_and_remove_images), each is closed and reported unavailable, the list lingers, and the conductor forgets the
   subscription - the application keeps the closed handle; the client stays open. A later announcement for such a
   subscription is ignored like one for an unknown subscription. *)
Definition chan_sub (o : sobj) : sobj := if closing o then mkSobj (so_reg o) [] true false else o.
Definition chan_err (s : st) (now : Z) : st :=
  mkSt (t_chk s) (cclosed s) (nid s) (noid s) (map chan_sub (subs s)) (pubs s)
       (clones s) (closed_oids s ++ map i_oid (closing_imgs (subs s))) (registry s)
       (lingering s ++ closing_lists now (subs s)) (cblog s ++ closing_cbs (subs s)) (ringfull s).

Inductive op :=
| Subscribe (now : Z)                      (* add_subscription; ON_SUBSCRIPTION_READY in a duty cycle; find_subscription *)
| Publish (now share file : Z)             (* add_publication; ON_PUBLICATION_READY (original registration id = share, or its own when share < 0); find_publication *)
| Avail (now corr reg file : Z)            (* ON_AVAILABLE_IMAGE in a duty cycle *)
| Unavail (now corr reg : Z)               (* ON_UNAVAILABLE_IMAGE in a duty cycle *)
| Tick (now : Z)                           (* duty cycle without event *)
| DropSub (now reg : Z)                    (* the application drops its subscription handle *)
| DropPub (now reg : Z)
| Hold (reg idx : Z)                       (* the application clones image idx of a subscription *)
| Unhold (j : Z)                           (* ... and drops its j-th clone *)
| CloseClient (now : Z)
| Stall                                    (* the driver stalls and the to-driver ring fills up: every further command is refused *)
| Drain                                    (* the driver consumes the ring *)
| ChanErr (now : Z).                       (* ON_ERROR with code 4 (channel endpoint error) for the subscriptions' channel status indicator, in a duty cycle *)

Fixpoint remove_nth {A} (n : nat) (l : list A) : list A :=
  match l, n with
  | [], _ => []
  | _ :: r, O => r
  | x :: r, S n' => x :: remove_nth n' r
  end.

(* result of the API part of an operation (registration id), state *)
(* Drop for Publication -> release_publication: the REMOVE_PUBLICATION command draws a correlation id; if the ring
   refuses it the error is propagated (`?`) BEFORE the state entry is forgotten: the entry, and with it a reference
   to the log buffers, stays in the conductor until the client is closed *)
Definition is_held_pub (reg : Z) (p : pobj) : bool := (p_reg p =? reg) && p_held p.
Definition drop_pub (s : st) (reg : Z) : st :=
  match find (is_held_pub reg) (pubs s) with
  | Some p =>
      if p_inmap p then
        if ringfull s then upd_nid (upd_pubs s (map (fun x => if is_held_pub reg x then mkPobj (p_reg x) (p_key x) true false else x) (pubs s))) (nid s + 1)
        else upd_nid (upd_pubs s (filter (fun x => negb (is_held_pub reg x)) (pubs s))) (nid s + 1)
      else upd_pubs s (filter (fun x => negb (is_held_pub reg x)) (pubs s))
  | None => s
  end.

(* result of the API part of an operation (registration id), state.
   add_subscription / add_publication draw a correlation id and write the command; a refused write is an error
   (IllegalStateError::CouldNotWriteCommandToDriver) and nothing is registered.
   release_subscription ignores a refused REMOVE_SUBSCRIPTION (drop_sub is the same with a full ring). *)
Definition step (m : mode) (lg : Z) (s : st) (o : op) : outcome (st * outcome Z) :=
  match o with
  | Subscribe now =>
      if cclosed s then Ok (s, Err Closed) else
      if ringfull s then Ok (upd_nid s (nid s + 1), Err IllegalState) else
      let id := nid s in
      let s1 := upd_subs (upd_nid s (id + 1)) (subs s ++ [mkSobj id [] false true]) in
      s2 <- timers m lg now s1 ;; Ok (s2, Ok id)
  | Publish now share file =>
      if cclosed s then Ok (s, Err Closed) else
      if ringfull s then Ok (upd_nid s (nid s + 1), Err IllegalState) else
      let id := nid s in
      let key := if share <? 0 then id else share in
      let s1 := upd_registry (upd_pubs (upd_nid s (id + 1)) (pubs s ++ [mkPobj id key true true])) (acquire (registry s) key file) in
      s2 <- timers m lg now s1 ;; Ok (s2, Ok id)
  | Avail now corr reg file => s1 <- timers m lg now (on_available s now corr reg file) ;; Ok (s1, Ok 0)
  | Unavail now corr reg => s1 <- timers m lg now (on_unavailable s now corr reg) ;; Ok (s1, Ok 0)
  | Tick now => s1 <- timers m lg now s ;; Ok (s1, Ok 0)
  | DropSub now reg => Ok (drop_sub s now reg, Ok 0)
  | DropPub now reg => Ok (drop_pub s reg, Ok 0)
  | Hold reg idx =>
      match find_sub reg (subs s) with
      | Some o => match (if idx <? 0 then None else nth_error (so_imgs o) (Z.to_nat idx)) with
                  | Some i => Ok (upd_clones s (clones s ++ [i]), Ok 0)
                  | None => Ok (s, Ok 0)
                  end
      | None => Ok (s, Ok 0)
      end
  | Unhold j => Ok (if j <? 0 then s else upd_clones s (remove_nth (Z.to_nat j) (clones s)), Ok 0)
  | CloseClient now => Ok (close_client s now, Ok 0)
  | Stall => Ok (upd_full s true, Ok 0)
  | Drain => Ok (upd_full s false, Ok 0)
  | ChanErr now => s1 <- timers m lg now (chan_err s now) ;; Ok (s1, Ok 0)
  end.

(* ---- what one operation shows ---- *)
Definition is_closed_img (s : st) (i : img) : Z := b2z (existsb (Z.eqb (i_oid i)) (closed_oids s)).
Definition sub_view (s : st) (o : sobj) : Z * list (Z * Z) :=
  (so_reg o, map (fun i => (i_corr i, is_closed_img s i)) (so_imgs o)).
Definition cb_view (c : cb) : Z * Z * Z * Z := (cb_kind c, cb_reg c, cb_corr c, cb_closed c).
Definition FILES : list Z := [0; 1; 2; 3].
Definition mapped (s : st) : list Z := filter (fun f => existsb (fun e => e_file e =? f) (registry s)) FILES.

Inductive obs :=
| OStep (r : outcome Z) (cbs : list (Z * Z * Z * Z)) (views : list (Z * list (Z * Z))) (maps : list Z) (held : list Z)
| OPanic.

Definition observe (s s' : st) (r : outcome Z) : obs :=
  OStep r (map cb_view (skipn (length (cblog s)) (cblog s'))) (map (sub_view s') (subs s')) (mapped s')
        (map (is_closed_img s') (clones s')).

Fixpoint run (m : mode) (lg : Z) (s : st) (ops : list op) : list obs :=
  match ops with
  | [] => []
  | o :: rest => match step m lg s o with
                 | Ok (s', r) => observe s s' r :: run m lg s' rest
                 | _ => [OPanic]
                 end
  end.

Fixpoint exec (m : mode) (lg : Z) (s : st) (ops : list op) : option st :=
  match ops with
  | [] => Some s
  | o :: rest => match step m lg s o with
                 | Ok (s', _) => exec m lg s' rest
                 | _ => None
                 end
  end.
