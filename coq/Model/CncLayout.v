(* Model of src/cnc_file_descriptor.rs: the five regions carved out of the CnC file from the lengths stored in its
   meta data, and the getters.  Every `create_*_buffer` reads the whole `MetaDataDefn` (bounds-checked against
   the mapped size) and calls `cnc_file.atomic_buffer(offset, length)`, which checks nothing; the offset is a
   left-to-right sum of `Index` (i32) values: it panics in a debug build and wraps in a release build. *)
From Coq Require Import ZArith List Bool Lia.
Require Import V.Base.MachineInt V.Generated.GenConsts.
Import ListNotations.
Open Scope Z_scope.

Record cmeta := mkMeta { m_ver : Z; m_td : Z; m_tc : Z; m_cm : Z; m_cv : Z; m_el : Z; m_clt : Z; m_st : Z; m_pid : Z }.

Definition META : Z := CNC_META_DATA_LENGTH.
Definition META_FIELDS : Z := CNC_META_DATA_FIELDS_END.

(* meta_data_buffer.get::<MetaDataDefn>(0) on a buffer of `msize` bytes *)
Definition read_meta (msize : Z) : outcome unit :=
  if META_FIELDS <=? msize then Ok tt else Panic.

Fixpoint sum32 (m : mode) (acc : Z) (l : list Z) : outcome Z :=
  match l with
  | [] => Ok acc
  | x :: r => s <- add32 m acc x ;; sum32 m s r
  end.

(* region i (0 = to-driver ... 4 = error log): (offset from the start of the mapping, capacity) *)
Definition lens (c : cmeta) : list Z := [m_td c; m_tc c; m_cm c; m_cv c; m_el c].
Definition region (m : mode) (msize : Z) (c : cmeta) (i : nat) : outcome (Z * Z) :=
  _ <- read_meta msize ;;
  off <- sum32 m META (firstn i (lens c)) ;;
  Ok (off, nth i (lens c) 0).

Definition regions (m : mode) (msize : Z) (c : cmeta) : list (outcome (Z * Z)) :=
  map (region m msize c) [0; 1; 2; 3; 4]%nat.

(* cnc_version_volatile needs 4 bytes, the other getters the whole struct *)
Definition getters (msize : Z) (c : cmeta) : outcome (Z * Z * Z * Z * Z * Z) :=
  if (4 <=? msize) && (META_FIELDS <=? msize) then Ok (m_ver c, m_clt c, m_st c, m_pid c, META, msize) else Panic.

Definition layout (m : mode) (flen : Z) (c : cmeta) : list (outcome (Z * Z)) * outcome (Z * Z * Z * Z * Z * Z) :=
  (regions m (wrap32 flen) c, getters (wrap32 flen) c).
