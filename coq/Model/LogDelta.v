(* Observation of a log relative to the previous observation: the words of each partition that changed.
   Dumping three whole partitions after every operation of a history is what the correspondence check would like
   to compare, but the volume makes Coq's parser and printer the bottleneck; the same information is carried by the
   first dump (empty partitions at hand-over) and the changes.  Definitions only. *)
Require Import V.Base.MachineInt.
Require Import V.Model.LogBase.
Open Scope Z_scope.

(* a, b: sparse words in increasing offset order.  Result: (offset, value now) for every word whose value differs,
   value 0 for a word that was non-zero and is zero now. *)
Fixpoint words_diff (a : list (Z * Z)) : list (Z * Z) -> list (Z * Z) :=
  fix aux (b : list (Z * Z)) : list (Z * Z) :=
    match a, b with
    | [], _ => b
    | (oa, _) :: a', [] => (oa, 0) :: words_diff a' []
    | (oa, va) :: a', (ob, vb) :: b' =>
        if oa =? ob then (if va =? vb then words_diff a' b' else (ob, vb) :: words_diff a' b')
        else if oa <? ob then (oa, 0) :: words_diff a' b
        else (ob, vb) :: aux b'
    end.

Definition log_delta (before after : log) :=
  (l_count after, [l_t0 after; l_t1 after; l_t2 after],
   [words_diff (render_term (l_p0 before)) (render_term (l_p0 after));
    words_diff (render_term (l_p1 before)) (render_term (l_p1 after));
    words_diff (render_term (l_p2 before)) (render_term (l_p2 after))]).
