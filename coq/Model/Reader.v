(* Subscriber side of the term-log model, part 1: what a reader sees in a term partition and the
   two library scanners, src/concurrent/logbuffer/term_reader.rs `read` and term_scan.rs `scan`.

   A reader positioned at offset `off` of a partition `t : term` (LogBase) loads the length word at
   `off`: positive = a committed frame whose header it may read, zero = nothing written yet,
   negative = a frame claimed but not yet committed.  `view t off` is that reading for every
   successive frame boundary: the maximal run of committed frames starting at `off`; the empty list
   means "the length word at this offset is <= 0".  All loops below are structural recursion over that
   list (the loop's `if frame_length <= 0 { break }` is the `[]` case).
   Offsets are i32 in the source; every offset the loops compute is bounded by capacity + one frame,
   far below 2^31 for the frame lengths a term can hold, so they are plain Z here; the places where the
   source narrows or may overflow (Image: `as i32`, `term_offset + block_length_limit`, bound
   arithmetic) are modelled with the machine operators in Image.v.
   Definitions only. *)
Require Import V.Base.MachineInt.
Require Import V.Generated.GenConsts.
Require Import V.Model.LogBase.
Open Scope Z_scope.

(* ControlledPollAction *)
Inductive action := Abort | Break | Commit | Continue.

(* frame_descriptor::is_padding_frame: get::<u16>(type_offset) == HDR_TYPE_PAD *)
Definition is_pad (f : frame) : bool := f_type f =? T_PAD.
(* bit_utils::align(frame_length, FRAME_ALIGNMENT) *)
Definition span (f : frame) : Z := align (f_len f) FA.

(* entries stored from offset `off` on; [] when `off` is past everything written or not on an entry boundary
   (all theorems start on a boundary) *)
Fixpoint seek (t : term) (off : Z) : list entry :=
  match t with
  | [] => []
  | e :: r => if off <=? 0 then t else if off <? entry_span e then [] else seek r (off - entry_span e)
  end.

(* the committed frames a reader walks over from the head of `es` *)
Fixpoint avail (es : list entry) : list frame :=
  match es with
  | Committed f :: r => if f_len f <=? 0 then [] else f :: avail r
  | _ => []
  end.

Definition view (t : term) (off : Z) : list frame := avail (seek t off).

(* a fragment handed to a handler: (offset of the frame header, the frame) ; the handler receives
   (buffer, offset + HDR, f_len - HDR, header at offset) *)
Definition dlv := (Z * frame)%type.

(* term_reader::read, also the loop of Image::bounded_poll (there `cap` is limit_offset):
     while fragments_read < fragments_limit && term_offset < capacity {
         let frame_length = frame_length_volatile(term_offset);  if frame_length <= 0 { break; }
         let fragment_offset = term_offset;  term_offset += align(frame_length, FRAME_ALIGNMENT);
         if !is_padding_frame(fragment_offset) { handler(fragment_offset + HDR, frame_length - HDR, header); fragments_read += 1; } }
   result: (offset reached, fragments read, fragments handed over) *)
Fixpoint read_loop (cap limit : Z) (fs : list frame) (off n : Z) : Z * Z * list dlv :=
  if (n <? limit) && (off <? cap) then
    match fs with
    | [] => (off, n, [])
    | f :: r =>
        let off' := off + span f in
        if is_pad f then read_loop cap limit r off' n
        else let '(o, c, ds) := read_loop cap limit r off' (n + 1) in (o, c, (off, f) :: ds)
    end
  else (off, n, []).

Definition term_read (cap : Z) (fs : list frame) (off limit : Z) : Z * Z * list dlv :=
  read_loop cap limit fs off 0.

(* term_scan::scan(term_buffer, term_offset = start, limit_offset):
     while offset < limit_offset {
         frame_length <= 0 => break;  aligned = align(frame_length);
         if is_padding_frame(offset) { if term_offset == offset { offset += aligned; } break; }
         if offset + aligned > limit_offset { break; }
         offset += aligned; } *)
Fixpoint scan_loop (start limit : Z) (fs : list frame) (off : Z) : Z :=
  if off <? limit then
    match fs with
    | [] => off
    | f :: r =>
        if is_pad f then (if start =? off then off + span f else off)
        else if off + span f >? limit then off
        else scan_loop start limit r (off + span f)
    end
  else off.

Definition term_scan (fs : list frame) (start limit : Z) : Z := scan_loop start limit fs start.

(* ---- vocabulary of the statements ---- *)

Fixpoint span_sum (fs : list frame) : Z :=
  match fs with [] => 0 | f :: r => span f + span_sum r end.

(* frames laid out consecutively from `off`, with the offset of each *)
Fixpoint place (off : Z) (fs : list frame) : list dlv :=
  match fs with [] => [] | f :: r => (off, f) :: place (off + span f) r end.

Definition data_of (ps : list dlv) : list dlv := filter (fun p => negb (is_pad (snd p))) ps.
