(* The same code as Model/Ring.v, but as per-thread pc-machines over the shared-memory accesses
   the verification hook reports: one `step` = the access the thread is parked at, followed by
   the thread-local computation up to its next access (exactly what vcommon::sched grants).

   producer (ManyToOneRingBuffer::write -> claim):
     PReadHC     head  = get_volatile(head_cache)
     PReadTail   tail  = get_volatile(tail)                       (loop start)
     PReadHead1  head  = get_volatile(head)                       (first capacity check failed)
     PWriteHC1   put_ordered(head_cache, head)
     PReadHead2  head  = get_volatile(head)                       (wrap: front too small with the cached head)
     PWriteHC2   put_ordered(head_cache, head)
     PCas        compare_and_set(tail, tail, tail + required + padding)   (failure -> PReadTail)
     PPadHdr     put_ordered::<i64>(tail_index, make_header(padding, Padding))
     PHdr        put_ordered::<i64>(record_index, make_header(-record_len, cmd))
     PCopy       copy_from(record_index + 8, src, 0, length)
     PCommit     put_ordered::<i32>(record_index, record_len)
   consumer (read):
     CReadHead   head = get_volatile(head)
     CReadHdr    header = get_volatile::<i64>(head_index + bytes_read)
     CHandler    the handler reads the view (as_slice)
     CZero       set_memory(head_index, bytes_read, 0)
     CPutHead    put_ordered(head, head + bytes_read)

   Thread 0 is the consumer, thread i+1 is producer i.  A dead producer is a thread the
   schedule never names again.  Definitions only. *)
Require Import V.Base.MachineInt.
Require Import V.Generated.GenConsts.
Require Import V.Model.LogBase.
Require Import V.Model.Ring.
Open Scope Z_scope.

Inductive akind := GetVolatile | PutOrdered | CompareAndSetI64 | CopyFrom | SetMemory | RegionRead | GetAndAddI64.
(* (thread, accessor, offset, length, operand, operand 2, value found before the access) *)
Definition event := (Z * akind * Z * Z * Z * Z * Z)%type.
Definition ev (tid : Z) (k : akind) (off len v v2 before : Z) : event := (tid, k, off, len, v, v2, before).

Definition wreq := (Z * list Z)%type.          (* message type id, payload *)

Inductive ppc :=
| PDone | PPanic
| PReadHC
| PReadTail (hd : Z)
| PReadHead1 (tl : Z)
| PWriteHC1 (hd tl : Z)
| PReadHead2 (tl : Z)
| PWriteHC2 (hd tl : Z)
| PCas (hd tl padding : Z)
| PPadHdr (tl padding : Z)
| PHdr (p : Z)
| PCopy (p : Z)
| PCommit (p : Z).

Record pstate := mkP { p_pc : ppc; p_prog : list wreq; p_k : nat; p_res : list (outcome Z) }.
Definition set_pc (ps : pstate) (pc : ppc) : pstate := mkP pc (p_prog ps) (p_k ps) (p_res ps).
Definition next_write (ps : pstate) (r : outcome Z) : pstate :=
  mkP PDone (p_prog ps) (S (p_k ps)) (p_res ps ++ [r]).

(* start write number p_k: the two argument checks touch no shared memory *)
Fixpoint enter (cp : Z) (fuel : nat) (ps : pstate) : pstate :=
  match fuel with
  | O => set_pc ps PDone
  | S f =>
      match nth_error (p_prog ps) (p_k ps) with
      | None => set_pc ps PDone
      | Some (typ, body) =>
          if typ <? 1 then enter cp f (next_write ps (Err IllegalArg))
          else if Z.of_nat (length body) >? cp / 8 then enter cp f (next_write ps (Err TooLong))
          else set_pc ps PReadHC
      end
  end.
Definition finish (cp : Z) (ps : pstate) (r : outcome Z) : pstate :=
  enter cp (S (length (p_prog ps))) (next_write ps r).
Definition pstart (cp : Z) (prog : list wreq) : pstate :=
  enter cp (S (length prog)) (mkP PDone prog O []).

(* (typ, body, record_len, required_capacity) of the write in progress *)
Definition cur (m : mode) (ps : pstate) : option (Z * list Z * Z * Z) :=
  match nth_error (p_prog ps) (p_k ps) with
  | Some (typ, body) =>
      match (rl <- add32 m (Z.of_nat (length body)) HL ;; rq <- ralign m rl ;; Ok (rl, rq)) with
      | Ok (rl, rq) => Some (typ, body, rl, rq)
      | _ => None
      end
  | None => None
  end.

(* after the first capacity check: wrap decision with the head value held *)
Definition after_check1 (m : mode) (cp rq hd tl : Z) (ps : pstate) : pstate :=
  match wrap_needed m cp rq tl with
  | Ok None => set_pc ps (PCas hd tl 0)
  | Ok (Some e) => if lacks_front cp rq hd then set_pc ps (PReadHead2 tl) else set_pc ps (PCas hd tl e)
  | _ => set_pc ps PPanic
  end.

(* the 8 bytes at position p as an i64 *)
Definition hdr64 (sl : list slot) (p : Z) : Z := make_header (pos_word sl p) (pos_word sl (p + 4)).

(* the space one successful compare-and-set claims: an optional padding piece (ghost write number -1 - k)
   and the record piece (ghost write number k), both still zero *)
Definition claim_slots (tl padding rq owner sq : Z) : list slot :=
  (if padding =? 0 then [] else [mkSlot tl padding 0 0 [] owner (- 1 - sq)]) ++ [mkSlot (tl + padding) rq 0 0 [] owner sq].

Definition pstep (m : mode) (R : ring) (tid : Z) (ps : pstate) : ring * pstate * option event :=
  let cp := r_cap R in
  match p_pc ps, cur m ps with
  | PDone, _ | PPanic, _ => (R, ps, None)
  | _, None => (R, set_pc ps PPanic, None)
  | PReadHC, Some _ =>
      (R, set_pc ps (PReadTail (r_hc R)), Some (ev tid GetVolatile (cp + HC_OFF) 8 0 0 (r_hc R)))
  | PReadTail hd, Some (typ, body, rl, rq) =>
      let tl := r_tail R in
      let e := ev tid GetVolatile (cp + TAIL_OFF) 8 0 0 tl in
      match lacks m cp rq tl hd with
      | Ok true => (R, set_pc ps (PReadHead1 tl), Some e)
      | Ok false => (R, after_check1 m cp rq hd tl ps, Some e)
      | _ => (R, set_pc ps PPanic, Some e)
      end
  | PReadHead1 tl, Some (typ, body, rl, rq) =>
      let hd := r_head R in
      let e := ev tid GetVolatile (cp + HEAD_OFF) 8 0 0 hd in
      match lacks m cp rq tl hd with
      | Ok true => (R, finish cp ps (Err InsufficientCapacity), Some e)
      | Ok false => (R, set_pc ps (PWriteHC1 hd tl), Some e)
      | _ => (R, set_pc ps PPanic, Some e)
      end
  | PWriteHC1 hd tl, Some (typ, body, rl, rq) =>
      (set_hc R hd, after_check1 m cp rq hd tl ps, Some (ev tid PutOrdered (cp + HC_OFF) 8 hd 0 (r_hc R)))
  | PReadHead2 tl, Some (typ, body, rl, rq) =>
      let hd := r_head R in
      let e := ev tid GetVolatile (cp + HEAD_OFF) 8 0 0 hd in
      if lacks_front cp rq hd then (R, finish cp ps (Err InsufficientCapacity), Some e)
      else (R, set_pc ps (PWriteHC2 hd tl), Some e)
  | PWriteHC2 hd tl, Some (typ, body, rl, rq) =>
      let e := ev tid PutOrdered (cp + HC_OFF) 8 hd 0 (r_hc R) in
      match wrap_needed m cp rq tl with
      | Ok (Some pd) => (set_hc R hd, set_pc ps (PCas hd tl pd), Some e)
      | _ => (set_hc R hd, set_pc ps PPanic, Some e)
      end
  | PCas hd tl padding, Some (typ, body, rl, rq) =>
      match new_tail m tl rq padding with
      | Ok t2 =>
          let e := ev tid CompareAndSetI64 (cp + TAIL_OFF) 8 tl t2 (r_tail R) in
          if r_tail R =? tl then
            (set_slots (set_tail R t2) (r_slots R ++ claim_slots tl padding rq tid (Z.of_nat (p_k ps))),
             set_pc ps (if padding =? 0 then PHdr tl else PPadHdr tl padding), Some e)
          else (R, set_pc ps (PReadTail hd), Some e)
      | _ => (R, set_pc ps PPanic, None)
      end
  | PPadHdr tl padding, Some _ =>
      (set_slots R (put_hdr (r_slots R) tl padding PAD), set_pc ps (PHdr (tl + padding)),
       Some (ev tid PutOrdered (mask_idx cp tl) 8 (make_header padding PAD) 0 (hdr64 (r_slots R) tl)))
  | PHdr p, Some (typ, body, rl, rq) =>
      (set_slots R (put_hdr (r_slots R) p (- rl) typ), set_pc ps (PCopy p),
       Some (ev tid PutOrdered (mask_idx cp p) 8 (make_header (- rl) typ) 0 (hdr64 (r_slots R) p)))
  | PCopy p, Some (typ, body, rl, rq) =>
      (set_slots R (upd_slot (r_slots R) p (set_body body)), set_pc ps (PCommit p),
       Some (ev tid CopyFrom (mask_idx cp p + HL) (Z.of_nat (length body)) (-1) (-1) 0))
  | PCommit p, Some (typ, body, rl, rq) =>
      (set_slots R (upd_slot (r_slots R) p (set_len rl)), finish cp ps (Ok 0),
       Some (ev tid PutOrdered (mask_idx cp p) 4 rl 0 (pos_word (r_slots R) p)))
  end.

(* ---- consumer ---- *)
Definition tmsg := (Z * Z * Z * list Z)%type.        (* ghost owner, ghost write number, type, bytes *)
Definition untag (x : tmsg) : msg := let '(_, _, ty, b) := x in (ty, b).

Inductive cpc :=
| CDone | CPanic
| CReadHead
| CReadHdr (hd bytes msgs : Z) (acc : list tmsg)
| CHandler (hd bytes msgs : Z) (acc : list tmsg) (p len ty ri : Z)
| CZero (hd bytes msgs : Z) (acc : list tmsg)
| CPutHead (hd bytes msgs : Z) (acc : list tmsg).

Record cstate := mkC { c_pc : cpc; c_limits : list Z; c_k : nat; c_res : list (Z * list tmsg) }.
Definition cset_pc (cs : cstate) (pc : cpc) : cstate := mkC pc (c_limits cs) (c_k cs) (c_res cs).
Definition finish_read (cs : cstate) (n : Z) (acc : list tmsg) : cstate :=
  mkC (match nth_error (c_limits cs) (S (c_k cs)) with Some _ => CReadHead | None => CDone end)
      (c_limits cs) (S (c_k cs)) (c_res cs ++ [(n, acc)]).
Definition cstart (limits : list Z) : cstate :=
  mkC (match limits with [] => CDone | _ => CReadHead end) limits O [].

Definition loop_exit (cs : cstate) (hd bytes msgs : Z) (acc : list tmsg) : cstate :=
  if bytes =? 0 then finish_read cs msgs acc else cset_pc cs (CZero hd bytes msgs acc).
Definition loop_check (m : mode) (cp limit : Z) (cs : cstate) (hd bytes msgs : Z) (acc : list tmsg) : cstate :=
  match sub32 m cp (mask_idx cp hd) with
  | Ok contiguous =>
      if (bytes <? contiguous) && (msgs <? limit) then cset_pc cs (CReadHdr hd bytes msgs acc)
      else loop_exit cs hd bytes msgs acc
  | _ => cset_pc cs CPanic
  end.

Definition tag_at (sl : list slot) (p : Z) : Z * Z :=
  match find_slot sl p with Some s => (s_owner s, s_seq s) | None => (-1, 0) end.

Definition cstep (m : mode) (R : ring) (cs : cstate) : ring * cstate * option event :=
  let cp := r_cap R in
  match c_pc cs, nth_error (c_limits cs) (c_k cs) with
  | CDone, _ | CPanic, _ => (R, cs, None)
  | _, None => (R, cset_pc cs CPanic, None)
  | CReadHead, Some limit =>
      let hd := r_head R in
      (R, loop_check m cp limit cs hd 0 0 [], Some (ev 0 GetVolatile (cp + HEAD_OFF) 8 0 0 hd))
  | CReadHdr hd bytes msgs acc, Some limit =>
      let p := hd + bytes in
      let ri := mask_idx cp hd + bytes in
      let len := pos_word (r_slots R) p in
      let ty := pos_word (r_slots R) (p + 4) in
      let e := ev 0 GetVolatile ri 8 0 0 (make_header len ty) in
      if len <=? 0 then (R, loop_exit cs hd bytes msgs acc, Some e)
      else
        match (al <- ralign m len ;; add32 m bytes al) with
        | Ok bytes' =>
            if ty =? PAD then (R, loop_check m cp limit cs hd bytes' msgs acc, Some e)
            else if valid_cmd ty then
              match add32 m msgs 1 with
              | Ok msgs' => (R, cset_pc cs (CHandler hd bytes' msgs' acc p len ty ri), Some e)
              | _ => (R, cset_pc cs CPanic, Some e)
              end
            else (R, cset_pc cs CPanic, Some e)
        | _ => (R, cset_pc cs CPanic, Some e)
        end
  | CHandler hd bytes msgs acc p len ty ri, Some limit =>
      let '(ow, sq) := tag_at (r_slots R) p in
      (R, loop_check m cp limit cs hd bytes msgs (acc ++ [(ow, sq, ty, pos_bytes (r_slots R) (p + HL) (len - HL))]),
       Some (ev 0 RegionRead (ri + HL) (len - HL) 0 0 0))
  | CZero hd bytes msgs acc, Some _ =>
      (set_slots R (filter (fun s => negb (consumed hd bytes s)) (r_slots R)), cset_pc cs (CPutHead hd bytes msgs acc),
       Some (ev 0 SetMemory (mask_idx cp hd) bytes 0 0 0))
  | CPutHead hd bytes msgs acc, Some _ =>
      (set_head R (hd + bytes), finish_read cs msgs acc,
       Some (ev 0 PutOrdered (cp + HEAD_OFF) 8 (hd + bytes) 0 (r_head R)))
  end.

(* ---- configurations ---- *)
Record config := mkCfg { g_ring : ring; g_cons : cstate; g_prods : list pstate }.

Fixpoint set_nth {A} (l : list A) (i : nat) (x : A) : list A :=
  match l, i with
  | [], _ => []
  | _ :: r, O => x :: r
  | y :: r, S j => y :: set_nth r j x
  end.

(* one granted step of thread tid; None = the thread has finished (or does not exist) *)
Definition step (m : mode) (cfg : config) (tid : nat) : option (config * event) :=
  match tid with
  | O =>
      match cstep m (g_ring cfg) (g_cons cfg) with
      | (R, cs, Some e) => Some (mkCfg R cs (g_prods cfg), e)
      | (_, _, None) => None
      end
  | S i =>
      match nth_error (g_prods cfg) i with
      | Some ps =>
          match pstep m (g_ring cfg) (Z.of_nat tid) ps with
          | (R, ps', Some e) => Some (mkCfg R (g_cons cfg) (set_nth (g_prods cfg) i ps'), e)
          | (_, _, None) => None
          end
      | None => None
      end
  end.

Definition start (R : ring) (limits : list Z) (progs : list (list wreq)) : config :=
  mkCfg R (cstart limits) (map (pstart (r_cap R)) progs).

(* ---- replaying a schedule exactly as vcommon::sched::run does ---- *)
Fixpoint bump (l : list Z) (i : nat) : list Z :=
  match l, i with
  | [], _ => []
  | x :: r, O => (x + 1) :: r
  | x :: r, S j => x :: bump r j
  end.
(* stops: -1 = never stopped, k >= 0 = stopped for ever once k steps were granted *)
Definition stopped (counts stops : list Z) (t : nat) : bool :=
  let k := nth t stops (-1) in (0 <=? k) && (k <=? nth t counts 0).

Fixpoint run_sched (m : mode) (cfg : config) (counts stops : list Z) (sched : list nat)
  : config * list Z * list event :=
  match sched with
  | [] => (cfg, counts, [])
  | t :: r =>
      if stopped counts stops t then run_sched m cfg counts stops r
      else match step m cfg t with
           | Some (cfg', e) =>
               let '(c, k, tr) := run_sched m cfg' (bump counts t) stops r in (c, k, e :: tr)
           | None => run_sched m cfg counts stops r
           end
  end.

(* when the schedule is exhausted the live threads run to completion one after another *)
Fixpoint drain (m : mode) (fuel : nat) (cfg : config) (counts stops : list Z) (t n : nat) : config * list event :=
  match fuel with
  | O => (cfg, [])
  | S f =>
      if (n <=? t)%nat then (cfg, [])
      else if stopped counts stops t then drain m f cfg counts stops (S t) n
      else match step m cfg t with
           | Some (cfg', e) => let '(c, tr) := drain m f cfg' (bump counts t) stops t n in (c, e :: tr)
           | None => drain m f cfg counts stops (S t) n
           end
  end.

Inductive tres :=
| TStop | TPanicked
| TCons (l : list (Z * list (Z * Z * list Z)))
| TProd (l : list (outcome Z)).

Definition cons_result (cs : cstate) : tres :=
  match c_pc cs with
  | CDone => TCons (map (fun r => (fst r, map (fun x => cmsg (untag x)) (snd r))) (c_res cs))
  | CPanic => TPanicked
  | _ => TStop
  end.
Definition prod_result (ps : pstate) : tres :=
  match p_pc ps with PDone => TProd (p_res ps) | PPanic => TPanicked | _ => TStop end.
Definition results (cfg : config) : list tres := cons_result (g_cons cfg) :: map prod_result (g_prods cfg).

(* run-length encoded schedules: (thread, count) *)
Definition unrle (l : list (Z * Z)) : list nat :=
  flat_map (fun p => repeat (Z.to_nat (fst p)) (Z.to_nat (snd p))) l.

Definition total_work (limits : list Z) (progs : list (list wreq)) : Z :=
  Z.of_nat (length limits) + Z.of_nat (length (concat progs)).

(* a whole case: sequential prelude on one ring, threads under a schedule with crash points,
   sequential epilogue (unblock, reads, writes of survivors, dumps) *)
Definition run_conc (m : mode) (R0 : ring) (pre : list op) (limits : list Z) (progs : list (list wreq))
  (sched : list nat) (stops : list Z) (post : list op)
  : list out * list event * list tres * list out :=
  let '(R1, o1) := run m R0 pre in
  let cfg := start R1 limits progs in
  let n := S (length progs) in
  let '(cfg1, counts, tr1) := run_sched m cfg (repeat 0 n) stops sched in
  let fuel := Z.to_nat ((total_work limits progs + 1) * (64 * (Z.of_nat n + 1) + r_cap R1)) in
  let '(cfg2, tr2) := drain m fuel cfg1 counts stops O n in
  let '(R3, o3) := run m (g_ring cfg2) post in
  (o1, tr1 ++ tr2, results cfg2, o3).
