(* C19 - types of the K1-generated builder tables (coq/Generated/GenUriTables.v) and the
   string vocabulary shared by the URI models.  Definitions only.

   A Rust `&str`/`String` is modelled as the list of its Unicode scalar values (`chars()`),
   which is what `ChannelUri::parse` iterates over; identifiers of the Rust source (setter
   and field names) are Coq `string`s. *)
From Coq Require Export String.
From Coq Require Import Ascii DecimalString.
From Coq Require Export ZArith List Bool.   (* after String: `length`, `concat`, `++` are the list ones *)
Export ListNotations.
Open Scope Z_scope.

Definition str := list Z.

Fixpoint str_eqb (a b : str) : bool :=
  match a, b with
  | [], [] => true
  | x :: a', y :: b' => (x =? y) && str_eqb a' b'
  | _, _ => false
  end.

Definition is_empty (s : str) : bool := match s with [] => true | _ => false end.

Definition str_len (s : str) : Z := Z.of_nat (List.length s).

(* a Coq string literal (ASCII) as a str *)
Fixpoint str_of_string (s : string) : str :=
  match s with EmptyString => [] | String a r => Z.of_N (N_of_ascii a) :: str_of_string r end.

(* i32 / i64 / u32 `to_string()`, `{}` of an integer *)
Definition dec (z : Z) : str := str_of_string (NilZero.string_of_int (Z.to_int z)).

Definition CH_QMARK : Z := 63.    (* '?' *)
Definition CH_EQ : Z := 61.       (* '=' *)
Definition CH_BAR : Z := 124.     (* '|' *)
Definition CH_COLON : Z := 58.    (* ':' *)

(* ---- the parameter map: HashMap<String, String> as an association list -------------------- *)

Definition params := list (str * str).

Fixpoint insert (k v : str) (ps : params) : params :=            (* HashMap::insert *)
  match ps with
  | [] => [(k, v)]
  | (k', v') :: r => if str_eqb k k' then (k, v) :: r else (k', v') :: insert k v r
  end.

Fixpoint lookup (k : str) (ps : params) : option str :=          (* HashMap::get *)
  match ps with
  | [] => None
  | (k', v') :: r => if str_eqb k k' then Some v' else lookup k r
  end.

Fixpoint remove_key (k : str) (ps : params) : params :=          (* HashMap::remove *)
  match ps with
  | [] => []
  | (k', v') :: r => if str_eqb k k' then r else (k', v') :: remove_key k r
  end.

(* canonical order used when printing observations (keys are pairwise distinct) *)
Fixpoint str_ltb (a b : str) : bool :=
  match a, b with
  | _, [] => false
  | [], _ :: _ => true
  | x :: a', y :: b' => (x <? y) || ((x =? y) && str_ltb a' b')
  end.

Fixpoint sort_insert (kv : str * str) (l : params) : params :=
  match l with
  | [] => [kv]
  | h :: t => if str_ltb (fst h) (fst kv) then h :: sort_insert kv t else kv :: l
  end.

Definition sort_params (l : params) : params := fold_right sort_insert [] l.

(* argument of a setter call *)
Inductive arg := AStr (s : str) | AInt (z : Z) | ABool (b : bool) | AUnit.
Definition arg_str (a : arg) : str := match a with AStr s => s | _ => [] end.
Definition arg_int (a : arg) : Z := match a with AInt z => z | ABool true => 1 | _ => 0 end.
Definition op := (string * arg)%type.     (* setter name, argument *)

(* ---- rows the translator emits -------------------------------------------------------- *)

Inductive argty := TStr | TBool | TU8 | TU32 | TI32 | TI64 | TUnit.

(* who a string test looks at: the setter's argument, or the variable bound by an enclosing
   `if let Some(x) = &self.<field>` (i.e. the value stored *before* the call) *)
Inductive subj := SArg | SBound.

Inductive iexp :=
| IArg | ILit (z : Z) | IAnd (a b : iexp) | ISub (a b : iexp)
| ICastU32 (a : iexp) | ICastI32 (a : iexp) | ICastI64 (a : iexp).

Inductive cond :=
| CNot (c : cond) | CAnd (a b : cond) | COr (a b : cond)
| CStrEq (s : subj) (lit : str) | CStrEmpty (s : subj)
| CLt (a b : iexp) | CGt (a b : iexp) | CLe (a b : iexp) | CGe (a b : iexp) | CEq (a b : iexp) | CNe (a b : iexp)
| CInRange (lo hi : Z) (a : iexp)          (* (lo..=hi).contains(&a) *)
| CTermLengthBad (a : iexp).               (* log_buffer_descriptor::check_term_length(a) is Err *)

(* `if c { return Err(..) }`   /   `if let Some(x) = &self.field { if c { return Err(..) } }` *)
Inductive check := CkIf (c : cond) | CkIfSome (field : string) (c : cond).

Inductive rhs :=
| RNone                (* self.f = None *)
| RSomeStrArg          (* self.f = Some(String::from(arg)) *)
| RSomeIntArg          (* self.f = Some(Value::new(arg as i64)) *)
| RSomeBool01Arg       (* let value = if arg {1} else {0}; self.f = Some(Value::new(value)) *)
| RBoolArg             (* self.f = arg   (a plain bool field) *)
| RFalse.              (* self.f = false *)

Record setter_row := { s_name : string; s_arg : argty; s_checks : list check; s_assigns : list (string * rhs) }.

Inductive fmt :=
| FmtStr                         (* the string itself *)
| FmtInt                         (* x.value, decimal *)
| FmtBool                        (* Value::bool_to_string(x) *)
| FmtTagged (flag : string).     (* Self::prefix_tag(self.<flag>, x) *)

Record emit_row := { e_field : string; e_name : str; e_fmt : fmt }.

Record tables := {
  t_setters : list setter_row;
  t_emits : list emit_row;
  t_prefix_field : string;       (* field build() prints in front of the scheme *)
  t_media_field : string;        (* field build() `expect`s *)
  t_scheme : str                 (* channel_uri::AERON_SCHEME *)
}.

(* observation of build(): the string, or the panic of `expect("Media should be presented")` *)
Inductive bobs := BOk (s : str) | BPanic.
Definition z_of_bool (b : bool) : Z := if b then 1 else 0.
