(* C19 - model of src/channel_uri_string_builder.rs as it is: an interpreter over the two tables the
   K1 translator reads off the Rust source on every run (GenUriTables.v): which field every setter
   assigns after which early-return checks, and which field `build()` prints under which parameter
   name in which format.  The fixed parts of `build()` (prefix, scheme, media, removal of the trailing
   separator) and the helpers `bool_to_string` / `prefix_tag` are modelled by hand; the translator
   refuses to produce tables when their source text changes.  Definitions only. *)
Require Import V.Base.MachineInt.
Require Import V.Generated.GenConsts.
Require Import V.Model.UriTypes.
Require Import V.Generated.GenUriTables.
Require Import V.Model.Uri.
Open Scope Z_scope.

(* ---- values ----------------------------------------------------------------------------- *)

(* content of a builder field: Option<String> / Option<Value> / bool *)
Inductive fval := VS (s : str) | VI (z : Z) | VB (b : bool).

Definition bstate := string -> option fval.          (* None: the Option is None (a bool field: false) *)
Definition empty_state : bstate := fun _ => None.     (* ChannelUriStringBuilder::default() *)

Definition upd (s : bstate) (f : string) (v : option fval) : bstate :=
  fun g => if String.eqb g f then v else s g.

(* ---- checks ------------------------------------------------------------------------------ *)

Definition fval_str (v : option fval) : str := match v with Some (VS s) => s | _ => [] end.

Fixpoint ieval (a : arg) (e : iexp) : Z :=
  match e with
  | IArg => arg_int a
  | ILit z => z
  | IAnd x y => Z.land (ieval a x) (ieval a y)
  | ISub x y => ieval a x - ieval a y
  | ICastU32 x => wrapu32 (ieval a x)
  | ICastI32 x => wrap32 (ieval a x)
  | ICastI64 x => wrap64 (ieval a x)
  end.

(* utils::bit_utils::is_power_of_two on a positive i32 *)
Definition is_power_of_two (v : Z) : bool := (0 <? v) && (Z.land v (- v) =? v).

(* log_buffer_descriptor::check_term_length(v).is_ok() *)
Definition term_length_ok (v : Z) : bool :=
  negb (v <? TERM_MIN_LENGTH) && negb (v >? TERM_MAX_LENGTH) && is_power_of_two v.

Definition subj_str (a : arg) (bound : option fval) (s : subj) : str :=
  match s with SArg => arg_str a | SBound => fval_str bound end.

Fixpoint ceval (a : arg) (bound : option fval) (c : cond) : bool :=
  match c with
  | CNot x => negb (ceval a bound x)
  | CAnd x y => ceval a bound x && ceval a bound y
  | COr x y => ceval a bound x || ceval a bound y
  | CStrEq s lit => str_eqb (subj_str a bound s) lit
  | CStrEmpty s => is_empty (subj_str a bound s)
  | CLt x y => ieval a x <? ieval a y
  | CGt x y => ieval a x >? ieval a y
  | CLe x y => ieval a x <=? ieval a y
  | CGe x y => ieval a x >=? ieval a y
  | CEq x y => ieval a x =? ieval a y
  | CNe x y => negb (ieval a x =? ieval a y)
  | CInRange lo hi x => (lo <=? ieval a x) && (ieval a x <=? hi)
  | CTermLengthBad x => negb (term_length_ok (ieval a x))
  end.

(* does this check return Err? *)
Definition check_fires (s : bstate) (a : arg) (k : check) : bool :=
  match k with
  | CkIf c => ceval a None c
  | CkIfSome f c => match s f with Some v => ceval a (Some v) c | None => false end
  end.

(* ---- setters ----------------------------------------------------------------------------- *)

Definition rhs_val (a : arg) (r : rhs) : option fval :=
  match r with
  | RNone => None
  | RSomeStrArg => Some (VS (arg_str a))
  | RSomeIntArg => Some (VI (arg_int a))
  | RSomeBool01Arg => Some (VI (match a with ABool true => 1 | _ => 0 end))
  | RBoolArg => match a with ABool true => Some (VB true) | _ => None end
  | RFalse => None
  end.

Definition assign (a : arg) (s : bstate) (fr : string * rhs) : bstate := upd s (fst fr) (rhs_val a (snd fr)).

Definition find_setter (st : list setter_row) (name : string) : option setter_row :=
  find (fun r => String.eqb (s_name r) name) st.

(* one setter call: new state, and whether it returned Ok (true) or Err (false; state untouched) *)
Definition step (T : tables) (s : bstate) (o : op) : bstate * bool :=
  match find_setter (t_setters T) (fst o) with
  | None => (s, false)
  | Some r =>
      if existsb (check_fires s (snd o)) (s_checks r) then (s, false)
      else (fold_left (assign (snd o)) (s_assigns r) s, true)
  end.

Fixpoint run (T : tables) (s : bstate) (ops : list op) : bstate * list bool :=
  match ops with
  | [] => (s, [])
  | o :: r => let '(s1, ok) := step T s o in
              let '(s2, oks) := run T s1 r in (s2, ok :: oks)
  end.

(* ---- build() ------------------------------------------------------------------------------ *)

Definition bool_to_string (v : Z) : str :=                        (* Value::bool_to_string *)
  if v =? 1 then [116; 114; 117; 101] else [102; 97; 108; 115; 101].

Definition flag_set (s : bstate) (f : string) : bool := match s f with Some (VB true) => true | _ => false end.

Definition fmt_val (s : bstate) (f : fmt) (v : fval) : str :=
  match f, v with
  | FmtStr, VS x => x
  | FmtInt, VI z => dec z
  | FmtBool, VI z => bool_to_string z
  | FmtTagged flag, VI z => if flag_set s flag then TAG_PREFIX ++ dec z else dec z     (* prefix_tag *)
  | _, VS x => x                                (* ill-typed rows cannot be written in Rust *)
  | _, VI z => dec z
  | _, VB _ => []
  end.

Definition emit (s : bstate) (r : emit_row) : str :=
  match s (e_field r) with
  | Some v => e_name r ++ [CH_EQ] ++ fmt_val s (e_fmt r) v ++ [CH_BAR]
  | None => []
  end.

Definition pop_if_sep (sb : str) : str :=
  match rev sb with
  | c :: _ => if (c =? CH_BAR) || (c =? CH_QMARK) then removelast sb else sb
  | [] => sb
  end.

Definition build (T : tables) (s : bstate) : outcome str :=
  match s (t_media_field T) with
  | None => Panic                                                   (* expect("Media should be presented") *)
  | Some m =>
      let pre := match s (t_prefix_field T) with
                 | Some p => if is_empty (fval_str (Some p)) then [] else fval_str (Some p) ++ [CH_COLON]
                 | None => []
                 end in
      let sb := pre ++ t_scheme T ++ [CH_COLON] ++ fval_str (Some m) ++ [CH_QMARK]
                ++ List.concat (map (emit s) (t_emits T)) in
      Ok (pop_if_sep sb)
  end.

(* ---- observation of one builder case: setter results, build(), ChannelUri::parse of the result -- *)

Definition builder_obs (T : tables) (ops : list op) : list Z * bobs * pobs :=
  let '(s, oks) := run T empty_state ops in
  match build T s with
  | Ok b => (map z_of_bool oks, BOk b, pobs_of (parse b))
  | _ => (map z_of_bool oks, BPanic, ONone)
  end.
