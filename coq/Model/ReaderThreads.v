(* Thread-level model of the subscriber: Image::poll (src/image.rs) around term_reader::read
   (src/concurrent/logbuffer/term_reader.rs), one program counter per shared-memory access hook H2 reports:

     plain get of the subscriber position counter ;
     per frame:  frame_length_volatile (get_volatile of the length word) ; [stop at length <= 0]
                 is_padding_frame (plain get of the type field) ;
                 handler: plain get of the flags byte ; payload read (one burst) ;
     put_ordered of the new subscriber position (iff it advanced)

   and the system of C03: the publisher / environment machines of AppenderThreads plus readers.
   Definitions only. *)
Require Import V.Base.MachineInt.
Require Import V.Generated.GenConsts.
Require Import V.Model.LogBase.
Require Import V.Model.Descriptor.
Require Import V.Model.Sched.
Require Import V.Model.AppenderThreads.
Open Scope Z_scope.

Inductive rpc := RPos | RLen | RType | RFlags | RBody | RSet | RDone.

(* a fragment handed to the handler: (term offset of the frame, payload length, flags, payload bytes) *)
Definition frag := (Z * Z * Z * list Z)%type.

Record rlocal := mkRL {
  r_pc : rpc;
  r_polls : nat;                 (* polls still to do, including the current one *)
  r_limit : Z;                   (* fragment limit per poll *)
  r_res : list (outcome Z);      (* fragments_read of every finished poll *)
  r_pos : Z;                     (* subscriber position read at the start of the poll *)
  r_toff0 : Z;                   (* term offset at the start of the poll *)
  r_off : Z;                     (* term_reader::read's term_offset *)
  r_nread : Z;                   (* fragments_read *)
  r_flen : Z; r_foff : Z; r_flags : Z;      (* current frame: length word read, offset, flags read *)
  r_frags : list frag            (* everything the handler was given so far *)
}.

Definition rl_pc (l : rlocal) (pc : rpc) : rlocal :=
  mkRL pc (r_polls l) (r_limit l) (r_res l) (r_pos l) (r_toff0 l) (r_off l) (r_nread l) (r_flen l) (r_foff l) (r_flags l) (r_frags l).

Definition r_start (polls : nat) (limit : Z) (res : list (outcome Z)) (frags : list frag) : rlocal :=
  mkRL (match polls with O => RDone | S _ => RPos end) polls limit res 0 0 0 0 0 0 0 frags.

Definition r_idx (c : cfg) (l : rlocal) : Z := index_by_position (r_pos l) (c_bits c).

(* end of one poll: fragments_read is returned *)
Definition r_finish (l : rlocal) : rlocal :=
  r_start (pred (r_polls l)) (r_limit l) (r_res l ++ [Ok (r_nread l)]) (r_frags l).

Definition r_new_pos (l : rlocal) : Z := r_pos l + (r_off l - r_toff0 l).

(* after term_reader::read returns: publish the new position iff it advanced *)
Definition r_end (l : rlocal) : rlocal :=
  if r_pos l <? r_new_pos l then rl_pc l RSet else r_finish l.

(* loop head of term_reader::read *)
Definition r_loop (c : cfg) (l : rlocal) : rlocal :=
  if (r_nread l <? r_limit l) && (r_off l <? TL c) then rl_pc l RLen else r_end l.

Fixpoint pad_to (n : nat) (l : list Z) : list Z :=
  match n with O => [] | S n' => match l with [] => 0 :: pad_to n' [] | x :: r => x :: pad_to n' r end end.

Definition rstep (c : cfg) (t : nat) (s : shared) (l : rlocal) : option (shared * rlocal * event) :=
  let p := r_idx c l in
  let m := sh_mem s in
  match r_pc l with
  | RPos =>
      let pos := sh_subpos s in
      let toff := Z.land (wrap32 pos) (TL c - 1) in
      let l1 := mkRL RPos (r_polls l) (r_limit l) (r_res l) pos toff toff 0 0 0 0 (r_frags l) in
      Some (s, r_loop c l1, ev t Get R_CNT SUBPOS_OFF 8 0 0 pos)
  | RLen =>
      let o := r_off l in
      let len := s_len (m p o) in
      let l1 := mkRL RLen (r_polls l) (r_limit l) (r_res l) (r_pos l) (r_toff0 l)
                     (if len <=? 0 then o else o + align len FA) (r_nread l) len o 0 (r_frags l) in
      Some (s, if len <=? 0 then r_end l1 else rl_pc l1 RType, ev t GetVolatile p o 4 0 0 len)
  | RType =>
      let ty := s_type (m p (r_foff l)) in
      Some (s, if ty =? T_PAD then r_loop c l else rl_pc l RFlags,
            ev t Get p (r_foff l + GenConsts.DFH_TYPE_FIELD_OFFSET) 2 0 0 ty)
  | RFlags =>
      let fl := s_flags (m p (r_foff l)) in
      Some (s, mkRL RBody (r_polls l) (r_limit l) (r_res l) (r_pos l) (r_toff0 l) (r_off l) (r_nread l) (r_flen l) (r_foff l) fl (r_frags l),
            ev t Get p (r_foff l + GenConsts.DFH_FLAGS_FIELD_OFFSET) 1 0 0 fl)
  | RBody =>
      let n := r_flen l - HDR in
      let body := pad_to (Z.to_nat n) (s_body (m p (r_foff l))) in
      let l1 := mkRL RBody (r_polls l) (r_limit l) (r_res l) (r_pos l) (r_toff0 l) (r_off l) (r_nread l + 1) (r_flen l) (r_foff l)
                     (r_flags l) (r_frags l ++ [(r_foff l, n, r_flags l, body)]) in
      Some (s, r_loop c l1, ev t RegionRead p (r_foff l + HDR) n 0 0 0)
  | RSet =>
      Some (with_subpos s (r_new_pos l), r_finish l, ev t PutOrdered R_CNT SUBPOS_OFF 8 (r_new_pos l) 0 0)
  | RDone => None
  end.

(* ---- the system of C03 ---- *)
Inductive rthread := RApp (x : thread) | RRd (l : rlocal).

Definition rtstep (c : cfg) (t : nat) (s : shared) (th : rthread) : option (shared * rthread * event) :=
  match th with
  | RApp x => match tstep c t s x with Some (s', x', e) => Some (s', RApp x', e) | None => None end
  | RRd l => match rstep c t s l with Some (s', l', e) => Some (s', RRd l', e) | None => None end
  end.

Definition rthread_obs (stop : nat -> option nat) (granted : nat -> nat) (t : nat) (th : rthread) : status * list (outcome Z) :=
  match th with
  | RApp x => thread_obs stop granted t x
  | RRd l => (match r_pc l with RDone => Done | _ => Stopped end, r_res l)
  end.

Definition rthread_frags (t : nat) (th : rthread) : list (Z * Z * Z * Z * list Z) :=
  match th with
  | RRd l => map (fun f => let '(o, n, fl, b) := f in (Z.of_nat t, o, n, fl, b)) (r_frags l)
  | _ => []
  end.

Definition rthreads_of (ths : list rthread) : nat -> rthread := fun t => nth t ths (RApp TIdle).

Definition run_case3 (c : cfg) (limit : Z) (ths : list rthread) (sched : list nat) (stops : list (option nat)) :=
  let n := length ths in
  let '(s, th, g, tr) := run (rtstep c) n (Z.to_nat 20000) (stop_of stops) sched (init_shared c limit, rthreads_of ths) in
  (map ev_tuple tr, map (fun t => rthread_obs (stop_of stops) g t (th t)) (seq 0 n), dump c s,
   flat_map (fun t => rthread_frags t (th t)) (seq 0 n)).

Definition rpub (budget : nat) (msgs : list (list Z)) : rthread := RApp (pub budget msgs).
Definition renv (ops : list envop) : rthread := RApp (env ops).
Definition reader (polls : nat) (limit : Z) : rthread := RRd (r_start polls limit [] []).
