(* Model of the driver-to-client broadcast buffer (property C08):
     src/concurrent/broadcast/broadcast_transmitter.rs   BroadcastTransmitter::transmit
     src/concurrent/broadcast/broadcast_receiver.rs      BroadcastReceiver::{new, receive_next, validate, do_validate}
     src/concurrent/broadcast/copy_broadcast_receiver.rs CopyBroadcastReceiver::receive
     record_descriptor.rs / broadcast_buffer_descriptor.rs (offsets: GenConsts BC_* )
   The buffer is a byte memory (offset -> byte); the three counters live in its trailer exactly as
   in the Rust code, so the transmitter has no state of its own.  Operand widths, checked operators
   (Debug = overflow panics, Release = wraps) and the `as i32` truncations are those of the source.
   `vwidth` names the version of the receiver: W32 is the code as found (do_validate compares cursor and
   tail-intent truncated to i32), W64 the code with fixes/C08-validate-i64.diff, W64R the code with
   fixes/C08-receive-next-revalidate.diff on top of it (receive_next validates the cursor once more after
   it has read the header words and before it uses them).
   Definitions only. *)
From Coq Require Import FMapPositive.
Require Import V.Base.MachineInt.
Require Import V.Generated.GenConsts.
Open Scope Z_scope.

(* ---------------------------------------------------------------- byte memory *)
(* offset -> byte, default 0; a binary trie so that the model can be evaluated on long histories.
   Everything below uses it only through `rd` and `put_bytes`
   (characterised by rd_put_bytes in Proofs/BroadcastMem.v). *)
Definition key (a : Z) : positive :=
  match a with Z0 => xH | Zpos p => xO p | Zneg p => xI p end.
Definition mem := PositiveMap.t Z.
Definition rd (m : mem) (a : Z) : Z :=
  match PositiveMap.find (key a) m with Some v => v | None => 0 end.

Fixpoint put_bytes (m : mem) (off : Z) (bs : list Z) : mem :=
  match bs with [] => m | b :: r => put_bytes (PositiveMap.add (key off) b m) (off + 1) r end.

Fixpoint get_bytes (m : mem) (off : Z) (n : nat) : list Z :=
  match n with O => [] | S k => rd m off :: get_bytes m (off + 1) k end.

Fixpoint le_bytes (n : nat) (v : Z) : list Z :=
  match n with O => [] | S k => v mod 256 :: le_bytes k (v / 256) end.
Fixpoint le_val (bs : list Z) : Z :=
  match bs with [] => 0 | b :: r => b + 256 * le_val r end.

Definition put32 (m : mem) (o v : Z) : mem := put_bytes m o (le_bytes 4 v).
Definition put64 (m : mem) (o v : Z) : mem := put_bytes m o (le_bytes 8 v).
Definition get32 (m : mem) (o : Z) : Z := wrap32 (le_val (get_bytes m o 4)).
Definition get64 (m : mem) (o : Z) : Z := wrap64 (le_val (get_bytes m o 8)).

(* ---------------------------------------------------------------- layout *)
Definition HL : Z := BC_HEADER_LENGTH.          (* 8 *)
Definition RA : Z := BC_RECORD_ALIGNMENT.       (* 8 *)
Definition PADDING : Z := CMD_Padding.          (* -1 *)
Definition SCRATCH : Z := 4096.                 (* CopyBroadcastReceiver::new: AlignedBuffer::with_capacity(4096) *)

Definition intent_idx (cap : Z) : Z := cap + BC_TAIL_INTENT_COUNTER_OFFSET.
Definition tail_idx (cap : Z) : Z := cap + BC_TAIL_COUNTER_OFFSET.
Definition latest_idx (cap : Z) : Z := cap + BC_LATEST_COUNTER_OFFSET.
Definition buf_len (cap : Z) : Z := cap + BC_TRAILER_LENGTH.
Definition max_msg (cap : Z) : Z := cap / 8.    (* record_descriptor::calculate_max_message_length *)

(* bit_utils::align on i32: (value + (alignment - 1)) & !(alignment - 1) *)
Definition align32 (m : mode) (v a : Z) : outcome Z :=
  x <- add32 m v (a - 1) ;; Ok (Z.land x (Z.lnot (a - 1))).

(* AeronCommand::from_command_id: every other value hits unreachable!() *)
Definition known_type (t : Z) : bool :=
  (t =? -1) || ((1 <=? t) && (t <=? 14)) || ((3841 <=? t) && (t <=? 3850)).

(* ---------------------------------------------------------------- transmitter *)
Definition transmit (m : mode) (cap : Z) (mm : mem) (ty : Z) (bs : list Z) : outcome mem :=
  let len := Z.of_nat (length bs) in
  if ty <? 1 then Err IllegalArg else                    (* check_msg_type_id *)
  if len >? max_msg cap then Err TooLong else            (* check_message_length *)
  let tail := get64 mm (tail_idx cap) in
  let ro := wrap32 (Z.land tail (cap - 1)) in
  rl <- add32 m len HL ;;
  al <- align32 m rl RA ;;
  nt <- add64 m tail al ;;
  te <- sub32 m cap ro ;;
  st <- (if te <? al then
           it <- add64 m nt te ;;
           let m1 := put64 mm (intent_idx cap) it in      (* signal_tail_intent *)
           let m2 := put32 m1 ro te in                    (* insert_padding_record *)
           let m3 := put32 m2 (ro + 4) PADDING in
           t1 <- add64 m tail te ;;
           Ok (m3, t1, 0)
         else Ok (put64 mm (intent_idx cap) nt, tail, ro)) ;;
  let '(m3, tail1, ro1) := st in
  let m4 := put32 m3 ro1 rl in
  let m5 := put32 m4 (ro1 + 4) ty in
  let m6 := put_bytes m5 (ro1 + HL) bs in
  let m7 := put64 m6 (latest_idx cap) tail1 in
  t2 <- add64 m tail1 al ;;
  Ok (put64 m7 (tail_idx cap) t2).

(* ---------------------------------------------------------------- receiver *)
Record rx := mkRx { cursor : Z; next_record : Z; record_offset : Z; lapped : Z }.

Inductive vwidth := W32 | W64 | W64R.
Definition revalidates (w : vwidth) : bool := match w with W64R => true | _ => false end.

Definition rx_new (cap : Z) (mm : mem) : rx :=
  let c := get64 mm (latest_idx cap) in
  {| cursor := c; next_record := c; record_offset := Z.land (wrap32 c) (cap - 1); lapped := 0 |}.

(* W32: `cursor + self.capacity > get_volatile::<i64>(intent) as Index` with cursor already cast `as Index`
   W64: `cursor + self.capacity as i64 > get_volatile::<i64>(intent)` *)
Definition do_validate (m : mode) (w : vwidth) (cap : Z) (mm : mem) (c : Z) : outcome bool :=
  let it := get64 mm (intent_idx cap) in
  match w with
  | W32 => s <- add32 m (wrap32 c) cap ;; Ok (s >? wrap32 it)
  | W64 | W64R => s <- add64 m c cap ;; Ok (s >? it)
  end.

(* W64R (fixes/C08-receive-next-revalidate.diff): the header words are read, then `do_validate(cursor)` is called for
   the cursor they were read at, and only then are they used; when that validation fails nothing that was read is
   trusted: the lap is counted and the receiver restarts at the `latest` counter (cursor = next_record = latest, no
   header read).  W32 / W64: the code as found (and Agrona's) uses the words read after its only validation. *)
Definition receive_next (m : mode) (w : vwidth) (cap : Z) (mm : mem) (r : rx) : outcome (rx * bool) :=
  let tail := get64 mm (tail_idx cap) in
  let c0 := next_record r in
  if tail >? c0 then
    v <- do_validate m w cap mm c0 ;;
    let c := if v then c0 else get64 mm (latest_idx cap) in
    let lp := if v then lapped r else lapped r + 1 in
    let ro := Z.land (wrap32 c) (cap - 1) in
    v2 <- (if revalidates w then do_validate m w cap mm c else Ok true) ;;
    if v2 then
      a1 <- align32 m (get32 mm ro) RA ;;
      nr <- add64 m c a1 ;;
      if get32 mm (ro + 4) =? PADDING then
        a2 <- align32 m (get32 mm 0) RA ;;
        nr2 <- add64 m nr a2 ;;
        Ok ({| cursor := nr; next_record := nr2; record_offset := 0; lapped := lp |}, true)
      else
        Ok ({| cursor := c; next_record := nr; record_offset := ro; lapped := lp |}, true)
    else
      let l := get64 mm (latest_idx cap) in
      Ok ({| cursor := l; next_record := l; record_offset := Z.land (wrap32 l) (cap - 1); lapped := lp + 1 |}, true)
  else Ok (r, false).

Inductive rres :=
| RNone                               (* Ok(0) *)
| RMsg (ty : Z) (bs : list Z)         (* handler called once, Ok(1) *)
| RErr (e : err).                     (* UnableToKeepUp = UnableToKeepUpWithBroadcastBuffer, InsufficientCapacity = BufferTooSmall *)

(* CopyBroadcastReceiver::receive.  Panic also stands for the poisoned mutex afterwards.
   hv = false: the code as found (length and type used as read);
   hv = true: the repaired code (fixes/C08-copy-receiver-validate-header.diff): both header words are
   read, then validate() is called before they are used as a copy length and an event code. *)
Definition receive (m : mode) (w : vwidth) (hv : bool) (cap : Z) (mm : mem) (r : rx) : outcome (rx * rres) :=
  x <- receive_next m w cap mm r ;;
  let '(r1, av) := x in
  if negb av then Ok (r1, RNone) else
  if negb (lapped r =? lapped r1) then Ok (r1, RErr UnableToKeepUp) else
  let ro := record_offset r1 in
  len <- sub32 m (get32 mm ro) HL ;;
  let ty := get32 mm (ro + 4) in
  hok <- (if hv then do_validate m w cap mm (cursor r1) else Ok true) ;;
  if negb hok then Ok (r1, RErr UnableToKeepUp) else
  if len >? SCRATCH then Ok (r1, RErr InsufficientCapacity) else
  if negb (known_type ty) then Panic else
  (* copy_from(0, buffer, ro + 8, len): both bounds checks assert 0 <= idx, 0 <= len and idx + len <= capacity (64-bit sum) *)
  if (len <? 0) || (ro + HL + len >? buf_len cap) then Panic else
  let bytes := get_bytes mm (ro + HL) (Z.to_nat len) in
  v <- do_validate m w cap mm (cursor r1) ;;
  if v then Ok (r1, RMsg ty bytes) else Ok (r1, RErr UnableToKeepUp).

(* ---------------------------------------------------------------- histories *)
Inductive op :=
| Transmit (ty : Z) (bs : list Z)
| Receive
| Dump.

Inductive obs :=
| TxOk | TxErr (e : err)
| Rx (lapped_after : Z) (r : rres)
| OPanic | OCrash
| Words (ws : list (Z * list Z)).

Definition zero_mem : mem := PositiveMap.empty Z.

(* all three trailer counters set to c0 over a zeroed buffer *)
Definition init_mem (cap c0 : Z) : mem :=
  put64 (put64 (put64 zero_mem (intent_idx cap) c0) (tail_idx cap) c0) (latest_idx cap) c0.

(* sparse dump: maximal runs of non-zero 32-bit words as (offset of the run, its bytes in memory order) *)
Definition is_zero_word (w : list Z) : bool := forallb (fun b => b =? 0) w.
Definition flush (cur : option (Z * list Z)) : list (Z * list Z) :=
  match cur with Some (o, racc) => [(o, rev racc)] | None => [] end.
Fixpoint runs_from (mm : mem) (off : Z) (n : nat) (cur : option (Z * list Z)) : list (Z * list Z) :=
  match n with
  | O => flush cur
  | S k => let w := get_bytes mm off 4 in
           if is_zero_word w then flush cur ++ runs_from mm (off + 4) k None
           else runs_from mm (off + 4) k
                  (Some (match cur with Some (o, racc) => (o, rev_append w racc) | None => (off, rev w) end))
  end.
Definition sparse_words (cap : Z) (mm : mem) : list (Z * list Z) :=
  runs_from mm 0 (Z.to_nat (buf_len cap / 4)) None.

Record sys := mkSys { smem : mem; srx : rx }.

(* one operation; None = the process died (panic poisons the receiver mutex / crash) *)
Definition step (m : mode) (w : vwidth) (hv : bool) (cap : Z) (s : sys) (o : op) : option sys * obs :=
  match o with
  | Transmit ty bs =>
      match transmit m cap (smem s) ty bs with
      | Ok mm' => (Some {| smem := mm'; srx := srx s |}, TxOk)
      | Err e => (Some s, TxErr e)
      | Crash => (None, OCrash)
      | _ => (None, OPanic)
      end
  | Receive =>
      match receive m w hv cap (smem s) (srx s) with
      | Ok (r', res) => (Some {| smem := smem s; srx := r' |}, Rx (lapped r') res)
      | Crash => (None, OCrash)
      | _ => (None, OPanic)
      end
  | Dump => (Some s, Words (sparse_words cap (smem s)))
  end.

Fixpoint run (m : mode) (w : vwidth) (hv : bool) (cap : Z) (s : sys) (h : list op) : list obs :=
  match h with
  | [] => []
  | o :: rest =>
      match step m w hv cap s o with
      | (Some s', ob) => ob :: run m w hv cap s' rest
      | (None, ob) => [ob]
      end
  end.

(* transmits that happen before the receiver exists *)
Fixpoint pre_run (m : mode) (cap : Z) (mm : mem) (h : list (Z * list Z)) : mem :=
  match h with
  | [] => mm
  | (ty, bs) :: rest =>
      match transmit m cap mm ty bs with
      | Ok mm' => pre_run m cap mm' rest
      | _ => pre_run m cap mm rest
      end
  end.

Definition init_sys (m : mode) (cap c0 : Z) (pre : list (Z * list Z)) : sys :=
  let mm := pre_run m cap (init_mem cap c0) pre in
  {| smem := mm; srx := rx_new cap mm |}.

Definition run_history (m : mode) (w : vwidth) (hv : bool) (cap c0 : Z) (pre : list (Z * list Z)) (h : list op) : list obs :=
  run m w hv cap (init_sys m cap c0 pre) h.
