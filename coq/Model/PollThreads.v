(* Thread-level model of the subscriber with every poll flavour of src/image.rs: poll (term_reader::read), bounded_poll,
   controlled_poll, bounded_controlled_poll, controlled_peek (driven as the harness does: position(), controlled_peek,
   set_position(result) when it advanced) and block_poll (term_scan::scan); one program counter per shared-memory access
   hook H2 reports:

     plain get of the subscriber position counter  [peek: once more inside validate_position] ;
     per frame:  frame_length_volatile (get_volatile of the length word) ; [stop at length <= 0]
                 is_padding_frame (plain get of the type field) ;
                 handler: plain get of the flags byte ; payload read (one burst) ;  [peek: header.flags() again]
                 [controlled, action Commit: put_ordered of the position]
     put_ordered of the new subscriber position (iff it advanced)  [peek: validate_position's get, then put_ordered]
     block_poll: scan = (get_volatile length ; get type)* ; get of the term id ; the block handler reads the whole block ;
                 put_ordered of the position

   The handler's answers (controlled flavours) are a script, `Continue` once it is exhausted. Definitions only. *)
Require Import V.Base.MachineInt.
Require Import V.Generated.GenConsts.
Require Import V.Model.LogBase.
Require Import V.Model.Descriptor.
Require Import V.Model.Sched.
Require Import V.Model.AppenderThreads.
Require Import V.Model.ReaderThreads.
Require V.Model.Reader.
Require V.Model.Image.
Open Scope Z_scope.

Notation action := Reader.action.
Notation ACont := Reader.Continue.
Notation AAbort := Reader.Abort.
Notation ABreak := Reader.Break.
Notation ACommit := Reader.Commit.

Inductive flavour :=
| FPoll
| FBounded (bound : Z)
| FCtrl (sc : list action)
| FBCtrl (bound : Z) (sc : list action)
| FPeek (bound : Z) (sc : list action)
| FBlock (blimit : Z).

Inductive vpc :=
| VPos | VVal | VLen | VType | VFlags | VBody | VFlags2 | VCommit | VSet | VVal2 | VSetPos
| VBLen | VBType | VBTid | VBRead | VBSet
| VDone.

Record vlocal := mkVL {
  v_pc : vpc;
  v_todo : list flavour;         (* polls still to do; the head is the current one *)
  v_limit : Z;                   (* fragment limit *)
  v_res : list (outcome Z);      (* return value of every finished poll *)
  v_idx : Z;                     (* partition selected at the start of the poll *)
  v_pos : Z;                     (* initial_position (moves with a Commit action) *)
  v_toff0 : Z;                   (* initial_offset *)
  v_off : Z;                     (* offset / resulting_offset *)
  v_end : Z;                     (* loop bound: capacity, limit_offset, end_offset *)
  v_nread : Z;
  v_flen : Z; v_foff : Z; v_flags : Z;      (* current frame: length word read, offset, flags read by the handler *)
  v_sc : list action;            (* answers the handler has not given yet *)
  v_act : action;                (* the answer for the current fragment *)
  v_ppos : Z; v_rpos : Z;        (* controlled_peek: position, resulting_position *)
  v_p0 : Z;                      (* controlled_peek: the position passed in; block_poll: term offset at the start *)
  v_frags : list frag
}.

Definition v_flav (l : vlocal) : flavour := hd FPoll (v_todo l).

Definition vl_pc (l : vlocal) (pc : vpc) : vlocal :=
  mkVL pc (v_todo l) (v_limit l) (v_res l) (v_idx l) (v_pos l) (v_toff0 l) (v_off l) (v_end l) (v_nread l) (v_flen l) (v_foff l) (v_flags l)
       (v_sc l) (v_act l) (v_ppos l) (v_rpos l) (v_p0 l) (v_frags l).

Definition v_begin (todo : list flavour) (limit : Z) (res : list (outcome Z)) (frags : list frag) : vlocal :=
  mkVL (match todo with [] => VDone | _ :: _ => VPos end) todo limit res 0 0 0 0 0 0 0 0 0 [] ACont 0 0 0 frags.

Definition v_finish (r : outcome Z) (l : vlocal) : vlocal := v_begin (tl (v_todo l)) (v_limit l) (v_res l ++ [r]) (v_frags l).

(* start of the frame loop of poll / bounded_poll / controlled_poll / bounded_controlled_poll *)
Definition vl_start (l : vlocal) (pc : vpc) (idx pos toff endo : Z) (sc : list action) (p0 : Z) : vlocal :=
  mkVL pc (v_todo l) (v_limit l) (v_res l) idx pos toff toff endo 0 0 0 0 sc ACont pos pos p0 (v_frags l).

Definition v_new_pos (l : vlocal) : Z := v_pos l + (v_off l - v_toff0 l).

(* after the loop: publish the new position iff it advanced *)
Definition v_end_poll (l : vlocal) : vlocal :=
  if v_pos l <? v_new_pos l then vl_pc l VSet else v_finish (Ok (v_nread l)) l.

Definition v_loop (l : vlocal) : vlocal :=
  if (v_nread l <? v_limit l) && (v_off l <? v_end l) then vl_pc l VLen else v_end_poll l.

(* controlled_peek *)
Definition peek_bound (l : vlocal) : Z := match v_flav l with FPeek b _ => b | _ => 0 end.
Definition v_pend (l : vlocal) : vlocal :=
  if v_p0 l <? v_rpos l then vl_pc l VVal2 else v_finish (Ok (v_rpos l)) l.
Definition v_ploop (c : cfg) (l : vlocal) : vlocal :=
  if (v_ppos l <? peek_bound l) && (v_off l <? TL c) then vl_pc l VLen else v_pend l.

(* block_poll *)
Definition v_bend (l : vlocal) : vlocal :=
  if v_p0 l <? v_off l then vl_pc l VBTid else v_finish (Ok (v_off l - v_p0 l)) l.
Definition v_bloop (l : vlocal) : vlocal :=
  if v_off l <? v_end l then vl_pc l VBLen else v_bend l.

Definition is_peek (f : flavour) : bool := match f with FPeek _ _ => true | _ => false end.
Definition is_ctrl (f : flavour) : bool := match f with FCtrl _ | FBCtrl _ _ => true | _ => false end.

Definition vl_frame (l : vlocal) (pc : vpc) (off flen foff : Z) : vlocal :=
  mkVL pc (v_todo l) (v_limit l) (v_res l) (v_idx l) (v_pos l) (v_toff0 l) off (v_end l) (v_nread l) flen foff (v_flags l)
       (v_sc l) (v_act l) (v_ppos l) (v_rpos l) (v_p0 l) (v_frags l).
Definition vl_off (l : vlocal) (off : Z) : vlocal := vl_frame l (v_pc l) off (v_flen l) (v_foff l).
Definition vl_flags (l : vlocal) (pc : vpc) (fl : Z) : vlocal :=
  mkVL pc (v_todo l) (v_limit l) (v_res l) (v_idx l) (v_pos l) (v_toff0 l) (v_off l) (v_end l) (v_nread l) (v_flen l) (v_foff l) fl
       (v_sc l) (v_act l) (v_ppos l) (v_rpos l) (v_p0 l) (v_frags l).
(* the handler was called: fragment recorded, answer taken from the script *)
Definition vl_handled (l : vlocal) (f : frag) : vlocal :=
  mkVL (v_pc l) (v_todo l) (v_limit l) (v_res l) (v_idx l) (v_pos l) (v_toff0 l) (v_off l) (v_end l) (v_nread l) (v_flen l) (v_foff l)
       (v_flags l) (tl (v_sc l)) (hd ACont (v_sc l)) (v_ppos l) (v_rpos l) (v_p0 l) (v_frags l ++ [f]).
Definition vl_nread (l : vlocal) (n : Z) : vlocal :=
  mkVL (v_pc l) (v_todo l) (v_limit l) (v_res l) (v_idx l) (v_pos l) (v_toff0 l) (v_off l) (v_end l) n (v_flen l) (v_foff l)
       (v_flags l) (v_sc l) (v_act l) (v_ppos l) (v_rpos l) (v_p0 l) (v_frags l).
(* a Commit action: initial_position += resulting_offset - initial_offset; initial_offset = resulting_offset *)
Definition vl_commit (l : vlocal) : vlocal :=
  mkVL VCommit (v_todo l) (v_limit l) (v_res l) (v_idx l) (v_new_pos l) (v_off l) (v_off l) (v_end l) (v_nread l) (v_flen l) (v_foff l)
       (v_flags l) (v_sc l) (v_act l) (v_ppos l) (v_rpos l) (v_p0 l) (v_frags l).
(* controlled_peek: position += offset - initial_offset; initial_offset = offset; [resulting_position = position] *)
Definition vl_padv (l : vlocal) (set_r : bool) : vlocal :=
  let pp := v_ppos l + (v_off l - v_toff0 l) in
  mkVL (v_pc l) (v_todo l) (v_limit l) (v_res l) (v_idx l) (v_pos l) (v_off l) (v_off l) (v_end l) (v_nread l) (v_flen l) (v_foff l)
       (v_flags l) (v_sc l) (v_act l) pp (if set_r then pp else v_rpos l) (v_p0 l) (v_frags l).
Definition vl_rpos (l : vlocal) : vlocal :=
  mkVL (v_pc l) (v_todo l) (v_limit l) (v_res l) (v_idx l) (v_pos l) (v_toff0 l) (v_off l) (v_end l) (v_nread l) (v_flen l) (v_foff l)
       (v_flags l) (v_sc l) (v_act l) (v_ppos l) (v_ppos l) (v_p0 l) (v_frags l).
Definition vl_frags (l : vlocal) (pc : vpc) (fs : list frag) : vlocal :=
  mkVL pc (v_todo l) (v_limit l) (v_res l) (v_idx l) (v_pos l) (v_toff0 l) (v_off l) (v_end l) (v_nread l) (v_flen l) (v_foff l)
       (v_flags l) (v_sc l) (v_act l) (v_ppos l) (v_rpos l) (v_p0 l) (v_frags l ++ fs).

(* what the block handler of the harness finds in the block [o, stop): every data frame; a frame whose length word is
   below the header length ends the walk and is reported as it is *)
Fixpoint block_frags (m : Z -> slot) (o stop : Z) (fuel : nat) : list frag :=
  match fuel with
  | O => []
  | S f =>
      if stop <=? o then []
      else let sl := m o in
           if s_len sl <? HDR then [(o, s_len sl - HDR, s_flags sl, [])]
           else (if s_type sl =? T_PAD then [] else [(o, s_len sl - HDR, s_flags sl, pad_to (Z.to_nat (s_len sl - HDR)) (s_body sl))])
                ++ block_frags m (o + align (s_len sl) FA) stop f
  end.

Definition toff_of (c : cfg) (pos : Z) : Z := Z.land (wrap32 pos) (TL c - 1).

(* after the handler returned *)
Definition after_handler (c : cfg) (l : vlocal) : vlocal :=
  match v_flav l with
  | FPoll | FBounded _ | FBlock _ => v_loop (vl_nread l (v_nread l + 1))
  | FCtrl _ | FBCtrl _ _ =>
      match v_act l with
      | AAbort => v_end_poll (vl_off l (v_foff l))                       (* resulting_offset -= aligned_length; break *)
      | ABreak => v_end_poll (vl_nread l (v_nread l + 1))
      | ACommit => vl_commit (vl_nread l (v_nread l + 1))
      | ACont => v_loop (vl_nread l (v_nread l + 1))
      end
  | FPeek _ _ =>
      match v_act l with
      | AAbort => v_pend l
      | _ => vl_pc (vl_padv l false) VFlags2
      end
  end.

Definition vstep (c : cfg) (t : nat) (s : shared) (l : vlocal) : option (shared * vlocal * event) :=
  let p := v_idx l in
  let m := sh_mem s in
  match v_pc l with
  | VPos =>
      let pos := sh_subpos s in
      let toff := toff_of c pos in
      let idx := index_by_position pos (c_bits c) in
      let l' := match v_flav l with
                | FPoll => v_loop (vl_start l VPos idx pos toff (TL c) [] toff)
                | FBounded b => v_loop (vl_start l VPos idx pos toff (Image.limit_offset (TL c) b pos toff) [] toff)
                | FCtrl sc => v_loop (vl_start l VPos idx pos toff (TL c) sc toff)
                | FBCtrl b sc => v_loop (vl_start l VPos idx pos toff (Image.limit_offset (TL c) b pos toff) sc toff)
                | FPeek _ sc => vl_start l VVal idx pos toff (TL c) sc pos
                | FBlock n => v_bloop (vl_start l VPos idx pos toff (Z.min (toff + n) (TL c)) [] toff)
                end in
      Some (s, l', ev t Get R_CNT SUBPOS_OFF 8 0 0 pos)
  | VVal =>
      (* controlled_peek(initial_position = the position just read): validate_position reads the counter again *)
      let cur := sh_subpos s in
      let l' := if Image.validate_position (TL c) cur (v_p0 l) then v_ploop c l else v_finish (Err IllegalArg) l in
      Some (s, l', ev t Get R_CNT SUBPOS_OFF 8 0 0 cur)
  | VLen =>
      let o := v_off l in
      let len := s_len (m p o) in
      let l' := if len <=? 0 then (if is_peek (v_flav l) then v_pend l else v_end_poll l)
                else vl_frame l VType (o + align len FA) len o in
      Some (s, l', ev t GetVolatile p o 4 0 0 len)
  | VType =>
      let ty := s_type (m p (v_foff l)) in
      let l' := if ty =? T_PAD then (if is_peek (v_flav l) then v_ploop c (vl_padv l true) else v_loop l)
                else vl_pc l VFlags in
      Some (s, l', ev t Get p (v_foff l + GenConsts.DFH_TYPE_FIELD_OFFSET) 2 0 0 ty)
  | VFlags =>
      let fl := s_flags (m p (v_foff l)) in
      Some (s, vl_flags l VBody fl, ev t Get p (v_foff l + GenConsts.DFH_FLAGS_FIELD_OFFSET) 1 0 0 fl)
  | VBody =>
      let n := v_flen l - HDR in
      let body := pad_to (Z.to_nat n) (s_body (m p (v_foff l))) in
      Some (s, after_handler c (vl_handled l (v_foff l, n, v_flags l, body)), ev t RegionRead p (v_foff l + HDR) n 0 0 0)
  | VFlags2 =>
      (* controlled_peek: if header.flags() & END_FRAG != 0 { resulting_position = position } ; Break => break *)
      let fl := s_flags (m p (v_foff l)) in
      let l1 := if Z.land fl F_END =? 0 then l else vl_rpos l in
      let l' := match v_act l with ABreak => v_pend l1 | _ => v_ploop c l1 end in
      Some (s, l', ev t Get p (v_foff l + GenConsts.DFH_FLAGS_FIELD_OFFSET) 1 0 0 fl)
  | VCommit =>
      Some (with_subpos s (v_pos l), v_loop l, ev t PutOrdered R_CNT SUBPOS_OFF 8 (v_pos l) 0 0)
  | VSet =>
      Some (with_subpos s (v_new_pos l), v_finish (Ok (v_nread l)) l, ev t PutOrdered R_CNT SUBPOS_OFF 8 (v_new_pos l) 0 0)
  | VVal2 =>
      (* set_position(resulting_position): validate_position, then the ordered store *)
      let cur := sh_subpos s in
      let l' := if Image.validate_position (TL c) cur (v_rpos l) then vl_pc l VSetPos else v_finish (Ok (v_rpos l)) l in
      Some (s, l', ev t Get R_CNT SUBPOS_OFF 8 0 0 cur)
  | VSetPos =>
      Some (with_subpos s (v_rpos l), v_finish (Ok (v_rpos l)) l, ev t PutOrdered R_CNT SUBPOS_OFF 8 (v_rpos l) 0 0)
  | VBLen =>
      let o := v_off l in
      let len := s_len (m p o) in
      let l' := if len <=? 0 then v_bend l else vl_frame l VBType o len o in
      Some (s, l', ev t GetVolatile p o 4 0 0 len)
  | VBType =>
      let o := v_off l in
      let ty := s_type (m p o) in
      let al := align (v_flen l) FA in
      let l' := if ty =? T_PAD then v_bend (if v_p0 l =? o then vl_off l (o + al) else l)
                else if v_end l <? o + al then v_bend l
                else v_bloop (vl_off l (o + al)) in
      Some (s, l', ev t Get p (o + GenConsts.DFH_TYPE_FIELD_OFFSET) 2 0 0 ty)
  | VBTid =>
      let tid := s_tid (m p (v_p0 l)) in
      Some (s, vl_pc l VBRead, ev t Get p (v_p0 l + GenConsts.DFH_TERM_ID_FIELD_OFFSET) 4 0 0 tid)
  | VBRead =>
      let len := v_off l - v_p0 l in
      Some (s, vl_frags l VBSet (block_frags (m p) (v_p0 l) (v_off l) (Z.to_nat (len / FA + 1))),
            ev t RegionRead p (v_p0 l) len 0 0 0)
  | VBSet =>
      let len := v_off l - v_p0 l in
      Some (with_subpos s (v_pos l + len), v_finish (Ok len) l, ev t PutOrdered R_CNT SUBPOS_OFF 8 (v_pos l + len) 0 0)
  | VDone => None
  end.

Definition viewer (limit : Z) (polls : list flavour) : vlocal := v_begin polls limit [] [].
