(* src/subscription.rs: the image list, round_robin_index and the two loops of poll_inner (shared by
   Subscription::poll and Subscription::controlled_poll), block_poll over all images, add_image / remove_image
   as far as the list is concerned (src/concurrent/atomic_vec.rs add / remove).
   The poll flavour is a parameter `pk : I -> Z -> Z * I * list X`: polling image state `i` with a limit gives the
   number of fragments read, the image state afterwards and what was handed to the handler.
   round_robin_index is an i32 in the source; it never exceeds the length of the image list (invariant proved in
   SubscriptionProofs), so the `+= 1` cannot overflow and is modelled in Z.  Definitions only. *)
Require Import V.Base.MachineInt.
Open Scope Z_scope.

Record sub (I : Type) := mkSub { s_images : list I; s_rr : Z }.
Arguments mkSub {I}. Arguments s_images {I}. Arguments s_rr {I}.

(* let mut starting_index = self.round_robin_index as usize;  self.round_robin_index += 1;
   if starting_index >= image_list.len() { self.round_robin_index = 0; starting_index = 0; }
   result: (starting_index, round_robin_index afterwards) *)
Definition rr_next (len rr : Z) : Z * Z :=
  if rr >=? len then (0, 0) else (rr, rr + 1).

(* for i in range { if fragments_read < fragment_limit { fragments_read += poll_kind(image[i], fragment_limit - fragments_read) } }
   over the images of one index range; `idx` is the index of the first one; returns
   (fragments_read, images afterwards, handler inputs in order, indices of the images actually polled) *)
Fixpoint poll_range {I X} (pk : I -> Z -> Z * I * list X) (imgs : list I) (idx limit read : Z)
  : Z * list I * list X * list Z :=
  match imgs with
  | [] => (read, [], [], [])
  | im :: r =>
      if read <? limit then
        let '(n, im', xs) := pk im (limit - read) in
        let '(read', r', ys, polled) := poll_range pk r (idx + 1) limit (read + n) in
        (read', im' :: r', xs ++ ys, idx :: polled)
      else
        let '(read', r', ys, polled) := poll_range pk r (idx + 1) limit read in
        (read', im :: r', ys, polled)
  end.

(* poll_inner: first the images starting_index .. len, then 0 .. starting_index *)
Definition poll_inner {I X} (pk : I -> Z -> Z * I * list X) (s : sub I) (limit : Z)
  : Z * sub I * list X * list Z :=
  let len := Z.of_nat (length (s_images s)) in
  let '(start, rr') := rr_next len (s_rr s) in
  let front := firstn (Z.to_nat start) (s_images s) in
  let back := skipn (Z.to_nat start) (s_images s) in
  let '(read1, back', xs1, p1) := poll_range pk back start limit 0 in
  let '(read2, front', xs2, p2) := poll_range pk front 0 limit read1 in
  (read2, mkSub (front' ++ back') rr', xs1 ++ xs2, p1 ++ p2).

(* block_poll: every image, no shared limit: bytes_consumed += image.block_poll(handler, block_length_limit) *)
Fixpoint block_all {I X} (bk : I -> Z * I * list X) (imgs : list I) : Z * list I * list X :=
  match imgs with
  | [] => (0, [], [])
  | im :: r =>
      let '(n, im', xs) := bk im in
      let '(total, r', ys) := block_all bk r in
      (n + total, im' :: r', xs ++ ys)
  end.

(* AtomicVec::add pushes at the end; AtomicVec::remove deletes the first element that matches *)
Definition add_image {I} (s : sub I) (im : I) : sub I := mkSub (s_images s ++ [im]) (s_rr s).

Fixpoint remove_first {I} (p : I -> bool) (l : list I) : list I :=
  match l with [] => [] | x :: r => if p x then r else x :: remove_first p r end.

Definition remove_image {I} (s : sub I) (p : I -> bool) : sub I := mkSub (remove_first p (s_images s)) (s_rr s).
