(* src/fragment_assembler.rs FragmentAssembler::on_fragment with src/buffer_builder.rs BufferBuilder
   (limit / reset / append), builders keyed by the session id read from each fragment's header.

   A builder is modelled by the bytes appended since the last reset: limit = HDR + length of them
   (the first HDR bytes of the real buffer are never read by anyone).  Capacity growth (ensure_capacity /
   find_suitable_capacity) does not influence what is delivered and is not modelled; the harness
   exercises it with small initial capacities.  Definitions only. *)
Require Import V.Base.MachineInt.
Require Import V.Generated.GenConsts.
Require Import V.Model.LogBase.
Open Scope Z_scope.

(* what on_fragment looks at: header.session_id(), header.flags(), the payload bytes *)
Record frag := mkFrag { fr_session : Z; fr_flags : Z; fr_payload : list Z }.

(* a message handed to the delegate: session id of the header passed along (the last fragment's), bytes *)
Definition msg := (Z * list Z)%type.

Definition has_flags (flags mask : Z) : bool := Z.land flags mask =? mask.

(* builder_by_session_id_map *)
Definition builders := list (Z * list Z).

Fixpoint bget (bs : builders) (s : Z) : option (list Z) :=
  match bs with [] => None | (k, v) :: r => if k =? s then Some v else bget r s end.

Fixpoint bset (bs : builders) (s : Z) (v : list Z) : builders :=
  match bs with
  | [] => [(s, v)]
  | (k, w) :: r => if k =? s then (k, v) :: r else (k, w) :: bset r s v
  end.

(* on_fragment:
     if flags & UNFRAGMENTED == UNFRAGMENTED { delegate(buffer, offset, length, header) }
     else if flags & BEGIN_FRAG == BEGIN_FRAG { builder = map.entry(session).or_insert(new); builder.reset().append(..) }
     else if let Some(builder) = map.get_mut(session) {
         if builder.limit() != HDR {
             builder.append(..);
             if flags & END_FRAG == END_FRAG { delegate(builder bytes, header); builder.reset() } } } *)
Definition on_fragment (bs : builders) (x : frag) : builders * list msg :=
  let s := fr_session x in
  if has_flags (fr_flags x) F_UNFRAG then (bs, [(s, fr_payload x)])
  else if has_flags (fr_flags x) F_BEGIN then (bset bs s (fr_payload x), [])
  else match bget bs s with
       | Some acc =>
           if HDR + Z.of_nat (length acc) =? HDR then (bs, [])
           else
             let acc' := acc ++ fr_payload x in
             if has_flags (fr_flags x) F_END then (bset bs s [], [(s, acc')])
             else (bset bs s acc', [])
       | None => (bs, [])
       end.

Fixpoint assemble (bs : builders) (xs : list frag) : builders * list msg :=
  match xs with
  | [] => (bs, [])
  | x :: r =>
      let '(bs1, out1) := on_fragment bs x in
      let '(bs2, out2) := assemble bs1 r in
      (bs2, out1 ++ out2)
  end.

(* ---- the single-session machine the statements are about ----
   state: None = no builder yet, Some acc = builder with acc appended since the last reset *)
Definition step1 (st : option (list Z)) (flags : Z) (payload : list Z) : option (list Z) * list (list Z) :=
  if has_flags flags F_UNFRAG then (st, [payload])
  else if has_flags flags F_BEGIN then (Some payload, [])
  else match st with
       | Some acc =>
           if (length acc =? 0)%nat then (st, [])
           else if has_flags flags F_END then (Some [], [acc ++ payload])
           else (Some (acc ++ payload), [])
       | None => (None, [])
       end.

Fixpoint run1 (st : option (list Z)) (xs : list (Z * list Z)) : option (list Z) * list (list Z) :=
  match xs with
  | [] => (st, [])
  | (fl, p) :: r =>
      let '(st1, o1) := step1 st fl p in
      let '(st2, o2) := run1 st1 r in
      (st2, o1 ++ o2)
  end.

(* a message cut into chunks as a publisher fragments it: one chunk = unfragmented,
   otherwise BEGIN, MIDDLE*, END *)
Fixpoint middle_end (chunks : list (list Z)) : list (Z * list Z) :=
  match chunks with
  | [] => []
  | [c] => [(F_END, c)]
  | c :: r => (0, c) :: middle_end r
  end.

Definition fragments_of (chunks : list (list Z)) : list (Z * list Z) :=
  match chunks with
  | [] => []
  | [c] => [(F_UNFRAG, c)]
  | c :: r => (F_BEGIN, c) :: middle_end r
  end.
