(* The consumer side of the command ring as one thread ("agent") that runs a program of reads and
   unblock() calls, interleaved with the producers of Model/RingThreads.v at the granularity of the
   shared-memory accesses the verification hook reports.  unblock() (src/concurrent/ring_buffer.rs)
   becomes a pc-machine, so that a *surviving* producer may be inside write while unblock scans, and
   unblock may be pre-empted between its scan and its store:

     UReadHead   head   = get_volatile::<i64>(head_position)
     UReadTail   tail   = get_volatile::<i64>(tail_position)         (tail == head -> false)
     UReadLen    length = get_volatile::<i32>(consumer_index)        (> 0 -> false; < 0 -> UPut (-length))
     UScan i     length = get_volatile::<i32>(i)                     (forward loop, i = consumer_index + 8, ..)
     UBack i j   get_volatile::<i32>(j)                              (scan_back_to_confirm_still_zeroed(i, consumer_index))
     UPut len    put_ordered::<i64>(consumer_index, make_header(len, Padding))   -> true

   Memory is read exactly as in the sequential `unblock` of Model/Ring.v: `word_at (render R)`.
   Reads of the agent re-use `cstep` (one read call = a consumer with the one limit).
   Thread 0 is the agent, thread i+1 is producer i.  Definitions only. *)
Require Import V.Base.MachineInt.
Require Import V.Generated.GenConsts.
Require Import V.Model.LogBase.
Require Import V.Model.Ring.
Require Import V.Model.RingThreads.
Open Scope Z_scope.

Inductive cop := CoRead (limit : Z) | CoUnblock.

Inductive upc :=
| UReadHead
| UReadTail (hd : Z)
| UReadLen (hd tl : Z)
| UScan (hd limit i : Z)
| UBack (hd hit j : Z)
| UPut (hd len : Z).

(* one granted access of unblock(): new ring, next pc or the value returned, the event *)
Definition ustep (R : ring) (u : upc) : ring * (upc + bool) * event :=
  let cp := r_cap R in
  match u with
  | UReadHead => (R, inl (UReadTail (r_head R)), ev 0 GetVolatile (cp + HEAD_OFF) 8 0 0 (r_head R))
  | UReadTail hd =>
      let tl := r_tail R in
      (R, if tl =? hd then inr false else inl (UReadLen hd tl), ev 0 GetVolatile (cp + TAIL_OFF) 8 0 0 tl)
  | UReadLen hd tl =>
      let ci := mask_idx cp hd in
      let pi := mask_idx cp tl in
      let len := word_at (render R) ci in
      let e := ev 0 GetVolatile ci 4 0 0 len in
      if len <? 0 then (R, inl (UPut hd (wrap32 (- len))), e)
      else if len =? 0 then (R, inl (UScan hd (if pi >? ci then pi else cp) (ci + AL)), e)
      else (R, inr false, e)
  | UScan hd limit i =>
      let w := word_at (render R) i in
      let e := ev 0 GetVolatile i 4 0 0 w in
      if w =? 0 then (if i + AL >=? limit then (R, inr false, e) else (R, inl (UScan hd limit (i + AL)), e))
      else (R, inl (UBack hd i (i - AL)), e)
  | UBack hd hit j =>
      let ci := mask_idx cp hd in
      let w := word_at (render R) j in
      let e := ev 0 GetVolatile j 4 0 0 w in
      if w =? 0 then (if j - AL >=? ci then (R, inl (UBack hd hit (j - AL)), e) else (R, inl (UPut hd (hit - ci)), e))
      else (R, inr false, e)
  | UPut hd len =>
      (set_slots R (put_hdr (r_slots R) hd len PAD), inr true,
       ev 0 PutOrdered (mask_idx cp hd) 8 (make_header len PAD) 0 (hdr64 (r_slots R) hd))
  end.

(* what the agent's calls returned *)
Inductive ares := ARead (n : Z) (msgs : list tmsg) | AUnb (b : bool).

Inductive amode := ADone | APanic | AReading (cs : cstate) | AUnblocking (u : upc).

Record astate := mkA { a_mode : amode; a_ops : list cop; a_k : nat; a_res : list ares }.

(* parked at the first access of call number k *)
Definition a_at (ops : list cop) (k : nat) (res : list ares) : astate :=
  mkA (match nth_error ops k with
       | Some (CoRead limit) => AReading (cstart [limit])
       | Some CoUnblock => AUnblocking UReadHead
       | None => ADone
       end) ops k res.
Definition astart (ops : list cop) : astate := a_at ops O [].
Definition a_set (a : astate) (md : amode) : astate := mkA md (a_ops a) (a_k a) (a_res a).

Definition astep (m : mode) (R : ring) (a : astate) : ring * astate * option event :=
  match a_mode a with
  | ADone | APanic => (R, a, None)
  | AReading cs =>
      match cstep m R cs with
      | (R', cs', Some e) =>
          match c_pc cs' with
          | CDone => (R', a_at (a_ops a) (S (a_k a)) (a_res a ++ map (fun r => ARead (fst r) (snd r)) (c_res cs')), Some e)
          | CPanic => (R', a_set a APanic, Some e)
          | _ => (R', a_set a (AReading cs'), Some e)
          end
      | (_, _, None) => (R, a_set a APanic, None)
      end
  | AUnblocking u =>
      match ustep R u with
      | (R', inl u', e) => (R', a_set a (AUnblocking u'), Some e)
      | (R', inr b, e) => (R', a_at (a_ops a) (S (a_k a)) (a_res a ++ [AUnb b]), Some e)
      end
  end.

Record aconfig := mkACfg { ag_ring : ring; ag_agent : astate; ag_prods : list pstate }.

Definition xstep (m : mode) (x : aconfig) (tid : nat) : option (aconfig * event) :=
  match tid with
  | O =>
      match astep m (ag_ring x) (ag_agent x) with
      | (R, a, Some e) => Some (mkACfg R a (ag_prods x), e)
      | (_, _, None) => None
      end
  | S i =>
      match nth_error (ag_prods x) i with
      | Some ps =>
          match pstep m (ag_ring x) (Z.of_nat tid) ps with
          | (R, ps', Some e) => Some (mkACfg R (ag_agent x) (set_nth (ag_prods x) i ps'), e)
          | (_, _, None) => None
          end
      | None => None
      end
  end.

Definition xstart (R : ring) (ops : list cop) (progs : list (list wreq)) : aconfig :=
  mkACfg R (astart ops) (map (pstart (r_cap R)) progs).

(* ---- replaying a schedule exactly as vcommon::sched::run does (cf. run_sched / drain of RingThreads) ---- *)
Fixpoint xrun_sched (m : mode) (x : aconfig) (counts stops : list Z) (sched : list nat)
  : aconfig * list Z * list event :=
  match sched with
  | [] => (x, counts, [])
  | t :: r =>
      if stopped counts stops t then xrun_sched m x counts stops r
      else match xstep m x t with
           | Some (x', e) =>
               let '(c, k, tr) := xrun_sched m x' (bump counts t) stops r in (c, k, e :: tr)
           | None => xrun_sched m x counts stops r
           end
  end.

Fixpoint xdrain (m : mode) (fuel : nat) (x : aconfig) (counts stops : list Z) (t n : nat) : aconfig * list event :=
  match fuel with
  | O => (x, [])
  | S f =>
      if (n <=? t)%nat then (x, [])
      else if stopped counts stops t then xdrain m f x counts stops (S t) n
      else match xstep m x t with
           | Some (x', e) => let '(c, tr) := xdrain m f x' (bump counts t) stops t n in (c, e :: tr)
           | None => xdrain m f x counts stops (S t) n
           end
  end.

(* results as the harness prints them *)
Inductive aout := RRd (n : Z) (msgs : list (Z * Z * list Z)) | RUn (b : Z).
Inductive atres :=
| ATStop | ATPanicked
| ATAgent (l : list aout)
| ATProd (l : list (outcome Z)).

Definition aout_of (r : ares) : aout :=
  match r with
  | ARead n msgs => RRd n (map (fun x => cmsg (untag x)) msgs)
  | AUnb b => RUn (b2z b)
  end.
Definition agent_result (a : astate) : atres :=
  match a_mode a with
  | ADone => ATAgent (map aout_of (a_res a))
  | APanic => ATPanicked
  | _ => ATStop
  end.
Definition aprod_result (ps : pstate) : atres :=
  match p_pc ps with PDone => ATProd (p_res ps) | PPanic => ATPanicked | _ => ATStop end.
Definition aresults (x : aconfig) : list atres := agent_result (ag_agent x) :: map aprod_result (ag_prods x).

(* a whole case: sequential prelude, agent + producers under a schedule with crash points, sequential epilogue *)
Definition run_uconc (m : mode) (R0 : ring) (pre : list op) (ops : list cop) (progs : list (list wreq))
  (sched : list nat) (stops : list Z) (post : list op)
  : list out * list event * list atres * list out :=
  let '(R1, o1) := run m R0 pre in
  let x := xstart R1 ops progs in
  let n := S (length progs) in
  let '(x1, counts, tr1) := xrun_sched m x (repeat 0 n) stops sched in
  let fuel := Z.to_nat ((Z.of_nat (length ops) + Z.of_nat (length (concat progs)) + 1) * (64 * (Z.of_nat n + 1) + 4 * r_cap R1)) in
  let '(x2, tr2) := xdrain m fuel x1 counts stops O n in
  let '(R3, o3) := run m (ag_ring x2) post in
  (o1, tr1 ++ tr2, aresults x2, o3).
