(* Model of src/exclusive_publication.rs on top of Model/ExclAppender.v: the publication keeps its own cursor
   (term_id, term_offset, active_partition_index, term_begin_position), rotates the log itself and never reads a
   tail counter after construction.
   `xpub_new` is the constructor as repaired by fixes/C04-excl-new.diff (reads the active term count, as
   aeron's C++ ExclusivePublication does); `xpub_new_asis` is the constructor of the repository before that fix
   (always partition 0, term begin position 0).  Definitions only. *)
Require Import V.Base.MachineInt.
Require Import V.Generated.GenConsts.
Require Import V.Model.Descriptor.
Require Import V.Model.LogBase.
Require Import V.Model.LogDelta.
Require Import V.Model.Appender.
Require Import V.Model.ExclAppender.
Require Import V.Model.Publication.
Open Scope Z_scope.

Record xpub := mkX { x_pub : pubstate; x_off : Z; x_tid : Z; x_idx : Z; x_begin : Z }.

Definition xlog (x : xpub) : log := ps_log (x_pub x).
Definition x_with_pub (x : xpub) (p : pubstate) : xpub := mkX p (x_off x) (x_tid x) (x_idx x) (x_begin x).

(* ExclusivePublication::new, repaired *)
Definition xpub_new (l : log) : outcome xpub :=
  let idx := index_by_term_count (l_count l) in
  if (idx <? 0) then Panic else
  let raw := tail l idx in
  let tid := term_id_of raw in
  Ok (mkX (pub_init l) (term_offset_of raw (l_tlen l)) tid idx (compute_term_begin_position tid (bits_of l) (l_init l))).

(* ExclusivePublication::new as the repository has it *)
Definition xpub_new_asis (l : log) : outcome xpub :=
  let raw := tail l 0 in
  Ok (mkX (pub_init l) (term_offset_of raw (l_tlen l)) (term_id_of raw) 0 0).

(* ExclusivePublication::new_position, given the log as the appender left it *)
Definition xpub_new_position (m : mode) (x : xpub) (l : log) (claim : option (Z * Z * Z)) (resulting : Z) : xpub * outcome Z :=
  let p := x_pub x in
  let p1 := mkPub l (ps_closed p) (match claim with Some c => Some c | None => ps_claim p end) in
  if 0 <? resulting then
    match add64 m (x_begin x) resulting with
    | Ok np => (mkX p1 resulting (x_tid x) (x_idx x) (x_begin x), Ok np)
    | _ => (mkX p1 resulting (x_tid x) (x_idx x) (x_begin x), Panic)
    end
  else
    let tl := l_tlen l in
    match add64 m (x_begin x) tl with
    | Ok e =>
        if max_possible_position l <=? e then (x_with_pub x p1, Err MaxPositionExceeded)
        else
          match next_partition_index m (x_idx x) with
          | Ok next_index =>
              let next_tid := wrap32 (x_tid x + 1) in
              let term_count := wrap32 (next_tid - l_init l) in
              (* initialize_tail_with_term_id ; set_active_term_count_ordered *)
              let l2 := set_count (set_tail l next_index (next_tid * two32)) term_count in
              (mkX (mkPub l2 (ps_closed p1) (ps_claim p1)) 0 next_tid next_index e, Err AdminAction)
          | _ => (x_with_pub x p1, Panic)
          end
    | _ => (x_with_pub x p1, Panic)
    end.

Definition xpub_try (m : mode) (x : xpub) (len : Z) (act : log -> outcome appended) : xpub * outcome Z :=
  let p := x_pub x in
  if ps_closed p then (x, Err Closed) else
  let l := ps_log p in
  if (x_idx x <? 0) || (2 <? x_idx x) then (x, Panic) else
  match add64 m (x_begin x) (x_off x) with
  | Ok position =>
      if position <? l_limit l then
        match act l with
        | Ok a => xpub_new_position m x (a_log a) (a_claim a) (a_result a)
        | Err e => (x, Err e)
        | Panic => (x, Panic) | Hang => (x, Hang) | Crash => (x, Crash)
        end
      else
        match back_pressure_status m l position len with
        | Ok _ => (x, Panic) | Err e => (x, Err e) | Panic => (x, Panic) | Hang => (x, Hang) | Crash => (x, Crash)
        end
  | _ => (x, Panic)
  end.

Definition xpub_offer (m : mode) (rv : Z -> Z -> list Z -> Z) (x : xpub) (msg : list Z) : xpub * outcome Z :=
  let len := zlen msg in
  xpub_try m x len (fun l =>
    if len <=? max_payload_length l then eta_append_unfragmented m rv l (x_idx x) (x_tid x) (x_off x) msg
    else if max_message_length l <? len then Err TooLong
    else eta_append_fragmented m rv l (x_idx x) (x_tid x) (x_off x) msg (max_payload_length l)).

Definition xpub_claim (m : mode) (x : xpub) (len : Z) : xpub * outcome Z :=
  if max_payload_length (xlog x) <? len then (x, Err TooLong)
  else xpub_try m x len (fun l => eta_claim m l (x_idx x) (x_tid x) (x_off x) len).

(* the exclusive publication has no offer_bulk: a Bulk operation in a history does nothing to it
   (the exclusive appender's vectored append is exercised directly, see Model/PubCases.v) *)
Definition xpub_step (m : mode) (rv : Z -> Z -> list Z -> Z) (x : xpub) (o : op) : xpub * outcome Z :=
  match o with
  | Offer msg => xpub_offer m rv x msg
  | Claim len => xpub_claim m x len
  | Bulk bufs => (x, Ok 0)
  | _ => let '(p, r) := env_step (x_pub x) o in (x_with_pub x p, r)
  end.

(* ExclusivePublication::position *)
Definition xpub_position (m : mode) (x : xpub) : outcome Z :=
  if ps_closed (x_pub x) then Err Closed else add64 m (x_begin x) (x_off x).

Fixpoint xpub_run (m : mode) (rv : Z -> Z -> list Z -> Z) (x : xpub) (ops : list op) : xpub :=
  match ops with [] => x | o :: r => xpub_run m rv (fst (xpub_step m rv x o)) r end.

Definition xpub_obs (m : mode) (x x' : xpub) (r : outcome Z) := (r, log_delta (xlog x) (xlog x'), xpub_position m x').
Fixpoint xpub_trace (m : mode) (rv : Z -> Z -> list Z -> Z) (x : xpub) (ops : list op) :=
  match ops with
  | [] => []
  | o :: r => let '(x', res) := xpub_step m rv x o in xpub_obs m x x' res :: xpub_trace m rv x' r
  end.
