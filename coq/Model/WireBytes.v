(* Byte-level vocabulary of the control protocol (C13, C14): little-endian i32 / i64,
   length-prefixed strings, 4-byte alignment, random access into a byte list the way
   AtomicBuffer::get::<i32/i64> / get_string / put / put_string / put_bytes do it.
   A byte is a Z in 0..255.  Definitions only. *)
Require Import V.Base.MachineInt.
Open Scope Z_scope.

Definition bytes := list Z.

Definition is_byte (b : Z) : bool := (0 <=? b) && (b <? 256).
Definition all_bytes (s : bytes) : bool := forallb is_byte s.
(* a C string body: bytes 1..255 (no NUL) *)
Definition is_char (b : Z) : bool := (1 <=? b) && (b <? 256).
Definition all_chars (s : bytes) : bool := forallb is_char s.

(* n little-endian bytes of v (two's complement for negative v: floor division) *)
Fixpoint le_enc (n : nat) (v : Z) : bytes :=
  match n with O => [] | S k => (v mod 256) :: le_enc k (v / 256) end.
Fixpoint le_dec (bs : bytes) : Z :=
  match bs with [] => 0 | b :: r => b + 256 * le_dec r end.

Definition enc_i32 (v : Z) : bytes := le_enc 4 v.
Definition enc_i64 (v : Z) : bytes := le_enc 8 v.
Definition dec_i32 (bs : bytes) : Z := wrap32 (le_dec bs).
Definition dec_i64 (bs : bytes) : Z := wrap64 (le_dec bs).

(* bytes [off, off+len) of bs; positions beyond the end of bs read as absent
   (le_dec treats them as 0: the scratch buffers are zero-filled) *)
Definition slice (bs : bytes) (off len : Z) : bytes :=
  firstn (Z.to_nat len) (skipn (Z.to_nat off) bs).
Definition get_i32 (bs : bytes) (off : Z) : Z := dec_i32 (slice bs off 4).
Definition get_i64 (bs : bytes) (off : Z) : Z := dec_i64 (slice bs off 8).

Definition zeros (n : Z) : bytes := repeat 0 (Z.to_nat n).

(* the same, padded with zeros to exactly len bytes: a read out of a zero-filled buffer *)
Definition slice_pad (bs : bytes) (off len : Z) : bytes :=
  let s := slice bs off len in s ++ zeros (len - Zlength s).

(* bit_utils::align(value, 4) = (value + 3) & !3, for 0 <= value *)
Definition align4 (v : Z) : Z := align v 4.
Definition pad4 (v : Z) : Z := (4 - v mod 4) mod 4.

(* length-prefixed string as AtomicBuffer::put_string writes it *)
Definition enc_str (s : bytes) : bytes := enc_i32 (Zlength s) ++ s.

(* overwrite bytes [off, off + |data|) of buf (0 <= off, off + |data| <= |buf|) *)
Definition put_bytes (buf : bytes) (off : Z) (data : bytes) : bytes :=
  firstn (Z.to_nat off) buf ++ data ++ skipn (Z.to_nat (off + Zlength data)) buf.
Definition put_i32 (buf : bytes) (off v : Z) : bytes := put_bytes buf off (enc_i32 v).
Definition put_i64 (buf : bytes) (off v : Z) : bytes := put_bytes buf off (enc_i64 v).

(* ---- a record layout as a list of fields (used by the protocol-side encoders) ---- *)
Inductive field :=
| FI32 (v : Z) | FI64 (v : Z)
| FStr (s : bytes)        (* i32 length, then the bytes *)
| FRaw (s : bytes)        (* the bytes alone *)
| FPad (n : Z).           (* n zero bytes *)

Definition fsize (f : field) : Z :=
  match f with
  | FI32 _ => 4 | FI64 _ => 8 | FStr s => 4 + Zlength s | FRaw s => Zlength s | FPad n => Z.max 0 n
  end.
Definition fenc (f : field) : bytes :=
  match f with
  | FI32 v => enc_i32 v | FI64 v => enc_i64 v | FStr s => enc_str s | FRaw s => s | FPad n => zeros n
  end.
Fixpoint fencs (fs : list field) : bytes :=
  match fs with [] => [] | f :: r => fenc f ++ fencs r end.
(* offset of field number k *)
Fixpoint foff (fs : list field) (k : nat) : Z :=
  match k, fs with
  | S k', f :: r => fsize f + foff r k'
  | _, _ => 0
  end.
Definition fsizes (fs : list field) : Z := foff fs (length fs).

(* replace element k of a list *)
Fixpoint upd {A} (k : nat) (x : A) (l : list A) : list A :=
  match l, k with
  | [], _ => []
  | _ :: r, O => x :: r
  | y :: r, S k' => y :: upd k' x r
  end.

(* deterministic test strings shared with the harnesses:
   chars k n    n printable ASCII bytes 33..126 (harness fn chars)
   payload k n  n bytes (k*31 + i*7 + 1) mod 251 (vcommon::payload) *)
Fixpoint gen_bytes (f : Z -> Z) (i : Z) (n : nat) : bytes :=
  match n with O => [] | S k => f i :: gen_bytes f (i + 1) k end.
Definition chars (k n : Z) : bytes :=
  gen_bytes (fun i => 33 + (k * 31 + i * 7) mod 94) 0 (Z.to_nat n).
Definition payload (k n : Z) : bytes :=
  gen_bytes (fun i => (k * 31 + i * 7 + 1) mod 251) 0 (Z.to_nat n).

(* argument strings of every content (C13):
   cstr k n  a C string body (no NUL): k < 1000 printable ASCII (= chars k n); 1000 <= k < 2000 the bytes 1..255
             in turn starting anywhere (long runs >= 0x80: not valid UTF-8); k >= 2000 lower-case ASCII with a
             Latin-1 0xE9 as last byte and, from 3 bytes on, a stray UTF-8 continuation byte 0x80 in the middle
   blob k n  arbitrary bytes: k < 1000 = payload k n (0..250); otherwise all of 0..255 in turn *)
Definition cstr (k n : Z) : bytes :=
  if k <? 1000 then chars k n
  else if k <? 2000 then gen_bytes (fun i => 1 + (k * 31 + i * 7) mod 255) 0 (Z.to_nat n)
  else gen_bytes (fun i => if i =? n - 1 then 233 else if (i =? n / 2) && (3 <=? n) then 128 else 97 + (k + i) mod 26)
                 0 (Z.to_nat n).
Definition blob (k n : Z) : bytes :=
  if k <? 1000 then payload k n else gen_bytes (fun i => (k * 31 + i * 7) mod 256) 0 (Z.to_nat n).
