(* C19 - model of src/channel_uri.rs as it is: `ChannelUri::parse` (prefix stripping and the
   character state machine), `Display`, `put` / `get` / `remove` / `contains_key`, `add_session_id`.
   Definitions only; proofs are in Proofs/UriProofs.v.

   Strings are lists of Unicode scalar values (what `uri.chars()` yields). The `HashMap` of
   parameters is an association list with pairwise distinct keys; its iteration order (which
   `Display` exposes) is not determined by the model: `print` takes the order as an argument
   and the theorems quantify over every permutation. The string constants are the generated
   ones (GenUriTables.v, read off channel_uri.rs on every run). *)
Require Import V.Base.MachineInt.
Require Import V.Model.UriTypes.
Require Import V.Generated.GenUriTables.
Open Scope Z_scope.

(* str::strip_prefix *)
Fixpoint strip_prefix (p s : str) : option str :=
  match p with
  | [] => Some s
  | a :: p' => match s with
               | [] => None
               | b :: s' => if a =? b then strip_prefix p' s' else None
               end
  end.

Record uri := mkUri { u_prefix : str; u_media : str; u_params : params }.

Definition uri_get (u : uri) (k : str) : str := match lookup k (u_params u) with Some v => v | None => [] end.
Definition uri_get_or_default (u : uri) (k d : str) : str := match lookup k (u_params u) with Some v => v | None => d end.
Definition uri_contains_key (u : uri) (k : str) : bool := match lookup k (u_params u) with Some _ => true | None => false end.
Definition uri_put (u : uri) (k v : str) : uri := mkUri (u_prefix u) (u_media u) (insert k v (u_params u)).
Definition uri_remove (u : uri) (k : str) : uri * str :=
  (mkUri (u_prefix u) (u_media u) (remove_key k (u_params u)), uri_get u k).

(* ---- ChannelUri::parse ---------------------------------------------------------------- *)

Inductive pstate := SMedia | SKey | SValue.

Inductive perr :=
| EMustStartWithAeron                 (* IllegalArgumentError::UriMustStartWithAeron *)
| ECharInMedia (c idx : Z)            (* IllegalStateError::EncounteredCharacterWithinMediaDefinition *)
| EEmptyKey (idx : Z)                 (* IllegalStateError::EmptyKeyNotAllowed *)
| EInvalidEndOfKey (idx : Z)          (* IllegalStateError::InvalidEndOfKey *)
| EUnknownMedia (m : str)             (* IllegalArgumentError::UnknownMedia *)
| ENoMoreInput.                       (* IllegalArgumentError::NoMoreInputFound { state: ParamsKey } *)

Definition err_class (e : perr) : err :=
  match e with
  | EMustStartWithAeron | EUnknownMedia _ | ENoMoreInput => IllegalArg
  | ECharInMedia _ _ | EEmptyKey _ | EInvalidEndOfKey _ => IllegalState
  end.

Inductive presult (A : Type) := POk (a : A) | PErr (e : perr).
Arguments POk {A} a. Arguments PErr {A} e.

(* what the `match state` after the loop does; b = builder *)
Definition finish (st : pstate) (b media key : str) (ps : params) : presult (str * params) :=
  match st with
  | SMedia => if negb (str_eqb b IPC_MEDIA) && negb (str_eqb b UDP_MEDIA) then PErr (EUnknownMedia b)
              else POk (b, ps)
  | SValue => POk (media, insert key b ps)
  | SKey => PErr ENoMoreInput
  end.

(* the `for (index, c) in uri.chars().enumerate()` loop; idx = index + position *)
Fixpoint loop (st : pstate) (b media key : str) (ps : params) (idx : Z) (s : str) : presult (str * params) :=
  match s with
  | [] => finish st b media key ps
  | c :: r =>
    match st with
    | SMedia =>
        if c =? CH_QMARK then loop SKey [] b key ps (idx + 1) r
        else if (c =? CH_EQ) || (c =? CH_BAR) || (c =? CH_COLON) then PErr (ECharInMedia c idx)
        else loop SMedia (b ++ [c]) media key ps (idx + 1) r
    | SKey =>
        if c =? CH_EQ then
          if is_empty b then PErr (EEmptyKey idx)
          else loop SValue [] media b ps (idx + 1) r
        else if c =? CH_BAR then PErr (EInvalidEndOfKey idx)
        else loop SKey (b ++ [c]) media key ps (idx + 1) r
    | SValue =>
        if c =? CH_BAR then loop SKey [] media key (insert key b ps) (idx + 1) r
        else loop SValue (b ++ [c]) media key ps (idx + 1) r
    end
  end.

Definition parse (s : str) : presult uri :=
  let '(rest, prefix) := match strip_prefix SPY_PREFIX s with
                         | Some r => (r, SPY_QUALIFIER)
                         | None => (s, [])
                         end in
  match strip_prefix AERON_PREFIX rest with
  | None => PErr EMustStartWithAeron
  | Some body =>
      let position := str_len AERON_PREFIX + (if is_empty prefix then 0 else str_len SPY_PREFIX) in
      match loop SMedia [] [] [] [] position body with
      | POk (media, ps) => POk (mkUri prefix media ps)
      | PErr e => PErr e
      end
  end.

(* the same as an `outcome`: parse has no panicking step *)
Definition parse_outcome (s : str) : outcome uri :=
  match parse s with POk u => Ok u | PErr e => Err (err_class e) end.

(* ---- Display -------------------------------------------------------------------------- *)

Definition seg (kv : str * str) : str := fst kv ++ [CH_EQ] ++ snd kv ++ [CH_BAR].     (* format!("{}={}|", key, value) *)

Definition ends_with_colon (p : str) : bool := match rev p with c :: _ => c =? CH_COLON | [] => false end.

(* `ord` is the order in which the HashMap iterator yields the entries *)
Definition print (prefix media : str) (ord : params) : str :=
  let sb := (if is_empty prefix then [] else prefix ++ (if ends_with_colon prefix then [] else [CH_COLON]))
            ++ AERON_PREFIX ++ media in
  match ord with
  | [] => sb
  | _ => removelast (sb ++ [CH_QMARK] ++ List.concat (map seg ord))       (* sb.pop() *)
  end.

Definition display (u : uri) (ord : params) : str := print (u_prefix u) (u_media u) ord.

(* ---- ChannelUri::add_session_id: the uri whose Display (in some order) is returned ---- *)

Definition add_session_id (channel : str) (session_id : Z) : presult uri :=
  match parse channel with
  | POk u => POk (uri_put u SESSION_ID_PARAM_NAME (dec session_id))
  | PErr e => PErr e
  end.


(* ---- observations (what the harness prints for one case) ------------------------------------ *)

Inductive pobs :=
| OOk (prefix media : str) (ps : params)      (* parameters sorted by key *)
| OErr (e : perr)
| OPanic
| ONone.

Inductive dobs := Disp (s : str) | NoDisp | DPanic.

Definition pobs_of (r : presult uri) : pobs :=
  match r with
  | POk u => OOk (u_prefix u) (u_media u) (sort_params (u_params u))
  | PErr e => OErr e
  end.

(* the model prints the parameters in key order; the driver brings the implementation's string into
   the same order before comparing (tools/props/c19.py `normalize`) *)
Definition canon_display (u : uri) : str := display u (sort_params (u_params u)).

(* p <s> : parse, to_string(), parse again *)
Definition parse_obs (s : str) : pobs * dobs * pobs :=
  match parse s with
  | POk u => (pobs_of (POk u), Disp (canon_display u), pobs_of (parse (canon_display u)))
  | PErr e => (OErr e, NoDisp, ONone)
  end.

(* s <s> <sid> : parse, add_session_id, parse the result *)
Definition sid_obs (s : str) (sid : Z) : pobs * dobs * pobs :=
  match add_session_id s sid with
  | POk u => (pobs_of (parse s), Disp (canon_display u), pobs_of (parse (canon_display u)))
  | PErr e => (OErr e, NoDisp, ONone)
  end.

(* a <s> ops : put / remove / get / get_or_default / contains_key on the parsed uri *)
Inductive api_op := ApiPut (k v : str) | ApiRemove (k : str) | ApiGet (k : str) | ApiGetD (k d : str) | ApiHas (k : str).

Definition api_step (u : uri) (o : api_op) : uri * str :=
  match o with
  | ApiPut k v => (uri_put u k v, [])
  | ApiRemove k => uri_remove u k
  | ApiGet k => (u, uri_get u k)
  | ApiGetD k d => (u, uri_get_or_default u k d)
  | ApiHas k => (u, if uri_contains_key u k then [1] else [0])
  end.

Fixpoint api_run (u : uri) (ops : list api_op) : uri * list str :=
  match ops with
  | [] => (u, [])
  | o :: r => let '(u1, x) := api_step u o in let '(u2, xs) := api_run u1 r in (u2, x :: xs)
  end.

Definition api_obs (s : str) (ops : list api_op) : pobs * list str * pobs :=
  match parse s with
  | POk u => let '(u2, xs) := api_run u ops in (pobs_of (POk u), xs, pobs_of (POk u2))
  | PErr e => (OErr e, [], ONone)
  end.
