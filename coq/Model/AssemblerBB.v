(* src/fragment_assembler.rs FragmentAssembler::on_fragment over the real BufferBuilder of Model/BufferBuilder.v
   (Model/Assembler.v is the same function over an ideal byte list per session; Proofs/AssemblerBBProofs.v shows that
   the two agree whenever no builder operation fails, and that none fails while a message stays below BB_SAFE bytes).

     if flags & UNFRAGMENTED == UNFRAGMENTED { delegate(buffer, offset, length, header) }
     else if flags & BEGIN_FRAG == BEGIN_FRAG {
         builder = map.entry(session).or_insert_with(|| BufferBuilder::new(initial_buffer_length));
         builder.reset().append(buffer, offset, length, header).expect("append failed") }
     else if let Some(builder) = map.get_mut(session) {
         if builder.limit() != HDR {
             builder.append(..).expect("append failed");
             if flags & END_FRAG == END_FRAG {
                 delegate(AtomicBuffer::new(builder.buffer(), builder.limit()), HDR, builder.limit() - HDR, header);
                 builder.reset() } } }
   `expect` turns an Err into a panic.  Definitions only. *)
Require Import V.Base.MachineInt.
Require Import V.Generated.GenConsts.
Require Import V.Generated.GenBufferBuilder.
Require Import V.Model.LogBase.
Require Import V.Model.BufferBuilder.
Require Import V.Model.Assembler.
Open Scope Z_scope.

(* builder_by_session_id_map with real builders *)
Definition bbuilders := list (Z * bb).

Fixpoint bbget (bs : bbuilders) (s : Z) : option bb :=
  match bs with [] => None | (k, v) :: r => if k =? s then Some v else bbget r s end.

Fixpoint bbset (bs : bbuilders) (s : Z) (v : bb) : bbuilders :=
  match bs with
  | [] => [(s, v)]
  | (k, w) :: r => if k =? s then (k, v) :: r else (k, w) :: bbset r s v
  end.

Definition expect {A} (x : outcome A) : outcome A := match x with Err _ => Panic | _ => x end.

(* `ibl` = initial_buffer_length handed to FragmentAssembler::new (the default 4096 when None) *)
Definition on_fragment_bb (m : mode) (ibl : Z) (bs : bbuilders) (x : frag) : outcome (bbuilders * list msg) :=
  let s := fr_session x in
  if has_flags (fr_flags x) F_UNFRAG then Ok (bs, [(s, fr_payload x)])
  else if has_flags (fr_flags x) F_BEGIN then
    b0 <- (match bbget bs s with Some b => Ok b | None => bb_new m ibl end) ;;
    b1 <- expect (bb_append m (bb_reset b0) (fr_payload x)) ;;
    Ok (bbset bs s b1, [])
  else match bbget bs s with
       | Some b =>
           if bb_limit b =? HDR then Ok (bs, [])
           else
             b1 <- expect (bb_append m b (fr_payload x)) ;;
             if has_flags (fr_flags x) F_END then Ok (bbset bs s (bb_reset b1), [(s, bb_content b1)])
             else Ok (bbset bs s b1, [])
       | None => Ok (bs, [])
       end.

Fixpoint assemble_bb (m : mode) (ibl : Z) (bs : bbuilders) (xs : list frag) : outcome (bbuilders * list msg) :=
  match xs with
  | [] => Ok (bs, [])
  | x :: r =>
      r1 <- on_fragment_bb m ibl bs x ;;
      r2 <- assemble_bb m ibl (fst r1) r ;;
      Ok (fst r2, snd r1 ++ snd r2)
  end.

(* the ideal view of the builders: the bytes appended since the last reset *)
Definition ideal_of (bs : bbuilders) : builders := map (fun p => (fst p, bb_content (snd p))) bs.

(* DEFAULT_FRAGMENT_ASSEMBLY_BUFFER_LENGTH *)
Definition DEFAULT_IBL : Z := GenBufferBuilder.BB_DEFAULT_IBL.
