(* Model of `Aeron::map_cnc_file` (src/aeron.rs): the connect / retry loop a client runs before anything else.

   The function only talks to its environment: it asks the file system for the size of the CnC file, maps the
   file, reads the CnC version word, the to-driver buffer length (to build a ring buffer view), the consumer
   heartbeat of that ring, and the clock (`unix_time_ms()`).  Sleeps change nothing by themselves.  The model is
   a state machine over an *environment*: what every observation returns.

   Indexing.  `k` = number of `unix_time_ms()` calls made so far (the first call, `start_ms`, is call 0), `j` =
   number of observations of the file made since the last clock call.  `e_clock k` is what clock call `k`
   returns, `e_snap k j` the state of the CnC file seen by observation `j` after clock call `k - 1`.  Every
   deterministic environment is such a pair of functions (the sequence of observations a run makes is a function
   of the answers it got), so quantifying over all `env` is quantifying over all environments.

   Widths as in the source: `Moment = u64` for clock, time-out and `start_ms + timeout` / `time_ms - timeout`
   (`addu64` / `subu64`: panic in a debug build, wrap in a release build), `i64` heartbeat cast with `as u64`,
   file size `u64` narrowed with `as Index` (i32), `i32` lengths in the meta data. *)
From Coq Require Import ZArith List Bool Lia.
Require Import V.Base.MachineInt V.Generated.GenConsts.
Import ListNotations.
Open Scope Z_scope.

Inductive fstat := FMissing | FSize (n : Z).                      (* fs::metadata fails | length *)
Record snap := mkSnap { s_file : fstat; s_ver : Z; s_tdlen : Z; s_hb : Z }.
Record env := mkEnv { e_clock : nat -> Z; e_snap : nat -> nat -> snap }.

Inductive cerr := EMapFile | ENotCreated | ENotInitialised | EVersion | ENoHeartbeat.

(* Results carry what was observed when the decision was taken (the theorems speak about these values):
   ROk n v h1 t h2 : mapped size, version word, the first non-zero heartbeat, the clock value of the freshness
                     test and the heartbeat that test read;
   RErr e w t      : the offending value (size / version / heartbeat) and the clock value that decided. *)
Inductive cout :=
| ROk (n v h1 t h2 : Z)
| RErr (e : cerr) (w t : Z)
| RPanic                       (* bounds_check assert, `expect` on the ring-buffer capacity, debug overflow *)
| RUndef                       (* read outside the mapping: the heartbeat slot lies beyond the mapped file *)
| RHang.                       (* out of fuel *)

(* semantic_version_major: ((v >> 16) & 0xFF) as u8, arithmetic shift on i32 *)
Definition sem_major (v : Z) : Z := (v / 65536) mod 256.
Definition version_ok (v : Z) : bool := sem_major v =? sem_major CNC_VERSION.

(* bit_utils::is_power_of_two on i32: value > 0 && (value & (!value + 1)) == value *)
Definition is_pow2 (v : Z) : bool := (0 <? v) && (Z.land v (- v) =? v).

Definition META_FIELDS : Z := CNC_META_DATA_FIELDS_END.     (* size_of::<MetaDataDefn>() *)
Definition META : Z := CNC_META_DATA_LENGTH.

(* (hb as Moment) < time_ms - timeout *)
Definition stale_at (m : mode) (h t T : Z) : outcome bool :=
  lim <- subu64 m t T ;; Ok (wrapu64 h <? lim).
(* unix_time_ms() > start_ms + timeout *)
Definition past_at (m : mode) (t start T : Z) : outcome bool :=
  dl <- addu64 m start T ;; Ok (t >? dl).

Inductive pc :=
| PSize                                   (* head of `while get_file_size(..)? == 0` *)
| PMap                                    (* MemoryMappedFile::map_existing *)
| PVer (n : Z)                            (* cnc_version_volatile, n = memory_size *)
| PMeta (n v : Z)                         (* create_to_driver_buffer + ManyToOneRingBuffer::new(..).expect(..) *)
| PHb (n v : Z)                           (* head of `while 0 == ring_buffer.consumer_heartbeat_time()` *)
| PJudge (n v h1 : Z).                    (* time_ms = unix_time_ms(); the freshness test *)

Record st := mkSt { st_k : nat; st_j : nat; st_pc : pc }.

Definition obs (e : env) (s : st) : snap := e_snap e (st_k s) (st_j s).
Definition seen (s : st) (p : pc) : st := mkSt (st_k s) (S (st_j s)) p.            (* after a file observation *)
Definition ticked (s : st) (p : pc) : st := mkSt (S (st_k s)) 0%nat p.              (* after a clock call *)

(* A step either continues or ends with a result and the number of clock calls made by then. *)
Definition stop (s : st) (r : cout) : st + cout * nat := inr (r, st_k s).
Definition stop_ticked (s : st) (r : cout) : st + cout * nat := inr (r, S (st_k s)).

(* One clock call deciding "timed out?": Err when past the deadline, otherwise go on at `p` (after the sleep). *)
Definition timeout_check (m : mode) (T : Z) (e : env) (s : st) (err : cerr) (w : Z) (p : pc) : st + cout * nat :=
  let t := e_clock e (st_k s) in
  match past_at m t (e_clock e 0%nat) T with
  | Ok true => stop_ticked s (RErr err w t)
  | Ok false => inl (ticked s p)
  | _ => stop_ticked s RPanic
  end.

Definition step (m : mode) (T : Z) (e : env) (s : st) : st + cout * nat :=
  match st_pc s with
  | PSize =>
      match s_file (obs e s) with
      | FMissing => stop s (RErr EMapFile 0 0)                                     (* `?` on fs::metadata *)
      | FSize n => if n =? 0 then timeout_check m T e (seen s PSize) ENotCreated 0 PSize
                   else inl (seen s PMap)
      end
  | PMap =>
      match s_file (obs e s) with
      | FMissing => stop s (RErr EMapFile 0 0)                                     (* open fails *)
      | FSize n => if n =? 0 then stop s (RErr EMapFile 0 0)                       (* mmap of an empty file fails *)
                   else inl (seen s (PVer (wrap32 n)))                             (* memory_size = size as Index *)
      end
  | PVer n =>
      if n <? 4 then stop s RPanic                                                 (* bounds_check(0, 4) *)
      else
        let v := s_ver (obs e s) in
        if v =? 0 then timeout_check m T e (seen s (PVer n)) ENotInitialised 0 (PVer n)
        else if version_ok v then inl (seen s (PMeta n v))
        else stop s (RErr EVersion v 0)
  | PMeta n v =>
      if n <? META_FIELDS then stop s RPanic                                       (* get::<MetaDataDefn>(0) *)
      else
        match sub32 m (s_tdlen (obs e s)) RB_TRAILER_LENGTH with                   (* buffer.capacity() - TRAILER_LENGTH *)
        | Ok cap =>
            if is_pow2 cap then
              (* consumer heartbeat slot: META + cap + CONSUMER_HEARTBEAT_OFFSET, 8 bytes, inside the mapping? *)
              if META + cap + RB_CONSUMER_HEARTBEAT_OFFSET + 8 <=? n then inl (seen s (PHb n v))
              else stop s RUndef
            else stop s RPanic                                                     (* .expect("Error creating ring_buffer") *)
        | _ => stop s RPanic
        end
  | PHb n v =>
      let h := s_hb (obs e s) in
      if h =? 0 then timeout_check m T e (seen s (PHb n v)) ENoHeartbeat 0 (PHb n v)
      else inl (seen s (PJudge n v h))
  | PJudge n v h1 =>
      let t := e_clock e (st_k s) in
      let s' := ticked s PSize in
      let h2 := s_hb (obs e s') in
      match stale_at m h2 t T with
      | Ok true =>
          match past_at m t (e_clock e 0%nat) T with
          | Ok true => stop s' (RErr ENoHeartbeat h2 t)
          | Ok false => inl (seen s' PSize)                                        (* sleep 100 ms; continue *)
          | _ => stop s' RPanic
          end
      | Ok false => stop s' (ROk n v h1 t h2)
      | _ => stop s' RPanic
      end
  end.

Fixpoint run (fuel : nat) (m : mode) (T : Z) (e : env) (s : st) : cout * nat :=
  match fuel with
  | O => (RHang, st_k s)
  | S f => match step m T e s with
           | inr r => r
           | inl s' => run f m T e s'
           end
  end.

(* `let start_ms = unix_time_ms();` is clock call 0 *)
Definition init : st := mkSt 1%nat 0%nat PSize.
Definition connect (fuel : nat) (m : mode) (T : Z) (e : env) : cout * nat := run fuel m T e init.

(* ------------------------------------------------------------------------------------------------------- *)
(* Scripts: the finite environments the differential harness can play.  `c0` answers clock call 0; entry i
   (1-based) is the file state in force after clock call i-1 together with the answer of clock call i.  After the
   last entry nothing changes any more. *)

Definition nth_last {A} (l : list A) (d : A) (i : nat) : A := nth (Nat.min i (length l - 1)) l d.

Definition dead_snap : snap := mkSnap FMissing 0 0 0.

Definition env_of_script (c0 : Z) (sc : list (snap * Z)) : env :=
  mkEnv (fun k => match k with O => c0 | S k' => nth_last (map snd sc) c0 k' end)
        (fun k _ => match k with O => dead_snap | S k' => nth_last (map fst sc) dead_snap k' end).

Inductive ckind := KOk | KErr (e : cerr) | KPanic | KUndef | KHang.
Definition kind_of (r : cout) : ckind :=
  match r with ROk _ _ _ _ _ => KOk | RErr e _ _ => KErr e | RPanic => KPanic | RUndef => KUndef | RHang => KHang end.

Definition script_fuel (sc : list (snap * Z)) : nat := 6 * (length sc + 2).

(* what the harness prints: (kind, number of clock calls made) *)
Definition connect_script (m : mode) (T c0 : Z) (sc : list (snap * Z)) : ckind * Z :=
  let '(r, k) := connect (script_fuel sc) m T (env_of_script c0 sc) in (kind_of r, Z.of_nat k).

(* ------------------------------------------------------------------------------------------------------- *)
(* Real-time cases of the harness: a file state, optionally replaced by another one `after` ms into the call.
   hmode: 0 = heartbeat 0, 1 = stale (far in the past), 2 = fresh.  The model runs them on an idealised
   environment in which every clock call answers one millisecond more than the previous one. *)
Record rsnap := mkR { r_file : Z; r_ver : Z; r_tdlen : Z; r_hmode : Z }.

Definition rt_c0 : Z := 1000000000000.
Definition rt_snap (T : Z) (s : rsnap) : snap :=
  mkSnap (if r_file s <? 0 then FMissing else FSize (r_file s)) (r_ver s) (r_tdlen s)
         (if r_hmode s =? 0 then 0 else if r_hmode s =? 1 then rt_c0 - 10 * T - 1000 else rt_c0 + 3600000).

Definition rt_script (T : Z) (s0 : rsnap) (s1 : option (Z * rsnap)) : list (snap * Z) :=
  map (fun i => let ms := Z.of_nat i in
                (match s1 with Some (after, s) => if after <=? ms then rt_snap T s else rt_snap T s0 | None => rt_snap T s0 end,
                 rt_c0 + ms))
      (seq 1 (Z.to_nat T + 2)).

Definition rt_obs (T : Z) (s0 : rsnap) (s1 : option (Z * rsnap)) : ckind * Z :=
  (fst (connect_script Debug T rt_c0 (rt_script T s0 s1)), 1).
