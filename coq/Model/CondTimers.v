(* Model of the liveness timing of src/client_conductor.rs (property C11):
     ClientConductor::new (timer bases), Agent::do_work (at most one driver event, then
     on_heartbeat_check_timeouts), on_heartbeat_check_timeouts with its timers
     (inter-service timeout, keep-alive interval -> driver timeout + client heartbeat
     counter, resource check interval), verify_driver_is_active / ensure_open as seen
     through add_*, the Awaiting timeout of find_*, on_error_response,
     heartbeat_timestamp::{find_counter_id_by_registration_id, is_active}.
   Comparisons have the strictness of the source; `a + b` on Moment (u64) is the checked
   (Debug: panic) / wrapping (Release) addition of the source.
   The managed-resource registry is empty in this model (no publication / image is ever
   registered here); on_check_managed_resources with resources is Model/ImageLife.v (C12).
   Definitions only. *)
Require Import V.Base.MachineInt V.Generated.GenConsts.
Open Scope Z_scope.

(* const KEEPALIVE_TIMEOUT_MS: Moment = 500; const RESOURCE_TIMEOUT_MS: Moment = 1000;
   private constants of client_conductor.rs: tools/props/c11.py re-reads them from the source on every run *)
Definition KEEPALIVE_TIMEOUT_MS : Z := 500.
Definition RESOURCE_TIMEOUT_MS : Z := 1000.
Definition MAX_MOMENT : Z := GenConsts.MAX_MOMENT.
Definition HB_TYPE_ID : Z := GenConsts.CLIENT_HEARTBEAT_TYPE_ID.
Definition ALLOCATED : Z := GenConsts.RECORD_ALLOCATED.
Definition CHANNEL_ENDPOINT_ERROR : Z := GenConsts.ERROR_CODE_CHANNEL_ENDPOINT_ERROR.

(* constructor arguments: driver_timeout_ms, resource_linger_timeout_ms, inter_service_timeout_ns,
   and the client id the driver proxy drew from the ring's correlation counter *)
Record cfg := mkCfg { c_td : Z; c_linger : Z; c_inter_ns : Z; c_cid : Z }.
(* inter_service_timeout_ms: inter_service_timeout_ns / 1_000_000 *)
Definition inter_ms (c : cfg) : Z := c_inter_ns c / 1000000.

(* one counters meta-data record as far as the heartbeat lookup reads it: (state, type id, key registration id) *)
Definition ctr := (Z * Z * Z)%type.

Definition ctr_matches (cid : Z) (r : ctr) : bool :=
  let '(st, ty, key) := r in (st =? ALLOCATED) && (key =? cid) && (ty =? HB_TYPE_ID).

(* find_counter_id_by_registration_id: first matching record *)
Fixpoint find_from (cid : Z) (i : Z) (t : list ctr) : option Z :=
  match t with
  | [] => None
  | r :: rest => if ctr_matches cid r then Some i else find_from cid (i + 1) rest
  end.
Definition find_counter (cid : Z) (t : list ctr) : option Z := find_from cid 0 t.

(* is_active(counter_id) *)
Definition is_active (cid : Z) (t : list ctr) (id : Z) : bool :=
  if id <? 0 then false else
  match nth_error t (Z.to_nat id) with Some r => ctr_matches cid r | None => false end.

Fixpoint upd (l : list Z) (i : nat) (v : Z) : list Z :=
  match l, i with
  | [], _ => []
  | _ :: r, O => v :: r
  | x :: r, S i' => x :: upd r i' v
  end.

Inductive rkind := KPub | KExPub | KSub | KCounter | KDest.
Definition kind_eqb (a b : rkind) : bool :=
  match a, b with
  | KPub, KPub | KExPub, KExPub | KSub, KSub | KCounter, KCounter | KDest, KDest => true
  | _, _ => false
  end.
Inductive rstatus := Awaiting | Errored (code : Z).
Record reg := mkReg { r_kind : rkind; r_id : Z; r_time : Z; r_status : rstatus }.

Record st := mkSt {
  t_work : Z;            (* time_of_last_do_work_ms *)
  t_keep : Z;            (* time_of_last_keepalive_ms *)
  t_check : Z;           (* time_of_last_check_managed_resources_ms *)
  active : bool;         (* driver_active *)
  closed : bool;         (* is_closed *)
  hbc : option Z;        (* heartbeat_timestamp: id of the client heartbeat counter once found *)
  vals : list Z;         (* counter values buffer, slot by slot *)
  next_id : Z;           (* the ring's correlation counter *)
  regs : list reg        (* the *_by_registration_id maps (newest first) *)
}.

Definition init (c : cfg) (t0 : Z) : st :=
  mkSt t0 t0 t0 true false None [0; 0; 0; 0] (c_cid c + 1) [].

Definition set_t_work s v := mkSt v (t_keep s) (t_check s) (active s) (closed s) (hbc s) (vals s) (next_id s) (regs s).
Definition set_t_keep s v := mkSt (t_work s) v (t_check s) (active s) (closed s) (hbc s) (vals s) (next_id s) (regs s).
Definition set_t_check s v := mkSt (t_work s) (t_keep s) v (active s) (closed s) (hbc s) (vals s) (next_id s) (regs s).
Definition set_active s v := mkSt (t_work s) (t_keep s) (t_check s) v (closed s) (hbc s) (vals s) (next_id s) (regs s).
Definition set_hb s id v := mkSt (t_work s) (t_keep s) (t_check s) (active s) (closed s) (Some id)
                                 (upd (vals s) (Z.to_nat id) v) (next_id s) (regs s).
Definition set_regs s v := mkSt (t_work s) (t_keep s) (t_check s) (active s) (closed s) (hbc s) (vals s) (next_id s) v.

Definition is_dest (k : rkind) : bool := kind_eqb k KDest.

(* close_all_resources: runs once (`if self.is_closed.swap(true) { return; }`): is_closed := true, the publication /
   exclusive publication / subscription / counter maps are cleared (none of their entries has a live handle in this
   model), the close handlers run.  destination_state_by_correlation_id is not cleared.  A second call does nothing. *)
Definition close_all (s : st) : st :=
  if closed s then s else
  mkSt (t_work s) (t_keep s) (t_check s) (active s) true (hbc s) (vals s) (next_id s)
       (filter (fun r => is_dest (r_kind r)) (regs s)).

(* handler log entries *)
Definition L_CLOSE : Z := 0.              (* on_close_client handler *)
Definition L_SERVICE_TIMEOUT : Z := 1.    (* error handler: TimeoutBetweenServiceCallsOverTimeout *)
Definition L_DRIVER_INACTIVE : Z := 2.    (* error handler: DriverInteractionError::WasInactive *)
Definition L_HEARTBEAT_LOST : Z := 3.     (* error handler: ClientHeartbeatNotActive *)
(* what close_all_resources adds to the handler log: the close handlers, unless already closed *)
Definition close_log (s : st) : list Z := if closed s then [] else [L_CLOSE].

(* now > a + b with the source's u64 addition *)
Definition gt_sum (m : mode) (now a b : Z) : outcome bool :=
  s <- addu64 m a b ;; Ok (now >? s).

Definition reg_is (k : rkind) (id : Z) (r : reg) : bool := kind_eqb (r_kind r) k && (r_id r =? id).
Definition has_reg (k : rkind) (id : Z) (rs : list reg) : bool := existsb (reg_is k id) rs.
Definition set_err (k : rkind) (id code : Z) (rs : list reg) : list reg :=
  map (fun r => if reg_is k id r then mkReg (r_kind r) (r_id r) (r_time r) (Errored code) else r) rs.

(* on_error_response: subscription, publication, exclusive publication, counter, destination - first map that has the id *)
Definition on_error_response (id code : Z) (rs : list reg) : list reg :=
  if has_reg KSub id rs then set_err KSub id code rs
  else if has_reg KPub id rs then set_err KPub id code rs
  else if has_reg KExPub id rs then set_err KExPub id code rs
  else if has_reg KCounter id rs then set_err KCounter id code rs
  else if has_reg KDest id rs then set_err KDest id code rs
  else rs.

(* receive_messages: at most one event per duty cycle; the only event of this model is ON_ERROR (id, code).
   With code = CHANNEL_ENDPOINT_ERROR it goes to on_channel_endpoint_error_response, which only looks at
   resources with live handles: none here. *)
Definition on_event (s : st) (ev : option (Z * Z)) : st * Z :=
  match ev with
  | None => (s, 0)
  | Some (id, code) =>
      (if code =? CHANNEL_ENDPOINT_ERROR then s else set_regs s (on_error_response id code (regs s)), 1)
  end.

(* the keep-alive branch of on_heartbeat_check_timeouts *)
Definition keepalive (m : mode) (c : cfg) (s : st) (now hb : Z) (ctrs : list ctr) : outcome (st * list Z) :=
  last <- (if hb >=? 0 then addu64 m hb (c_td c) else Ok MAX_MOMENT) ;;
  let '(s1, l1) := if now >? last then (set_active s false, [L_DRIVER_INACTIVE]) else (s, []) in
  let '(s2, l2) :=
    match hbc s1 with
    | Some id => if is_active (c_cid c) ctrs id then (set_hb s1 id (wrap64 now), [])
                 else (close_all s1, close_log s1 ++ [L_HEARTBEAT_LOST])
    | None => match find_counter (c_cid c) ctrs with
              | Some id => (set_hb s1 id (wrap64 now), [])
              | None => (s1, [])
              end
    end in
  Ok (set_t_keep s2 now, l1 ++ l2).

(* on_heartbeat_check_timeouts: returns the state, the handler log and `result as usize` *)
Definition check_timeouts (m : mode) (c : cfg) (s : st) (now hb : Z) (ctrs : list ctr) : outcome (st * list Z * Z) :=
  late <- gt_sum m now (t_work s) (inter_ms c) ;;
  let '(s1, l1) := if late then (close_all s, close_log s ++ [L_SERVICE_TIMEOUT]) else (s, []) in
  let s2 := set_t_work s1 now in
  due <- gt_sum m now (t_keep s2) KEEPALIVE_TIMEOUT_MS ;;
  r <- (if due then keepalive m c s2 now hb ctrs else Ok (s2, [])) ;;
  let '(s3, l3) := r in
  chk <- gt_sum m now (t_check s3) RESOURCE_TIMEOUT_MS ;;
  (* on_check_managed_resources: nothing registered, nothing lingering *)
  let s4 := if chk then set_t_check s3 now else s3 in
  Ok (s4, l1 ++ l3, if due || chk then 1 else 0).

Definition b2z (b : bool) : Z := if b then 1 else 0.

(* what one operation shows *)
Inductive obs :=
| OCycle (r : outcome Z) (log : list Z) (act cl : Z) (vs : list Z)   (* do_work result, handler log, driver active, closed, counter values *)
| OApi (r : outcome Z)
| OPanic.

Definition do_cycle (m : mode) (c : cfg) (s : st) (now hb : Z) (ctrs : list ctr) (ev : option (Z * Z)) : option (st * obs) :=
  let '(s1, n) := on_event s ev in
  match check_timeouts m c s1 now hb ctrs with
  | Ok (s2, l, w) => Some (s2, OCycle (Ok (n + w)) l (b2z (active s2)) (b2z (closed s2)) (vals s2))
  | _ => None
  end.

(* add_publication & co: verify_driver_is_active, ensure_open, command to the driver, state entry *)
Definition do_add (s : st) (k : rkind) (now : Z) : st * outcome Z :=
  if negb (active s) then (s, Err DriverInactive)
  else if closed s then (s, Err Closed)
  else (mkSt (t_work s) (t_keep s) (t_check s) (active s) (closed s) (hbc s) (vals s) (next_id s + 1)
             (mkReg k (next_id s) now Awaiting :: regs s), Ok (next_id s)).

(* find_publication & co for a registration that has no handle yet: ensure_open, then by status.
   find_destination_response answers Ok(false) instead of "not ready" and never forgets an entry. *)
Definition do_find (m : mode) (c : cfg) (s : st) (k : rkind) (id now : Z) : option (st * outcome Z) :=
  if closed s then Some (s, Err Closed) else
  match find (reg_is k id) (regs s) with
  | None => Some (s, Err NotFound)
  | Some r =>
      match r_status r with
      | Awaiting =>
          match gt_sum m now (r_time r) (c_td c) with
          | Ok true => Some (s, Err NoResponse)
          | Ok false => Some (s, if is_dest k then Ok 0 else Err NotReady)
          | _ => None
          end
      | Errored code =>
          Some (if is_dest k then s else set_regs s (filter (fun r => negb (reg_is k id r)) (regs s)),
                Err (Registration code))
      end
  end.

Inductive op :=
| Cycle (now hb : Z) (ctrs : list ctr) (ev : option (Z * Z))
| Add (k : rkind) (now : Z)
| Find (k : rkind) (id now : Z).

Definition step (m : mode) (c : cfg) (s : st) (o : op) : option (st * obs) :=
  match o with
  | Cycle now hb ctrs ev => do_cycle m c s now hb ctrs ev
  | Add k now => let '(s', r) := do_add s k now in Some (s', OApi r)
  | Find k id now => match do_find m c s k id now with Some (s', r) => Some (s', OApi r) | None => None end
  end.

(* a history: observations in order; a panic poisons the conductor mutex and ends the history *)
Fixpoint run (m : mode) (c : cfg) (s : st) (ops : list op) : list obs :=
  match ops with
  | [] => []
  | o :: rest => match step m c s o with
                 | Some (s', ob) => ob :: run m c s' rest
                 | None => [OPanic]
                 end
  end.

(* final state of a history (None after a panic) *)
Fixpoint exec (m : mode) (c : cfg) (s : st) (ops : list op) : option st :=
  match ops with
  | [] => Some s
  | o :: rest => match step m c s o with
                 | Some (s', _) => exec m c s' rest
                 | None => None
                 end
  end.

Definition op_time (o : op) : Z :=
  match o with Cycle now _ _ _ => now | Add _ now => now | Find _ _ now => now end.
