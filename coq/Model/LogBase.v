(* Shared vocabulary of the term-log models (appenders, publications, readers, images).
   A term partition is modelled *structurally*: the list of entries laid out consecutively
   from offset 0 (appends only ever happen at the tail, by fetch-add or by the exclusive
   publisher's own cursor), everything after the last entry being zero bytes.
   `render_term` gives the non-zero 32-bit words the partition's memory must contain,
   which is what the correspondence check compares with a dump of the real buffer.
   Definitions only. *)
Require Import V.Base.MachineInt V.Generated.GenConsts.
Open Scope Z_scope.

Definition HDR : Z := GenConsts.DFH_LENGTH.                (* 32 *)
Definition FA : Z := GenConsts.FRAME_ALIGNMENT.            (* 32 *)
Definition T_PAD : Z := GenConsts.HDR_TYPE_PAD.
Definition T_DATA : Z := GenConsts.HDR_TYPE_DATA.
Definition F_BEGIN : Z := GenConsts.BEGIN_FRAG.
Definition F_END : Z := GenConsts.END_FRAG.
Definition F_UNFRAG : Z := GenConsts.UNFRAGMENTED.

(* deterministic payload shared with the harness: byte i of message k *)
Definition payload_byte (k i : Z) : Z := (k * 31 + i * 7 + 1) mod 251.
Fixpoint payload_from (k : Z) (i : Z) (n : nat) : list Z :=
  match n with O => [] | S n' => payload_byte k i :: payload_from k (i + 1) n' end.
Definition payload (k len : Z) : list Z := payload_from k 0 (Z.to_nat len).

(* A frame as the 32-byte data header describes it. f_len is the frame_length field
   (header + payload, not aligned); the frame occupies align f_len 32 bytes. *)
Record frame := mkFrame {
  f_len : Z; f_version : Z; f_flags : Z; f_type : Z; f_term_off : Z;
  f_session : Z; f_stream : Z; f_term_id : Z; f_reserved : Z;
  f_body : list Z        (* payload bytes (0..255); [] for a padding frame, whose body is never written *)
}.

Inductive entry :=
| Committed (f : frame)          (* length word = f_len > 0 : visible to readers *)
| Claimed (f : frame)            (* header written with length word = - f_len : try_claim not yet committed / aborted *)
| Unknown (n : Z).               (* n bytes (multiple of 32) the model says nothing about and nobody reads:
                                    the part of the active term before the offset at which the log was handed over *)

Definition term := list entry.

Definition entry_span (e : entry) : Z :=
  match e with
  | Committed f | Claimed f => align (f_len f) FA
  | Unknown n => n
  end.

Fixpoint term_end (t : term) : Z :=
  match t with [] => 0 | e :: r => entry_span e + term_end r end.

(* little-endian packing of bytes into a signed 32-bit word *)
Definition word_of (b0 b1 b2 b3 : Z) : Z := wrap32 (b0 + 256 * b1 + 65536 * b2 + 16777216 * b3).

Fixpoint words_of_bytes (off : Z) (bs : list Z) : list (Z * Z) :=
  match bs with
  | [] => []
  | b0 :: b1 :: b2 :: b3 :: r => (off, word_of b0 b1 b2 b3) :: words_of_bytes (off + 4) r
  | [b0; b1; b2] => [(off, word_of b0 b1 b2 0)]
  | [b0; b1] => [(off, word_of b0 b1 0 0)]
  | [b0] => [(off, word_of b0 0 0 0)]
  end.

Definition lo32 (v : Z) : Z := wrap32 v.
Definition hi32 (v : Z) : Z := wrap32 (v / two32).

(* the eight header words of a frame starting at `off`, with `len_word` in the length field *)
Definition header_words (off len_word : Z) (f : frame) : list (Z * Z) :=
  [ (off, len_word);
    (off + 4, wrap32 (f_version f + 256 * f_flags f + 65536 * f_type f));
    (off + 8, f_term_off f); (off + 12, f_session f); (off + 16, f_stream f); (off + 20, f_term_id f);
    (off + 24, lo32 (f_reserved f)); (off + 28, hi32 (f_reserved f)) ].

Definition nonzero (ws : list (Z * Z)) : list (Z * Z) := filter (fun p => negb (snd p =? 0)) ws.

Fixpoint render_from (off : Z) (t : term) : list (Z * Z) :=
  match t with
  | [] => []
  | Committed f :: r => nonzero (header_words off (f_len f) f ++ words_of_bytes (off + HDR) (f_body f))
                        ++ render_from (off + align (f_len f) FA) r
  | Claimed f :: r => nonzero (header_words off (- f_len f) f ++ words_of_bytes (off + HDR) (f_body f))
                        ++ render_from (off + align (f_len f) FA) r
  | Unknown n :: r => render_from (off + n) r
  end.
Definition render_term (t : term) : list (Z * Z) := render_from 0 t.

(* Log state: three partitions, their raw tail counters (term_id * 2^32 + offset), the active term
   count, the geometry and identity fields of the meta data, and the two environment inputs
   (publication limit counter, is-connected flag). *)
Record log := mkLog {
  l_p0 : term; l_p1 : term; l_p2 : term;
  l_t0 : Z; l_t1 : Z; l_t2 : Z;
  l_count : Z;
  l_init : Z; l_tlen : Z; l_mtu : Z; l_session : Z; l_stream : Z;
  l_limit : Z; l_connected : bool
}.

Definition part (l : log) (i : Z) : term := if i =? 0 then l_p0 l else if i =? 1 then l_p1 l else l_p2 l.
Definition tail (l : log) (i : Z) : Z := if i =? 0 then l_t0 l else if i =? 1 then l_t1 l else l_t2 l.

Definition set_part (l : log) (i : Z) (t : term) : log :=
  mkLog (if i =? 0 then t else l_p0 l) (if i =? 1 then t else l_p1 l) (if (i =? 0) || (i =? 1) then l_p2 l else t)
        (l_t0 l) (l_t1 l) (l_t2 l) (l_count l) (l_init l) (l_tlen l) (l_mtu l) (l_session l) (l_stream l)
        (l_limit l) (l_connected l).
Definition set_tail (l : log) (i : Z) (v : Z) : log :=
  mkLog (l_p0 l) (l_p1 l) (l_p2 l)
        (if i =? 0 then v else l_t0 l) (if i =? 1 then v else l_t1 l) (if (i =? 0) || (i =? 1) then l_t2 l else v)
        (l_count l) (l_init l) (l_tlen l) (l_mtu l) (l_session l) (l_stream l) (l_limit l) (l_connected l).
Definition set_count (l : log) (c : Z) : log :=
  mkLog (l_p0 l) (l_p1 l) (l_p2 l) (l_t0 l) (l_t1 l) (l_t2 l) c
        (l_init l) (l_tlen l) (l_mtu l) (l_session l) (l_stream l) (l_limit l) (l_connected l).
Definition set_limit (l : log) (v : Z) : log :=
  mkLog (l_p0 l) (l_p1 l) (l_p2 l) (l_t0 l) (l_t1 l) (l_t2 l) (l_count l)
        (l_init l) (l_tlen l) (l_mtu l) (l_session l) (l_stream l) v (l_connected l).
Definition set_connected (l : log) (b : bool) : log :=
  mkLog (l_p0 l) (l_p1 l) (l_p2 l) (l_t0 l) (l_t1 l) (l_t2 l) (l_count l)
        (l_init l) (l_tlen l) (l_mtu l) (l_session l) (l_stream l) (l_limit l) b.

(* The log a driver hands over at term count n0 with tail offset off0 (as harness TestLog::new builds it):
   active partition n0 mod 3 carries term id init+n0 and offset off0, the next two carry init+n0+1-3 and
   init+n0+2-3 with offset 0; the bytes before off0 are not described (and are zero in the harness). *)
Definition handed_over (init tlen mtu session stream n0 off0 : Z) : log :=
  let a := n0 mod 3 in
  let t := wrap32 (init + n0) in
  let tid i := if i =? a then t else if i =? (a + 1) mod 3 then wrap32 (t + 1 - 3) else wrap32 (t + 2 - 3) in
  let tl i := tid i * two32 + (if i =? a then off0 else 0) in
  let pt i := if (i =? a) && (0 <? off0) then [Unknown off0] else [] in
  mkLog (pt 0) (pt 1) (pt 2) (tl 0) (tl 1) (tl 2) n0 init tlen mtu session stream 0 false.

(* observation of a whole log: (count, tails, rendered partitions) *)
Definition log_dump (l : log) :=
  (l_count l, [l_t0 l; l_t1 l; l_t2 l], [render_term (l_p0 l); render_term (l_p1 l); render_term (l_p2 l)]).
