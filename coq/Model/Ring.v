(* Model of src/concurrent/ring_buffer.rs (ManyToOneRingBuffer) run by one thread at a time:
   write / claim (both capacity checks, wrap decision, padding record), read with a message
   limit (zeroing what it consumed), unblock + scan_back_to_confirm_still_zeroed, size,
   next_correlation_id, consumer heartbeat, and `render` = the non-zero 32-bit words the
   buffer (data area + trailer) must contain.

   The data area is described structurally: a list of *slots* keyed by absolute position
   (the value the tail counter had when the space was claimed); the byte index of a slot is
   position & (capacity - 1), computed as in the code.  A slot carries the two header words
   as they are in memory (length word: 0 = not written yet, negative = in progress,
   positive = committed) and the bytes copied so far.  Everything not covered by a slot is zero.
   `unblock` reads memory through `word_at (render st)`, i.e. it sees exactly the words a dump
   of the real buffer shows.  Operand widths follow the source (Index = i32, positions i64);
   loop counters bounded by the buffer length are plain Z.
   Definitions only. *)
Require Import V.Base.MachineInt.
Require Import V.Generated.GenConsts.
Require Import V.Model.LogBase.
Open Scope Z_scope.

Definition HL : Z := GenConsts.RB_HEADER_LENGTH.             (* 8 *)
Definition AL : Z := GenConsts.RB_ALIGNMENT.                 (* 8 *)
Definition PAD : Z := GenConsts.CMD_Padding.                 (* -1 *)
Definition TAIL_OFF : Z := GenConsts.RB_TAIL_POSITION_OFFSET.
Definition HC_OFF : Z := GenConsts.RB_HEAD_CACHE_POSITION_OFFSET.
Definition HEAD_OFF : Z := GenConsts.RB_HEAD_POSITION_OFFSET.
Definition CORR_OFF : Z := GenConsts.RB_CORRELATION_COUNTER_OFFSET.
Definition HB_OFF : Z := GenConsts.RB_CONSUMER_HEARTBEAT_OFFSET.
Definition TRAILER : Z := GenConsts.RB_TRAILER_LENGTH.

Record slot := mkSlot {
  s_pos : Z;            (* absolute position of the first byte *)
  s_span : Z;           (* bytes claimed for it (multiple of 8) *)
  s_len : Z;            (* length word in memory *)
  s_type : Z;           (* type word in memory *)
  s_body : list Z;      (* bytes copied behind the header so far *)
  s_owner : Z;          (* ghost: the writer (thread id); not rendered *)
  s_seq : Z             (* ghost: number of that writer's write call; not rendered *)
}.

Record ring := mkRing {
  r_cap : Z; r_head : Z; r_tail : Z; r_hc : Z; r_corr : Z; r_hb : Z; r_slots : list slot
}.

Definition set_head (st : ring) (v : Z) := mkRing (r_cap st) v (r_tail st) (r_hc st) (r_corr st) (r_hb st) (r_slots st).
Definition set_tail (st : ring) (v : Z) := mkRing (r_cap st) (r_head st) v (r_hc st) (r_corr st) (r_hb st) (r_slots st).
Definition set_hc (st : ring) (v : Z) := mkRing (r_cap st) (r_head st) (r_tail st) v (r_corr st) (r_hb st) (r_slots st).
Definition set_corr (st : ring) (v : Z) := mkRing (r_cap st) (r_head st) (r_tail st) (r_hc st) v (r_hb st) (r_slots st).
Definition set_hb (st : ring) (v : Z) := mkRing (r_cap st) (r_head st) (r_tail st) (r_hc st) (r_corr st) v (r_slots st).
Definition set_slots (st : ring) (sl : list slot) := mkRing (r_cap st) (r_head st) (r_tail st) (r_hc st) (r_corr st) (r_hb st) sl.

(* a ring whose three position counters were preset (as the unit tests of the repository do) *)
Definition init (cp p0 hc0 c0 : Z) : ring := mkRing cp p0 p0 hc0 c0 0 [].

(* ---- record descriptor ---- *)
(* (((command as i64) & 0xFFFF_FFFF) << 32) | ((len as i64) & 0xFFFF_FFFF) *)
Definition make_header (len ty : Z) : Z := wrap64 (wrapu32 ty * two32 + wrapu32 len).
(* AeronCommand::from_command_id: the ids it accepts besides Padding; anything else is unreachable!() *)
Definition valid_cmd (ty : Z) : bool :=
  ((1 <=? ty) && (ty <=? 14)) || ((3841 <=? ty) && (ty <=? 3850)).

(* align(value, ALIGNMENT) = (value + 7) & !7 on i32 *)
Definition ralign (m : mode) (v : Z) : outcome Z :=
  s <- add32 m v (AL - 1) ;; Ok ((s / AL) * AL).

(* (position & (capacity - 1) as i64) as Index *)
Definition mask_idx (cp p : Z) : Z := wrap32 (Z.land p (cp - 1)).

(* ---- memory as the structure describes it ---- *)
Fixpoint find_slot (sl : list slot) (p : Z) : option slot :=
  match sl with
  | [] => None
  | s :: r => if (s_pos s <=? p) && (p <? s_pos s + s_span s) then Some s else find_slot r p
  end.

Definition byte_at (bs : list Z) (i : Z) : Z := if i <? 0 then 0 else nth (Z.to_nat i) bs 0.

(* 32-bit word at byte offset o (multiple of 4) of a slot *)
Definition slot_word (s : slot) (o : Z) : Z :=
  if o =? 0 then s_len s
  else if o =? 4 then s_type s
  else word_of (byte_at (s_body s) (o - 8)) (byte_at (s_body s) (o - 7))
               (byte_at (s_body s) (o - 6)) (byte_at (s_body s) (o - 5)).

(* word at absolute position p *)
Definition pos_word (sl : list slot) (p : Z) : Z :=
  match find_slot sl p with Some s => slot_word s (p - s_pos s) | None => 0 end.

(* n bytes starting at absolute position p (the view handed to the read handler) *)
Definition pos_bytes (sl : list slot) (p n : Z) : list Z :=
  match find_slot sl p with
  | Some s => firstn (Z.to_nat n) (skipn (Z.to_nat (p - s_pos s - HL)) (s_body s) ++ repeat 0 (Z.to_nat n))
  | None => repeat 0 (Z.to_nat n)
  end.

Definition nz (o v : Z) : list (Z * Z) := if v =? 0 then [] else [(o, v)].

Definition render_slot (cp : Z) (s : slot) : list (Z * Z) :=
  let i := mask_idx cp (s_pos s) in
  nz i (s_len s) ++ nz (i + 4) (s_type s) ++ nonzero (words_of_bytes (i + HL) (s_body s)).

Definition counter_words (off v : Z) : list (Z * Z) := nz off (lo32 v) ++ nz (off + 4) (hi32 v).

Definition render_trailer (st : ring) : list (Z * Z) :=
  let c := r_cap st in
  counter_words (c + TAIL_OFF) (r_tail st) ++ counter_words (c + HC_OFF) (r_hc st) ++
  counter_words (c + HEAD_OFF) (r_head st) ++ counter_words (c + CORR_OFF) (r_corr st) ++
  counter_words (c + HB_OFF) (r_hb st).

(* the non-zero 32-bit words of the whole buffer (data area, then trailer) *)
Definition render (st : ring) : list (Z * Z) :=
  flat_map (render_slot (r_cap st)) (r_slots st) ++ render_trailer st.

Fixpoint word_at (ws : list (Z * Z)) (i : Z) : Z :=
  match ws with [] => 0 | (o, v) :: r => if o =? i then v else word_at r i end.

(* ---- claim ---- *)
(* capacity as i64 - (tail - head)   (fixes/C06-claim-capacity-i64.diff: the difference of the two 64-bit
   positions is no longer narrowed to Index before the comparison) *)
Definition avail (m : mode) (cp tl hd : Z) : outcome Z :=
  d <- sub64 m tl hd ;; sub64 m cp d.
(* the code before that repair: capacity - (tail - head) as Index *)
Definition avail_before_fix (m : mode) (cp tl hd : Z) : outcome Z :=
  d <- sub64 m tl hd ;; sub32 m cp (wrap32 d).
(* required_capacity as i64 > available_capacity, with the head value the caller holds *)
Definition lacks (m : mode) (cp required tl hd : Z) : outcome bool :=
  a <- avail m cp tl hd ;; Ok (required >? a).
(* Some len_to_buffer_end when required_capacity > len_to_buffer_end *)
Definition wrap_needed (m : mode) (cp required tl : Z) : outcome (option Z) :=
  e <- sub32 m cp (mask_idx cp tl) ;; Ok (if required >? e then Some e else None).
(* required_capacity > head_index *)
Definition lacks_front (cp required hd : Z) : bool := required >? mask_idx cp hd.
(* tail + required_capacity as i64 + padding as i64 *)
Definition new_tail (m : mode) (tl required padding : Z) : outcome Z :=
  t <- add64 m tl required ;; add64 m t padding.

(* claim run without interference: the CAS succeeds the first time.
   Result: state (head cache possibly refreshed, tail advanced) and
   None = InsufficientCapacity | Some (position claimed, padding). *)
Definition claim (m : mode) (st : ring) (required : Z) : outcome (ring * option (Z * Z)) :=
  let cp := r_cap st in
  let tl := r_tail st in
  l1 <- lacks m cp required tl (r_hc st) ;;
  s1 <- (if l1 : bool then
           l <- lacks m cp required tl (r_head st) ;;
           Ok (if l : bool then None else Some (set_hc st (r_head st), r_head st))
         else Ok (Some (st, r_hc st))) ;;
  match s1 with
  | None => Ok (st, None)
  | Some (st1, hd1) =>
      w <- wrap_needed m cp required tl ;;
      let s2 := match w with
                | None => Some (st1, 0)
                | Some e =>
                    if lacks_front cp required hd1 then
                      if lacks_front cp required (r_head st) then None
                      else Some (set_hc st1 (r_head st), e)
                    else Some (st1, e)
                end in
      match s2 with
      | None => Ok (st1, None)
      | Some (st2, padding) =>
          t2 <- new_tail m tl required padding ;;
          Ok (set_tail st2 t2, Some (tl, padding))
      end
  end.

(* ghost write number of a padding piece: negative *)
Definition pad_slot (p padding owner sq : Z) : slot := mkSlot p padding padding PAD [] owner sq.
Definition pad_slots (p padding owner sq : Z) : list slot :=
  if padding =? 0 then [] else [pad_slot p padding owner sq].

(* write(cmd, src, 0, length) with body = the length bytes of src *)
Definition write_as (m : mode) (st : ring) (typ : Z) (body : list Z) (owner sq : Z) : ring * outcome Z :=
  if typ <? 1 then (st, Err IllegalArg)
  else
    let len := Z.of_nat (length body) in
    if len >? r_cap st / 8 then (st, Err TooLong)
    else
      match (rl <- add32 m len HL ;; rq <- ralign m rl ;; c <- claim m st rq ;; Ok (rl, rq, c)) with
      | Ok (rl, rq, (st1, None)) => (st1, Err InsufficientCapacity)
      | Ok (rl, rq, (st1, Some (tl, padding))) =>
          (set_slots st1 (r_slots st1 ++ pad_slots tl padding owner (- 1 - sq)
                          ++ [mkSlot (tl + padding) rq rl typ body owner sq]), Ok 0)
      | Err e => (st, Err e)
      | Panic => (st, Panic) | Hang => (st, Hang) | Crash => (st, Crash)
      end.
Definition write (m : mode) (st : ring) (typ : Z) (body : list Z) : ring * outcome Z :=
  write_as m st typ body 0 0.

(* ---- read ---- *)
Definition msg := (Z * list Z)%type.

Fixpoint read_loop (m : mode) (fuel : nat) (sl : list slot) (hd contiguous limit bytes msgs : Z)
  : outcome (Z * Z * list msg) :=
  match fuel with
  | O => Ok (bytes, msgs, [])
  | S f =>
      if (bytes <? contiguous) && (msgs <? limit) then
        let p := hd + bytes in
        let len := pos_word sl p in
        if len <=? 0 then Ok (bytes, msgs, [])
        else
          al <- ralign m len ;;
          bytes' <- add32 m bytes al ;;
          let ty := pos_word sl (p + 4) in
          if ty =? PAD then read_loop m f sl hd contiguous limit bytes' msgs
          else if valid_cmd ty then
            msgs' <- add32 m msgs 1 ;;
            vl <- sub32 m len HL ;;
            r <- read_loop m f sl hd contiguous limit bytes' msgs' ;;
            let '(b, n, l) := r in Ok (b, n, (ty, pos_bytes sl (p + HL) vl) :: l)
          else Panic
      else Ok (bytes, msgs, [])
  end.

Definition consumed (hd bytes : Z) (s : slot) : bool := (hd <=? s_pos s) && (s_pos s <? hd + bytes).

Definition read_fuel (cp : Z) : nat := S (Z.to_nat (cp / 8)).

(* read(handler, limit): (messages_read, what the handler was given) *)
Definition read (m : mode) (st : ring) (limit : Z) : ring * outcome (Z * list msg) :=
  let hd := r_head st in
  match (c <- sub32 m (r_cap st) (mask_idx (r_cap st) hd) ;;
         r <- read_loop m (read_fuel (r_cap st)) (r_slots st) hd c limit 0 0 ;;
         let '(b, n, l) := r in h' <- add64 m hd b ;; Ok (b, n, l, h')) with
  | Ok (b, n, l, h') =>
      if b =? 0 then (st, Ok (n, l))
      else (set_head (set_slots st (filter (fun s => negb (consumed hd b s)) (r_slots st))) h', Ok (n, l))
  | Err e => (st, Err e)
  | Panic => (st, Panic) | Hang => (st, Hang) | Crash => (st, Crash)
  end.

(* ---- the small ones ---- *)
Definition size (m : mode) (st : ring) : outcome Z :=
  d <- sub64 m (r_tail st) (r_head st) ;; Ok (wrap32 d).
(* AtomicI64::fetch_add wraps *)
Definition next_correlation_id (st : ring) : ring * Z := (set_corr st (wrap64 (r_corr st + 1)), r_corr st).
Definition set_heartbeat (st : ring) (t : Z) : ring := set_hb st t.
Definition heartbeat (st : ring) : Z := r_hb st.

(* ---- unblock ---- *)
(* stores into the slot that starts at position p *)
Fixpoint upd_slot (sl : list slot) (p : Z) (f : slot -> slot) : list slot :=
  match sl with
  | [] => []
  | s :: r => if s_pos s =? p then f s :: r else s :: upd_slot r p f
  end.
Definition set_hdr (len ty : Z) (s : slot) : slot :=
  mkSlot (s_pos s) (s_span s) len ty (s_body s) (s_owner s) (s_seq s).
Definition set_len (len : Z) (s : slot) : slot :=
  mkSlot (s_pos s) (s_span s) len (s_type s) (s_body s) (s_owner s) (s_seq s).
Definition set_body (b : list Z) (s : slot) : slot :=
  mkSlot (s_pos s) (s_span s) (s_len s) (s_type s) b (s_owner s) (s_seq s).
(* put_ordered::<i64>(index of p, make_header(len, ty)): both header words *)
Definition put_hdr (sl : list slot) (p len ty : Z) : list slot := upd_slot sl p (set_hdr len ty).

(* while i >= limit { if word(i) != 0 return false; i -= 8 } true *)
Fixpoint scan_back (fuel : nat) (ws : list (Z * Z)) (i limit : Z) : bool :=
  match fuel with
  | O => true
  | S f => if i >=? limit then (if word_at ws i =? 0 then scan_back f ws (i - AL) limit else false) else true
  end.

(* loop { if word(i) != 0 { confirmed?; break }  i += 8; if i >= limit break }:
   Some i = padding up to i was confirmed *)
Fixpoint scan_fwd (bfuel fuel : nat) (ws : list (Z * Z)) (i limit ci : Z) : option Z :=
  match fuel with
  | O => None
  | S f =>
      if word_at ws i =? 0 then
        (if i + AL >=? limit then None else scan_fwd bfuel f ws (i + AL) limit ci)
      else if scan_back bfuel ws (i - AL) ci then Some i else None
  end.

(* `lim` is the scan limit used when the producer index is not ahead of the consumer index:
   the data capacity in the repaired code, buffer.capacity() = data + trailer before the repair. *)
Definition unblock_lim (lim : Z) (st : ring) : ring * bool :=
  let hd := r_head st in
  let tl := r_tail st in
  if tl =? hd then (st, false)
  else
    let ci := mask_idx (r_cap st) hd in
    let pi := mask_idx (r_cap st) tl in
    let ws := render st in
    let len := word_at ws ci in
    if len <? 0 then (set_slots st (put_hdr (r_slots st) hd (wrap32 (- len)) PAD), true)
    else if len =? 0 then
      let limit := if pi >? ci then pi else lim in
      let fuel := S (Z.to_nat ((r_cap st + TRAILER) / 8)) in
      match scan_fwd fuel fuel ws (ci + AL) limit ci with
      | Some i => (set_slots st (put_hdr (r_slots st) hd (i - ci) PAD), true)
      | None => (st, false)
      end
    else (st, false).

Definition unblock (st : ring) : ring * bool := unblock_lim (r_cap st) st.
(* the code before fixes/C07-unblock-limit.diff *)
Definition unblock_before_fix (st : ring) : ring * bool := unblock_lim (r_cap st + TRAILER) st.

(* ---- operation sequences (what the correspondence check runs) ---- *)
Inductive op :=
| OpWrite (typ : Z) (body : list Z)
| OpRead (limit : Z)
| OpUnblock
| OpSize
| OpNextId
| OpHeartbeat (t : Z)
| OpDump.

Definition b2z (b : bool) : Z := if b then 1 else 0.

(* a delivered message is printed as (type, length, bytes packed little-endian, seven to an integer) *)
Fixpoint pack (bs : list Z) : Z := match bs with [] => 0 | b :: r => b + 256 * pack r end.
Fixpoint pack7 (bs : list Z) : list Z :=
  match bs with
  | [] => []
  | b0 :: b1 :: b2 :: b3 :: b4 :: b5 :: b6 :: r => pack [b0; b1; b2; b3; b4; b5; b6] :: pack7 r
  | l => [pack l]
  end.
Definition cmsg (x : msg) : Z * Z * list Z := (fst x, Z.of_nat (length (snd x)), pack7 (snd x)).

Inductive out :=
| OW (r : outcome Z) (h t : Z)
| OR (r : outcome Z) (msgs : list (Z * Z * list Z)) (h t : Z)
| OU (r : outcome Z) (h t : Z)
| OS (r : outcome Z)
| OI (r : outcome Z)
| OH (r : outcome Z)
| OD (ws : list (Z * Z)).

Definition omap {A B} (f : A -> B) (x : outcome A) : outcome B :=
  match x with Ok a => Ok (f a) | Err e => Err e | Panic => Panic | Hang => Hang | Crash => Crash end.

Definition step (m : mode) (st : ring) (o : op) : ring * out :=
  match o with
  | OpWrite typ body => let '(st', r) := write m st typ body in (st', OW r (r_head st') (r_tail st'))
  | OpRead limit =>
      let '(st', r) := read m st limit in
      (st', OR (omap fst r) (match r with Ok (_, l) => map cmsg l | _ => [] end) (r_head st') (r_tail st'))
  | OpUnblock => let '(st', b) := unblock st in (st', OU (Ok (b2z b)) (r_head st') (r_tail st'))
  | OpSize => (st, OS (size m st))
  | OpNextId => let '(st', id) := next_correlation_id st in (st', OI (Ok id))
  | OpHeartbeat t => let st' := set_heartbeat st t in (st', OH (Ok (heartbeat st')))
  | OpDump => (st, OD (render st))
  end.

Fixpoint run (m : mode) (st : ring) (ops : list op) : ring * list out :=
  match ops with
  | [] => (st, [])
  | o :: r => let '(st1, x) := step m st o in let '(st2, xs) := run m st1 r in (st2, x :: xs)
  end.
