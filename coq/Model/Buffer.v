(* Model of AtomicBuffer (src/concurrent/atomic_buffer.rs) and Flyweight (src/command/flyweight.rs):
   which checks every accessor makes, in which order, and which bytes it then reads / writes.

   * `bounds_ok` (the boolean inside `AtomicBuffer::bounds_check`) is NOT written here: it is regenerated
     from the Rust source on every run (Generated/GenBounds.v, tools/props/c16_translate.py).
   * Memory is a total map Z -> Z (byte at an offset relative to the start of the *root* region, the region
     that was originally wrapped); a buffer is a window (e_base, e_cap) onto it, `view` makes sub-windows.
   * Every primitive access is logged as (buffer, offset, length) with the offset relative to the root region;
     an access that is not inside the root region is undefined behaviour of the real code: the model answers
     `Crash` (the log still receives the range, so "the log stays inside" is the safety statement).
   Definitions only; proofs are in Proofs/BufferProofs.v. *)
Require Import V.Base.MachineInt.
Require Import V.Generated.GenBounds.
Open Scope Z_scope.

(* ------------------------------------------------------------------ bytes *)
Definition le_byte (v k : Z) : Z := (v / 256 ^ k) mod 256.          (* byte k of v, two's complement *)
Fixpoint le_val (bs : list Z) : Z :=                                 (* unsigned little-endian value *)
  match bs with [] => 0 | b :: r => b + 256 * le_val r end.
Definition zseq (off len : Z) : list Z := map (fun k => off + Z.of_nat k) (seq 0 (Z.to_nat len)).

Definition memory := Z -> Z.

(* ------------------------------------------------------------------ environment, state, monad *)
Record env := mkEnv {
  e_m : mode;        (* build profile *)
  e_hk : bool;       (* accessors compiled with the verification hook (cfg unitedtraders_aeron_rs_verif) *)
  e_rcap : Z;        (* length of the root region *)
  e_base : Z;        (* this buffer's pointer, relative to the root region's start *)
  e_cap : Z;         (* this buffer's `len` field *)
  e_scap : Z;        (* length of the second (source) region, used by copy_from only *)
  e_src : memory     (* contents of the source region (never written) *)
}.

Record st := mkSt { s_mem : memory; s_log : list (Z * Z * Z) }.

Definition M (A : Type) := st -> outcome A * st.
Definition ret {A} (a : A) : M A := fun s => (Ok a, s).
Definition lift {A} (o : outcome A) : M A := fun s => (o, s).
Definition bindM {A B} (c : M A) (f : A -> M B) : M B := fun s =>
  match c s with
  | (Ok a, s') => f a s'
  | (Err e, s') => (Err e, s')
  | (Panic, s') => (Panic, s')
  | (Hang, s') => (Hang, s')
  | (Crash, s') => (Crash, s')
  end.
Notation "x <~ c ;; k" := (bindM c (fun x => k)) (at level 61, c at next level, right associativity).

(* ------------------------------------------------------------------ checks *)
Definition bounds_check (m : mode) (cap idx len : Z) : outcome unit :=
  b <- bounds_ok m cap idx len ;; if b then Ok tt else Panic.

Definition inside (cap off len : Z) : bool := (0 <=? off) && (0 <=? len) && (off + len <=? cap).

(* `x as usize` of an i32 *)
Definition usz (x : Z) : Z := if x <? 0 then x + two64 else x.

Definition is_debug (m : mode) : bool := match m with Debug => true | Release => false end.

(* The hook line computes `self.ptr as usize + position as usize` before the first check: with overflow checks
   on (Debug) that addition panics exactly when position < 0 (pointers are far above 2^31). *)
Definition hook (e : env) (pos : Z) : M unit :=
  lift (if e_hk e && is_debug (e_m e) && (pos <? 0) then Panic else Ok tt).

Definition check (e : env) (idx len : Z) : M unit := lift (bounds_check (e_m e) (e_cap e) idx len).
Definition check_src (e : env) (idx len : Z) : M unit := lift (bounds_check (e_m e) (e_scap e) idx len).

Definition add_log (r : Z * Z * Z) (s : st) : st := {| s_mem := s_mem s; s_log := s_log s ++ [r] |}.

(* primitive accesses; `off` is relative to this buffer, `len` is already a usize *)
Definition rd (e : env) (off len : Z) : M (list Z) := fun s =>
  let a := e_base e + off in
  let s' := add_log (0, a, len) s in
  if inside (e_rcap e) a len then (Ok (map (s_mem s) (zseq a len)), s') else (Crash, s').

Definition rd_src (e : env) (off len : Z) : M (list Z) := fun s =>
  let s' := add_log (1, off, len) s in
  if inside (e_scap e) off len then (Ok (map (e_src e) (zseq off len)), s') else (Crash, s').

(* write byte `f k` at a + k for 0 <= k < len *)
Definition upd (mem : memory) (a len : Z) (f : Z -> Z) : memory :=
  fun i => if (a <=? i) && (i <? a + len) then f (i - a) else mem i.

Definition wr (e : env) (off len : Z) (f : Z -> Z) : M unit := fun s =>
  let a := e_base e + off in
  let s' := add_log (0, a, len) s in
  if inside (e_rcap e) a len
  then (Ok tt, {| s_mem := upd (s_mem s) a len f; s_log := s_log s' |})
  else (Crash, s').

(* a pointer / sub-buffer to [off, off+len) escapes to the caller; nothing is accessed yet *)
Definition expose (e : env) (off len : Z) : M unit := fun s => (Ok tt, add_log (0, e_base e + off, len) s).

Definition nth_byte (bs : list Z) (k : Z) : Z := nth (Z.to_nat k) bs 0.

(* ------------------------------------------------------------------ the accessors, in source order *)
(* sz = size_of::<T>() as Index *)

Definition view_env (e : env) (off len : Z) : env :=
  mkEnv (e_m e) (e_hk e) (e_rcap e) (e_base e + off) len (e_scap e) (e_src e).
Definition a_view (e : env) (off len : Z) : M env :=
  _ <~ hook e off ;; _ <~ check e off len ;; _ <~ expose e off len ;; ret (view_env e off len).

Definition a_get (e : env) (sz pos : Z) : M (list Z) :=
  _ <~ hook e pos ;; _ <~ check e pos sz ;; rd e pos sz.

Definition a_overlay_struct (e : env) (sz pos : Z) : M Z :=
  _ <~ hook e pos ;; _ <~ check e pos sz ;; _ <~ expose e pos sz ;; ret (e_base e + pos).

(* the reference is dereferenced by the caller: modelled as the read *)
Definition a_as_ref (e : env) (sz pos : Z) : M (list Z) :=
  _ <~ hook e pos ;; _ <~ check e pos sz ;; rd e pos sz.

Definition a_set_memory (e : env) (pos len val : Z) : M unit :=
  _ <~ hook e pos ;; _ <~ check e pos len ;; wr e pos (usz len) (fun _ => val).

Definition a_get_volatile (e : env) (sz pos : Z) : M (list Z) :=
  _ <~ hook e pos ;; _ <~ check e pos sz ;; a_get e sz pos.

Definition a_put (e : env) (sz pos : Z) (v : Z -> Z) : M unit :=
  _ <~ hook e pos ;; _ <~ check e pos sz ;; wr e pos sz v.

Definition a_put_ordered (e : env) (sz pos : Z) (v : Z -> Z) : M unit :=
  _ <~ hook e pos ;; _ <~ check e pos sz ;; a_put e sz pos v.

Definition a_put_atomic_i64 (e : env) (off val : Z) : M unit :=
  _ <~ hook e off ;; _ <~ check e off 8 ;; wr e off 8 (le_byte val).

(* compare_and_set_i32 (sz = 4) / compare_and_set_i64 (sz = 8); expected / update are signed *)
Definition signed (sz : Z) (u : Z) : Z := if sz =? 4 then wrap32 u else wrap64 u.
Definition a_compare_and_set (e : env) (sz pos expd upd : Z) : M bool :=
  _ <~ hook e pos ;; _ <~ check e pos sz ;;
  cur <~ rd e pos sz ;;
  if signed sz (le_val cur) =? expd then (_ <~ wr e pos sz (le_byte upd) ;; ret true) else ret false.

Definition a_add_i64_ordered (e : env) (off delta : Z) : M unit :=
  _ <~ hook e off ;; _ <~ check e off 8 ;;
  v <~ a_get e 8 off ;;
  nv <~ lift (add64 (e_m e) (wrap64 (le_val v)) delta) ;;
  a_put_ordered e 8 off (le_byte nv).

(* The length n of a slice argument (a usize) as the Index handed to the bounds check: either `n as Index`
   (the high bits are dropped) or a checked conversion that panics above Index::MAX.  Which one an accessor uses
   is read off the source on every run (gen_chk_* in Generated/GenBounds.v). *)
Definition slice_len (checked : bool) (n : Z) : outcome Z :=
  if checked then (if n <? two31 then Ok n else Panic) else Ok (wrap32 n).

(* n = src.len() *)
Definition a_put_bytes (e : env) (off n : Z) (f : Z -> Z) : M unit :=
  _ <~ hook e off ;; l <~ lift (slice_len gen_chk_put_bytes n) ;; _ <~ check e off l ;; wr e off n f.

Definition a_get_bytes (e : env) (sz off : Z) : M (list Z) :=
  _ <~ hook e off ;; _ <~ check e off sz ;; rd e off sz.

Definition a_copy_from (e : env) (off soff len : Z) : M unit :=
  _ <~ hook e off ;; _ <~ check e off len ;; _ <~ check_src e soff len ;;
  bs <~ rd_src e soff (usz len) ;; wr e off (usz len) (nth_byte bs).

(* as_slice / as_mutable_slice: no check, the whole buffer *)
Definition a_as_slice (e : env) : M (list Z) := rd e 0 (usz (e_cap e)).

Definition a_as_sub_slice (e : env) (idx len : Z) : M (list Z) :=
  _ <~ hook e idx ;; _ <~ check e idx len ;; rd e idx (usz len).

Definition a_get_string_without_length (e : env) (off len : Z) : M (list Z) :=
  _ <~ hook e off ;; _ <~ check e off len ;; rd e off (usz len).

Definition a_get_string (e : env) (off : Z) : M (list Z) :=
  _ <~ hook e off ;; _ <~ check e off 4 ;;
  lw <~ a_get e 4 off ;;
  off4 <~ lift (add32 (e_m e) off 4) ;;
  a_get_string_without_length e off4 (wrap32 (le_val lw)).

Definition a_get_string_length (e : env) (off : Z) : M (list Z) :=
  _ <~ hook e off ;; _ <~ check e off 4 ;; a_get e 4 off.

Definition a_put_string (e : env) (off n : Z) (f : Z -> Z) : M unit :=
  _ <~ hook e off ;;
  l <~ lift (slice_len gen_chk_put_string n) ;;
  l4 <~ lift (add32 (e_m e) l 4) ;;
  _ <~ check e off l4 ;;
  _ <~ a_put e 4 off (le_byte l) ;;
  off4 <~ lift (add32 (e_m e) off 4) ;;
  a_put_bytes e off4 n f.

(* as the code is: the check is on (offset, n), the bytes go to offset + 4 (put_bytes checks again) *)
Definition a_put_string_without_length (e : env) (off n : Z) (f : Z -> Z) : M Z :=
  _ <~ hook e off ;; l <~ lift (slice_len gen_chk_put_string_wl n) ;; _ <~ check e off l ;;
  off4 <~ lift (add32 (e_m e) off 4) ;;
  _ <~ a_put_bytes e off4 n f ;;
  ret l.

Definition a_get_and_add_i64 (e : env) (off delta : Z) : M (list Z) :=
  _ <~ hook e off ;; _ <~ check e off 8 ;;
  cur <~ rd e off 8 ;;
  _ <~ wr e off 8 (le_byte (wrap64 (wrap64 (le_val cur) + delta))) ;;
  ret cur.

(* impl Write: write(buf) = put_bytes(0, buf) *)
Definition a_write (e : env) (n : Z) (f : Z -> Z) : M unit := a_put_bytes e 0 n f.

(* ------------------------------------------------------------------ Flyweight<T> over a buffer, base_offset = fb *)
Definition f_new (e : env) (sz fb : Z) : M Z := a_overlay_struct e sz fb.
Definition f_string_get (e : env) (fb off : Z) : M (list Z) := a_get_string e off.         (* base_offset unused, as the code is *)
Definition f_string_get_length (e : env) (fb off : Z) : M (list Z) := a_get_string_length e off.
Definition f_string_put (e : env) (fb off n : Z) (f : Z -> Z) : M unit := a_put_string e off n f.
Definition f_put_bytes (e : env) (fb off n : Z) (f : Z -> Z) : M unit :=
  p <~ lift (add32 (e_m e) fb off) ;; a_put_bytes e p n f.
Definition f_get_bytes (e : env) (sz fb off : Z) : M (list Z) :=
  p <~ lift (add32 (e_m e) fb off) ;; a_get_bytes e sz p.
Definition f_put (e : env) (sz fb off : Z) (v : Z -> Z) : M unit :=
  p <~ lift (add32 (e_m e) fb off) ;; a_put e sz p v.
Definition f_overlay_struct (e : env) (sz fb off : Z) : M Z :=
  p <~ lift (add32 (e_m e) fb off) ;; a_overlay_struct e sz p.
(* what the concrete flyweights do: Flyweight::new(buffer, fb), then read the field [foff, foff+flen) of *m_struct
   through the raw pointer (no further check) *)
Definition f_field (e : env) (sz fb foff flen : Z) : M (list Z) :=
  _ <~ f_new e sz fb ;; rd e (fb + foff) flen.

(* ------------------------------------------------------------------ calls as data *)
(* what is written: byte k of every written value / slice *)
Definition wbyte (k : Z) : Z := (192 + k) mod 256.

Inductive call :=
| CNop                                   (* observe this buffer's (pointer, capacity) *)
| CView (off len : Z) (c : call)         (* self.view(off, len) and then c on the view *)
| CGet (sz pos : Z) | CGetVolatile (sz pos : Z) | CAsRef (sz pos : Z) | CGetBytes (sz pos : Z)
| COverlay (sz pos : Z)
| CPut (sz pos : Z) | CPutOrdered (sz pos : Z)
| CPutAtomic (off val : Z)
| CCas (sz pos expd upd : Z)
| CAddOrdered (off delta : Z) | CGetAndAdd (off delta : Z)
| CSetMemory (pos len val : Z)
| CPutBytes (off n : Z) | CWrite (n : Z)
| CCopyFrom (off soff len : Z)
| CAsSlice
| CSubSlice (idx len : Z)
| CGetString (off : Z) | CGetStringWl (off len : Z) | CGetStringLength (off : Z)
| CPutString (off n : Z) | CPutStringWl (off n : Z)
(* through a Flyweight with base_offset fb *)
| FNew (sz fb : Z) | FStringGet (fb off : Z) | FStringGetLength (fb off : Z) | FStringPut (fb off n : Z)
| FPutBytes (fb off n : Z) | FGetBytes (sz fb off : Z) | FPut (sz fb off : Z) | FOverlay (sz fb off : Z)
| FField (sz fb foff flen : Z).

(* result of a call as the harness prints it: (numbers, bytes) *)
Definition rv := (list Z * list Z)%type.
Definition as_bytes (c : M (list Z)) : M rv := b <~ c ;; ret ([], b).
Definition as_unit (c : M unit) : M rv := _ <~ c ;; ret ([], []).
Definition as_num (c : M Z) : M rv := z <~ c ;; ret ([z], []).

Fixpoint run (e : env) (c : call) : M rv :=
  match c with
  | CNop => ret ([e_base e; e_cap e], [])
  | CView off len c' => e' <~ a_view e off len ;; run e' c'
  | CGet sz pos => as_bytes (a_get e sz pos)
  | CGetVolatile sz pos => as_bytes (a_get_volatile e sz pos)
  | CAsRef sz pos => as_bytes (a_as_ref e sz pos)
  | CGetBytes sz pos => as_bytes (a_get_bytes e sz pos)
  | COverlay sz pos => as_num (a_overlay_struct e sz pos)
  | CPut sz pos => as_unit (a_put e sz pos wbyte)
  | CPutOrdered sz pos => as_unit (a_put_ordered e sz pos wbyte)
  | CPutAtomic off val => as_unit (a_put_atomic_i64 e off val)
  | CCas sz pos expd upd => b <~ a_compare_and_set e sz pos expd upd ;; ret ([if b : bool then 1 else 0], [])
  | CAddOrdered off delta => as_unit (a_add_i64_ordered e off delta)
  | CGetAndAdd off delta => as_bytes (a_get_and_add_i64 e off delta)
  | CSetMemory pos len val => as_unit (a_set_memory e pos len val)
  | CPutBytes off n => as_unit (a_put_bytes e off n wbyte)
  | CWrite n => as_unit (a_write e n wbyte)
  | CCopyFrom off soff len => as_unit (a_copy_from e off soff len)
  | CAsSlice => b <~ a_as_slice e ;; ret ([e_base e; e_cap e], b)
  | CSubSlice idx len => as_bytes (a_as_sub_slice e idx len)
  | CGetString off => as_bytes (a_get_string e off)
  | CGetStringWl off len => as_bytes (a_get_string_without_length e off len)
  | CGetStringLength off => as_bytes (a_get_string_length e off)
  | CPutString off n => as_unit (a_put_string e off n wbyte)
  | CPutStringWl off n => as_num (a_put_string_without_length e off n wbyte)
  | FNew sz fb => as_num (f_new e sz fb)
  | FStringGet fb off => as_bytes (f_string_get e fb off)
  | FStringGetLength fb off => as_bytes (f_string_get_length e fb off)
  | FStringPut fb off n => as_unit (f_string_put e fb off n wbyte)
  | FPutBytes fb off n => as_unit (f_put_bytes e fb off n wbyte)
  | FGetBytes sz fb off => as_bytes (f_get_bytes e sz fb off)
  | FPut sz fb off => as_unit (f_put e sz fb off wbyte)
  | FOverlay sz fb off => as_num (f_overlay_struct e sz fb off)
  | FField sz fb foff flen => as_bytes (f_field e sz fb foff flen)
  end.

(* ------------------------------------------------------------------ the test fixture (shared with the harness) *)
(* initial byte at offset r relative to a region's start (guard zones included); never zero *)
Definition init_byte (r : Z) : Z := ((r + 64) * 37 + 11) mod 251 + 1.
Definition src_byte (r : Z) : Z := ((r + 64) * 53 + 7) mod 241 + 2.
(* the harness plants a 32-bit word w at offset p before the call (get_string needs a length word) *)
Definition planted (p w : Z) : memory :=
  fun i => if (p <=? i) && (i <? p + 4) then le_byte w (i - p) else init_byte i.

Definition root_env (m : mode) (rcap scap : Z) : env := mkEnv m gen_hooked rcap 0 rcap scap src_byte.

Definition diff (n : Z) (a b : memory) : list (Z * Z) :=
  flat_map (fun i => if a i =? b i then [] else [(i, b i)]) (zseq 0 n).

(* observation of one call on a fresh fixture: (result, changed bytes of the region, changed bytes of the source region) *)
Definition observe (m : mode) (rcap scap p w : Z) (c : call)
  : outcome rv * list (Z * Z) * list (Z * Z) :=
  let s0 := mkSt (planted p w) [] in
  let '(r, s1) := run (root_env m rcap scap) c s0 in
  (r, diff rcap (s_mem s0) (s_mem s1), @nil (Z * Z)).

Definition touched (m : mode) (rcap scap p w : Z) (c : call) : list (Z * Z * Z) :=
  s_log (snd (run (root_env m rcap scap) c (mkSt (planted p w) []))).
