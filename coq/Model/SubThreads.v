(* Threads around one Subscription: the application thread that polls and the conductor thread that adds / removes
   images (src/subscription.rs poll_inner / add_image / remove_image over src/concurrent/atomic_vec.rs, used from
   src/client_conductor.rs on_available_image / on_unavailable_image).

   What synchronises them.  AtomicVec<T> carries a seqlock: the counters begin_change / end_change; `load` /
   `load_mut` spin until end_change == begin_change and then return a REFERENCE to self.buf (not a copy);
   `store` does begin := begin + 1; buf := new; end := begin; `add` / `remove` clone the vector, modify the clone
   and `store` it.  But poll_inner, add_image, remove_image, store and load_mut all take `&mut self`, and the only
   way two threads share a Subscription is the Arc<Mutex<Subscription>> handed out by
   ClientConductor::find_subscription: the application thread polls with `sub.lock().unwrap().poll(..)`, the
   conductor thread changes the image list with `subscription.lock().expect("Mutex poisoned").add_image(image)` and
   `.remove_image(correlation_id)`.  So the synchronisation that matters is a plain std Mutex around the whole
   Subscription; the seqlock never sees a concurrent reader.  The model below keeps both: the mutex (a holder
   field) and the seqlock counters with the retry loop of `load`, and it has a flag `use_mutex` that turns the
   lock / unlock steps into no-ops, so that one can see what the sequence numbers alone would (not) give
   (Proofs/SubThreadsProofs.v: mutex_invariant, load_never_spins, linearizable, seqlock_alone_not_enough).

   Granularity: one step = at most one action on the shared state (mutex, begin_change, end_change, buf,
   round_robin_index); interleavings are sequentially consistent at this granularity.
     every request: lock (enabled only when the mutex is free); read end_change; read begin_change and compare
                    (back to the previous step when different); ...; unlock and record the result.
     poll:          the four round_robin_index lines as one step (rr_next on the current buf.len(); the bound of
                    the first `for` range is taken here too); then ONE STEP PER IMAGE of the two `for` loops: when
                    fragments_read < fragment_limit it reads image i of the current buf in place
                    (`get_mut(i).expect(..)`: a panic when i is out of range of the current buf), calls the poll
                    flavour pk, writes the image state back at i; a local step between the loops.
     add / remove:  clone the current buf and push / remove on the clone (one step, the clone reads buf);
                    store step 1 begin := begin + 1 (wrapping); step 2 buf := new; step 3 end := seq.
                    remove with no matching image: no store, result None.
   A request that panics gets the result RsPanic and releases the mutex (std poisons it; nothing of what follows a
   panic is modelled: under the mutex it does not happen, theorem no_panic).
   The images are generic (type I), so are the handler inputs (type X) and the poll flavour
   pk : I -> Z -> Z * I * list X of Model/Subscription.v.  remove_image's matching closure also closes the matching
   image of the cloned OLD vector, which is handed back to the caller and is not in buf: not modelled.
   Definitions only. *)
Require Import V.Base.MachineInt.
Require Import V.Model.Subscription.
From Coq Require Import Arith.PeanoNat.
Open Scope Z_scope.

(* what a thread asks of the subscription *)
Inductive req (I : Type) :=
| RPoll (limit : Z)
| RAdd (im : I)
| RRemove (p : I -> bool).              (* the first image matching p is removed *)
Arguments RPoll {I}. Arguments RAdd {I}. Arguments RRemove {I}.

(* what the call returns: poll_inner -> fragments_read (with what the handler saw and the indices polled);
   add -> the old vector; remove -> Some (old vector, index) or None *)
Inductive result (I X : Type) :=
| RsPoll (total : Z) (xs : list X) (polled : list Z)
| RsPanic
| RsAdd (old : list I)
| RsRemove (r : option (list I * Z)).
Arguments RsPoll {I X}. Arguments RsPanic {I X}. Arguments RsAdd {I X}. Arguments RsRemove {I X}.

(* program counter of the request in progress *)
Inductive pcs (I X : Type) :=
| Idle                                              (* next: lock, for the head of the todo list *)
| LdEnd (r : req I)                                 (* load / load_mut: read end_change *)
| LdBegin (r : req I) (e : Z)                       (* read begin_change, compare with e *)
| PRr (lim : Z)                                     (* the round_robin_index lines *)
| PLoop (lim : Z) (second : bool) (start i hi : nat) (read : Z) (xs : list X) (polled : list Z)
                                                    (* iteration i of `for i in ..hi` of the first / second loop *)
| ACloneAdd (im : I)                                (* old_vec = load().clone(); new_vec.push(item) *)
| ACloneRem (p : I -> bool)                         (* old_vec = load().clone(); search; new_vec.remove(index) *)
| AStore1 (new : list I) (res : result I X)         (* begin_change := begin_change + 1 *)
| AStore2 (new : list I) (sq : Z) (res : result I X)  (* buf := new *)
| AStore3 (sq : Z) (res : result I X)               (* end_change := seq_no *)
| PUnlock (res : result I X).                       (* drop the MutexGuard; the call returns res *)
Arguments Idle {I X}. Arguments LdEnd {I X}. Arguments LdBegin {I X}. Arguments PRr {I X}.
Arguments PLoop {I X}. Arguments ACloneAdd {I X}. Arguments ACloneRem {I X}. Arguments AStore1 {I X}.
Arguments AStore2 {I X}. Arguments AStore3 {I X}. Arguments PUnlock {I X}.

(* the shared state: the Mutex and the fields of Subscription that the requests touch *)
Record shared (I : Type) := mkSh {
  m_holder : option nat;                            (* Mutex<Subscription> *)
  m_buf : list I; m_begin : Z; m_end : Z;           (* image_list : AtomicVec<Image> *)
  m_rr : Z }.                                       (* round_robin_index *)
Arguments mkSh {I}. Arguments m_holder {I}. Arguments m_buf {I}. Arguments m_begin {I}. Arguments m_end {I}.
Arguments m_rr {I}.

Record thread (I X : Type) := mkTh { th_todo : list (req I); th_pc : pcs I X }.
Arguments mkTh {I X}. Arguments th_todo {I X}. Arguments th_pc {I X}.

(* log entry: thread, request, result once the request has completed; entries are appended at the lock step, so
   the log is in lock-acquisition order *)
Definition entry (I X : Type) : Type := nat * req I * option (result I X).

Record config (I X : Type) := mkCfg {
  c_sh : shared I; c_thr : nat -> thread I X; c_log : list (entry I X) }.
Arguments mkCfg {I X}. Arguments c_sh {I X}. Arguments c_thr {I X}. Arguments c_log {I X}.

(* index of the first element matching p, counted from idx *)
Fixpoint first_match {I} (p : I -> bool) (l : list I) (idx : Z) : option Z :=
  match l with [] => None | x :: r => if p x then Some idx else first_match p r (idx + 1) end.

(* *image_list.get_mut(i) = x *)
Fixpoint upd_at {I} (l : list I) (i : nat) (x : I) : list I :=
  match l, i with
  | [], _ => []
  | _ :: r, O => x :: r
  | y :: r, S j => y :: upd_at r j x
  end.

Definition upd {T} (f : nat -> T) (t : nat) (x : T) : nat -> T := fun t' => if Nat.eqb t' t then x else f t'.

(* the completing thread fills in its pending entry *)
Fixpoint fill {I X} (t : nat) (res : result I X) (l : list (entry I X)) : list (entry I X) :=
  match l with
  | [] => []
  | (t', r, None) :: rest => if Nat.eqb t' t then (t', r, Some res) :: rest else (t', r, None) :: fill t res rest
  | e :: rest => e :: fill t res rest
  end.

(* the completed requests, in lock-acquisition order *)
Fixpoint history {I X} (l : list (entry I X)) : list (nat * req I * result I X) :=
  match l with
  | [] => []
  | (t, r, Some res) :: rest => (t, r, res) :: history rest
  | (_, _, None) :: rest => history rest
  end.
Definition h_tid {I X} (e : nat * req I * result I X) : nat := fst (fst e).
Definition h_req {I X} (e : nat * req I * result I X) : req I := snd (fst e).
Definition h_res {I X} (e : nat * req I * result I X) : result I X := snd e.
(* the completed requests of thread t *)
Definition reqs_of {I X} (t : nat) (h : list (nat * req I * result I X)) : list (req I) :=
  map h_req (filter (fun e => Nat.eqb (h_tid e) t) h).

Section Steps.
Context {I X : Type}.
Variable pk : I -> Z -> Z * I * list X.

Definition poll_res (r : Z * sub I * list X * list Z) : result I X :=
  let '(total, _, xs, polled) := r in RsPoll total xs polled.

(* ---- the sequential specification: one call on a Subscription nobody else touches (Model/Subscription.v) ---- *)
Definition seq_exec (r : req I) (s : sub I) : sub I * result I X :=
  match r with
  | RPoll lim => let pr := poll_inner pk s lim in (snd (fst (fst pr)), poll_res pr)
  | RAdd im => (add_image s im, RsAdd (s_images s))
  | RRemove p => (remove_image s p,
                  RsRemove (match first_match p (s_images s) 0 with Some k => Some (s_images s, k) | None => None end))
  end.

Fixpoint seq_run (rs : list (req I)) (s : sub I) : sub I * list (result I X) :=
  match rs with
  | [] => (s, [])
  | r :: rest => let '(s1, res) := seq_exec r s in let '(s2, out) := seq_run rest s1 in (s2, res :: out)
  end.

(* ---- the steps ---- *)
(* body of one iteration of either `for` loop on the buf as it is now:
   if fragments_read < fragment_limit { fragments_read += poll_kind(image_list.get_mut(i).expect(..), limit - read) }
   None = the expect panics *)
Definition poll_image (buf : list I) (i : nat) (lim read : Z) (xs : list X) (polled : list Z)
  : option (list I * Z * list X * list Z) :=
  if read <? lim then
    match nth_error buf i with
    | None => None
    | Some im => let '(k, im', ys) := pk im (lim - read) in
                 Some (upd_at buf i im', read + k, xs ++ ys, polled ++ [Z.of_nat i])
    end
  else Some (buf, read, xs, polled).

Definition after_load (r : req I) : pcs I X :=
  match r with RPoll lim => PRr lim | RAdd im => ACloneAdd im | RRemove p => ACloneRem p end.

Definition set_holder (sh : shared I) (h : option nat) := mkSh h (m_buf sh) (m_begin sh) (m_end sh) (m_rr sh).
Definition set_buf (sh : shared I) (b : list I) := mkSh (m_holder sh) b (m_begin sh) (m_end sh) (m_rr sh).
Definition set_begin (sh : shared I) (v : Z) := mkSh (m_holder sh) (m_buf sh) v (m_end sh) (m_rr sh).
Definition set_end (sh : shared I) (v : Z) := mkSh (m_holder sh) (m_buf sh) (m_begin sh) v (m_rr sh).
Definition set_rr (sh : shared I) (v : Z) := mkSh (m_holder sh) (m_buf sh) (m_begin sh) (m_end sh) v.

(* one step of a request in progress: the shared state and the pc afterwards, and the result when this step
   completes the request *)
Definition istep (use_mutex : bool) (sh : shared I) (pc : pcs I X) : shared I * pcs I X * option (result I X) :=
  match pc with
  | Idle => (sh, Idle, None)
  | LdEnd r => (sh, LdBegin r (m_end sh), None)
  | LdBegin r e => if m_begin sh =? e then (sh, after_load r, None) else (sh, LdEnd r, None)
  | PRr lim =>
      let '(start, rr') := rr_next (Z.of_nat (length (m_buf sh))) (m_rr sh) in
      (set_rr sh rr', PLoop lim false (Z.to_nat start) (Z.to_nat start) (length (m_buf sh)) 0 [] [], None)
  | PLoop lim second start i hi read xs polled =>
      if Nat.ltb i hi then
        match poll_image (m_buf sh) i lim read xs polled with
        | None => (sh, PUnlock RsPanic, None)
        | Some (buf', read', xs', polled') => (set_buf sh buf', PLoop lim second start (S i) hi read' xs' polled', None)
        end
      else if second then (sh, PUnlock (RsPoll read xs polled), None)
      else (sh, PLoop lim true start O start read xs polled, None)
  | ACloneAdd im => (sh, AStore1 (m_buf sh ++ [im]) (RsAdd (m_buf sh)), None)
  | ACloneRem p =>
      match first_match p (m_buf sh) 0 with
      | Some k => (sh, AStore1 (remove_first p (m_buf sh)) (RsRemove (Some (m_buf sh, k))), None)
      | None => (sh, PUnlock (RsRemove None), None)
      end
  | AStore1 new res => let sq := wrap64 (m_begin sh + 1) in (set_begin sh sq, AStore2 new sq res, None)
  | AStore2 new sq res => (set_buf sh new, AStore3 sq res, None)
  | AStore3 sq res => (set_end sh sq, PUnlock res, None)
  | PUnlock res => ((if use_mutex then set_holder sh None else sh), Idle, Some res)
  end.

Definition is_idle (pc : pcs I X) : bool := match pc with Idle => true | _ => false end.

(* one step of thread t; None = it cannot move now (nothing left to do, or waiting for the mutex) *)
Definition tstep (use_mutex : bool) (t : nat) (c : config I X) : option (config I X) :=
  let th := c_thr c t in
  if is_idle (th_pc th) then
    match th_todo th with
    | [] => None
    | r :: rest =>
        match (if use_mutex then m_holder (c_sh c) else None) with
        | Some _ => None
        | None => Some (mkCfg (if use_mutex then set_holder (c_sh c) (Some t) else c_sh c)
                              (upd (c_thr c) t (mkTh rest (LdEnd r)))
                              (c_log c ++ [(t, r, None)]))
        end
    end
  else
    let '(sh', pc', ores) := istep use_mutex (c_sh c) (th_pc th) in
    Some (mkCfg sh' (upd (c_thr c) t (mkTh (th_todo th) pc'))
                (match ores with Some res => fill t res (c_log c) | None => c_log c end)).

(* a schedule: entries naming a thread that cannot move are skipped *)
Fixpoint run_sched (use_mutex : bool) (sched : list nat) (c : config I X) : config I X :=
  match sched with
  | [] => c
  | t :: rest => match tstep use_mutex t c with
                 | Some c' => run_sched use_mutex rest c'
                 | None => run_sched use_mutex rest c
                 end
  end.

Fixpoint run_thread (use_mutex : bool) (fuel : nat) (t : nat) (c : config I X) : config I X :=
  match fuel with
  | O => c
  | S f => match tstep use_mutex t c with Some c' => run_thread use_mutex f t c' | None => c end
  end.

Fixpoint drain_pass (use_mutex : bool) (fuel : nat) (ts : list nat) (c : config I X) : config I X :=
  match ts with
  | [] => c
  | t :: rest => drain_pass use_mutex fuel rest (run_thread use_mutex fuel t c)
  end.

(* after the schedule the threads 0 .. n-1 run on, one after another in thread-id order.  Two passes: in the first
   one a thread may stop in front of the mutex that a later thread holds; that holder finishes in the same pass *)
Definition drain (use_mutex : bool) (n fuel : nat) (c : config I X) : config I X :=
  drain_pass use_mutex fuel (seq 0 n) (drain_pass use_mutex fuel (seq 0 n) c).

Definition run (use_mutex : bool) (n fuel : nat) (sched : list nat) (c : config I X) : config I X :=
  drain use_mutex n fuel (run_sched use_mutex sched c).

Definition th_done (th : thread I X) : bool :=
  is_idle (th_pc th) && match th_todo th with [] => true | _ => false end.
(* the mutex is free and the threads 0 .. n-1 have done everything *)
Definition all_done (n : nat) (c : config I X) : bool :=
  match m_holder (c_sh c) with None => true | Some _ => false end &&
  forallb (fun t => th_done (c_thr c t)) (seq 0 n).

(* reachable configurations *)
Inductive reach (use_mutex : bool) (c0 : config I X) : config I X -> Prop :=
| reach_refl : reach use_mutex c0 c0
| reach_step c t c' : reach use_mutex c0 c -> tstep use_mutex t c = Some c' -> reach use_mutex c0 c'.

(* where every run starts: mutex free, no store in progress, nobody inside a request, index not negative *)
Definition initial (c0 : config I X) : Prop :=
  m_holder (c_sh c0) = None /\ m_begin (c_sh c0) = m_end (c_sh c0) /\ 0 <= m_rr (c_sh c0) /\
  (forall t, th_pc (c_thr c0 t) = Idle) /\ c_log c0 = [].

(* AtomicVec::new() counters; thread t runs the t-th program *)
Definition init_cfg (l : list I) (rr : Z) (progs : list (list (req I))) : config I X :=
  mkCfg (mkSh None l (-1) (-1) rr) (fun t => mkTh (nth t progs []) Idle) [].

Definition in_cs (pc : pcs I X) : bool := negb (is_idle pc).
Definition in_store (pc : pcs I X) : bool :=
  match pc with AStore2 _ _ _ | AStore3 _ _ => true | _ => false end.

End Steps.
