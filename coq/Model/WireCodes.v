(* Command / event type codes (C13, C14).
   K1: `cmd`, `all_commands`, `to_id` (the compiled `as i32`) and `from_id_rows` (what
   AeronCommand::from_command_id returns, dumped at run time) come from Generated/GenCommands.v.
   `protocol_code` is the specification: Aeron's ControlProtocolEvents, written by hand and
   never generated.  Definitions only. *)
Require Import V.Base.MachineInt.
Require Export V.Generated.GenCommands.
Open Scope Z_scope.

(* AeronCommand::from_command_id: a `match` on the id, `unreachable!` otherwise *)
Definition from_id (id : Z) : outcome cmd :=
  match find (fun r => fst r =? id) from_id_rows with
  | Some r => Ok (snd r)
  | None => Panic
  end.

(* io.aeron.command.ControlProtocolEvents (client -> driver 0x01.., driver -> client 0x0F01..);
   -1 is the ring / broadcast buffer's padding record type *)
Definition protocol_code (c : cmd) : Z :=
  match c with
  | Padding => -1
  | AddPublication => 1              (* 0x01 ADD_PUBLICATION *)
  | RemovePublication => 2           (* 0x02 REMOVE_PUBLICATION *)
  | AddExclusivePublication => 3     (* 0x03 ADD_EXCLUSIVE_PUBLICATION *)
  | AddSubscription => 4             (* 0x04 ADD_SUBSCRIPTION *)
  | RemoveSubscription => 5          (* 0x05 REMOVE_SUBSCRIPTION *)
  | ClientKeepAlive => 6             (* 0x06 CLIENT_KEEPALIVE *)
  | AddDestination => 7              (* 0x07 ADD_DESTINATION *)
  | RemoveDestination => 8           (* 0x08 REMOVE_DESTINATION *)
  | AddCounter => 9                  (* 0x09 ADD_COUNTER *)
  | RemoveCounter => 10              (* 0x0A REMOVE_COUNTER *)
  | ClientClose => 11                (* 0x0B CLIENT_CLOSE *)
  | AddRcvDestination => 12          (* 0x0C ADD_RCV_DESTINATION *)
  | RemoveRcvDestination => 13       (* 0x0D REMOVE_RCV_DESTINATION *)
  | TerminateDriver => 14            (* 0x0E TERMINATE_DRIVER *)
  | ResponseOnError => 3841                       (* 0x0F01 ON_ERROR *)
  | ResponseOnAvailableImage => 3842              (* 0x0F02 ON_AVAILABLE_IMAGE *)
  | ResponseOnPublicationReady => 3843            (* 0x0F03 ON_PUBLICATION_READY *)
  | ResponseOnOperationSuccess => 3844            (* 0x0F04 ON_OPERATION_SUCCESS *)
  | ResponseOnUnavailableImage => 3845            (* 0x0F05 ON_UNAVAILABLE_IMAGE *)
  | ResponseOnExclusivePublicationReady => 3846   (* 0x0F06 ON_EXCLUSIVE_PUBLICATION_READY *)
  | ResponseOnSubscriptionReady => 3847           (* 0x0F07 ON_SUBSCRIPTION_READY *)
  | ResponseOnCounterReady => 3848                (* 0x0F08 ON_COUNTER_READY *)
  | ResponseOnUnavailableCounter => 3849          (* 0x0F09 ON_UNAVAILABLE_COUNTER *)
  | ResponseOnClientTimeout => 3850               (* 0x0F0A ON_CLIENT_TIMEOUT *)
  end.

Definition cmd_eq_dec (a b : cmd) : {a = b} + {a <> b}.
Proof. decide equality. Defined.
Definition cmd_eqb (a b : cmd) : bool := if cmd_eq_dec a b then true else false.

(* decidable forms of the three table statements, evaluated over the finite generated list *)
Definition roundtrip_b (c : cmd) : bool :=
  match from_id (to_id c) with Ok c' => cmd_eqb c' c | _ => false end.
Definition code_b (c : cmd) : bool := to_id c =? protocol_code c.
Definition injective_b (c : cmd) : bool :=
  forallb (fun c' => implb (to_id c =? to_id c') (cmd_eqb c c')) all_commands.
(* every row of the from_command_id table maps a protocol code to its own type *)
Definition row_b (r : Z * cmd) : bool := fst r =? protocol_code (snd r).
