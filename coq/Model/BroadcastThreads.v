(* One transmitter thread || one copying receiver thread over the same broadcast buffer, as
   pc-machines whose steps are the shared-memory accesses the verification hook reports
   (AtomicBuffer accessors touching the buffer): every step performs exactly one access, then runs
   the thread's private code up to its next access.  Interleavings are sequentially consistent at
   this granularity.  The functions stepped through are those of Model/Broadcast.v
   (transmit / receive_next / receive), same arithmetic, same widths; `collapse` lemmas in
   Proofs/BroadcastThreadsProofs.v tie the two together.
   Definitions only. *)
From Coq Require Import FMapPositive.
Require Import V.Base.MachineInt.
Require Import V.Generated.GenConsts.
Require Import V.Model.Broadcast.
Open Scope Z_scope.

Inductive akind := Get | Put | GetVolatile | PutOrdered | CopyFrom.

(* (thread, accessor, region, offset, length, operand, operand2, value at the location before the access) *)
Definition event : Type := Z * akind * Z * Z * Z * Z * Z * Z.

Definition u32 (v : Z) : Z := v mod two32.

(* what vcommon::sched::read_before reports for a write of n bytes: the first min(n,8) bytes, little endian,
   sign-extended only for n = 4 and n = 8 *)
Definition before_bytes (mm : mem) (off : Z) (n : Z) : Z :=
  if n <=? 0 then 0
  else if n =? 4 then get32 mm off
  else if 8 <=? n then get64 mm off
  else le_val (get_bytes mm off (Z.to_nat n)).

(* ---------------------------------------------------------------- transmitter *)
Inductive tpc :=
| TIdle
| TIntent (tail : Z)
| TPadLen (tail : Z)
| TPadType (tail : Z)
| TLen (tail1 ro1 : Z)
| TType (tail1 ro1 : Z)
| TBody (tail1 ro1 : Z)
| TLatest (tail1 ro1 : Z)
| TTail (tail1 ro1 : Z).

Record tstate := mkT { t_pc : tpc; t_todo : list (Z * list Z); t_done : Z }.

Definition t_finished (t : tstate) : bool :=
  match t_pc t, t_todo t with TIdle, [] => true | _, _ => false end.

(* the message being transmitted is the head of t_todo; all messages are acceptable (type >= 1, length <= max) *)
Definition tx_step (cap : Z) (mm : mem) (t : tstate) : option (tstate * mem * event) :=
  match t_todo t with
  | [] => None
  | (ty, bs) :: rest =>
      let len := Z.of_nat (length bs) in
      let rl := len + HL in
      let al := align rl RA in
      let set pc := {| t_pc := pc; t_todo := t_todo t; t_done := t_done t |} in
      match t_pc t with
      | TIdle =>
          let tail := get64 mm (tail_idx cap) in
          Some (set (TIntent tail), mm, (0, Get, 0, tail_idx cap, 8, 0, 0, tail))
      | TIntent tail =>
          let ro := Z.land tail (cap - 1) in
          let te := cap - ro in
          let nt := tail + al in
          let old := get64 mm (intent_idx cap) in
          if te <? al
          then Some (set (TPadLen tail), put64 mm (intent_idx cap) (nt + te),
                     (0, PutOrdered, 0, intent_idx cap, 8, nt + te, 0, old))
          else Some (set (TLen tail ro), put64 mm (intent_idx cap) nt,
                     (0, PutOrdered, 0, intent_idx cap, 8, nt, 0, old))
      | TPadLen tail =>
          let ro := Z.land tail (cap - 1) in
          let te := cap - ro in
          Some (set (TPadType tail), put32 mm ro te, (0, Put, 0, ro, 4, u32 te, 0, get32 mm ro))
      | TPadType tail =>
          let ro := Z.land tail (cap - 1) in
          let te := cap - ro in
          Some (set (TLen (tail + te) 0), put32 mm (ro + 4) PADDING,
                (0, Put, 0, ro + 4, 4, u32 PADDING, 0, get32 mm (ro + 4)))
      | TLen tail1 ro1 =>
          Some (set (TType tail1 ro1), put32 mm ro1 rl, (0, Put, 0, ro1, 4, u32 rl, 0, get32 mm ro1))
      | TType tail1 ro1 =>
          Some (set (TBody tail1 ro1), put32 mm (ro1 + 4) ty, (0, Put, 0, ro1 + 4, 4, u32 ty, 0, get32 mm (ro1 + 4)))
      | TBody tail1 ro1 =>
          Some (set (TLatest tail1 ro1), put_bytes mm (ro1 + HL) bs,
                (0, CopyFrom, 0, ro1 + HL, len, -1, -1, before_bytes mm (ro1 + HL) len))
      | TLatest tail1 ro1 =>
          Some (set (TTail tail1 ro1), put64 mm (latest_idx cap) tail1,
                (0, Put, 0, latest_idx cap, 8, tail1, 0, get64 mm (latest_idx cap)))
      | TTail tail1 ro1 =>
          Some ({| t_pc := TIdle; t_todo := rest; t_done := t_done t + 1 |},
                put64 mm (tail_idx cap) (tail1 + al),
                (0, PutOrdered, 0, tail_idx cap, 8, tail1 + al, 0, get64 mm (tail_idx cap)))
      end
  end.

(* ---------------------------------------------------------------- copying receiver *)
Inductive rpc :=
| RIdle                               (* next access: get_volatile(tail) of receive_next *)
| RVal1                               (* tail > next_record: get_volatile(tail intent) of do_validate *)
| RLatest                             (* lapped: get(latest) *)
| RLen (c lp : Z)                     (* get(length) at the cursor c; lp = lapped count to commit *)
| RType (c lp nr : Z)                 (* get(type) *)
| RLen0 (c lp nr : Z)                 (* padding: get(length) at offset 0 (c = the cursor of the padding record) *)
(* W64R (fixes/C08-receive-next-revalidate.diff): the header words are read first (l1 = length word at the cursor c,
   l0 = length word at offset 0 after a padding record), then do_validate(c), then they are used *)
| RTypeR (c lp l1 : Z)                (* get(type) at c *)
| RLen0R (c lp l1 : Z)                (* padding: get(length) at offset 0 *)
| RVal3 (c lp l1 : Z) (pad : bool) (l0 : Z)   (* get_volatile(tail intent) of do_validate(c) *)
| RLatest3 (lp : Z)                   (* that validation failed: get(latest), restart there without reading a header *)
| RHLen                               (* receiver.length() *)
| RHType (len : Z)                    (* receiver.type_id() *)
| RValH (len ty : Z)                  (* repaired code only: receiver.validate() before the header words are used *)
| RCopy (len ty : Z)                  (* scratch.copy_from(buffer) *)
| RVal2 (ty : Z) (bytes : list Z).    (* receiver.validate() *)

Inductive rend := RLive | RPanicked | RCrashed.

Record rstate := mkR {
  r_pc : rpc; r_rx : rx; r_todo : nat; r_out : list rres (* newest first *); r_end : rend }.

Definition r_finished (r : rstate) : bool :=
  match r_end r with
  | RLive => match r_pc r, r_todo r with RIdle, O => true | _, _ => false end
  | _ => true
  end.

Definition validate_cmp (m : mode) (w : vwidth) (cap : Z) (c it : Z) : outcome bool :=
  match w with
  | W32 => s <- add32 m (wrap32 c) cap ;; Ok (s >? wrap32 it)
  | W64 | W64R => s <- add64 m c cap ;; Ok (s >? it)
  end.

Definition r_set (r : rstate) (pc : rpc) : rstate :=
  {| r_pc := pc; r_rx := r_rx r; r_todo := r_todo r; r_out := r_out r; r_end := RLive |}.
Definition r_finish (r : rstate) (x : rx) (res : rres) : rstate :=
  {| r_pc := RIdle; r_rx := x; r_todo := pred (r_todo r); r_out := res :: r_out r; r_end := RLive |}.
Definition r_die (r : rstate) (e : rend) : rstate :=
  {| r_pc := r_pc r; r_rx := r_rx r; r_todo := r_todo r; r_out := r_out r; r_end := e |}.

(* private code after receive_next has committed the new receiver fields *)
Definition after_next (r : rstate) (x1 : rx) : rstate :=
  if negb (lapped (r_rx r) =? lapped x1) then r_finish r x1 (RErr UnableToKeepUp)
  else {| r_pc := RHLen; r_rx := x1; r_todo := r_todo r; r_out := r_out r; r_end := RLive |}.

Definition of_outcome {A} (r : rstate) (o : outcome A) (k : A -> rstate) : rstate :=
  match o with Ok a => k a | Crash => r_die r RCrashed | _ => r_die r RPanicked end.

(* the receiver's state after its next shared access (and the private code that follows it) ... *)
Definition rx_next (m : mode) (w : vwidth) (hv : bool) (cap : Z) (mm : mem) (r : rstate) : rstate :=
  let x := r_rx r in
  match r_pc r with
  | RIdle =>
      if get64 mm (tail_idx cap) >? next_record x then r_set r RVal1 else r_finish r x RNone
  | RVal1 =>
      of_outcome r (validate_cmp m w cap (next_record x) (get64 mm (intent_idx cap)))
        (fun v => if v then r_set r (RLen (next_record x) (lapped x)) else r_set r RLatest)
  | RLatest => r_set r (RLen (get64 mm (latest_idx cap)) (lapped x + 1))
  | RLen c lp =>
      let ro := Z.land (wrap32 c) (cap - 1) in
      if revalidates w then r_set r (RTypeR c lp (get32 mm ro))
      else of_outcome r (a1 <- align32 m (get32 mm ro) RA ;; add64 m c a1) (fun nr => r_set r (RType c lp nr))
  | RType c lp nr =>
      let ro := Z.land (wrap32 c) (cap - 1) in
      if get32 mm (ro + 4) =? PADDING then r_set r (RLen0 c lp nr)
      else after_next r {| cursor := c; next_record := nr; record_offset := ro; lapped := lp |}
  | RLen0 c lp nr =>
      of_outcome r (a2 <- align32 m (get32 mm 0) RA ;; add64 m nr a2)
        (fun nr2 => after_next r {| cursor := nr; next_record := nr2; record_offset := 0; lapped := lp |})
  | RTypeR c lp l1 =>
      let ro := Z.land (wrap32 c) (cap - 1) in
      if get32 mm (ro + 4) =? PADDING then r_set r (RLen0R c lp l1) else r_set r (RVal3 c lp l1 false 0)
  | RLen0R c lp l1 => r_set r (RVal3 c lp l1 true (get32 mm 0))
  | RVal3 c lp l1 pad l0 =>
      let ro := Z.land (wrap32 c) (cap - 1) in
      of_outcome r (validate_cmp m w cap c (get64 mm (intent_idx cap)))
        (fun v =>
           if v then
             of_outcome r (a1 <- align32 m l1 RA ;; add64 m c a1)
               (fun nr =>
                  if pad then
                    of_outcome r (a2 <- align32 m l0 RA ;; add64 m nr a2)
                      (fun nr2 => after_next r {| cursor := nr; next_record := nr2; record_offset := 0; lapped := lp |})
                  else after_next r {| cursor := c; next_record := nr; record_offset := ro; lapped := lp |})
           else r_set r (RLatest3 (lp + 1)))
  | RLatest3 lp =>
      let l := get64 mm (latest_idx cap) in
      after_next r {| cursor := l; next_record := l; record_offset := Z.land (wrap32 l) (cap - 1); lapped := lp |}
  | RHLen =>
      of_outcome r (sub32 m (get32 mm (record_offset x)) HL)
        (fun len => if hv then r_set r (RHType len)
                    else if len >? SCRATCH then r_finish r x (RErr InsufficientCapacity) else r_set r (RHType len))
  | RHType len =>
      let t := get32 mm (record_offset x + 4) in
      if hv then r_set r (RValH len t)
      else if negb (known_type t) then r_die r RPanicked else r_set r (RCopy len t)
  | RValH len ty =>
      of_outcome r (validate_cmp m w cap (cursor x) (get64 mm (intent_idx cap)))
        (fun v => if negb v then r_finish r x (RErr UnableToKeepUp)
                  else if len >? SCRATCH then r_finish r x (RErr InsufficientCapacity)
                  else if negb (known_type ty) then r_die r RPanicked
                  else r_set r (RCopy len ty))
  | RCopy len ty =>
      let ro := record_offset x in
      (* copy_from(0, buffer, ro + 8, len): the bounds checks run after the access has been reported *)
      if (len <? 0) || (ro + HL + len >? buf_len cap) then r_die r RPanicked
      else r_set r (RVal2 ty (get_bytes mm (ro + HL) (Z.to_nat len)))
  | RVal2 ty bytes =>
      of_outcome r (validate_cmp m w cap (cursor x) (get64 mm (intent_idx cap)))
        (fun v => r_finish r x (if v then RMsg ty bytes else RErr UnableToKeepUp))
  end.

(* ... and the access itself, as the hook reports it *)
Definition rx_event (cap : Z) (mm : mem) (r : rstate) : event :=
  let x := r_rx r in
  match r_pc r with
  | RIdle => (1, GetVolatile, 0, tail_idx cap, 8, 0, 0, get64 mm (tail_idx cap))
  | RVal1 | RValH _ _ | RVal2 _ _ | RVal3 _ _ _ _ _ => (1, GetVolatile, 0, intent_idx cap, 8, 0, 0, get64 mm (intent_idx cap))
  | RLatest | RLatest3 _ => (1, Get, 0, latest_idx cap, 8, 0, 0, get64 mm (latest_idx cap))
  | RLen c _ => let ro := Z.land (wrap32 c) (cap - 1) in (1, Get, 0, ro, 4, 0, 0, get32 mm ro)
  | RType c _ _ | RTypeR c _ _ => let ro := Z.land (wrap32 c) (cap - 1) in (1, Get, 0, ro + 4, 4, 0, 0, get32 mm (ro + 4))
  | RLen0 _ _ _ | RLen0R _ _ _ => (1, Get, 0, 0, 4, 0, 0, get32 mm 0)
  | RHLen => (1, Get, 0, record_offset x, 4, 0, 0, get32 mm (record_offset x))
  | RHType _ => (1, Get, 0, record_offset x + 4, 4, 0, 0, get32 mm (record_offset x + 4))
  | RCopy len _ => (1, CopyFrom, -1, -1, (if len <? 0 then two64 + len else len), record_offset x + HL, 0, 0)
  end.

Definition rx_step (m : mode) (w : vwidth) (hv : bool) (cap : Z) (mm : mem) (r : rstate) : option (rstate * event) :=
  if r_finished r then None else Some (rx_next m w hv cap mm r, rx_event cap mm r).

(* ---------------------------------------------------------------- the two threads under a schedule *)
Record cstate := mkC { c_mem : mem; c_tx : tstate; c_rx : rstate; c_trace : list event (* newest first *) }.

Definition step_thread (m : mode) (w : vwidth) (hv : bool) (cap : Z) (s : cstate) (tid : Z) : option cstate :=
  if tid =? 0 then
    match tx_step cap (c_mem s) (c_tx s) with
    | Some (t', mm', ev) => Some {| c_mem := mm'; c_tx := t'; c_rx := c_rx s; c_trace := ev :: c_trace s |}
    | None => None
    end
  else if tid =? 1 then
    match rx_step m w hv cap (c_mem s) (c_rx s) with
    | Some (r', ev) => Some {| c_mem := c_mem s; c_tx := c_tx s; c_rx := r'; c_trace := ev :: c_trace s |}
    | None => None
    end
  else None.

(* vcommon::sched::run: entries naming a finished thread are skipped *)
Fixpoint run_schedule (m : mode) (w : vwidth) (hv : bool) (cap : Z) (s : cstate) (sched : list Z) : cstate :=
  match sched with
  | [] => s
  | t :: rest =>
      match step_thread m w hv cap s t with
      | Some s' => run_schedule m w hv cap s' rest
      | None => run_schedule m w hv cap s rest
      end
  end.

(* ... and when the schedule is exhausted the live threads run to completion in thread-id order *)
Fixpoint drain (m : mode) (w : vwidth) (hv : bool) (cap : Z) (tid : Z) (fuel : nat) (s : cstate) : cstate :=
  match fuel with
  | O => s
  | S f => match step_thread m w hv cap s tid with Some s' => drain m w hv cap tid f s' | None => s end
  end.

Definition init_cstate (cap c0 : Z) (pre : list (Z * list Z)) (msgs : list (Z * list Z)) (nrecv : nat) : cstate :=
  let mm := pre_run Release cap (init_mem cap c0) pre in
  {| c_mem := mm;
     c_tx := {| t_pc := TIdle; t_todo := msgs; t_done := 0 |};
     c_rx := {| r_pc := RIdle; r_rx := rx_new cap mm; r_todo := nrecv; r_out := []; r_end := RLive |};
     c_trace := [] |}.

Definition run_conc (m : mode) (w : vwidth) (hv : bool) (cap c0 : Z) (pre msgs : list (Z * list Z)) (nrecv : nat)
                    (sched : list Z) : cstate :=
  let s := run_schedule m w hv cap (init_cstate cap c0 pre msgs nrecv) sched in
  let fuel := (13 * (length msgs + nrecv) + 13)%nat in
  drain m w hv cap 1 fuel (drain m w hv cap 0 fuel s).
