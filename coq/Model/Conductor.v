(* Executable model of the client conductor (src/client_conductor.rs) together with the destructors of the
   resource handles (Drop for Publication / ExclusivePublication / Subscription / Counter), the listener adapter
   dispatch (src/driver_listener_adapter.rs), the command writers of src/driver_proxy.rs and the duty cycle
   (Agent::do_work / on_close).  Properties C09 and C10.

   The model describes the code with the five repairs of fixes/C09-*.diff and fixes/C10-*.diff applied:
     - do_work puts the listener adapter back before it propagates a receive error;
     - close_all_resources does its work once (guard on the closed flag);
     - Drop for Subscription / Counter do not call back into the conductor when the conductor has closed the handle;
     - on_new_publication / on_new_exclusive_publication / on_subscription_ready only act on an Awaiting registration;
     - on_close sends ClientClose (once).

   What is abstracted:
     - a handle (Arc<..>) is an object record; it lives inside its registration entry while the entry exists and in
       the list `orphans` when the conductor has removed the entry while the user still holds the handle.
       `o_user = false` means that only the conductor's cache holds a strong reference (never looked up);
     - the five HashMaps are association lists; iteration order is the list order (the harness sorts the callbacks
       of one close by registration id, which is the order of insertion because ids grow);
     - log buffers / lingering image lists (property C12) are not modelled; the clock is assumed to be at least the
       linger time-out so that `now_ms - linger` does not underflow (C11/C12);
     - the command ring: its capacity arithmetic is property C06's; here it is an input of the environment, the flag
       `ring_full` (operation SetRingFull: the driver has stopped reading and the ring has no room for any command,
       or it reads again and the ring is drained). A command written while the flag is set is refused
       (DriverProxy returns IllegalState::CouldNotWriteCommandToDriver); the correlation id has been taken by then.
       Strings fit the 512-byte scratch buffer (C13);
     - callbacks do not call back into the conductor (is_in_callback is false at every entry point); what happens when
       they do is Model/ConductorReent.v;
     - the conductor mutex: an entry point runs with the mutex held; a destructor the conductor runs itself is
       `dtor_locked`; if that destructor would lock the mutex again the operation's outcome is Hang.
   Definitions only. *)
Require Import V.Base.MachineInt.
Require Import V.Generated.GenConsts.
Require Import V.Generated.GenLayout.
Open Scope Z_scope.

Inductive kind := KPub | KXPub | KSub | KCtr | KDest.
Inductive status := Awaiting | Registered | Errored
  | Dropped.   (* the handle was dropped while the Remove command could not be written: the entry is still there, its weak
                  reference is set but dead (release_publication / release_counter return early on the refused write) *)

Definition kind_eqb (a b : kind) : bool :=
  match a, b with
  | KPub, KPub | KXPub, KXPub | KSub, KSub | KCtr, KCtr | KDest, KDest => true
  | _, _ => false
  end.

(* a resource handle (Publication, ExclusivePublication, Subscription, Counter object) *)
Record obj := mkObj {
  o_user : bool;           (* the user holds a strong reference; false: only the conductor's cache does *)
  o_h : Z;                 (* number given at the first successful lookup (-1 while only cached) *)
  o_closed : bool;
  o_images : list Z;       (* correlation ids of the images of a subscription, in list order *)
  o_d1 : Z; o_d2 : Z; o_d3 : Z   (* driver-supplied fields frozen in the object:
                                    pub: session, channel status id, original registration id;
                                    xpub: session, channel status id, 0; sub: channel status id, 0, 0; counter: counter id, 0, 0 *)
}.

Record entry := mkEntry {
  e_status : status;
  e_code : Z;                         (* error code of the driver's error response *)
  e_treg : Z;                         (* time_of_registration_ms *)
  e_a1 : Z; e_a2 : Z; e_a3 : Z;       (* the caller's arguments *)
  e_d1 : Z; e_d2 : Z; e_d3 : Z; e_d4 : Z;   (* driver-supplied fields stored in the state: session, limit counter, channel status, original id *)
  e_obj : option obj                  (* Some: the weak reference is set and alive *)
}.

Definition amap := list (Z * entry).

Fixpoint lookup (id : Z) (m : amap) : option entry :=
  match m with
  | [] => None
  | (k, e) :: r => if k =? id then Some e else lookup id r
  end.
Definition remove (id : Z) (m : amap) : amap := filter (fun p => negb (fst p =? id)) m.
(* HashMap::insert *)
Definition ins (id : Z) (e : entry) (m : amap) : amap := remove id m ++ [(id, e)].
(* get_mut + assignment *)
Definition upd (id : Z) (f : entry -> entry) (m : amap) : amap :=
  map (fun p => if fst p =? id then (fst p, f (snd p)) else p) m.
Definition keys (m : amap) : list Z := map fst m.

Inductive cerr := EServiceTimeout | EWasInactive | EInactive | EHeartbeatLost | EClientTimeout
  | EChannelEndpoint (x : Z).   (* ChannelEndpointException(offending_command_correlation_id, message): the id as the driver sent it *)

Inductive cb :=
| CbErr (e : cerr)
| CbNewPub (id stream session chan : Z)
| CbNewXPub (id stream session chan : Z)
| CbNewSub (id stream chan : Z)
| CbAvailImg (sub img session : Z)
| CbUnavailImg (sub img closed : Z)
| CbAvailCtr (reg cid : Z)
| CbUnavailCtr (reg cid : Z)
| CbClose.

(* a command on the to-driver ring: type, client id, correlation id, remaining fields *)
Inductive cmd := Cmd (ty cid corr : Z) (args : list Z).

Inductive event :=
| EvPubReady (corr orig stream session limit chstat : Z)
| EvXPubReady (id stream session limit chstat : Z)      (* correlation id = registration id, as the driver sends it *)
| EvSubReady (corr chstat : Z)
| EvOpSuccess (corr : Z)
| EvError (corr code : Z)                               (* on_error_response: code <> 4 (the adapter sends code 4 to EvChanError, see ev_error) *)
| EvAvailImage (corr session subpos subreg : Z)
| EvUnavailImage (corr subreg : Z)
| EvCounterReady (corr cid : Z)
| EvUnavailCounter (corr cid : Z)
| EvClientTimeout (cid : Z)
| EvChanError (x : Z).                                  (* on_channel_endpoint_error_response: ErrorResponse with error code 4
                                                           (CHANNEL_ENDPOINT_ERROR); x is the "offending correlation id" field, which
                                                           for this code carries a channel status indicator id *)

(* DriverListenerAdapter::receive_messages, arm ResponseOnError: the error code decides which listener method is called *)
Definition ev_error (corr code : Z) : event :=
  if code =? GenConsts.ERROR_CODE_CHANNEL_ENDPOINT_ERROR then EvChanError corr else EvError corr code.

(* what the broadcast receiver yields in one duty cycle *)
Inductive bcast := BNone | BLapped | BOversize | BEvent (e : event).

Inductive op :=
| Add (k : kind) (a1 a2 a3 : Z)
   (* KPub/KXPub/KSub: channel, stream, length of the channel string in bytes (0: the short default channel);
      KCtr: type id, key length, label length;
      KDest: variant (0 add_destination, 1 remove_destination, 2 add_rcv_destination, 3 remove_rcv_destination), registration id, channel *)
| Find (k : kind) (r : Z)
| DropHandle (k : kind) (r : Z)
| Peek (k : kind) (r : Z)
| Close
| Tick (d : Z)
| SetDriverHb (t : Z)
| SetHbCounter (v : Z)      (* the driver's CountersManager on the slot of this client's heartbeat counter:
                               1: allocated, type = client heartbeat, key = this client id; 2: reclaimed;
                               3: allocated again as the heartbeat of another client (other key); 4: allocated with another type *)
| SetRingFull (b : bool)
| DoWork (b : bcast)
| CloseHandle (k : kind) (r : Z).   (* the user calls the public close() of the Publication / ExclusivePublication it holds *)

Record config := mkCfg { c_tdrv : Z; c_tis : Z }.   (* driver_timeout_ms, inter_service_timeout_ms *)

Record st := mkSt {
  pubs : amap; xpubs : amap; subs : amap; ctrs : amap; dests : amap;
  orphans : list (kind * Z * obj);
  next_corr : Z; client_id : Z; next_h : Z;
  closed : bool; driver_active : bool; close_sent : bool;
  now : Z; t_work : Z; t_keep : Z; t_res : Z;
  driver_hb : Z; hb_env : Z; hb_bound : bool;
  ring_full : bool;                 (* the driver has stopped reading its command ring and the ring has no room left *)
  uclosed : list (kind * Z)         (* publications / exclusive publications on whose handle the user has called the public close():
                                       only the handle's own flag is set, the conductor does not see it *)
}.

Definition getm (k : kind) (s : st) : amap :=
  match k with KPub => pubs s | KXPub => xpubs s | KSub => subs s | KCtr => ctrs s | KDest => dests s end.

Definition setm (k : kind) (m : amap) (s : st) : st :=
  match k with
  | KPub => mkSt m (xpubs s) (subs s) (ctrs s) (dests s) (orphans s) (next_corr s) (client_id s) (next_h s) (closed s) (driver_active s) (close_sent s) (now s) (t_work s) (t_keep s) (t_res s) (driver_hb s) (hb_env s) (hb_bound s) (ring_full s) (uclosed s)
  | KXPub => mkSt (pubs s) m (subs s) (ctrs s) (dests s) (orphans s) (next_corr s) (client_id s) (next_h s) (closed s) (driver_active s) (close_sent s) (now s) (t_work s) (t_keep s) (t_res s) (driver_hb s) (hb_env s) (hb_bound s) (ring_full s) (uclosed s)
  | KSub => mkSt (pubs s) (xpubs s) m (ctrs s) (dests s) (orphans s) (next_corr s) (client_id s) (next_h s) (closed s) (driver_active s) (close_sent s) (now s) (t_work s) (t_keep s) (t_res s) (driver_hb s) (hb_env s) (hb_bound s) (ring_full s) (uclosed s)
  | KCtr => mkSt (pubs s) (xpubs s) (subs s) m (dests s) (orphans s) (next_corr s) (client_id s) (next_h s) (closed s) (driver_active s) (close_sent s) (now s) (t_work s) (t_keep s) (t_res s) (driver_hb s) (hb_env s) (hb_bound s) (ring_full s) (uclosed s)
  | KDest => mkSt (pubs s) (xpubs s) (subs s) (ctrs s) m (orphans s) (next_corr s) (client_id s) (next_h s) (closed s) (driver_active s) (close_sent s) (now s) (t_work s) (t_keep s) (t_res s) (driver_hb s) (hb_env s) (hb_bound s) (ring_full s) (uclosed s)
  end.

Definition set_orphans v (s : st) := mkSt (pubs s) (xpubs s) (subs s) (ctrs s) (dests s) v (next_corr s) (client_id s) (next_h s) (closed s) (driver_active s) (close_sent s) (now s) (t_work s) (t_keep s) (t_res s) (driver_hb s) (hb_env s) (hb_bound s) (ring_full s) (uclosed s).
Definition set_next_corr v (s : st) := mkSt (pubs s) (xpubs s) (subs s) (ctrs s) (dests s) (orphans s) v (client_id s) (next_h s) (closed s) (driver_active s) (close_sent s) (now s) (t_work s) (t_keep s) (t_res s) (driver_hb s) (hb_env s) (hb_bound s) (ring_full s) (uclosed s).
Definition set_next_h v (s : st) := mkSt (pubs s) (xpubs s) (subs s) (ctrs s) (dests s) (orphans s) (next_corr s) (client_id s) v (closed s) (driver_active s) (close_sent s) (now s) (t_work s) (t_keep s) (t_res s) (driver_hb s) (hb_env s) (hb_bound s) (ring_full s) (uclosed s).
Definition set_closed v (s : st) := mkSt (pubs s) (xpubs s) (subs s) (ctrs s) (dests s) (orphans s) (next_corr s) (client_id s) (next_h s) v (driver_active s) (close_sent s) (now s) (t_work s) (t_keep s) (t_res s) (driver_hb s) (hb_env s) (hb_bound s) (ring_full s) (uclosed s).
Definition set_driver_active v (s : st) := mkSt (pubs s) (xpubs s) (subs s) (ctrs s) (dests s) (orphans s) (next_corr s) (client_id s) (next_h s) (closed s) v (close_sent s) (now s) (t_work s) (t_keep s) (t_res s) (driver_hb s) (hb_env s) (hb_bound s) (ring_full s) (uclosed s).
Definition set_close_sent v (s : st) := mkSt (pubs s) (xpubs s) (subs s) (ctrs s) (dests s) (orphans s) (next_corr s) (client_id s) (next_h s) (closed s) (driver_active s) v (now s) (t_work s) (t_keep s) (t_res s) (driver_hb s) (hb_env s) (hb_bound s) (ring_full s) (uclosed s).
Definition set_now v (s : st) := mkSt (pubs s) (xpubs s) (subs s) (ctrs s) (dests s) (orphans s) (next_corr s) (client_id s) (next_h s) (closed s) (driver_active s) (close_sent s) v (t_work s) (t_keep s) (t_res s) (driver_hb s) (hb_env s) (hb_bound s) (ring_full s) (uclosed s).
Definition set_t_work v (s : st) := mkSt (pubs s) (xpubs s) (subs s) (ctrs s) (dests s) (orphans s) (next_corr s) (client_id s) (next_h s) (closed s) (driver_active s) (close_sent s) (now s) v (t_keep s) (t_res s) (driver_hb s) (hb_env s) (hb_bound s) (ring_full s) (uclosed s).
Definition set_t_keep v (s : st) := mkSt (pubs s) (xpubs s) (subs s) (ctrs s) (dests s) (orphans s) (next_corr s) (client_id s) (next_h s) (closed s) (driver_active s) (close_sent s) (now s) (t_work s) v (t_res s) (driver_hb s) (hb_env s) (hb_bound s) (ring_full s) (uclosed s).
Definition set_t_res v (s : st) := mkSt (pubs s) (xpubs s) (subs s) (ctrs s) (dests s) (orphans s) (next_corr s) (client_id s) (next_h s) (closed s) (driver_active s) (close_sent s) (now s) (t_work s) (t_keep s) v (driver_hb s) (hb_env s) (hb_bound s) (ring_full s) (uclosed s).
Definition set_driver_hb v (s : st) := mkSt (pubs s) (xpubs s) (subs s) (ctrs s) (dests s) (orphans s) (next_corr s) (client_id s) (next_h s) (closed s) (driver_active s) (close_sent s) (now s) (t_work s) (t_keep s) (t_res s) v (hb_env s) (hb_bound s) (ring_full s) (uclosed s).
Definition set_hb_env v (s : st) := mkSt (pubs s) (xpubs s) (subs s) (ctrs s) (dests s) (orphans s) (next_corr s) (client_id s) (next_h s) (closed s) (driver_active s) (close_sent s) (now s) (t_work s) (t_keep s) (t_res s) (driver_hb s) v (hb_bound s) (ring_full s) (uclosed s).
Definition set_ring_full v (s : st) := mkSt (pubs s) (xpubs s) (subs s) (ctrs s) (dests s) (orphans s) (next_corr s) (client_id s) (next_h s) (closed s) (driver_active s) (close_sent s) (now s) (t_work s) (t_keep s) (t_res s) (driver_hb s) (hb_env s) (hb_bound s) v (uclosed s).
Definition set_uclosed v (s : st) := mkSt (pubs s) (xpubs s) (subs s) (ctrs s) (dests s) (orphans s) (next_corr s) (client_id s) (next_h s) (closed s) (driver_active s) (close_sent s) (now s) (t_work s) (t_keep s) (t_res s) (driver_hb s) (hb_env s) (hb_bound s) (ring_full s) v.
Definition set_hb_bound v (s : st) := mkSt (pubs s) (xpubs s) (subs s) (ctrs s) (dests s) (orphans s) (next_corr s) (client_id s) (next_h s) (closed s) (driver_active s) (close_sent s) (now s) (t_work s) (t_keep s) (t_res s) (driver_hb s) (hb_env s) v (ring_full s) (uclosed s).

(* ClientConductor::new on a fresh ring whose correlation counter is c0: DriverProxy::new takes the client id *)
Definition init (c0 now0 : Z) : st :=
  mkSt [] [] [] [] [] [] (c0 + 1) c0 0 false true false now0 now0 now0 now0 0 0 false false [].

Definition res := outcome (list Z).
Definition out := (res * list cb * list cmd)%type.

Definition KEEPALIVE_TIMEOUT_MS : Z := 500.
Definition RESOURCE_TIMEOUT_MS : Z := 1000.
Definition MAX_KEY : Z := GenConsts.MAX_KEY_LENGTH.
Definition MAX_LABEL : Z := GenConsts.MAX_LABEL_LENGTH.

(* ---- commands (src/driver_proxy.rs) ---- *)
Definition add_cmd_type (k : kind) (a1 : Z) : Z :=
  match k with
  | KPub => GenConsts.CMD_AddPublication
  | KXPub => GenConsts.CMD_AddExclusivePublication
  | KSub => GenConsts.CMD_AddSubscription
  | KCtr => GenConsts.CMD_AddCounter
  | KDest => if a1 =? 0 then GenConsts.CMD_AddDestination else if a1 =? 1 then GenConsts.CMD_RemoveDestination
             else if a1 =? 2 then GenConsts.CMD_AddRcvDestination else GenConsts.CMD_RemoveRcvDestination
  end.
Definition add_cmd_args (k : kind) (a1 a2 a3 : Z) : list Z :=
  match k with
  | KPub | KXPub => [a1; a2]
  | KSub => [-1; a1; a2]           (* registration_correlation_id = -1 *)
  | KCtr => [a1; a2; a3]
  | KDest => [a2; a3]
  end.
Definition remove_cmd_type (k : kind) : Z :=
  match k with
  | KPub | KXPub => GenConsts.CMD_RemovePublication
  | KSub => GenConsts.CMD_RemoveSubscription
  | _ => GenConsts.CMD_RemoveCounter
  end.

(* DriverProxy encodes a command in a 512-byte scratch buffer; ensure_command_fits refuses (IllegalArgument, before a
   correlation id is drawn) a command whose encoded length exceeds it: *_message_flyweight::encoded_length *)
Definition CMD_BUF : Z := 512.
Definition DEFAULT_CHANNEL_LENGTH : Z := 34.      (* "aeron:udp?endpoint=localhost:2000x", the channel the harness uses for channel number x *)
Definition chan_len (l : Z) : Z := if l =? 0 then DEFAULT_CHANNEL_LENGTH else l.
Definition add_cmd_len (k : kind) (a1 a2 a3 : Z) : Z :=
  match k with
  | KPub | KXPub => GenLayout.OFF_PublicationMessageDefn_channel_data + chan_len a3
  | KSub => GenLayout.OFF_SubscriptionMessageDefn_channel_data + chan_len a3
  | KCtr => GenLayout.SIZEOF_CounterMessageDefn + 4 + (a2 + 3) / 4 * 4 + 4 + a3
  | KDest => GenLayout.OFF_DestinationMessageDefn_channel_data + DEFAULT_CHANNEL_LENGTH
  end.
(* arguments add_* refuses with IllegalArgument *)
Definition add_illegal (k : kind) (a1 a2 a3 : Z) : bool :=
  (kind_eqb k KCtr && ((MAX_KEY <? a2) || (MAX_LABEL <? a3))) || (CMD_BUF <? add_cmd_len k a1 a2 a3).

Definition new_entry (t a1 a2 a3 : Z) : entry := mkEntry Awaiting (-1) t a1 a2 a3 (-1) (-1) (-1) (-1) None.

(* ---- add_publication / add_exclusive_publication / add_subscription / add_counter / *_destination ---- *)
Definition do_add (k : kind) (a1 a2 a3 : Z) (s : st) : st * out :=
  if negb (driver_active s) then (s, (Err DriverInactive, [], []))
  else if closed s then (s, (Err Closed, [], []))
  else if add_illegal k a1 a2 a3 then (s, (Err IllegalArg, [], []))
        (* add_counter's own key / label limits, then DriverProxy::ensure_command_fits: nothing is consumed, nothing written *)
  else
    let id := next_corr s in
    let s1 := set_next_corr (id + 1) s in
    if ring_full s then (s1, (Err IllegalState, [], []))       (* the id is taken, the command refused: nothing registered *)
    else
    let s2 := setm k (ins id (new_entry (now s) a1 a2 a3) (getm k s1)) s1 in
    (s2, (Ok [id], [], [Cmd (add_cmd_type k a1) (client_id s) id (add_cmd_args k a1 a2 a3)])).

Definition timed_out (c : config) (s : st) (e : entry) : bool := e_treg e + c_tdrv c <? now s.

Definition set_obj (o : option obj) (e : entry) : entry :=
  mkEntry (e_status e) (e_code e) (e_treg e) (e_a1 e) (e_a2 e) (e_a3 e) (e_d1 e) (e_d2 e) (e_d3 e) (e_d4 e) o.
Definition set_status (v : status) (e : entry) : entry :=
  mkEntry v (e_code e) (e_treg e) (e_a1 e) (e_a2 e) (e_a3 e) (e_d1 e) (e_d2 e) (e_d3 e) (e_d4 e) (e_obj e).
(* on_error_response; for an entry whose weak reference is dead the new status is never looked at (the lookup tests
   the weak reference first, closing skips it): the model leaves such an entry as it is *)
Definition set_error (code : Z) (e : entry) : entry :=
  match e_status e with
  | Dropped => e
  | _ => mkEntry Errored code (e_treg e) (e_a1 e) (e_a2 e) (e_a3 e) (e_d1 e) (e_d2 e) (e_d3 e) (e_d4 e) (e_obj e)
  end.
Definition set_ready (d1 d2 d3 d4 : Z) (o : option obj) (e : entry) : entry :=
  mkEntry Registered (e_code e) (e_treg e) (e_a1 e) (e_a2 e) (e_a3 e) d1 d2 d3 d4 o.

Definition obj_user (h : Z) (o : obj) : obj := mkObj true h (o_closed o) (o_images o) (o_d1 o) (o_d2 o) (o_d3 o).
Definition obj_close (o : obj) : obj := mkObj (o_user o) (o_h o) true (o_images o) (o_d1 o) (o_d2 o) (o_d3 o).
Definition obj_images (l : list Z) (o : obj) : obj := mkObj (o_user o) (o_h o) (o_closed o) l (o_d1 o) (o_d2 o) (o_d3 o).

(* ---- find_publication / find_exclusive_publication / find_subscription / find_counter / find_destination_response ---- *)
Definition do_find (c : config) (k : kind) (r : Z) (s : st) : st * out :=
  if closed s then (s, (Err Closed, [], []))
  else match lookup r (getm k s) with
  | None => (s, (Err NotFound, [], []))
  | Some e =>
    match k with
    | KDest =>
        match e_status e with
        | Awaiting => if timed_out c s e then (s, (Err NoResponse, [], [])) else (s, (Ok [0], [], []))
        | Registered => (s, (Ok [1], [], []))
        | Errored => (s, (Err (Registration (e_code e)), [], []))
        | Dropped => (s, (Err OtherErr, [], []))
        end
    | _ =>
      match e_obj e with
      | Some o =>
          (* the weak reference upgrades; a cached subscription / counter is handed out and the cache is cleared *)
          if o_user o then (s, (Ok [o_h o], [], []))
          else
            let h := next_h s in
            let s1 := set_next_h (h + 1) s in
            (setm k (upd r (set_obj (Some (obj_user h o))) (getm k s1)) s1, (Ok [h], [], []))
      | None =>
        match e_status e with
        | Dropped => (s, (Err OtherErr, [], []))      (* the weak reference is set but dead: PublicationAlreadyDropped / CounterAlreadyDropped *)
        | Awaiting => if timed_out c s e then (s, (Err NoResponse, [], [])) else (s, (Err NotReady, [], []))
        | Errored => (setm k (remove r (getm k s)) s, (Err (Registration (e_code e)), [], []))
        | Registered =>
            match k with
            | KPub | KXPub =>
                (* the publication object is built on the first lookup *)
                let h := next_h s in
                let s1 := set_next_h (h + 1) s in
                let o := mkObj true h false [] (e_d1 e) (e_d3 e) (match k with KPub => e_d4 e | _ => 0 end) in
                (setm k (upd r (set_obj (Some o)) (getm k s1)) s1, (Ok [h], [], []))
            | _ => (s, (Err OtherErr, [], []))     (* SubscriptionWasNotCreatedBefore / CounterWasNotCreatedBefore *)
            end
        end
      end
    end
  end.

(* verify_driver_is_active_via_error_handler *)
Definition inactive_cb (s : st) : list cb := if driver_active s then [] else [CbErr EInactive].

(* release_publication / release_exclusive_publication / release_subscription / release_counter, called by a
   destructor running on a user thread (the conductor mutex is free): the entry, if it is still there, is removed
   and one Remove* command is written; the images of a subscription are closed and reported. *)
Definition do_release (k : kind) (r : Z) (images : list Z) (s : st) : st * (list cb * list cmd) :=
  match lookup r (getm k s) with
  | Some _ =>
      let id := next_corr s in
      let s1 := set_next_corr (id + 1) s in
      if ring_full s then
        (* the Remove command is refused *)
        match k with
        | KPub | KCtr =>
            (* release_publication / release_counter propagate the error with `?`: the entry stays, its handle is gone *)
            (setm k (upd r (fun e => set_obj None (set_status Dropped e)) (getm k s1)) s1, (inactive_cb s, []))
        | _ =>
            (* release_exclusive_publication / release_subscription ignore it and finish the local part *)
            (setm k (remove r (getm k s1)) s1, (inactive_cb s ++ map (fun img => CbUnavailImg r img 1) images, []))
        end
      else
      (setm k (remove r (getm k s1)) s1,
       (inactive_cb s ++ map (fun img => CbUnavailImg r img 1) images, [Cmd (remove_cmd_type k) (client_id s) id [r]]))
  | None => (s, (inactive_cb s, []))
  end.

Fixpoint find_orphan (k : kind) (r : Z) (l : list (kind * Z * obj)) : option obj :=
  match l with
  | [] => None
  | (k', r', o) :: t => if kind_eqb k' k && (r' =? r) then Some o else find_orphan k r t
  end.
Definition remove_orphan (k : kind) (r : Z) (l : list (kind * Z * obj)) :=
  filter (fun p => negb (kind_eqb (fst (fst p)) k && (snd (fst p) =? r))) l.

(* the handle of (k, r) the user holds, if any: in its entry or among the orphans *)
Definition user_obj (k : kind) (r : Z) (s : st) : option obj :=
  match lookup r (getm k s) with
  | Some e => match e_obj e with
              | Some o => if o_user o then Some o else find_orphan k r (orphans s)
              | None => find_orphan k r (orphans s)
              end
  | None => find_orphan k r (orphans s)
  end.

(* Drop for Publication / ExclusivePublication / Subscription / Counter on a user thread *)
Definition dtor_user (k : kind) (r : Z) (o : obj) (s : st) : st * (list cb * list cmd) :=
  match k with
  | KPub | KXPub => do_release k r [] s
  | KSub => if o_closed o then (s, ([], [])) else do_release k r (o_images o) s
  | _ => if o_closed o then (s, ([], [])) else do_release k r [] s
  end.

Definition do_drop (k : kind) (r : Z) (s : st) : st * out :=
  match k with
  | KDest => (s, (Ok [0], [], []))
  | _ =>
    match user_obj k r s with
    | None => (s, (Ok [0], [], []))
    | Some o =>
        let '(s1, (cbs, cmds)) := dtor_user k r o s in
        (set_orphans (remove_orphan k r (orphans s1)) s1, (Ok [1], cbs, cmds))
    end
  end.

Definition in_uclosed (k : kind) (r : Z) (s : st) : bool :=
  existsb (fun p => kind_eqb (fst p) k && (snd p =? r)) (uclosed s).

(* is_closed() of the handle: closed by the conductor, or (publications) by the user's own close() *)
Definition do_peek (k : kind) (r : Z) (s : st) : st * out :=
  match user_obj k r s with
  | None => (s, (Ok [], [], []))
  | Some o => (s, (Ok [o_h o; if o_closed o || in_uclosed k r s then 1 else 0; Z.of_nat (length (o_images o)); o_d1 o; o_d2 o; o_d3 o], [], []))
  end.

(* Publication::close() / ExclusivePublication::close() called by the user on the handle it holds: the handle's closed flag is
   set (offers answer "closed" from then on); the conductor is not involved - the registration stays until the handle is
   dropped, which sends the Remove command as for every publication handle. (Counter::close() and
   Subscription::close_and_remove_images() are public as well; a user calling them is not modelled.) *)
Definition do_close_handle (k : kind) (r : Z) (s : st) : st * out :=
  match k with
  | KPub | KXPub =>
      match user_obj k r s with
      | Some _ => (set_uclosed ((k, r) :: uclosed s) s, (Ok [1], [], []))
      | None => (s, (Ok [0], [], []))
      end
  | _ => (s, (Ok [0], [], []))
  end.

(* ---- close_all_resources ---- *)
(* a destructor the conductor itself runs while its mutex is held: true = it locks the mutex again (hang) *)
Definition dtor_locked (o : obj) : bool := negb (o_closed o).

Definition objs_of (m : amap) : list (Z * obj) :=
  flat_map (fun p => match e_obj (snd p) with Some o => [(fst p, o)] | None => [] end) m.

(* publications: close() on every handle still alive; the user keeps the (closed) handle *)
Definition close_pubs (k : kind) (m : amap) : list (kind * Z * obj) :=
  map (fun p => (k, fst p, obj_close (snd p))) (objs_of m).

(* Subscription::close_and_remove_images + the unavailable-image callbacks *)
Definition close_sub_obj (r : Z) (o : obj) : obj * list cb :=
  if o_closed o then (o, [])
  else (obj_images [] (obj_close o), map (fun img => CbUnavailImg r img 1) (o_images o)).

Definition close_subs (m : amap) : list (Z * obj) * list cb :=
  let l := map (fun p => (fst p, close_sub_obj (fst p) (snd p))) (objs_of m) in
  (map (fun q => (fst q, fst (snd q))) l, flat_map (fun q => snd (snd q)) l).

Definition close_ctrs (m : amap) : list (Z * obj) * list cb :=
  let l := objs_of m in
  (map (fun p => (fst p, obj_close (snd p))) l, map (fun p => CbUnavailCtr (fst p) (o_d1 (snd p))) l).

Definition kept (k : kind) (l : list (Z * obj)) : list (kind * Z * obj) :=
  map (fun p => (k, fst p, snd p)) (filter (fun p => o_user (snd p)) l).
Definition dropped (l : list (Z * obj)) : list obj :=
  map snd (filter (fun p => negb (o_user (snd p))) l).

(* returns the new state, the callbacks and whether a destructor run under the mutex dead-locks *)
Definition close_all (s : st) : st * list cb * bool :=
  if closed s then (s, [], false)
  else
    let '(sl, scbs) := close_subs (subs s) in
    let '(cl, ccbs) := close_ctrs (ctrs s) in
    let orph := orphans s ++ close_pubs KPub (pubs s) ++ close_pubs KXPub (xpubs s) ++ kept KSub sl ++ kept KCtr cl in
    let hang := existsb dtor_locked (dropped sl ++ dropped cl) in
    let s1 := mkSt [] [] [] [] (dests s) orph (next_corr s) (client_id s) (next_h s) true (driver_active s) (close_sent s)
                   (now s) (t_work s) (t_keep s) (t_res s) (driver_hb s) (hb_env s) (hb_bound s) (ring_full s) (uclosed s) in
    (s1, scbs ++ ccbs ++ [CbClose], hang).

(* ---- Agent::on_close ---- *)
Definition do_close (s : st) : st * out :=
  let '(s1, cbs, hang) := close_all s in
  if hang then (s1, (Hang, cbs, []))
  else if close_sent s1 then (s1, (Ok [0], cbs, []))
  else
    let id := next_corr s1 in
    (set_close_sent true (set_next_corr (id + 1) s1),
     (Ok [0], cbs, if ring_full s1 then [] else [Cmd GenConsts.CMD_ClientClose (client_id s1) id []])).

(* ---- DriverListener for ClientConductor ---- *)
Fixpoint remove_first (x : Z) (l : list Z) : option (list Z) :=
  match l with
  | [] => None
  | y :: t => if y =? x then Some t else match remove_first x t with Some t' => Some (y :: t') | None => None end
  end.

Definition is_awaiting (e : entry) : bool := match e_status e with Awaiting => true | _ => false end.

Definition on_error (corr code : Z) (s : st) : st :=
  match lookup corr (subs s) with
  | Some _ => setm KSub (upd corr (set_error code) (subs s)) s
  | None =>
  match lookup corr (pubs s) with
  | Some _ => setm KPub (upd corr (set_error code) (pubs s)) s
  | None =>
  match lookup corr (xpubs s) with
  | Some _ => setm KXPub (upd corr (set_error code) (xpubs s)) s
  | None =>
  match lookup corr (ctrs s) with
  | Some _ => setm KCtr (upd corr (set_error code) (ctrs s)) s
  | None =>
  match lookup corr (dests s) with
  | Some _ => setm KDest (upd corr (set_error code) (dests s)) s
  | None => s
  end end end end end.

(* ---- on_channel_endpoint_error_response ----
   Every subscription / publication / exclusive publication whose handle is alive (the weak reference upgrades: a
   subscription from its ready answer on - cached or held -, a publication from its first lookup on, while the user holds
   it) and whose channel_status_id() equals the id `as i32` is marked: the error handler is called once per resource, the
   handle is closed (a subscription: its images are closed and reported, then it is closed), and the registration is
   forgotten (the user keeps the closed handle). Registrations without a live handle (Awaiting, Errored, a publication
   that was never looked up, a dropped handle) and counters / destinations are not touched.
   Subscriptions come first, then publications, then exclusive publications; inside one map the order is the HashMap's
   (here: the list's; the comparison with the implementation puts the groups in a canonical order). *)
Definition chan_id (k : kind) (o : obj) : Z := match k with KSub => o_d1 o | _ => o_d2 o end.
(* the live handle of the entry if it sits on that channel status indicator *)
Definition chan_hit (k : kind) (x : Z) (e : entry) : option obj :=
  match e_obj e with
  | Some o => if chan_id k o =? wrap32 x then Some o else None
  | None => None
  end.
(* is the registration forgotten? (a subscription only when close_and_remove_images really closed it) *)
Definition chan_removed (k : kind) (x : Z) (p : Z * entry) : bool :=
  match chan_hit k x (snd p) with
  | Some o => match k with KSub => negb (o_closed o) | _ => true end
  | None => false
  end.
Definition chan_keep (k : kind) (x : Z) (m : amap) : amap := filter (fun p => negb (chan_removed k x p)) m.
Definition chan_cbs (k : kind) (x : Z) (m : amap) : list cb :=
  flat_map (fun p => match chan_hit k x (snd p) with
                     | Some o => CbErr (EChannelEndpoint x) :: match k with KSub => snd (close_sub_obj (fst p) o) | _ => [] end
                     | None => []
                     end) m.
(* the handle after the conductor has closed it *)
Definition chan_closed_obj (k : kind) (r : Z) (o : obj) : obj :=
  match k with KSub => fst (close_sub_obj r o) | _ => obj_close o end.
(* closed handles the user still holds *)
Definition chan_orphans (k : kind) (x : Z) (m : amap) : list (kind * Z * obj) :=
  flat_map (fun p => match chan_hit k x (snd p) with
                     | Some o => if chan_removed k x p && (o_user o || negb (kind_eqb k KSub))
                                 then [(k, fst p, chan_closed_obj k (fst p) o)] else []
                     | None => []
                     end) m.
(* cached (never looked up) subscriptions whose registration is forgotten: their last strong reference goes away with the
   entry, the destructor runs while the conductor's mutex is held *)
Definition chan_dropped (x : Z) (m : amap) : list obj :=
  flat_map (fun p => match chan_hit KSub x (snd p) with
                     | Some o => if chan_removed KSub x p && negb (o_user o) then [chan_closed_obj KSub (fst p) o] else []
                     | None => []
                     end) m.

Definition on_chan_error (x : Z) (s : st) : st * list cb * bool :=
  let orph := orphans s ++ chan_orphans KSub x (subs s) ++ chan_orphans KPub x (pubs s) ++ chan_orphans KXPub x (xpubs s) in
  let s1 := setm KSub (chan_keep KSub x (subs s)) s in
  let s2 := setm KPub (chan_keep KPub x (pubs s)) s1 in
  let s3 := setm KXPub (chan_keep KXPub x (xpubs s)) s2 in
  (set_orphans orph s3,
   chan_cbs KSub x (subs s) ++ chan_cbs KPub x (pubs s) ++ chan_cbs KXPub x (xpubs s),
   existsb dtor_locked (chan_dropped x (subs s))).

(* returns state, callbacks, hang *)
Definition on_event (ev : event) (s : st) : st * list cb * bool :=
  match ev with
  | EvPubReady corr orig stream session limit chstat =>
      match lookup corr (pubs s) with
      | Some e => if is_awaiting e
                  then (setm KPub (upd corr (set_ready session limit chstat orig (e_obj e)) (pubs s)) s,
                        [CbNewPub corr stream session (e_a1 e)], false)
                  else (s, [], false)
      | None => (s, [], false)
      end
  | EvXPubReady id stream session limit chstat =>
      match lookup id (xpubs s) with
      | Some e => if is_awaiting e
                  then (setm KXPub (upd id (set_ready session limit chstat (-1) (e_obj e)) (xpubs s)) s,
                        [CbNewXPub id stream session (e_a1 e)], false)
                  else (s, [], false)
      | None => (s, [], false)
      end
  | EvSubReady corr chstat =>
      match lookup corr (subs s) with
      | Some e => if is_awaiting e
                  then (setm KSub (upd corr (set_ready (e_d1 e) (e_d2 e) (e_d3 e) (e_d4 e)
                                                (Some (mkObj false (-1) false [] chstat 0 0))) (subs s)) s,
                        [CbNewSub corr (e_a2 e) (e_a1 e)], false)
                  else (s, [], false)
      | None => (s, [], false)
      end
  | EvOpSuccess corr =>
      match lookup corr (dests s) with
      | Some e => if is_awaiting e then (setm KDest (upd corr (set_status Registered) (dests s)) s, [], false)
                  else (s, [], false)
      | None => (s, [], false)
      end
  | EvError corr code => (on_error corr code s, [], false)
  | EvAvailImage corr session subpos subreg =>
      match lookup subreg (subs s) with
      | Some e => match e_obj e with
                  | Some o => (setm KSub (upd subreg (set_obj (Some (obj_images (o_images o ++ [corr]) o))) (subs s)) s,
                               [CbAvailImg subreg corr session], false)
                  | None => (s, [], false)
                  end
      | None => (s, [], false)
      end
  | EvUnavailImage corr subreg =>
      match lookup subreg (subs s) with
      | Some e => match e_obj e with
                  | Some o => match remove_first corr (o_images o) with
                              | Some l => (setm KSub (upd subreg (set_obj (Some (obj_images l o))) (subs s)) s,
                                           [CbUnavailImg subreg corr 1], false)
                              | None => (s, [], false)
                              end
                  | None => (s, [], false)
                  end
      | None => (s, [], false)
      end
  | EvCounterReady corr cid =>
      match lookup corr (ctrs s) with
      | Some e => if is_awaiting e
                  then (setm KCtr (upd corr (set_ready cid (e_d2 e) (e_d3 e) (e_d4 e)
                                                (Some (mkObj false (-1) false [] cid 0 0))) (ctrs s)) s,
                        [CbAvailCtr corr cid], false)
                  else (s, [CbAvailCtr corr cid], false)
      | None => (s, [CbAvailCtr corr cid], false)
      end
  | EvUnavailCounter corr cid => (s, [CbUnavailCtr corr cid], false)
  | EvClientTimeout cid =>
      if (cid =? client_id s) && negb (closed s)
      then let '(s1, cbs, hang) := close_all s in (s1, cbs ++ [CbErr EClientTimeout], hang)
      else (s, [], false)
  | EvChanError x => on_chan_error x s
  end.

(* ---- on_heartbeat_check_timeouts ---- *)
(* inter-service time-out *)
Definition hc_service (c : config) (t : Z) (s : st) : st * list cb * bool :=
  if t_work s + c_tis c <? t
  then let '(s', cbs, hang) := close_all s in (s', cbs ++ [CbErr EServiceTimeout], hang)
  else (s, [], false).
(* driver keep-alive *)
Definition hc_driver (c : config) (t : Z) (s : st) : st * list cb :=
  if (0 <=? driver_hb s) && (driver_hb s + c_tdrv c <? t)
  then (set_driver_active false s, [CbErr EWasInactive]) else (s, []).
(* the client's own heartbeat counter *)
Definition hc_heartbeat (s : st) : st * list cb * bool :=
  if hb_bound s
  then if hb_env s =? 1 then (s, [], false)
       else let '(sc, cbs, hang) := close_all s in (sc, cbs ++ [CbErr EHeartbeatLost], hang)
  else if hb_env s =? 1 then (set_hb_bound true s, [], false) else (s, [], false).
Definition hc_keepalive (c : config) (t : Z) (s : st) : st * list cb * bool * bool :=
  if t_keep s + KEEPALIVE_TIMEOUT_MS <? t
  then let '(s', cbs') := hc_driver c t s in
       let '(s'', cbs'', hang'') := hc_heartbeat s' in
       (set_t_keep t s'', cbs' ++ cbs'', hang'', true)
  else (s, [], false, false).
(* on_check_managed_resources: log buffers and lingering images are property C12's *)
Definition hc_resources (t : Z) (s : st) : st * bool :=
  if t_res s + RESOURCE_TIMEOUT_MS <? t then (set_t_res t s, true) else (s, false).

Definition heartbeat_check (c : config) (s : st) : st * list cb * bool * bool (* hang, result *) :=
  let t := now s in
  let '(s1, cbs1, hang1) := hc_service c t s in
  let s2 := set_t_work t s1 in
  let '(s3, cbs3, hang3, r3) := hc_keepalive c t s2 in
  let '(s4, r4) := hc_resources t s3 in
  (s4, cbs1 ++ cbs3, hang1 || hang3, r3 || r4).

(* ---- Agent::do_work ---- *)
Definition do_work (c : config) (b : bcast) (s : st) : st * out :=
  match b with
  | BLapped => (s, (Err UnableToKeepUp, [], []))
  | BOversize => (s, (Err OtherErr, [], []))
  | _ =>
    let '(s1, cbs1, hang1, n1) :=
      match b with
      | BEvent ev => let '(s', cbs, hang) := on_event ev s in (s', cbs, hang, 1)
      | _ => (s, [], false, 0)
      end in
    if hang1 then (s1, (Hang, cbs1, []))
    else
      let '(s2, cbs2, hang2, r) := heartbeat_check c s1 in
      if hang2 then (s2, (Hang, cbs1 ++ cbs2, []))
      else (s2, (Ok [n1 + (if r then 1 else 0)], cbs1 ++ cbs2, []))
  end.

Definition step (c : config) (s : st) (o : op) : st * out :=
  match o with
  | Add k a1 a2 a3 => do_add k a1 a2 a3 s
  | Find k r => do_find c k r s
  | DropHandle k r => do_drop k r s
  | Peek k r => do_peek k r s
  | Close => do_close s
  | Tick d => (set_now (now s + d) s, (Ok [], [], []))
  | SetDriverHb t => (set_driver_hb t s, (Ok [], [], []))
  | SetHbCounter v => (set_hb_env v s, (Ok [], [], []))
  | SetRingFull b => (set_ring_full b s, (Ok [], [], []))
  | DoWork b => do_work c b s
  | CloseHandle k r => do_close_handle k r s
  end.

Fixpoint run (c : config) (s : st) (ops : list op) : st * list out :=
  match ops with
  | [] => (s, [])
  | o :: r => let '(s1, x) := step c s o in let '(s2, xs) := run c s1 r in (s2, x :: xs)
  end.

Definition run_obs (c0 now0 tdrv tis : Z) (ops : list op) : list out :=
  snd (run (mkCfg tdrv tis) (init c0 now0) ops).
