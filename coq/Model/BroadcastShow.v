(* Compact printable form of the observations of Model/Broadcast.v: byte strings are written
   in hexadecimal (two lower-case digits per byte), because printing long lists of numbers is
   what dominates the time of evaluating a case. hex is injective on byte lists (hex_inj, in
   Proofs/BroadcastMem.v), so nothing is lost. Definitions only. *)
From Coq Require Import String Ascii.
Require Import V.Base.MachineInt.
Require Import V.Model.Broadcast.
Open Scope Z_scope.

Definition hexd (n : Z) : ascii :=
  match n with
  | 0 => "0" | 1 => "1" | 2 => "2" | 3 => "3" | 4 => "4" | 5 => "5" | 6 => "6" | 7 => "7"
  | 8 => "8" | 9 => "9" | 10 => "a" | 11 => "b" | 12 => "c" | 13 => "d" | 14 => "e" | _ => "f"
  end%char.
Fixpoint hex (bs : list Z) : string :=
  match bs with
  | [] => EmptyString
  | b :: r => String (hexd (b / 16)) (String (hexd (b mod 16)) (hex r))
  end.

Inductive sres := SNone | SMsg (ty : Z) (s : string) | SErr (e : err).
Inductive sobs :=
| STxOk | STxErr (e : err) | SRx (lapped_after : Z) (r : sres) | SPanic | SCrash
| SWords (ws : list (Z * string)).

Definition show_rres (r : rres) : sres :=
  match r with RNone => SNone | RMsg ty bs => SMsg ty (hex bs) | RErr e => SErr e end.
Definition show_obs (o : obs) : sobs :=
  match o with
  | TxOk => STxOk | TxErr e => STxErr e | Rx l r => SRx l (show_rres r)
  | OPanic => SPanic | OCrash => SCrash
  | Words ws => SWords (map (fun p => (fst p, hex (snd p))) ws)
  end.

(* ---- concurrent runs (Model/BroadcastThreads.v) ---- *)
Require Import V.Model.BroadcastThreads.

Inductive cobs :=
| CCrash
| CObs (trace : list event) (tx_done : Z) (rx_results : list sres) (rx_end : rend) (lapped_count : Z)
       (ws : list (Z * string)).

Definition show_conc (cap : Z) (s : cstate) : cobs :=
  match r_end (c_rx s) with
  | RCrashed => CCrash
  | e => CObs (rev (c_trace s)) (t_done (c_tx s)) (map show_rres (rev (r_out (c_rx s)))) e
              (match e with RLive => lapped (r_rx (c_rx s)) | _ => -1 end)
              (map (fun p => (fst p, hex (snd p))) (sparse_words cap (c_mem s)))
  end.
