(* Thread-level model of Publication::try_claim (src/publication.rs, shared TermAppender::claim) followed by the claimant's
   use of BufferClaim, and the system of C03 with every kind of thread: shared publishers / environment / Image::poll reader
   (ReaderThreads), exclusive publisher (ExclThreads), shared claimer (here), subscriber with any poll flavour (PollThreads).

   try_claim is offer_opt of an unfragmented message up to the header burst - same reads, same get_and_add, same end-of-term
   handling and rotation - so the claimer runs the publisher machine of AppenderThreads and takes over where the claimant's
   part starts:
       [check_payload_length: too long => error before any access]
       ... put_ordered(-len) ; header burst ;                                  -- try_claim returns
       put_bytes payload ; [set_flags] [set_header_type] [set_reserved_value] ;
       commit = put_ordered(+len)     |     abort = put type PAD ; put_ordered(+len)
   Definitions only. *)
Require Import V.Base.MachineInt.
Require Import V.Generated.GenConsts.
Require Import V.Model.LogBase.
Require Import V.Model.Descriptor.
Require Import V.Model.Sched.
Require Import V.Model.AppenderThreads.
Require Import V.Model.ReaderThreads.
Require Import V.Model.ExclThreads.
Require Import V.Model.PollThreads.
Open Scope Z_scope.

Inductive qphase := QRun | QSet | QAbort.

Record qlocal := mkQL {
  q_p : plocal;                           (* the publisher machine; p_todo = the payloads still to claim *)
  q_extra : list (list xset * bool);      (* per payload of p_todo: header setters, abort? *)
  q_phase : qphase;
  q_sets : list xset
}.

(* check_payload_length fails before any shared access: every remaining attempt of the thread fails the same way *)
Definition q_fix (c : cfg) (l : plocal) : plocal :=
  match p_pc l with
  | PReadLimit =>
      if max_payload c <? mlen l
      then mkPL PDone (p_todo l) O (p_res l ++ repeat (Err TooLong) (S (p_budget l))) 0 0 0 0 0 0 0 0
      else l
  | _ => l
  end.

Definition q_init (c : cfg) (items : list (list Z * list xset * bool)) (budget : nat) : qlocal :=
  mkQL (q_fix c (p_start (map (fun i => fst (fst i)) items) budget []))
       (map (fun i => (snd (fst i), snd i)) items) QRun [].

Definition q_cur (l : qlocal) : list xset * bool := hd ([], false) (q_extra l).

Definition q_next (l : qlocal) (pl : plocal) (sets : list xset) : qlocal :=
  match sets with
  | _ :: _ => mkQL pl (q_extra l) QSet sets
  | [] => if snd (q_cur l) then mkQL pl (q_extra l) QAbort [] else mkQL (pl_pc pl PPosLen) (q_extra l) QRun []
  end.

Definition qstep (c : cfg) (t : nat) (s : shared) (l : qlocal) : option (shared * qlocal * event) :=
  let pl := q_p l in
  let p := AppenderThreads.r_idx pl in
  let m := sh_mem s in
  let o := p_foff pl in
  match q_phase l with
  | QRun =>
      match p_pc pl with
      | PBody =>
          (* the claimant fills the claim *)
          Some (with_mem s (mupd m p o (set_body (m p o) (frag_body c pl))), q_next l pl (fst (q_cur l)),
                ev t PutBytes p (o + HDR) (frag_bytes c pl) 0 0 0)
      | _ =>
          match pstep c t s pl with
          | Some (s', pl', e) =>
              let ex := if (length (p_todo pl') <? length (p_todo pl))%nat then tl (q_extra l) else q_extra l in
              Some (s', mkQL (q_fix c pl') ex QRun [], e)
          | None => None
          end
      end
  | QSet =>
      match q_sets l with
      | SFlags v :: r => Some (with_mem s (mupd m p o (set_flags (m p o) v)), q_next l pl r,
                               ev t Put p (o + GenConsts.DFH_FLAGS_FIELD_OFFSET) 1 v 0 0)
      | SType v :: r => Some (with_mem s (mupd m p o (set_type (m p o) v)), q_next l pl r,
                              ev t Put p (o + GenConsts.DFH_TYPE_FIELD_OFFSET) 2 v 0 0)
      | SResv v :: r => Some (with_mem s (mupd m p o (set_resv (m p o) v)), q_next l pl r,
                              ev t Put p (o + GenConsts.DFH_RESERVED_VALUE_FIELD_OFFSET) 8 v 0 0)
      | [] => None
      end
  | QAbort =>
      Some (with_mem s (mupd m p o (set_type (m p o) T_PAD)), mkQL (pl_pc pl PPosLen) (q_extra l) QRun [],
            ev t Put p (o + GenConsts.DFH_TYPE_FIELD_OFFSET) 2 T_PAD 0 0)
  end.

(* ---- the system with every kind of thread ---- *)
Inductive xthread := XOld (x : rthread) | XPub (l : xlocal) | XQ (l : qlocal) | XV (l : vlocal).

Definition xtstep (c : cfg) (t : nat) (s : shared) (th : xthread) : option (shared * xthread * event) :=
  match th with
  | XOld x => match rtstep c t s x with Some (s', x', e) => Some (s', XOld x', e) | None => None end
  | XPub l => match xstep c t s l with Some (s', l', e) => Some (s', XPub l', e) | None => None end
  | XQ l => match qstep c t s l with Some (s', l', e) => Some (s', XQ l', e) | None => None end
  | XV l => match vstep c t s l with Some (s', l', e) => Some (s', XV l', e) | None => None end
  end.

Definition xthread_obs (stop : nat -> option nat) (granted : nat -> nat) (t : nat) (th : xthread) : status * list (outcome Z) :=
  match th with
  | XOld x => rthread_obs stop granted t x
  | XPub l => (match x_pc l with XDone => Done | _ => Stopped end, x_res l)
  | XQ l => (match p_pc (q_p l) with PDone => Done | PPanicked => Panicked | _ => Stopped end, p_res (q_p l))
  | XV l => (match v_pc l with VDone => Done | _ => Stopped end, v_res l)
  end.

Definition xthread_frags (t : nat) (th : xthread) : list (Z * Z * Z * Z * list Z) :=
  match th with
  | XOld x => rthread_frags t x
  | XV l => map (fun f => let '(o, n, fl, b) := f in (Z.of_nat t, o, n, fl, b)) (v_frags l)
  | _ => []
  end.

Definition xthreads_of (ths : list xthread) : nat -> xthread := fun t => nth t ths (XOld (RApp TIdle)).

Definition run_casex (c : cfg) (limit : Z) (ths : list xthread) (sched : list nat) (stops : list (option nat)) :=
  let n := length ths in
  let '(s, th, g, tr) := run (xtstep c) n (Z.to_nat 20000) (stop_of stops) sched (init_shared c limit, xthreads_of ths) in
  (map ev_tuple tr, map (fun t => xthread_obs (stop_of stops) g t (th t)) (seq 0 n), dump c s,
   flat_map (fun t => xthread_frags t (th t)) (seq 0 n)).

Definition xold (x : rthread) : xthread := XOld x.
Definition xpub (c : cfg) (budget : nat) (items : list xitem) : xthread := XPub (x_init c items budget).
Definition xq (c : cfg) (budget : nat) (items : list (list Z * list xset * bool)) : xthread := XQ (q_init c items budget).
Definition xv (limit : Z) (polls : list flavour) : xthread := XV (viewer limit polls).
