(* Interleaving semantics shared by the thread-level models (AppenderThreads, ReaderThreads):
   - events = what hook H2 reports for one AtomicBuffer accessor call (which accessor, region, offset,
     length, operands, value before for reads / read-modify-writes);
   - a generic executable `run` of a family of thread machines over a schedule with crash points,
     mirroring harness/vcommon/src/sched.rs (entries naming finished / stopped threads are skipped,
     after the schedule the live threads run to completion in thread-id order);
   - the ordering *class* of an accessor, computed from the fence / atomic-operation table that the K1
     translator extracts from the sources (Generated/GenOrdering.v);
   - happens-before over a finite trace by vector clocks, and the race-freedom predicate.
   Definitions only. *)
Require Import V.Base.MachineInt.
From Coq Require Import Arith.PeanoNat.
Open Scope Z_scope.

(* constructor names = Debug names of aeron_rs::verif_hook::AccessKind *)
Inductive accessor :=
| Get | Put | GetVolatile | PutOrdered | PutAtomicI64 | CompareAndSetI32 | CompareAndSetI64
| GetAndAddI64 | AddI64Ordered | PutBytes | GetBytes | CopyFrom | SetMemory | RegionRead | RegionWrite
| View | ExclRawTail | ExclPutRawTailOrdered.

Definition accessor_eqb (a b : accessor) : bool :=
  match a, b with
  | Get, Get | Put, Put | GetVolatile, GetVolatile | PutOrdered, PutOrdered | PutAtomicI64, PutAtomicI64
  | CompareAndSetI32, CompareAndSetI32 | CompareAndSetI64, CompareAndSetI64 | GetAndAddI64, GetAndAddI64
  | AddI64Ordered, AddI64Ordered | PutBytes, PutBytes | GetBytes, GetBytes | CopyFrom, CopyFrom
  | SetMemory, SetMemory | RegionRead, RegionRead | RegionWrite, RegionWrite | View, View
  | ExclRawTail, ExclRawTail | ExclPutRawTailOrdered, ExclPutRawTailOrdered => true
  | _, _ => false
  end.

Record event := mkEv {
  e_tid : nat; e_acc : accessor; e_reg : Z; e_off : Z; e_len : Z; e_val : Z; e_val2 : Z; e_before : Z }.

(* printed form, equal to the harness line *)
Definition ev_tuple (e : event) :=
  (Z.of_nat (e_tid e), e_acc e, e_reg e, e_off e, e_len e, e_val e, e_val2 e, e_before e).
Definition tuple_ev (t : Z * accessor * Z * Z * Z * Z * Z * Z) : event :=
  let '(tid, a, r, o, l, v, v2, b) := t in mkEv (Z.to_nat tid) a r o l v v2 b.

(* ---------------------------------------------------------------------------------------------- *)
(* generic run over a schedule *)

Section Run.
  Context {St T : Type}.
  (* one granted step of thread t: perform the parked access and run to the next one;
     None = the thread has finished (or panicked): the schedule entry is skipped *)
  Variable step : nat -> St -> T -> option (St * T * event).

  Definition upd_thread (f : nat -> T) (t : nat) (x : T) : nat -> T :=
    fun t' => if Nat.eqb t' t then x else f t'.

  Definition step_cfg (t : nat) (c : St * (nat -> T)) : option (St * (nat -> T) * event) :=
    match step t (fst c) (snd c t) with
    | Some (s', x, e) => Some (s', upd_thread (snd c) t x, e)
    | None => None
    end.

  Definition stopped (stop : nat -> option nat) (granted : nat -> nat) (t : nat) : bool :=
    match stop t with Some k => Nat.leb k (granted t) | None => false end.

  Definition bump (g : nat -> nat) (t : nat) : nat -> nat := fun t' => if Nat.eqb t' t then S (g t') else g t'.

  (* state of a run: configuration, granted-step counters, trace (reversed) *)
  Definition rstate := (St * (nat -> T) * (nat -> nat) * list event)%type.

  Definition grant (stop : nat -> option nat) (t : nat) (r : rstate) : option rstate :=
    let '(s, th, g, tr) := r in
    if stopped stop g t then None
    else match step_cfg t (s, th) with
         | Some (s', th', e) => Some (s', th', bump g t, e :: tr)
         | None => None
         end.

  Fixpoint run_sched (stop : nat -> option nat) (sched : list nat) (r : rstate) : rstate :=
    match sched with
    | [] => r
    | t :: rest => match grant stop t r with
                   | Some r' => run_sched stop rest r'
                   | None => run_sched stop rest r
                   end
    end.

  Fixpoint run_thread (stop : nat -> option nat) (fuel : nat) (t : nat) (r : rstate) : rstate :=
    match fuel with
    | O => r
    | S f => match grant stop t r with
             | Some r' => run_thread stop f t r'
             | None => r
             end
    end.

  (* threads 0 .. n-1 run to completion one after another *)
  Fixpoint drain (stop : nat -> option nat) (fuel : nat) (ts : list nat) (r : rstate) : rstate :=
    match ts with
    | [] => r
    | t :: rest => drain stop fuel rest (run_thread stop fuel t r)
    end.

  Definition run (n : nat) (fuel : nat) (stop : nat -> option nat) (sched : list nat) (c : St * (nat -> T))
    : St * (nat -> T) * (nat -> nat) * list event :=
    let r0 : rstate := (fst c, snd c, (fun _ => O), []) in
    let '(s, th, g, tr) := drain stop fuel (seq 0 n) (run_sched stop sched r0) in
    (s, th, g, rev tr).
End Run.

Definition stop_of (ks : list (option nat)) : nat -> option nat := fun t => nth t ks None.

(* ---------------------------------------------------------------------------------------------- *)
(* ordering table (K1) -> access class *)

Inductive ordering := Relaxed | Acquire | Release | AcqRel | SeqCst.
(* what one accessor body does, in program order *)
Inductive mop :=
| Fence (o : ordering)
| PlainRead | PlainWrite
| AtomicLoad (o : ordering) | AtomicStore (o : ordering) | AtomicRmw (o : ordering)
| Call (a : accessor).            (* the accessor calls another accessor *)

Inductive aclass := CPlainR | CPlainW | CAcqR | CRelW | CScW | CRmw | CNone | CUnknown.

Definition acq_like (o : ordering) : bool := match o with Acquire | AcqRel | SeqCst => true | _ => false end.
Definition rel_like (o : ordering) : bool := match o with Release | AcqRel | SeqCst => true | _ => false end.

(* inline nested accessor calls (depth bounded by fuel; the table is acyclic) *)
Fixpoint inline (tbl : accessor -> list mop) (fuel : nat) (ops : list mop) : list mop :=
  match fuel with
  | O => ops
  | S f => flat_map (fun m => match m with Call a => inline tbl f (tbl a) | _ => [m] end) ops
  end.

(* classification of a flat body:
     reads then Fence(acquire-like)                       -> acquire read
     Fence(release-like) then a plain write (a plain read before the fence is allowed: add_i64_ordered) -> release write
     a single SeqCst atomic read-modify-write             -> rmw;   a single SeqCst store -> sc write
     only plain reads / only plain writes (copies count as writes of the destination) -> plain *)
Definition is_pr m := match m with PlainRead => true | _ => false end.
Definition is_pw m := match m with PlainWrite => true | _ => false end.
Definition class_of_ops (ops : list mop) : aclass :=
  match ops with
  | [] => CNone
  | [AtomicRmw SeqCst] => CRmw
  | [AtomicStore SeqCst] => CScW
  | [PlainRead; Fence o] => if acq_like o then CAcqR else CUnknown
  | [Fence o; PlainWrite] => if rel_like o then CRelW else CUnknown
  | [PlainRead; Fence o; PlainWrite] => if rel_like o then CRelW else CUnknown
  | _ => if forallb is_pr ops then CPlainR
         else if forallb (fun m => is_pr m || is_pw m) ops then CPlainW
         else CUnknown
  end.
Definition class_of (tbl : accessor -> list mop) (a : accessor) : aclass := class_of_ops (inline tbl 3 (tbl a)).

Definition is_write_class (c : aclass) : bool := match c with CPlainW | CRelW | CScW | CRmw => true | _ => false end.
Definition is_plain_class (c : aclass) : bool := match c with CPlainR | CPlainW => true | _ => false end.
Definition is_release_class (c : aclass) : bool := match c with CRelW | CScW | CRmw => true | _ => false end.
Definition is_acquire_class (c : aclass) : bool := match c with CAcqR | CRmw => true | _ => false end.

(* ---------------------------------------------------------------------------------------------- *)
(* happens-before by vector clocks over a finite (sequentially consistent) trace.
   hb = (program order  U  release-class write -> acquire-class access of the same location that reads it
         [SeqCst read-modify-writes are both])+ *)

Definition vc := list nat.                               (* index = thread id *)
Definition vc_get (v : vc) (t : nat) : nat := nth t v O.
Fixpoint vc_set (v : vc) (t : nat) (x : nat) : vc :=
  match t, v with
  | O, [] => [x]
  | O, _ :: r => x :: r
  | S t', [] => O :: vc_set [] t' x
  | S t', y :: r => y :: vc_set r t' x
  end.
Fixpoint vc_join (a b : vc) : vc :=
  match a, b with
  | [], _ => b
  | _, [] => a
  | x :: a', y :: b' => Nat.max x y :: vc_join a' b'
  end.
Fixpoint vc_le (a b : vc) : bool :=          (* a <= b pointwise, missing entries = 0 *)
  match a, b with
  | [], _ => true
  | x :: a', [] => Nat.eqb x O && vc_le a' []
  | x :: a', y :: b' => Nat.leb x y && vc_le a' b'
  end.

(* synchronisation location = (region, offset) of a release-class write; value = the writer's clock *)
Definition locmap := list (Z * Z * vc).
Fixpoint loc_get (m : locmap) (r o : Z) : option vc :=
  match m with
  | [] => None
  | (r', o', v) :: rest => if (r' =? r) && (o' =? o) then Some v else loc_get rest r o
  end.
Definition loc_set (m : locmap) (r o : Z) (v : vc) : locmap :=
  (r, o, v) :: filter (fun x => negb ((fst (fst x) =? r) && (snd (fst x) =? o))) m.
(* a plain write over a synchronisation location breaks the release sequence: drop every location it overlaps *)
Definition loc_kill (m : locmap) (r o len : Z) : locmap :=
  filter (fun x => negb ((fst (fst x) =? r) && (o <? snd (fst x) + 8) && (snd (fst x) <? o + len))) m.

Fixpoint set_nth_vc (l : list vc) (t : nat) (x : vc) : list vc :=
  match t, l with
  | O, [] => [x]
  | O, _ :: r => x :: r
  | S t', [] => [] :: set_nth_vc [] t' x
  | S t', y :: r => y :: set_nth_vc r t' x
  end.

(* stamp every event with the vector clock of its thread at the event (after acquiring) *)
Fixpoint stamp (cls : accessor -> aclass) (tr : list event) (clocks : list vc) (locs : locmap)
  : list (event * vc) :=
  match tr with
  | [] => []
  | e :: rest =>
      let t := e_tid e in
      let c := cls (e_acc e) in
      let mine0 := nth t clocks [] in
      let mine1 := vc_set mine0 t (S (vc_get mine0 t)) in
      let mine := if is_acquire_class c
                  then match loc_get locs (e_reg e) (e_off e) with Some v => vc_join mine1 v | None => mine1 end
                  else mine1 in
      let locs' := if is_release_class c then loc_set locs (e_reg e) (e_off e) mine
                   else if is_write_class c then loc_kill locs (e_reg e) (e_off e) (e_len e)
                   else locs in
      (e, mine) :: stamp cls rest (set_nth_vc clocks t mine) locs'
  end.

(* e1 (earlier in the trace) happens-before e2 iff e1's own component is covered by e2's clock *)
Definition hb_before (a b : event * vc) : bool :=
  Nat.leb (vc_get (snd a) (e_tid (fst a))) (vc_get (snd b) (e_tid (fst a))).

Definition overlaps (a b : event) : bool :=
  (e_reg a =? e_reg b) && (e_off a <? e_off b + e_len b) && (e_off b <? e_off a + e_len a).

(* two accesses conflict when they come from different threads, touch a common byte of a region selected
   by `watch`, at least one writes and at least one is a plain access *)
Definition conflict (cls : accessor -> aclass) (watch : Z -> bool) (a b : event) : bool :=
  negb (Nat.eqb (e_tid a) (e_tid b)) && watch (e_reg a) && overlaps a b &&
  (is_write_class (cls (e_acc a)) || is_write_class (cls (e_acc b))) &&
  (is_plain_class (cls (e_acc a)) || is_plain_class (cls (e_acc b))).

Fixpoint races_with (cls : accessor -> aclass) (watch : Z -> bool) (a : event * vc) (later : list (event * vc))
  : list (event * event) :=
  match later with
  | [] => []
  | b :: rest => (if conflict cls watch (fst a) (fst b) && negb (hb_before a b) then [(fst a, fst b)] else [])
                 ++ races_with cls watch a rest
  end.
Fixpoint races_in (cls : accessor -> aclass) (watch : Z -> bool) (st : list (event * vc)) : list (event * event) :=
  match st with
  | [] => []
  | a :: rest => races_with cls watch a rest ++ races_in cls watch rest
  end.

Definition races (cls : accessor -> aclass) (watch : Z -> bool) (tr : list event) : list (event * event) :=
  races_in cls watch (stamp cls tr [] []).
Definition race_free (cls : accessor -> aclass) (watch : Z -> bool) (tr : list event) : bool :=
  match races cls watch tr with [] => true | _ => false end.
