(* C19 - the URI grammar read backwards (specification, by hand, independent of the Rust source and of Model/Uri.v):
   cut a string at its first '?', the rest at every '|', every piece at its first '='.  Used by the oracle to say
   what an *accepted* string must have been parsed to, and by C19_accepted_in_grammar / C19_print_of_parse. *)
Require Import V.Base.MachineInt.
Require Import V.Model.UriTypes.
Require Import V.Model.UriSpec.
Open Scope Z_scope.

(* cut at the first occurrence of d *)
Fixpoint split_first (d : Z) (s : str) : option (str * str) :=
  match s with
  | [] => None
  | c :: r => if c =? d then Some ([], r)
              else match split_first d r with Some (a, b) => Some (c :: a, b) | None => None end
  end.

(* cut at every occurrence of d:  "a|b|" -> ["a"; "b"; ""] *)
Fixpoint split_all (d : Z) (s : str) : list str :=
  match s with
  | [] => [[]]
  | c :: r => if c =? d then [] :: split_all d r
              else match split_all d r with h :: t => (c :: h) :: t | [] => [[c]] end
  end.

Definition split_entry (g : str) : str * str :=
  match split_first CH_EQ g with Some kv => kv | None => (g, []) end.

(* what is in front of the '?', and the key=value pairs behind it in the order written (duplicates kept) *)
Definition uri_read (s : str) : str * params :=
  match split_first CH_QMARK s with
  | None => (s, [])
  | Some (h, t) => (h, map split_entry (split_all CH_BAR t))
  end.

(* [aeron-spy:]aeron:<media> *)
Definition uri_head (prefix media : str) : str :=
  (if is_empty prefix then [] else prefix ++ [CH_COLON]) ++ P_AERON ++ [CH_COLON] ++ media.
