(* Thread-level model of the exclusive publisher: ExclusivePublication::offer_opt / try_claim (src/exclusive_publication.rs)
   over ExclusiveTermAppender (src/concurrent/logbuffer/exclusive_term_appender.rs), HeaderWriter::write (header.rs) and
   BufferClaim (buffer_claim.rs): one program counter per shared-memory access that hook H2 reports.

     offer / try_claim:  get_volatile of the publication limit ; [position < limit, length checks]
                         put_raw_tail_ordered (term id, resulting offset)            -- the exclusive appender owns the tail
       fits the term:    per fragment: put_ordered(-len) ; header burst ; copy_from body ; [put flags] ; put reserved value ; put_ordered(+len)
                         a claim:      put_ordered(-len) ; header burst ;            -- try_claim returns here
                                       the claimant: put_bytes payload ; [set_flags] [set_header_type] [set_reserved_value] ;
                                       commit = put_ordered(+len)     |     abort = put type PAD ; put_ordered(+len)
       trips the term:   [padding iff term_offset < term_length: put_ordered(-len) ; header burst ; put type PAD ; put_ordered(+len)]
                         new_position: plain put of the next partition's tail ; put_ordered of the active term count  -> AdminAction
       not below limit:  get_volatile of the is-connected word  -> BackPressured / NotConnected  (MaxPositionExceeded without an access)

   The publication's own fields (term_offset, term_id, active_partition_index, term_begin_position) are thread-local state.
   Shared state, events and the step convention are those of AppenderThreads. Definitions only. *)
Require Import V.Base.MachineInt.
Require Import V.Generated.GenConsts.
Require Import V.Model.LogBase.
Require Import V.Model.Descriptor.
Require Import V.Model.Sched.
Require Import V.Model.AppenderThreads.
Open Scope Z_scope.

(* what the claimant may write into the header of a claim through BufferClaim *)
Inductive xset := SFlags (v : Z) | SType (v : Z) | SResv (v : Z).
Inductive xitem :=
| XOffer (msg : list Z)                                        (* offer_part *)
| XClaim (body : list Z) (sets : list xset) (abort : bool).    (* try_claim, fill, setters, commit / abort *)

Definition item_body (i : xitem) : list Z := match i with XOffer m => m | XClaim b _ _ => b end.
Definition item_len (i : xitem) : Z := Z.of_nat (length (item_body i)).
Definition is_claim (i : xitem) : bool := match i with XClaim _ _ _ => true | _ => false end.
Definition item_sets (i : xitem) : list xset := match i with XClaim _ s _ => s | _ => [] end.
Definition item_abort (i : xitem) : bool := match i with XClaim _ _ a => a | _ => false end.

Inductive xpc :=
| XLimit | XConn | XTail
| XNegLen | XHdr | XBody | XFlags | XResv | XPosLen
| XCBody | XCSet | XCAbort | XCPosLen
| XENegLen | XEHdr | XEType | XEPosLen
| XRotTail | XRotCount
| XDone.

Record xlocal := mkXL {
  x_pc : xpc;
  x_todo : list xitem;             (* items still to do; the head is the one being attempted *)
  x_budget : nat;                  (* attempts left after the current one *)
  x_res : list (outcome Z);        (* result of every finished attempt *)
  x_toff : Z; x_tid : Z; x_idx : Z; x_tbp : Z;    (* ExclusivePublication: term_offset, term_id, active_partition_index, term_begin_position *)
  x_limit : Z;                     (* limit read by the current attempt *)
  x_resoff : Z;                    (* resulting_offset of the current attempt *)
  x_foff : Z; x_rem : Z; x_flags : Z;             (* fragment loop: frame offset, bytes remaining, flags *)
  x_sets : list xset               (* header setters the claimant still has to call *)
}.

Definition xl_pc (l : xlocal) (pc : xpc) : xlocal :=
  mkXL pc (x_todo l) (x_budget l) (x_res l) (x_toff l) (x_tid l) (x_idx l) (x_tbp l) (x_limit l) (x_resoff l) (x_foff l) (x_rem l)
       (x_flags l) (x_sets l).
Definition xl_limit (l : xlocal) (pc : xpc) (lim resoff : Z) : xlocal :=
  mkXL pc (x_todo l) (x_budget l) (x_res l) (x_toff l) (x_tid l) (x_idx l) (x_tbp l) lim resoff (x_foff l) (x_rem l) (x_flags l) (x_sets l).
Definition xl_frag (l : xlocal) (pc : xpc) (foff rem flags : Z) : xlocal :=
  mkXL pc (x_todo l) (x_budget l) (x_res l) (x_toff l) (x_tid l) (x_idx l) (x_tbp l) (x_limit l) (x_resoff l) foff rem flags (x_sets l).
Definition xl_toff (l : xlocal) (toff : Z) : xlocal :=
  mkXL (x_pc l) (x_todo l) (x_budget l) (x_res l) toff (x_tid l) (x_idx l) (x_tbp l) (x_limit l) (x_resoff l) (x_foff l) (x_rem l)
       (x_flags l) (x_sets l).
Definition xl_sets (l : xlocal) (pc : xpc) (sets : list xset) : xlocal :=
  mkXL pc (x_todo l) (x_budget l) (x_res l) (x_toff l) (x_tid l) (x_idx l) (x_tbp l) (x_limit l) (x_resoff l) (x_foff l) (x_rem l)
       (x_flags l) sets.
Definition xl_term (l : xlocal) (pc : xpc) (toff tid idx tbp : Z) : xlocal :=
  mkXL pc (x_todo l) (x_budget l) (x_res l) toff tid idx tbp (x_limit l) (x_resoff l) (x_foff l) (x_rem l) (x_flags l) (x_sets l).

(* the thread body of the harness: every item is attempted until it succeeds, `budget` attempts in all. try_claim's
   check_payload_length fails before any shared access, so such attempts produce a result and no step *)
Fixpoint x_begin (c : cfg) (todo : list xitem) (budget : nat) (res : list (outcome Z)) (toff tid idx tbp : Z) : xlocal :=
  match todo, budget with
  | [], _ | _, O => mkXL XDone todo budget res toff tid idx tbp 0 0 0 0 0 []
  | it :: _, S b =>
      if is_claim it && (max_payload c <? item_len it) then x_begin c todo b (res ++ [Err TooLong]) toff tid idx tbp
      else mkXL XLimit todo b res toff tid idx tbp 0 0 0 0 0 []
  end.

Definition x_finish (c : cfg) (r : outcome Z) (l : xlocal) : xlocal :=
  let todo' := match r with Ok _ => tl (x_todo l) | _ => x_todo l end in
  x_begin c todo' (x_budget l) (x_res l ++ [r]) (x_toff l) (x_tid l) (x_idx l) (x_tbp l).

Definition x_item (l : xlocal) : xitem := hd (XOffer []) (x_todo l).
Definition x_len (l : xlocal) : Z := item_len (x_item l).

(* ExclusivePublication::new reads the count and the raw tail of the active partition before the run starts *)
Definition x_init (c : cfg) (items : list xitem) (budget : nat) : xlocal :=
  let tid := wrap32 (c_init c + c_n0 c) in
  x_begin c items budget [] (term_offset_of (raw_of tid (c_off0 c)) (TL c)) tid (index_by_term_count (c_n0 c))
          (compute_term_begin_position tid (c_bits c) (c_init c)).

Definition xbytes (c : cfg) (l : xlocal) : Z := Z.min (x_rem l) (max_payload c).
Definition xflen (c : cfg) (l : xlocal) : Z := xbytes c l + HDR.
Definition xbody (c : cfg) (l : xlocal) : list Z :=
  firstn (Z.to_nat (xbytes c l)) (skipn (Z.to_nat (x_len l - x_rem l)) (item_body (x_item l))).
Definition xflags (c : cfg) (l : xlocal) : Z := if x_rem l <=? max_payload c then Z.lor (x_flags l) F_END else x_flags l.

(* new_position(resulting_offset > 0) *)
Definition x_newpos_ok (c : cfg) (l : xlocal) : xlocal :=
  x_finish c (Ok (x_tbp l + x_resoff l)) (xl_toff l (x_resoff l)).

(* new_position(TERM_APPENDER_FAILED): the last term of the position space, or rotate *)
Definition x_newpos_fail (c : cfg) (l : xlocal) : xlocal :=
  if max_pos c <=? x_tbp l + TL c then x_finish c (Err MaxPositionExceeded) (xl_toff l (TL c))
  else xl_term l XRotTail 0 (wrap32 (x_tid l + 1)) (rem_t (x_idx l + 1) PARTITION_COUNT) (x_tbp l + TL c).

Definition after_xcommit (c : cfg) (l : xlocal) : xlocal :=
  let rem' := x_rem l - xbytes c l in
  if rem' <=? 0 then x_newpos_ok c l
  else xl_frag l XNegLen (x_foff l + align (xflen c l) FA) rem' 0.

(* after the claimant's payload / after a setter: the next thing the claimant does *)
Definition x_claim_next (l : xlocal) (sets : list xset) : xlocal :=
  match sets with
  | _ :: _ => xl_sets l XCSet sets
  | [] => xl_sets l (if item_abort (x_item l) then XCAbort else XCPosLen) []
  end.

Definition xstep (c : cfg) (t : nat) (s : shared) (l : xlocal) : option (shared * xlocal * event) :=
  let p := x_idx l in
  let m := sh_mem s in
  let n := x_len l in
  match x_pc l with
  | XLimit =>
      let lim := sh_limit s in
      let pos := x_tbp l + x_toff l in
      let l' :=
        if pos <? lim then
          if negb (is_claim (x_item l)) && is_fragmented c n && (max_msg c <? n) then x_finish c (Err TooLong) l
          else xl_limit l XTail lim (x_toff l + required c n)
        else if max_pos c <=? pos + n then x_finish c (Err MaxPositionExceeded) l
        else xl_limit l XConn lim 0 in
      Some (s, l', ev t GetVolatile R_CNT LIMIT_OFF 8 0 0 lim)
  | XConn =>
      Some (s, x_finish c (Err (if sh_conn s =? 1 then BackPressured else NotConnected)) l,
            ev t GetVolatile R_META CONN_OFF 4 0 0 (sh_conn s))
  | XTail =>
      let raw := raw_of (x_tid l) (x_resoff l) in
      let l' := if TL c <? x_resoff l then (if x_toff l <? TL c then xl_pc l XENegLen else x_newpos_fail c l)
                else xl_frag l XNegLen (x_toff l) n F_BEGIN in
      Some (with_tail s p raw, l', ev t ExclPutRawTailOrdered R_META (TAIL_OFF p) 8 raw 0 0)
  | XNegLen => let o := x_foff l in
      Some (with_mem s (mupd m p o (set_len (m p o) (- xflen c l))), xl_pc l XHdr, ev t PutOrdered p o 4 (- xflen c l) 0 0)
  | XHdr => let o := x_foff l in
      (* a claim: try_claim returns (new_position stores the resulting offset), the claimant goes on *)
      Some (with_mem s (mupd m p o (set_hdr c (m p o) o (x_tid l))),
            if is_claim (x_item l) then xl_toff (xl_pc l XCBody) (x_resoff l) else xl_pc l XBody,
            ev t RegionWrite p o HDR 0 0 0)
  | XBody => let o := x_foff l in
      Some (with_mem s (mupd m p o (set_body (m p o) (xbody c l))), xl_pc l (if is_fragmented c n then XFlags else XResv),
            ev t CopyFrom p (o + HDR) (xbytes c l) 0 0 0)
  | XFlags => let o := x_foff l in
      Some (with_mem s (mupd m p o (set_flags (m p o) (xflags c l))), xl_pc l XResv,
            ev t Put p (o + GenConsts.DFH_FLAGS_FIELD_OFFSET) 1 (xflags c l) 0 0)
  | XResv => let o := x_foff l in
      Some (with_mem s (mupd m p o (set_resv (m p o) 0)), xl_pc l XPosLen,
            ev t Put p (o + GenConsts.DFH_RESERVED_VALUE_FIELD_OFFSET) 8 0 0 0)
  | XPosLen => let o := x_foff l in
      Some (with_mem s (mupd m p o (set_len (m p o) (xflen c l))), after_xcommit c l, ev t PutOrdered p o 4 (xflen c l) 0 0)
  | XCBody => let o := x_foff l in
      Some (with_mem s (mupd m p o (set_body (m p o) (item_body (x_item l)))), x_claim_next l (item_sets (x_item l)),
            ev t PutBytes p (o + HDR) n 0 0 0)
  | XCSet => let o := x_foff l in
      match x_sets l with
      | SFlags v :: r => Some (with_mem s (mupd m p o (set_flags (m p o) v)), x_claim_next l r,
                               ev t Put p (o + GenConsts.DFH_FLAGS_FIELD_OFFSET) 1 v 0 0)
      | SType v :: r => Some (with_mem s (mupd m p o (set_type (m p o) v)), x_claim_next l r,
                              ev t Put p (o + GenConsts.DFH_TYPE_FIELD_OFFSET) 2 v 0 0)
      | SResv v :: r => Some (with_mem s (mupd m p o (set_resv (m p o) v)), x_claim_next l r,
                              ev t Put p (o + GenConsts.DFH_RESERVED_VALUE_FIELD_OFFSET) 8 v 0 0)
      | [] => None
      end
  | XCAbort => let o := x_foff l in
      Some (with_mem s (mupd m p o (set_type (m p o) T_PAD)), xl_pc l XCPosLen,
            ev t Put p (o + GenConsts.DFH_TYPE_FIELD_OFFSET) 2 T_PAD 0 0)
  | XCPosLen => let o := x_foff l in
      (* commit / abort: put_ordered of the capacity of the claim's view = the frame length *)
      Some (with_mem s (mupd m p o (set_len (m p o) (n + HDR))), x_finish c (Ok (x_tbp l + x_resoff l)) l,
            ev t PutOrdered p o 4 (n + HDR) 0 0)
  | XENegLen => let o := x_toff l in
      Some (with_mem s (mupd m p o (set_len (m p o) (- (TL c - o)))), xl_pc l XEHdr, ev t PutOrdered p o 4 (- (TL c - o)) 0 0)
  | XEHdr => let o := x_toff l in
      Some (with_mem s (mupd m p o (set_hdr c (m p o) o (x_tid l))), xl_pc l XEType, ev t RegionWrite p o HDR 0 0 0)
  | XEType => let o := x_toff l in
      Some (with_mem s (mupd m p o (set_type (m p o) T_PAD)), xl_pc l XEPosLen,
            ev t Put p (o + GenConsts.DFH_TYPE_FIELD_OFFSET) 2 T_PAD 0 0)
  | XEPosLen => let o := x_toff l in
      Some (with_mem s (mupd m p o (set_len (m p o) (TL c - o))), x_newpos_fail c l, ev t PutOrdered p o 4 (TL c - o) 0 0)
  | XRotTail =>
      (* initialize_tail_with_term_id: a plain put of term_id << 32 into the next partition's tail (locals already moved on) *)
      let raw := raw_tail_of_term (x_tid l) in
      Some (with_tail s p raw, xl_pc l XRotCount, ev t Put R_META (TAIL_OFF p) 8 raw 0 0)
  | XRotCount =>
      let cnt := wrap32 (x_tid l - c_init c) in
      Some (with_count s cnt, x_finish c (Err AdminAction) l, ev t PutOrdered R_META COUNT_OFF 4 cnt 0 0)
  | XDone => None
  end.
