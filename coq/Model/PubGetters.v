(* The getters of Publication / ExclusivePublication that expose the flow-control state:
   is_closed, is_connected, publication_limit, available_window, position, the geometry fixed at construction, and the
   exclusive publication's own cursor (term_id, term_offset).  Definitions only. *)
Require Import V.Base.MachineInt.
Require Import V.Generated.GenConsts.
Require Import V.Model.Descriptor.
Require Import V.Model.LogBase.
Require Import V.Model.Appender.
Require Import V.Model.Publication.
Require Import V.Model.ExclPublication.
Require Import V.Model.PubCases.
Open Scope Z_scope.

Definition b2z (b : bool) : Z := if b then 1 else 0.

(* !self.is_closed() && log_buffer_descriptor::is_connected(..) *)
Definition pub_is_connected (s : pubstate) : bool := negb (ps_closed s) && l_connected (ps_log s).
(* publication_limit() *)
Definition pub_limit (s : pubstate) : outcome Z := if ps_closed s then Err Closed else Ok (l_limit (ps_log s)).
(* available_window(): Ok(self.publication_limit.get_volatile() - self.position()?) *)
Definition window_of (m : mode) (closed : bool) (limit : Z) (position : outcome Z) : outcome Z :=
  if closed then Err Closed else p <- position ;; sub64 m limit p.
Definition pub_window (m : mode) (s : pubstate) : outcome Z :=
  window_of m (ps_closed s) (l_limit (ps_log s)) (pub_position m s).
Definition xpub_window (m : mode) (x : xpub) : outcome Z :=
  window_of m (ps_closed (x_pub x)) (l_limit (xlog x)) (xpub_position m x).

(* max_message_length, max_payload_length, term_buffer_length, position_bits_to_shift, initial_term_id, session_id, stream_id *)
Definition pub_statics (l : log) : list Z :=
  [max_message_length l; max_payload_length l; l_tlen l; bits_of l; l_init l; l_session l; l_stream l].

Definition pub_getters (m : mode) (s : pubstate) :=
  (b2z (ps_closed s), b2z (pub_is_connected s), pub_limit s, pub_window m s, pub_position m s, 0, 0).
Definition xpub_getters (m : mode) (x : xpub) :=
  (b2z (ps_closed (x_pub x)), b2z (pub_is_connected (x_pub x)), pub_limit (x_pub x), xpub_window m x, xpub_position m x,
   x_tid x, x_off x).

Fixpoint pub_gets_trace (m : mode) (rv : Z -> Z -> list Z -> Z) (s : pubstate) (ops : list op) :=
  match ops with
  | [] => []
  | o :: r => let s' := fst (pub_step m rv s o) in pub_getters m s' :: pub_gets_trace m rv s' r
  end.
Fixpoint xpub_gets_trace (m : mode) (rv : Z -> Z -> list Z -> Z) (x : xpub) (ops : list op) :=
  match ops with
  | [] => []
  | o :: r => let x' := fst (xpub_step m rv x o) in xpub_getters m x' :: xpub_gets_trace m rv x' r
  end.

(* what harness line `gets s|x ...` prints *)
Definition shared_gets (m : mode) (tlen mtu init n0 off0 : Z) (ops : list op) :=
  let s0 := pub_init (case_log tlen mtu init n0 off0) in
  (pub_statics (ps_log s0), pub_getters m s0 :: pub_gets_trace m harness_rv s0 ops).
Definition excl_gets (m : mode) (tlen mtu init n0 off0 : Z) (ops : list op) :=
  match xpub_new (case_log tlen mtu init n0 off0) with
  | Ok x0 => (pub_statics (xlog x0), xpub_getters m x0 :: xpub_gets_trace m harness_rv x0 ops)
  | _ => ([], [])
  end.
