(* Driver -> client events (C14).
   Specification side: `event`, `encode_event_spec` (the Aeron control protocol layouts, written as
   field lists whose offsets are the protocol's literal offsets, see `spec_offsets` in the proofs),
   `expected_callback` (which DriverListener method, with which arguments).
   Model side: `decode_event`, mirroring DriverListenerAdapter::receive_messages and the flyweight
   getters it uses (struct offsets from the K1 table Generated/GenLayout.v), and `adapter_receive`,
   mirroring CopyBroadcastReceiver::receive in front of it.  Definitions only. *)
Require Import V.Base.MachineInt V.Generated.GenConsts V.Generated.GenLayout.
Require Import V.Model.WireBytes V.Model.WireCodes.
Open Scope Z_scope.

(* ---------------- specification ---------------- *)
Inductive event :=
| EvPublicationReady (exclusive : bool) (correlation_id registration_id session_id stream_id
                      position_limit_counter_id channel_status_indicator_id : Z) (log_file : bytes)
| EvSubscriptionReady (correlation_id channel_status_indicator_id : Z)
| EvAvailableImage (correlation_id session_id stream_id subscription_registration_id subscriber_position_id : Z)
                   (log_file source_identity : bytes)
| EvOperationSuccess (correlation_id : Z)
| EvUnavailableImage (correlation_id subscription_registration_id stream_id : Z) (channel : bytes)
| EvError (offending_command_correlation_id error_code : Z) (message : bytes)
| EvCounterReady (correlation_id counter_id : Z)
| EvUnavailableCounter (correlation_id counter_id : Z)
| EvClientTimeout (client_id : Z).

Definition event_cmd (e : event) : cmd :=
  match e with
  | EvPublicationReady false _ _ _ _ _ _ _ => ResponseOnPublicationReady
  | EvPublicationReady true _ _ _ _ _ _ _ => ResponseOnExclusivePublicationReady
  | EvSubscriptionReady _ _ => ResponseOnSubscriptionReady
  | EvAvailableImage _ _ _ _ _ _ _ => ResponseOnAvailableImage
  | EvOperationSuccess _ => ResponseOnOperationSuccess
  | EvUnavailableImage _ _ _ _ => ResponseOnUnavailableImage
  | EvError _ _ _ => ResponseOnError
  | EvCounterReady _ _ => ResponseOnCounterReady
  | EvUnavailableCounter _ _ => ResponseOnUnavailableCounter
  | EvClientTimeout _ => ResponseOnClientTimeout
  end.

(* Aeron control protocol, driver -> client messages (io.aeron.command.*Flyweight):
     PublicationBuffersReady  correlation_id i64 @0, registration_id i64 @8, session_id i32 @16, stream_id i32 @20,
                              position_limit_counter_id i32 @24, channel_status_indicator_id i32 @28, log file string @32
     SubscriptionReady        correlation_id i64 @0, channel_status_indicator_id i32 @8
     ImageBuffersReady        correlation_id i64 @0, session_id i32 @8, stream_id i32 @12, subscription_registration_id i64 @16,
                              subscriber_position_id i32 @24, log file string @28, source identity string at the next
                              4-byte aligned offset
     OperationSucceeded       correlation_id i64 @0
     ImageMessage             correlation_id i64 @0, subscription_registration_id i64 @8, stream_id i32 @16, channel string @20
     ErrorResponse            offending_command_correlation_id i64 @0, error_code i32 @8, error message string @12
     CounterUpdate            correlation_id i64 @0, counter_id i32 @8
     ClientTimeout            client_id i64 @0
   a string is an i32 length followed by that many bytes. *)
Definition event_fields (e : event) : list field :=
  match e with
  | EvPublicationReady _ corr reg session stream limit status log =>
      [FI64 corr; FI64 reg; FI32 session; FI32 stream; FI32 limit; FI32 status; FStr log]
  | EvSubscriptionReady corr status => [FI64 corr; FI32 status]
  | EvAvailableImage corr session stream subreg subpos log src =>
      [FI64 corr; FI32 session; FI32 stream; FI64 subreg; FI32 subpos; FStr log; FPad (pad4 (Zlength log)); FStr src]
  | EvOperationSuccess corr => [FI64 corr]
  | EvUnavailableImage corr subreg stream channel => [FI64 corr; FI64 subreg; FI32 stream; FStr channel]
  | EvError off code msg => [FI64 off; FI32 code; FStr msg]
  | EvCounterReady corr id => [FI64 corr; FI32 id]
  | EvUnavailableCounter corr id => [FI64 corr; FI32 id]
  | EvClientTimeout id => [FI64 id]
  end.
Definition encode_event_spec (e : event) : bytes := fencs (event_fields e).

(* the DriverListener method that must be called, arguments in the order of the trait's signature *)
Inductive callback :=
| OnNewPublication (registration_id original_registration_id stream_id session_id
                    publication_limit_counter_id channel_status_indicator_id : Z) (log_file : bytes)
| OnNewExclusivePublication (registration_id original_registration_id stream_id session_id
                    publication_limit_counter_id channel_status_indicator_id : Z) (log_file : bytes)
| OnSubscriptionReady (registration_id channel_status_id : Z)
| OnOperationSuccess (correlation_id : Z)
| OnChannelEndpointError (offending_command_correlation_id : Z) (message : bytes)
| OnErrorResponse (offending_command_correlation_id error_code : Z) (message : bytes)
| OnAvailableImage (correlation_id session_id subscriber_position_id subscription_registration_id : Z)
                   (log_file source_identity : bytes)
| OnUnavailableImage (correlation_id subscription_registration_id : Z)
| OnAvailableCounter (registration_id counter_id : Z)
| OnUnavailableCounter (registration_id counter_id : Z)
| OnClientTimeout (client_id : Z)
| NoCallback.

(* ERROR_CODE_CHANNEL_ENDPOINT_ERROR of the protocol (io.aeron.ErrorCode.CHANNEL_ENDPOINT_ERROR) *)
Definition CHANNEL_ENDPOINT_ERROR_SPEC : Z := 4.

Definition expected_callback (e : event) : callback :=
  match e with
  | EvPublicationReady false corr reg session stream limit status log =>
      OnNewPublication corr reg stream session limit status log
  | EvPublicationReady true corr reg session stream limit status log =>
      OnNewExclusivePublication corr reg stream session limit status log
  | EvSubscriptionReady corr status => OnSubscriptionReady corr status
  | EvAvailableImage corr session _ subreg subpos log src => OnAvailableImage corr session subpos subreg log src
  | EvOperationSuccess corr => OnOperationSuccess corr
  | EvUnavailableImage corr subreg _ _ => OnUnavailableImage corr subreg
  | EvError off code msg =>
      if code =? CHANNEL_ENDPOINT_ERROR_SPEC then OnChannelEndpointError off msg else OnErrorResponse off code msg
  | EvCounterReady corr id => OnAvailableCounter corr id
  | EvUnavailableCounter corr id => OnUnavailableCounter corr id
  | EvClientTimeout id => OnClientTimeout id
  end.

(* field values a driver can send: i64 / i32 ranges, strings without NUL *)
Definition wf_str (s : bytes) : bool := all_chars s.
Definition wf_event (e : event) : bool :=
  match e with
  | EvPublicationReady _ corr reg session stream limit status log =>
      in_i64 corr && in_i64 reg && in_i32 session && in_i32 stream && in_i32 limit && in_i32 status && wf_str log
  | EvSubscriptionReady corr status => in_i64 corr && in_i32 status
  | EvAvailableImage corr session stream subreg subpos log src =>
      in_i64 corr && in_i32 session && in_i32 stream && in_i64 subreg && in_i32 subpos && wf_str log && wf_str src
  | EvOperationSuccess corr => in_i64 corr
  | EvUnavailableImage corr subreg stream channel => in_i64 corr && in_i64 subreg && in_i32 stream && wf_str channel
  | EvError off code msg => in_i64 off && in_i32 code && wf_str msg
  | EvCounterReady corr id => in_i64 corr && in_i32 id
  | EvUnavailableCounter corr id => in_i64 corr && in_i32 id
  | EvClientTimeout id => in_i64 id
  end.

(* ---------------- model of the code ---------------- *)
(* CopyBroadcastReceiver's scratch buffer: AlignedBuffer::with_capacity(4096), zero-filled *)
Definition SCRATCH_CAPACITY : Z := 4096.

(* AtomicBuffer::get_string(offset) on the scratch buffer holding message bs at offset 0:
     bounds_check(offset, 4); length = get::<i32>(offset); bounds_check(offset + 4, length);
     copy `length` bytes.  bounds_check(idx, len) is assert!(idx + len <= capacity).
   A negative length passes the check and then asks for a slice of `length as usize` bytes; the
   model says Panic there (never exercised: outside the property's domain). *)
Definition get_string (bs : bytes) (off : Z) : outcome bytes :=
  if off + 4 <=? SCRATCH_CAPACITY then
    let len := get_i32 bs off in
    if off + 4 + len <=? SCRATCH_CAPACITY then
      if 0 <=? len then Ok (slice_pad bs (off + 4) len) else Panic
    else Panic
  else Panic.

(* AtomicBuffer::get_string_length *)
Definition get_string_length (bs : bytes) (off : Z) : outcome Z :=
  if off + 4 <=? SCRATCH_CAPACITY then Ok (get_i32 bs off) else Panic.

(* ImageBuffersReadyFlyweight::source_identity_offset:
     offset = IMAGE_BUFFERS_READY_LENGTH; offset + 4 + align(string_get_length(offset), 4)
   (i32 arithmetic; the values stay far below 2^31 on the 4096-byte scratch for lengths >= 0) *)
Definition source_identity_offset (m : mode) (bs : bytes) : outcome Z :=
  let off := IMAGE_BUFFERS_READY_LENGTH in
  len <- get_string_length bs off ;;
  s <- add32 m len 3 ;;
  let aligned := (s / 4) * 4 in
  a <- add32 m off 4 ;;
  add32 m a aligned.

(* DriverListenerAdapter::receive_messages: the `match msg` with the getters of each arm, in the
   order in which the arm passes them to the listener *)
Definition decode_event (m : mode) (c : cmd) (bs : bytes) : outcome callback :=
  match c with
  | ResponseOnPublicationReady =>
      log <- get_string bs OFF_PublicationBuffersReadyDefn_log_file_length ;;
      Ok (OnNewPublication
            (get_i64 bs OFF_PublicationBuffersReadyDefn_correlation_id)
            (get_i64 bs OFF_PublicationBuffersReadyDefn_registration_id)
            (get_i32 bs OFF_PublicationBuffersReadyDefn_stream_id)
            (get_i32 bs OFF_PublicationBuffersReadyDefn_session_id)
            (get_i32 bs OFF_PublicationBuffersReadyDefn_position_limit_counter_id)
            (get_i32 bs OFF_PublicationBuffersReadyDefn_channel_status_indicator_id)
            log)
  | ResponseOnExclusivePublicationReady =>
      log <- get_string bs OFF_PublicationBuffersReadyDefn_log_file_length ;;
      Ok (OnNewExclusivePublication
            (get_i64 bs OFF_PublicationBuffersReadyDefn_correlation_id)
            (get_i64 bs OFF_PublicationBuffersReadyDefn_registration_id)
            (get_i32 bs OFF_PublicationBuffersReadyDefn_stream_id)
            (get_i32 bs OFF_PublicationBuffersReadyDefn_session_id)
            (get_i32 bs OFF_PublicationBuffersReadyDefn_position_limit_counter_id)
            (get_i32 bs OFF_PublicationBuffersReadyDefn_channel_status_indicator_id)
            log)
  | ResponseOnSubscriptionReady =>
      Ok (OnSubscriptionReady
            (get_i64 bs OFF_SubscriptionReadyDefn_correlation_id)
            (get_i32 bs OFF_SubscriptionReadyDefn_channel_status_indicator_id))
  | ResponseOnAvailableImage =>
      log <- get_string bs IMAGE_BUFFERS_READY_LENGTH ;;
      so <- source_identity_offset m bs ;;
      src <- get_string bs so ;;
      Ok (OnAvailableImage
            (get_i64 bs OFF_ImageBuffersReadyDefn_correlation_id)
            (get_i32 bs OFF_ImageBuffersReadyDefn_session_id)
            (get_i32 bs OFF_ImageBuffersReadyDefn_subscriber_position_id)
            (get_i64 bs OFF_ImageBuffersReadyDefn_subscription_registration_id)
            log src)
  | ResponseOnOperationSuccess =>
      Ok (OnOperationSuccess (get_i64 bs OFF_OperationSucceededDefn_correlation_id))
  | ResponseOnUnavailableImage =>
      Ok (OnUnavailableImage
            (get_i64 bs OFF_ImageMessageDefn_correlation_id)
            (get_i64 bs OFF_ImageMessageDefn_subscription_registration_id))
  | ResponseOnError =>
      let code := get_i32 bs OFF_ErrorResponseDefn_error_code in
      msg <- get_string bs OFF_ErrorResponseDefn_error_message_length ;;
      if ERROR_CODE_CHANNEL_ENDPOINT_ERROR =? code
      then Ok (OnChannelEndpointError (get_i64 bs OFF_ErrorResponseDefn_offending_command_correlation_id) msg)
      else Ok (OnErrorResponse (get_i64 bs OFF_ErrorResponseDefn_offending_command_correlation_id) code msg)
  | ResponseOnCounterReady =>
      Ok (OnAvailableCounter
            (get_i64 bs OFF_CounterUpdateDefn_correlation_id)
            (get_i32 bs OFF_CounterUpdateDefn_counter_id))
  | ResponseOnUnavailableCounter =>
      Ok (OnUnavailableCounter
            (get_i64 bs OFF_CounterUpdateDefn_correlation_id)
            (get_i32 bs OFF_CounterUpdateDefn_counter_id))
  | ResponseOnClientTimeout =>
      Ok (OnClientTimeout (get_i64 bs OFF_ClientTimeoutDefn_client_id))
  | _ => Panic        (* unreachable!("Unexpected control protocol event") *)
  end.

(* CopyBroadcastReceiver::receive on one record (type_id, bs) that was received in order:
   length check against the scratch buffer, then from_command_id, copy, handler *)
Definition adapter_receive (m : mode) (type_id : Z) (bs : bytes) : outcome callback :=
  if Zlength bs >? SCRATCH_CAPACITY then Err TooLong     (* BroadcastTransmitError::BufferTooSmall *)
  else c <- from_id type_id ;; decode_event m c bs.

(* what a user of the client can see of a listener call: ClientConductor::on_client_timeout acts
   only on its own client id *)
Definition visible (own_client_id : Z) (cb : callback) : callback :=
  match cb with
  | OnClientTimeout id => if id =? own_client_id then cb else NoCallback
  | _ => cb
  end.
Definition visible_o (own : Z) (o : outcome callback) : outcome callback :=
  match o with Ok cb => Ok (visible own cb) | x => x end.

(* deterministic strings shared with the harness (harness/c14: fn chars / pathchars):
   chars k n      n printable ASCII bytes 33..126
   pathchars k n  n bytes a..z with a '/' at every position = 199 mod 200 (a relative path of
                  directories of 199 letters); the generator keeps n mod 200 <> 0 *)
Definition pathchars (k n : Z) : bytes :=
  gen_bytes (fun i => if i mod 200 =? 199 then 47 else 97 + (k * 31 + i * 7) mod 26) 0 (Z.to_nat n).
