(* Model of src/concurrent/logbuffer/term_appender.rs (shared TermAppender) and of the pieces every
   publisher-side model shares: frames as HeaderWriter::write produces them, writing entries into a term,
   the padding frame of handle_end_of_log_condition, BufferClaim commit / abort, the fragment loop,
   and the vectored ("bulk") buffer walks.

   The reserved-value supplier `rv` is applied to (term offset, frame length, payload bytes of the frame as they are in
   the term buffer when the source calls it: after the body copy, before the length is committed).

   get_and_add_raw_tail is modelled with its sequential semantics (nobody else moves the tail between
   the publication's read of the tail and the appender's fetch-add); interleavings belong to C02.

   The bulk walks are modelled as the list of copy_from calls they issue, in order
   (destination offset in the term, requested length, bytes copied); the frame body is what those
   copies leave in the frame's payload area (`tile`).  The definitions named *_asis mirror the loops of
   the repository before fixes/C18-bulk.diff, the others the repaired loops.
   Definitions only. *)
Require Import V.Base.MachineInt.
Require Import V.Generated.GenConsts.
Require Import V.Model.Descriptor.
Require Import V.Model.LogBase.
Open Scope Z_scope.

Notation "' p <- e ;; k" := (bind e (fun p => k)) (at level 61, p pattern, e at next level, right associativity).

Definition TERM_APPENDER_FAILED : Z := GenConsts.TERM_APPENDER_FAILED.   (* -2 *)
Definition MAX_MESSAGE_LENGTH : Z := GenConsts.MAX_MESSAGE_LENGTH.

(* ---- lists indexed by Z ---- *)
Definition zlen {A} (l : list A) : Z := Z.of_nat (length l).
Definition slice {A} (l : list A) (off n : Z) : list A := firstn (Z.to_nat n) (skipn (Z.to_nat off) l).

(* ---- geometry derived from the log meta data, as Publication::new computes it ---- *)
Fixpoint ntz_pos (p : positive) : Z := match p with xO q => 1 + ntz_pos q | _ => 0 end.
(* i32::trailing_zeros *)
Definition ntz (z : Z) : Z := match z with Zpos p => ntz_pos p | Z0 => 32 | Zneg p => ntz_pos p end.

Definition bits_of (l : log) : Z := ntz (l_tlen l).
Definition max_payload_length (l : log) : Z := l_mtu l - HDR.
(* frame_descriptor::compute_max_message_length: min(capacity / 8, MAX_MESSAGE_LENGTH) *)
Definition max_message_length (l : log) : Z := Z.min (Z.quot (l_tlen l) 8) MAX_MESSAGE_LENGTH.
(* (capacity as i64) << 31 *)
Definition max_possible_position (l : log) : Z := shl64 (l_tlen l) 31.

(* ---- entries in a term ---- *)
(* maximal prefix of entries that end at or before `off` *)
Fixpoint term_truncate (t : term) (off : Z) : term :=
  match t with
  | [] => []
  | e :: r => if entry_span e <=? off then e :: term_truncate r (off - entry_span e) else []
  end.

(* memory writes that lay `es` out from offset `off` on: what was there from `off` on is replaced,
   a hole before `off` is left undescribed *)
Definition term_put (t : term) (off : Z) (es : list entry) : term :=
  let p := term_truncate t off in
  let gap := off - term_end p in
  p ++ (if 0 <? gap then [Unknown gap] else []) ++ es.

(* apply g to the entry that starts exactly at `off` *)
Fixpoint term_update (t : term) (off : Z) (g : entry -> entry) : term :=
  match t with
  | [] => []
  | e :: r => if off =? 0 then g e :: r
              else if entry_span e <=? off then e :: term_update r (off - entry_span e) g
              else e :: r
  end.

(* HeaderWriter::write(term_buffer, offset, length, term_id) followed by whatever the caller patches:
   version 0, flags, type, term offset, session, stream, term id; reserved value as given *)
Definition data_frame (l : log) (off flen tid flags typ rv : Z) (body : list Z) : frame :=
  mkFrame flen GenConsts.CURRENT_VERSION flags typ off (l_session l) (l_stream l) tid rv body.

(* handle_end_of_log_condition: a padding frame from `off` to the end of the term when off < term length *)
Definition padding_entries (l : log) (off tid : Z) : list entry :=
  if off <? l_tlen l
  then [Committed (data_frame l off (l_tlen l - off) tid F_UNFRAG T_PAD 0 [])]
  else [].
Definition put_padding (l : log) (idx off tid : Z) : log :=
  if off <? l_tlen l then set_part l idx (term_put (part l idx) off (padding_entries l off tid)) else l.

(* BufferClaim::commit after the caller wrote `body` into the claimed range; BufferClaim::abort *)
Definition commit_entry (body : list Z) (e : entry) : entry :=
  match e with
  | Claimed f | Committed f =>
      Committed (mkFrame (f_len f) (f_version f) (f_flags f) (f_type f) (f_term_off f) (f_session f) (f_stream f)
                         (f_term_id f) (f_reserved f) body)
  | Unknown n => Unknown n
  end.
Definition abort_entry (e : entry) : entry :=
  match e with
  | Claimed f | Committed f =>
      Committed (mkFrame (f_len f) (f_version f) (f_flags f) T_PAD (f_term_off f) (f_session f) (f_stream f)
                         (f_term_id f) (f_reserved f) (f_body f))
  | Unknown n => Unknown n
  end.

(* ---- lengths ---- *)
(* frame_length = length + LENGTH ; aligned_length = align(frame_length, FRAME_ALIGNMENT) *)
Definition unfrag_lengths (m : mode) (len : Z) : outcome (Z * Z) :=
  fl <- add32 m len HDR ;; al <- align32 m fl ;; Ok (fl, al).

(* required_length of append_fragmented_message(_bulk) *)
Definition frag_required (m : mode) (len mpl : Z) : outcome Z :=
  if mpl =? 0 then Panic else        (* division by zero *)
  let nmp := Z.quot len mpl in
  let rp := Z.rem len mpl in
  last <- (if 0 <? rp then (s <- add32 m rp HDR ;; align32 m s) else Ok 0) ;;
  fr <- add32 m mpl HDR ;;
  a <- mul32 m nmp fr ;;
  add32 m a last.

(* specification-side closed forms (proved equal on the legal domain) *)
Definition unfrag_required_spec (len : Z) : Z := align (len + HDR) FA.
Definition frag_required_spec (len mpl : Z) : Z :=
  (len / mpl) * (mpl + HDR) + (if 0 <? len mod mpl then align (len mod mpl + HDR) FA else 0).
Definition required_spec (len mpl : Z) : Z :=
  if len <=? mpl then unfrag_required_spec len else frag_required_spec len mpl.

(* ---- the shared appender's tail claim ---- *)
Record claimed := mkClaimed { c_log : log; c_off : Z (* term_offset: i64, raw_tail & 0xFFFF_FFFF *); c_tid : Z }.

(* raw_tail = get_and_add_raw_tail(required) ; term_offset ; term_id ; check_term *)
Definition tail_claim (l : log) (idx required active_term_id : Z) : outcome claimed :=
  let raw := tail l idx in
  let l1 := set_tail l idx (wrap64 (raw + required)) in
  let term_offset := raw mod two32 in
  let tid := term_id_of raw in
  if tid =? active_term_id then Ok (mkClaimed l1 term_offset tid) else Err IllegalState.

(* the fragment loop of append_fragmented_message: one frame per iteration *)
Fixpoint frag_loop (fuel : nat) (l : log) (rv : Z -> Z -> list Z -> Z) (tid mpl length : Z) (msg : list Z)
                   (flags remaining frame_offset : Z) : list entry :=
  match fuel with
  | O => []
  | S f =>
      let btw := Z.min remaining mpl in
      let flen := btw + HDR in
      let alen := align flen FA in
      let body := slice msg (length - remaining) btw in
      let flags' := if remaining <=? mpl then Z.lor flags F_END else flags in
      let fr := data_frame l frame_offset flen tid flags' T_DATA (rv frame_offset flen body) body in
      let remaining' := remaining - btw in
      Committed fr :: (if remaining' <=? 0 then [] else frag_loop f l rv tid mpl length msg 0 remaining' (frame_offset + alen))
  end.
Definition frag_fuel (len mpl : Z) : nat := S (Z.to_nat (len / mpl)).

(* result of the four append flavours: new log, resulting offset, and for claim the claimed frame *)
Record appended := mkAppended { a_log : log; a_result : Z; a_claim : option (Z * Z * Z) (* partition, frame offset, frame length *) }.

Definition end_of_log (c : claimed) (idx : Z) : appended :=
  mkAppended (put_padding (c_log c) idx (c_off c) (c_tid c)) TERM_APPENDER_FAILED None.

(* TermAppender::claim *)
Definition ta_claim (m : mode) (l : log) (idx len active_term_id : Z) : outcome appended :=
  '(fl, al) <- unfrag_lengths m len ;;
  c <- tail_claim l idx al active_term_id ;;
  let resulting := c_off c + al in
  if l_tlen l <? resulting then Ok (end_of_log c idx)
  else
    let off := c_off c in
    let l1 := c_log c in
    if off + fl <=? l_tlen l    (* AtomicBuffer::view bounds check of wrap_with_offset *)
    then Ok (mkAppended (set_part l1 idx (term_put (part l1 idx) off [Claimed (data_frame l1 off fl (c_tid c) F_UNFRAG T_DATA 0 [])]))
                        (wrap32 resulting) (Some (idx, off, fl)))
    else Panic.

(* TermAppender::append_unfragmented_message (message = the whole source buffer) *)
Definition ta_append_unfragmented (m : mode) (rv : Z -> Z -> list Z -> Z) (l : log) (idx : Z) (msg : list Z) (active_term_id : Z)
  : outcome appended :=
  let len := zlen msg in
  '(fl, al) <- unfrag_lengths m len ;;
  c <- tail_claim l idx al active_term_id ;;
  let resulting := c_off c + al in
  if l_tlen l <? resulting then Ok (end_of_log c idx)
  else
    let off := c_off c in
    let l1 := c_log c in
    Ok (mkAppended (set_part l1 idx (term_put (part l1 idx) off [Committed (data_frame l1 off fl (c_tid c) F_UNFRAG T_DATA (rv off fl msg) msg)]))
                   (wrap32 resulting) None).

(* TermAppender::append_fragmented_message *)
Definition ta_append_fragmented (m : mode) (rv : Z -> Z -> list Z -> Z) (l : log) (idx : Z) (msg : list Z) (mpl active_term_id : Z)
  : outcome appended :=
  let len := zlen msg in
  required <- frag_required m len mpl ;;
  c <- tail_claim l idx required active_term_id ;;
  let resulting := c_off c + required in
  if l_tlen l <? resulting then Ok (end_of_log c idx)
  else
    let off := c_off c in
    let l1 := c_log c in
    let frames := frag_loop (frag_fuel len mpl) l1 rv (c_tid c) mpl len msg F_BEGIN len off in
    Ok (mkAppended (set_part l1 idx (term_put (part l1 idx) off frames)) (wrap32 resulting) None).

(* ---- vectored appends ---- *)
(* one copy_from call: destination offset in the term buffer, requested length, bytes that arrive *)
Record copyop := mkCopy { cp_dst : Z; cp_n : Z; cp_bytes : list Z }.

(* what consecutive copies starting at `base` leave in memory, None unless they tile [base, ...) gap-free in order *)
Fixpoint tile (base : Z) (cs : list copyop) : option (list Z) :=
  match cs with
  | [] => Some []
  | c :: r =>
      if (cp_dst c =? base) && (0 <=? cp_n c) && (cp_n c =? zlen (cp_bytes c))
      then match tile (base + cp_n c) r with Some bs => Some (cp_bytes c ++ bs) | None => None end
      else None
  end.

Definition sum_caps (m : mode) (bufs : list (list Z)) : outcome Z :=
  fold_left (fun acc b => a <- acc ;; add32 m a (zlen b)) bufs (Ok 0).

(* repaired append_unfragmented_message_bulk:
     let mut offset = frame_offset + LENGTH; let ending_offset = offset + length;
     for buf in buffers.iter() { if offset >= ending_offset { break; }
                                 copy_from(offset, buf, 0, buf.capacity()); offset += buf.capacity(); } *)
Fixpoint bulk_unfrag_walk (bufs : list (list Z)) (offset ending : Z) : list copyop :=
  match bufs with
  | [] => []
  | b :: r => if ending <=? offset then []
              else mkCopy offset (zlen b) b :: bulk_unfrag_walk r (offset + zlen b) ending
  end.

(* the loop as the repository has it before the fix:
     for buf in buffers.iter() { let ending_offset = offset + length; if offset >= ending_offset { break; }
                                 offset += buf.capacity(); copy_from(offset, buf, 0, buf.capacity()); } *)
Fixpoint bulk_unfrag_walk_asis (bufs : list (list Z)) (offset length : Z) : list copyop :=
  match bufs with
  | [] => []
  | b :: r => if offset + length <=? offset then []
              else mkCopy (offset + zlen b) (zlen b) b :: bulk_unfrag_walk_asis r (offset + zlen b) length
  end.

(* buffer cursor of append_fragmented_message_bulk: current buffer, offset in it, rest of the iterator *)
Record cursor := mkCursor { cu_buf : list Z; cu_off : Z; cu_rest : list (list Z) }.

(* the inner loop: gathers bytes_to_write bytes for one fragment.
     loop { let current_buffer_remaining = curr_buffer.capacity() - current_buffer_offset;
            let num_bytes = min(bytes_to_write - bytes_written, current_buffer_remaining);
            copy_from(payload_offset, curr_buffer, current_buffer_offset, num_bytes);
            bytes_written += num_bytes; payload_offset += num_bytes; current_buffer_offset += num_bytes;
            if current_buffer_remaining <= num_bytes {
                if let Some(next) = buffers_iter.next() { curr_buffer = next; current_buffer_offset = 0 } else { break } }
            if bytes_written >= bytes_to_write { break } } *)
Fixpoint bulk_inner (fuel : nat) (btw written payload_off : Z) (cu : cursor) : list copyop * cursor :=
  match fuel with
  | O => ([], cu)
  | S f =>
      let cbr := zlen (cu_buf cu) - cu_off cu in
      let n := Z.min (btw - written) cbr in
      let c := mkCopy payload_off n (slice (cu_buf cu) (cu_off cu) n) in
      let written' := written + n in
      let po' := payload_off + n in
      let cbo' := cu_off cu + n in
      if cbr <=? n then
        match cu_rest cu with
        | nb :: rest' =>
            let cu' := mkCursor nb 0 rest' in
            if btw <=? written' then ([c], cu')
            else let '(cs, cu2) := bulk_inner f btw written' po' cu' in (c :: cs, cu2)
        | [] => ([c], mkCursor (cu_buf cu) cbo' [])
        end
      else
        let cu' := mkCursor (cu_buf cu) cbo' (cu_rest cu) in
        if btw <=? written' then ([c], cu')
        else let '(cs, cu2) := bulk_inner f btw written' po' cu' in (c :: cs, cu2)
  end.
Definition inner_fuel (cu : cursor) : nat := S (S (length (cu_rest cu))).

(* a copy with a negative length or a source range outside the buffer is undefined behaviour / a bounds panic in the
   implementation; the structured model stops there *)
Definition copies_ok (cs : list copyop) : bool := forallb (fun c => (0 <=? cp_n c) && (cp_n c =? zlen (cp_bytes c))) cs.

(* repaired outer loop: the buffer iterator and the current buffer live outside the fragment loop.
   Result: the frames written and, for the record, every copy_from call issued (in order) *)
Fixpoint bulk_frag_loop (fuel : nat) (l : log) (rv : Z -> Z -> list Z -> Z) (tid mpl : Z)
                        (flags remaining frame_offset : Z) (cu : cursor) : outcome (list entry * list copyop) :=
  match fuel with
  | O => Ok ([], [])
  | S f =>
      let btw := Z.min remaining mpl in
      let flen := btw + HDR in
      let alen := align flen FA in
      let '(cs, cu') := bulk_inner (inner_fuel cu) btw 0 (frame_offset + HDR) cu in
      match tile (frame_offset + HDR) cs with
      | Some body =>
          let flags' := if remaining <=? mpl then Z.lor flags F_END else flags in
          let fr := data_frame l frame_offset flen tid flags' T_DATA (rv frame_offset flen body) body in
          let remaining' := remaining - btw in
          if remaining' <=? 0 then Ok ([Committed fr], cs)
          else r <- bulk_frag_loop f l rv tid mpl 0 remaining' (frame_offset + alen) cu' ;; Ok (Committed fr :: fst r, cs ++ snd r)
      | None => Crash
      end
  end.

(* bytes the frames of the fragment loop occupy: what frame_offset advances by over the whole loop *)
Fixpoint frag_span (fuel : nat) (mpl remaining : Z) : Z :=
  match fuel with
  | O => 0
  | S f =>
      let btw := Z.min remaining mpl in
      align (btw + HDR) FA + (if remaining - btw <=? 0 then 0 else frag_span f mpl (remaining - btw))
  end.

(* the copies of one fragment as the repository issues them before the fix: the iterator restarts at the first buffer
   for every fragment while current_buffer_offset is carried over *)
Definition bulk_fragment_copies_asis (bufs : list (list Z)) (btw frame_offset cbo : Z) : list copyop * cursor :=
  match bufs with
  | [] => ([], mkCursor [] cbo [])
  | b :: r => bulk_inner (inner_fuel (mkCursor b cbo r)) btw 0 (frame_offset + HDR) (mkCursor b cbo r)
  end.

(* TermAppender::append_unfragmented_message_bulk (repaired) *)
Definition ta_append_unfragmented_bulk (m : mode) (rv : Z -> Z -> list Z -> Z) (l : log) (idx : Z) (bufs : list (list Z)) (len : Z)
                                       (active_term_id : Z) : outcome appended :=
  '(fl, al) <- unfrag_lengths m len ;;
  c <- tail_claim l idx al active_term_id ;;
  let resulting := c_off c + al in
  if l_tlen l <? resulting then Ok (end_of_log c idx)
  else
    let off := c_off c in
    let l1 := c_log c in
    let cs := bulk_unfrag_walk bufs (off + HDR) (off + HDR + len) in
    match tile (off + HDR) cs with
    | Some body =>
        if zlen body =? len then
          Ok (mkAppended (set_part l1 idx (term_put (part l1 idx) off [Committed (data_frame l1 off fl (c_tid c) F_UNFRAG T_DATA (rv off fl body) body)]))
                         (wrap32 resulting) None)
        else Crash
    | None => Crash
    end.

(* TermAppender::append_fragmented_message_bulk (repaired) *)
Definition ta_append_fragmented_bulk (m : mode) (rv : Z -> Z -> list Z -> Z) (l : log) (idx : Z) (bufs : list (list Z)) (len mpl : Z)
                                     (active_term_id : Z) : outcome appended :=
  required <- frag_required m len mpl ;;
  c <- tail_claim l idx required active_term_id ;;
  let resulting := c_off c + required in
  if l_tlen l <? resulting then Ok (end_of_log c idx)
  else
    let off := c_off c in
    let l1 := c_log c in
    match bufs with
    | [] => Panic       (* expect("At least one buffer must be supplied") *)
    | b :: r =>
        fc <- bulk_frag_loop (frag_fuel len mpl) l1 rv (c_tid c) mpl F_BEGIN len off (mkCursor b 0 r) ;;
        Ok (mkAppended (set_part l1 idx (term_put (part l1 idx) off (fst fc))) (wrap32 resulting) None)
    end.
