(* Specification side of C01: a stream is an append-only list of items; a publisher appends the
   fragments of every message it was told "accepted", or padding; a subscriber owns a cursor into the
   same list and hands the reassembled messages to its handler.  Nothing here mentions partitions, tail
   counters, term ids or memory: only the frame-length arithmetic (32-byte header, 32-byte alignment)
   that defines what a position is, and the three flag values.

   The abstract machine `spec_step` is fed with what the outside world can see of one operation of the
   concrete system (which operation, what it returned, which messages the handler received); the concrete
   system refines it (Proofs/StreamRefine.v), and the C01 statements are facts about `spec` states.
   Definitions only. *)
Require Import V.Base.MachineInt.
Require Import V.Model.LogBase.
Open Scope Z_scope.

Inductive item :=
| Frag (flags : Z) (payload : list Z)     (* a data frame: 32-byte header + payload, padded to a multiple of 32 *)
| Pad (n : Z).                            (* n bytes (a multiple of 32) no subscriber ever hands to a handler *)

Definition stream := list item.

Definition blen (b : list Z) : Z := Z.of_nat (length b).

Definition item_len (i : item) : Z :=
  match i with Frag _ b => align (32 + blen b) 32 | Pad n => n end.

Fixpoint span_of (s : stream) : Z :=
  match s with [] => 0 | i :: r => item_len i + span_of r end.

(* position just after the items of s, for a stream that starts at position p0 *)
Definition pos_after (p0 : Z) (s : stream) : Z := p0 + span_of s.

(* the (flags, payload) pairs a subscriber hands to its fragment handler, in order *)
Fixpoint frags (s : stream) : list (Z * list Z) :=
  match s with
  | [] => []
  | Frag f b :: r => (f, b) :: frags r
  | Pad _ :: r => frags r
  end.

(* ---- how a publisher cuts a message: pieces of at most mpl bytes, at least one piece ---- *)
Fixpoint chunks (fuel : nat) (mpl : Z) (m : list Z) : list (list Z) :=
  match fuel with
  | O => [m]
  | S f => if blen m <=? mpl then [m]
           else firstn (Z.to_nat mpl) m :: chunks f mpl (skipn (Z.to_nat mpl) m)
  end.
Definition chunks_of (mpl : Z) (m : list Z) : list (list Z) := chunks (length m) mpl m.

Fixpoint flag_rest (cs : list (list Z)) : stream :=
  match cs with
  | [] => []
  | [c] => [Frag F_END c]
  | c :: r => Frag 0 c :: flag_rest r
  end.
Definition flag_chunks (cs : list (list Z)) : stream :=
  match cs with
  | [] => []
  | [c] => [Frag F_UNFRAG c]
  | c :: r => Frag F_BEGIN c :: flag_rest r
  end.

(* the items one accepted message contributes *)
Definition msg_items (mpl : Z) (m : list Z) : stream := flag_chunks (chunks_of mpl m).

(* ---- reassembly, specification side: the messages completely contained in a stream ---- *)
Fixpoint messages_from (partial : option (list Z)) (s : stream) : list (list Z) :=
  match s with
  | [] => []
  | Pad _ :: r => messages_from partial r
  | Frag f b :: r =>
      if f =? F_UNFRAG then b :: messages_from partial r
      else if f =? F_BEGIN then messages_from (Some b) r
      else match partial with
           | Some acc => if f =? F_END then (acc ++ b) :: messages_from None r
                         else messages_from (Some (acc ++ b)) r
           | None => messages_from None r
           end
  end.
Definition messages (s : stream) : list (list Z) := messages_from None s.

(* ---- the abstract machine ---- *)
Record sgeom := mkSGeom { sg_tlen : Z; sg_mpl : Z; sg_p0 : Z }.

Record spec := mkSpec {
  sp_stream : stream;                      (* everything appended so far *)
  sp_open : option (Z * Z);                (* a claim not yet committed / aborted: (length, position returned) *)
  sp_acc : list (list Z * Z);              (* accepted messages with the position their offer returned, oldest first *)
  sp_del : list (list Z);                  (* messages the reassembled-message handler received, oldest first *)
  sp_ok : bool                             (* every position returned so far was the position just after the message *)
}.

Definition spec0 : spec := mkSpec [] None [] [] true.

(* what is visible of one operation; q = what position() reports right after an offer / a claim *)
Inductive event :=
| EvOffer (m : list Z) (r : outcome Z) (q : outcome Z)     (* offer(m) returned r *)
| EvClaim (len : Z) (r : outcome Z) (q : outcome Z)        (* try_claim(len) returned r *)
| EvCommit (body : list Z)                 (* body written into the claimed range, commit() *)
| EvAbort                                  (* abort() *)
| EvPoll (msgs : list (list Z))            (* a poll during which the handler received msgs *)
| EvEnv.                                   (* limit / connection / cleaning / close: invisible in the stream *)

(* the padding that closes the current term: nothing when the position is already on a term boundary *)
Definition pad_to_term_end (g : sgeom) (s : stream) : stream :=
  let r := pos_after (sg_p0 g) s mod sg_tlen g in
  if r =? 0 then [] else [Pad (sg_tlen g - r)].

(* MaxPositionExceeded is the one refusal that may have closed the (very last) term with padding: the publication then
   reports the end of the position space, and the stream is padded up to the position it reports; when position()
   reports the end of the stream as it is (every other case) nothing happens *)
Definition pad_to_reported (g : sgeom) (s : stream) (q : outcome Z) : stream :=
  match q with
  | Ok p => let e := pos_after (sg_p0 g) s in if e <? p then [Pad (p - e)] else []
  | _ => []
  end.

Definition on_result (g : sgeom) (sp : spec) (r q : outcome Z) (accept : Z -> spec) : spec :=
  match r with
  | Ok p => accept p
  | Err AdminAction => mkSpec (sp_stream sp ++ pad_to_term_end g (sp_stream sp)) (sp_open sp) (sp_acc sp) (sp_del sp) (sp_ok sp)
  | Err MaxPositionExceeded => mkSpec (sp_stream sp ++ pad_to_reported g (sp_stream sp) q) (sp_open sp) (sp_acc sp) (sp_del sp) (sp_ok sp)
  | _ => sp                                (* every other result: nothing happens, now or later *)
  end.

Definition spec_step (g : sgeom) (sp : spec) (e : event) : spec :=
  match e with
  | EvOffer m r q =>
      on_result g sp r q (fun p =>
        let s' := sp_stream sp ++ msg_items (sg_mpl g) m in
        mkSpec s' (sp_open sp) (sp_acc sp ++ [(m, p)]) (sp_del sp) (sp_ok sp && (p =? pos_after (sg_p0 g) s')))
  | EvClaim len r q =>
      on_result g sp r q (fun p =>
        mkSpec (sp_stream sp) (Some (len, p)) (sp_acc sp) (sp_del sp)
               (sp_ok sp && (p =? pos_after (sg_p0 g) (sp_stream sp) + align (32 + len) 32)))
  | EvCommit body =>
      match sp_open sp with
      | Some (len, p) => mkSpec (sp_stream sp ++ [Frag F_UNFRAG body]) None (sp_acc sp ++ [(body, p)]) (sp_del sp) (sp_ok sp)
      | None => sp
      end
  | EvAbort =>
      match sp_open sp with
      | Some (len, p) => mkSpec (sp_stream sp ++ [Pad (align (32 + len) 32)]) None (sp_acc sp) (sp_del sp) (sp_ok sp)
      | None => sp
      end
  | EvPoll msgs => mkSpec (sp_stream sp) (sp_open sp) (sp_acc sp) (sp_del sp ++ msgs) (sp_ok sp)
  | EvEnv => sp
  end.

Definition spec_run (g : sgeom) (sp : spec) (es : list event) : spec := fold_left (spec_step g) es sp.

(* ---- vocabulary of the statements ---- *)
Definition is_prefix {A} (a b : list A) : Prop := exists r, b = a ++ r.

Fixpoint increasing (ps : list Z) : Prop :=
  match ps with
  | [] => True
  | p :: r => match r with [] => True | q :: _ => p < q end /\ increasing r
  end.
