(* Specification side of C06: a FIFO queue of commands (type, bytes) with a byte budget.
   Nothing here mentions slots, indices or memory words except the two arithmetic
   definitions that say how many bytes a command costs. *)
Require Import V.Base.MachineInt.
Open Scope Z_scope.

Definition cmd := (Z * list Z)%type.        (* (message type id, payload bytes) *)
Definition fifo := list cmd.

(* bytes a command with n payload bytes occupies: 8-byte header + payload, rounded up to 8 *)
Definition rec_bytes (n : Z) : Z := align (n + 8) 8.

(* bytes lost to padding when the record does not fit between the producer index and the
   end of the data area (records are never split) *)
Definition wrap_pad (cp tl n : Z) : Z :=
  let e := cp - tl mod cp in if rec_bytes n >? e then e else 0.

(* the only legitimate reason to refuse a command for space: the unconsumed bytes plus the
   record plus the wrap padding exceed the capacity *)
Definition no_room (cp hd tl n : Z) : bool :=
  (tl - hd) + rec_bytes n + wrap_pad cp tl n >? cp.

Definition enqueue (q : fifo) (c : cmd) : fifo := q ++ [c].

(* what one read may hand out: the first n commands, n not above the message limit *)
Definition dequeue (q : fifo) (n : nat) : list cmd * fifo := (firstn n q, skipn n q).

Definition len_of (c : cmd) : Z := Z.of_nat (length (snd c)).
Fixpoint fifo_bytes (q : fifo) : Z :=
  match q with [] => 0 | c :: r => rec_bytes (len_of c) + fifo_bytes r end.
