(* Histories with "lag jumps": a harness device for the part of the property that speaks of any
   absolute counter value.  A jump of d bytes (d >= cap, multiple of 8) stands for d bytes of broadcast
   traffic the receiver slept through: the three trailer counters are advanced by d (what was written in
   between is unknown and no longer readable: it lies more than one capacity behind the new tail) and one
   real record is transmitted at the new tail, so that `latest` points at a record.
   Model side: jstep / jrun over the byte memory of Model/Broadcast.v.  Specification side: the channel gets
   a gap record that no receiver may be given.  Without jumps both are the runs of Model/Broadcast.v and
   Spec/Lossy.v (jrun_plain, sjrun_plain in Proofs/C08Proofs.v), which the theorems cover; histories with
   jumps are covered by the differential check and the oracle only.
   Definitions only. *)
Require Import V.Base.MachineInt.
Require Import V.Model.Broadcast.
Require Import V.Spec.Lossy.
Open Scope Z_scope.

Inductive jop :=
| JOp (o : op)
| JJump (d : Z) (ty : Z) (bs : list Z).

Definition jump_mem (cap : Z) (mm : mem) (d : Z) : mem :=
  let t := get64 mm (tail_idx cap) + d in
  put64 (put64 (put64 mm (intent_idx cap) t) (tail_idx cap) t) (latest_idx cap) t.

Definition jstep (m : mode) (w : vwidth) (hv : bool) (cap : Z) (s : sys) (o : jop) : option sys * obs :=
  match o with
  | JOp o => step m w hv cap s o
  | JJump d ty bs => step m w hv cap {| smem := jump_mem cap (smem s) d; Broadcast.srx := Broadcast.srx s |} (Transmit ty bs)
  end.

Fixpoint jrun (m : mode) (w : vwidth) (hv : bool) (cap : Z) (s : sys) (h : list jop) : list obs :=
  match h with
  | [] => []
  | o :: rest =>
      match jstep m w hv cap s o with
      | (Some s', ob) => ob :: jrun m w hv cap s' rest
      | (None, ob) => [ob]
      end
  end.

Definition jrun_history (m : mode) (w : vwidth) (hv : bool) (cap c0 : Z) (pre : list (Z * list Z)) (h : list jop) : list obs :=
  jrun m w hv cap (init_sys m cap c0 pre) h.

(* the channel after d bytes nobody can read any more *)
Definition jump_chan (ch : chan) (d : Z) : chan :=
  {| c_tail := c_tail ch + d; c_latest := c_tail ch + d;
     c_log := c_log ch ++ [ {| e_pos := c_tail ch; e_len := d; e_ty := -1; e_bs := [] |} ] |}.

Definition sjstep (cap : Z) (s : sst) (o : jop) : option sst * obs :=
  match o with
  | JOp o => spec_step cap s o
  | JJump d ty bs => spec_step cap {| s_ch := jump_chan (s_ch s) d; s_rx := s_rx s |} (Transmit ty bs)
  end.

Fixpoint sjrun (cap : Z) (s : sst) (h : list jop) : list obs :=
  match h with
  | [] => []
  | o :: rest =>
      match sjstep cap s o with
      | (Some s', ob) => ob :: sjrun cap s' rest
      | (None, ob) => [ob]
      end
  end.

Definition sjrun_history (cap c0 : Z) (pre : list (Z * list Z)) (h : list jop) : list obs :=
  sjrun cap (spec_init cap c0 pre) h.
