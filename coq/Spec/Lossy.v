(* Specification of the broadcast channel as a lossy, order-preserving channel (property C08).
   No byte memory and no machine integers here: a channel is the list of records ever written,
   each with its absolute stream position; a receiver is a position in that stream.
   The receiver's output is a subsequence of the transmitted list; it is complete as long as the
   receiver is never lapped (backlog below the capacity at every receive); a lapped receiver
   reports it before anything newer is delivered and restarts behind everything transmitted so far.
   Definitions only; theorems in Proofs/LossyProofs.v. *)
Require Import V.Base.MachineInt.
Require Import V.Model.Broadcast.
Open Scope Z_scope.

(* a record of the stream: padding records have type -1 and no bytes, their length field is the
   distance to the end of the buffer *)
Record ent := mkEnt { e_pos : Z; e_len : Z; e_ty : Z; e_bs : list Z }.
Definition e_end (e : ent) : Z := e_pos e + align (e_len e) 8.
Definition is_pad (e : ent) : bool := e_ty e =? -1.

Record chan := mkChan { c_tail : Z; c_latest : Z; c_log : list ent }.
Record srx := mkSrx { s_next : Z; s_lapped : Z }.

Definition chan_init (c0 : Z) : chan := {| c_tail := c0; c_latest := c0; c_log := [] |}.

(* the records one accepted transmit appends *)
Definition new_ents (cap : Z) (t : Z) (ty : Z) (bs : list Z) : list ent :=
  let rl := Z.of_nat (length bs) + 8 in
  let te := cap - t mod cap in
  if te <? align rl 8
  then [ {| e_pos := t; e_len := te; e_ty := -1; e_bs := [] |};
         {| e_pos := t + te; e_len := rl; e_ty := ty; e_bs := bs |} ]
  else [ {| e_pos := t; e_len := rl; e_ty := ty; e_bs := bs |} ].

Definition spec_transmit (cap : Z) (ch : chan) (ty : Z) (bs : list Z) : chan * obs :=
  let len := Z.of_nat (length bs) in
  if ty <? 1 then (ch, TxErr IllegalArg) else
  if len >? cap / 8 then (ch, TxErr TooLong) else
  let es := new_ents cap (c_tail ch) ty bs in
  let last_e := last es (mkEnt 0 0 0 []) in
  ({| c_tail := e_end last_e; c_latest := e_pos last_e; c_log := c_log ch ++ es |}, TxOk).

Definition backlog (ch : chan) (r : srx) : Z := c_tail ch - s_next r.

(* the first real record at or after position n *)
Definition next_msg (ch : chan) (n : Z) : option ent :=
  find (fun e => (n <=? e_pos e) && negb (is_pad e)) (c_log ch).

Definition spec_receive (cap : Z) (ch : chan) (r : srx) : option (srx * rres) :=
  if backlog ch r <=? 0 then Some (r, RNone) else
  if cap <=? backlog ch r then
    Some ({| s_next := c_tail ch; s_lapped := s_lapped r + 1 |}, RErr UnableToKeepUp)
  else match next_msg ch (s_next r) with
       | None => Some (r, RNone)
       | Some e =>
           let r' := {| s_next := e_end e; s_lapped := s_lapped r |} in
           if e_len e - 8 >? SCRATCH then Some (r', RErr InsufficientCapacity) else
           if negb (known_type (e_ty e)) then None else
           Some (r', RMsg (e_ty e) (e_bs e))
       end.

Record sst := mkSst { s_ch : chan; s_rx : srx }.

Definition spec_step (cap : Z) (s : sst) (o : op) : option sst * obs :=
  match o with
  | Transmit ty bs =>
      let '(ch', ob) := spec_transmit cap (s_ch s) ty bs in (Some {| s_ch := ch'; s_rx := s_rx s |}, ob)
  | Receive =>
      match spec_receive cap (s_ch s) (s_rx s) with
      | Some (r', res) => (Some {| s_ch := s_ch s; s_rx := r' |}, Rx (s_lapped r') res)
      | None => (None, OPanic)
      end
  | Dump => (Some s, Words [])
  end.

Fixpoint spec_run (cap : Z) (s : sst) (h : list op) : list obs :=
  match h with
  | [] => []
  | o :: rest =>
      match spec_step cap s o with
      | (Some s', ob) => ob :: spec_run cap s' rest
      | (None, ob) => [ob]
      end
  end.

Fixpoint spec_pre (cap : Z) (ch : chan) (pre : list (Z * list Z)) : chan :=
  match pre with
  | [] => ch
  | (ty, bs) :: rest => spec_pre cap (fst (spec_transmit cap ch ty bs)) rest
  end.

Definition spec_init (cap c0 : Z) (pre : list (Z * list Z)) : sst :=
  let ch := spec_pre cap (chan_init c0) pre in
  {| s_ch := ch; s_rx := {| s_next := c_latest ch; s_lapped := 0 |} |}.

Definition spec_history (cap c0 : Z) (pre : list (Z * list Z)) (h : list op) : list obs :=
  spec_run cap (spec_init cap c0 pre) h.

(* ---- what a history transmitted / what a run delivered ---- *)
Definition accepted (cap : Z) (ty : Z) (bs : list Z) : bool :=
  negb (ty <? 1) && negb (Z.of_nat (length bs) >? cap / 8).

Fixpoint transmitted (cap : Z) (h : list op) : list (Z * list Z) :=
  match h with
  | [] => []
  | Transmit ty bs :: r => if accepted cap ty bs then (ty, bs) :: transmitted cap r else transmitted cap r
  | _ :: r => transmitted cap r
  end.
Definition transmitted_pre (cap : Z) (pre : list (Z * list Z)) : list (Z * list Z) :=
  filter (fun p => accepted cap (fst p) (snd p)) pre.

Fixpoint delivered (os : list obs) : list (Z * list Z) :=
  match os with
  | [] => []
  | Rx _ (RMsg ty bs) :: r => (ty, bs) :: delivered r
  | _ :: r => delivered r
  end.

Inductive subseq {A} : list A -> list A -> Prop :=
| sub_nil : forall l, subseq [] l
| sub_take : forall x l1 l2, subseq l1 l2 -> subseq (x :: l1) (x :: l2)
| sub_skip : forall x l1 l2, subseq l1 l2 -> subseq l1 (x :: l2).
