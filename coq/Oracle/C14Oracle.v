(* Decidable form of property C14, applied to observations of the implementation
   (and, in Props/C14.v, to the model's own results). *)
Require Import V.Base.MachineInt V.Model.WireBytes V.Model.WireCodes V.Model.WireEvents.
Open Scope Z_scope.

Definition callback_eq_dec (a b : callback) : {a = b} + {a <> b}.
Proof. decide equality; try apply Z.eq_dec; apply (list_eq_dec Z.eq_dec). Defined.
Definition callback_eqb (a b : callback) : bool := if callback_eq_dec a b then true else false.

(* an event e broadcast by the driver (as the protocol encodes it) to a client whose id is `own`:
   the client shows exactly the callback the protocol demands, with the encoded field values;
   an event too long for a broadcast record of the receiver (4096 bytes) may only be refused with
   an error *)
Definition holds_event (own : Z) (e : event) (obs : outcome callback) : bool :=
  if Zlength (encode_event_spec e) <=? SCRATCH_CAPACITY then
    match obs with
    | Ok cb => callback_eqb cb (visible own (expected_callback e))
    | _ => false
    end
  else
    match obs with Err _ => true | _ => false end.

(* type -> code -> type: the code is the protocol's, and converting back gives the same type *)
Definition holds_code (c : cmd) (obs : Z * outcome cmd) : bool :=
  let '(id, back) := obs in
  (id =? protocol_code c) && match back with Ok c' => cmd_eqb c' c | _ => false end.

(* code -> type: an id is accepted only as the protocol's code of the type returned, and every
   protocol code is accepted *)
Definition holds_fromid (id : Z) (obs : outcome cmd) : bool :=
  match obs with
  | Ok c => protocol_code c =? id
  | Panic => negb (existsb (fun c => protocol_code c =? id) all_commands)
  | _ => false
  end.

(* checksum of the transmitted bytes: ties the harness's encoder to encode_event_spec on every case *)
Definition cksum (bs : bytes) : Z := fold_left (fun acc b => (acc * 131 + b + 1) mod 2147483647) bs 0.
Definition sent (bs : bytes) : Z * Z := (Zlength bs, cksum bs).
