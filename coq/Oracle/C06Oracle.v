(* Decidable form of property C06 (sequential part), applied to what the implementation
   returned for an operation sequence: an interpreter of the FIFO specification that follows
   the observed outputs.  It never calls the model's write / read. *)
Require Import V.Base.MachineInt.
Require Import V.Generated.GenConsts.
Require Import V.Model.LogBase.
Require Import V.Model.Ring.
Require Import V.Spec.Fifo.
Open Scope Z_scope.

Definition err_eqb (a b : err) : bool :=
  match a, b with
  | InsufficientCapacity, InsufficientCapacity => true
  | TooLong, TooLong => true
  | IllegalArg, IllegalArg => true
  | _, _ => false
  end.

Definition is_okz (r : outcome Z) (v : Z) : bool := match r with Ok x => x =? v | _ => false end.
Definition is_err (r : outcome Z) (e : err) : bool := match r with Err x => err_eqb x e | _ => false end.

Fixpoint zs_eqb (a b : list Z) : bool :=
  match a, b with
  | [], [] => true
  | x :: a', y :: b' => (x =? y) && zs_eqb a' b'
  | _, _ => false
  end.
Definition cmsg_eqb (a b : Z * Z * list Z) : bool :=
  let '(t1, l1, p1) := a in let '(t2, l2, p2) := b in (t1 =? t2) && (l1 =? l2) && zs_eqb p1 p2.
Fixpoint cmsgs_eqb (a b : list (Z * Z * list Z)) : bool :=
  match a, b with
  | [], [] => true
  | x :: a', y :: b' => cmsg_eqb x y && cmsgs_eqb a' b'
  | _, _ => false
  end.

(* what the oracle knows after a prefix of the sequence: the queue the specification holds,
   head and tail as last observed, the correlation ids handed out so far *)
Record ost := mkOst { o_q : fifo; o_h : Z; o_t : Z; o_ids : list Z }.

(* offset o of the data area belongs to the unconsumed region [h, t) *)
Definition live (cp h t o : Z) : bool :=
  if t - h >=? cp then true
  else
    let hi := h mod cp in let ti := t mod cp in
    if hi <=? ti then (hi <=? o) && (o <? ti) else (hi <=? o) || (o <? ti).

(* the headers found when walking from position p to position t are exactly those of q (paddings skipped) *)
Fixpoint headers_match (fuel : nat) (ws : list (Z * Z)) (cp p t : Z) (q : fifo) : bool :=
  match fuel with
  | O => false
  | S f =>
      if p =? t then (match q with [] => true | _ => false end)
      else if t <? p then false
      else
        let i := p mod cp in
        let len := word_at ws i in
        let ty := word_at ws (i + 4) in
        if len <=? 0 then false
        else if ty =? PAD then headers_match f ws cp (p + align len 8) t q
        else match q with
             | c :: q' => (ty =? fst c) && (len =? len_of c + 8) && headers_match f ws cp (p + align len 8) t q'
             | [] => false
             end
  end.

Definition counter_ok (ws : list (Z * Z)) (off v : Z) : bool :=
  (word_at ws off =? lo32 v) && (word_at ws (off + 4) =? hi32 v).

Definition dump_ok (cp : Z) (s : ost) (ws : list (Z * Z)) : bool :=
  counter_ok ws (cp + TAIL_OFF) (o_t s) && counter_ok ws (cp + HEAD_OFF) (o_h s) &&
  forallb (fun e => (cp <=? fst e) || live cp (o_h s) (o_t s) (fst e)) ws &&
  headers_match (S (Z.to_nat (cp / 8))) ws cp (o_h s) (o_t s) (o_q s).

Definition mem_z (x : Z) (l : list Z) : bool := existsb (fun y => y =? x) l.

(* one observed step; None = the property is violated *)
Definition check_step (cp : Z) (s : ost) (o : op) (x : out) : option ost :=
  match o, x with
  | OpWrite typ body, OW r h t =>
      let n := Z.of_nat (length body) in
      let same := (h =? o_h s) && (t =? o_t s) in
      if typ <? 1 then (if is_err r IllegalArg && same then Some s else None)
      else if n >? cp / 8 then (if is_err r TooLong && same then Some s else None)
      else if no_room cp (o_h s) (o_t s) n then (if is_err r InsufficientCapacity && same then Some s else None)
      else if is_okz r 0 && (h =? o_h s) && (t =? o_t s + rec_bytes n + wrap_pad cp (o_t s) n)
           then Some (mkOst (enqueue (o_q s) (typ, body)) h t (o_ids s)) else None
  | OpRead limit, OR r msgs h t =>
      match r with
      | Ok n =>
          let k := length msgs in
          let '(got, rest) := dequeue (o_q s) k in
          if (n =? Z.of_nat k) && (n <=? Z.max 0 limit) && (k <=? length (o_q s))%nat
             && cmsgs_eqb msgs (map cmsg got)
             && (t =? o_t s) && (o_h s <=? h) && (h <=? t)
             && (if (1 <=? limit) && negb (o_h s =? o_t s) then (1 <=? n) || (o_h s <? h) else true)
             && Bool.eqb (match rest with [] => true | _ => false end) (h =? t)
          then Some (mkOst rest h t (o_ids s)) else None
      | _ => None
      end
  | OpUnblock, OU r h t =>
      (* no producer died: unblock must answer false and change nothing *)
      if is_okz r 0 && (h =? o_h s) && (t =? o_t s) then Some s else None
  | OpSize, OS r => if is_okz r (o_t s - o_h s) then Some s else None
  | OpNextId, OI r =>
      match r with
      | Ok id => if mem_z id (o_ids s) then None else Some (mkOst (o_q s) (o_h s) (o_t s) (id :: o_ids s))
      | _ => None
      end
  | OpHeartbeat v, OH r => if is_okz r v then Some s else None
  | OpDump, OD ws => if dump_ok cp s ws then Some s else None
  | _, _ => None
  end.

Fixpoint check_all (cp : Z) (s : ost) (ops : list op) (obs : list out) : bool :=
  match ops, obs with
  | [], [] => true
  | o :: ops', x :: obs' =>
      match check_step cp s o x with Some s' => check_all cp s' ops' obs' | None => false end
  | _, _ => false
  end.

(* same, returning what the specification holds at the end *)
Fixpoint check_to (cp : Z) (s : ost) (ops : list op) (obs : list out) : option ost :=
  match ops, obs with
  | [], [] => Some s
  | o :: ops', x :: obs' =>
      match check_step cp s o x with Some s' => check_to cp s' ops' obs' | None => None end
  | _, _ => None
  end.

Definition holds_seq (cp p0 hc0 c0 : Z) (ops : list op) (obs : list out) : bool :=
  check_all cp (mkOst [] p0 p0 []) ops obs.

(* ------------------------------------------------------------------------------------------
   Concurrent part: what can be said from the trace of shared accesses, the per-thread results
   and the sequential epilogue.  Every write of a case carries its own message type id, so a
   message identifies the write call it came from. *)
Require Import V.Model.RingThreads.

(* a claim = a successful compare-and-set on the tail counter *)
Record claim := mkClaim { k_tid : Z; k_from : Z; k_to : Z; k_type : Z; k_len : Z; k_done : bool }.

Fixpoint upd_latest (l : list claim) (tid : Z) (f : claim -> claim) : list claim :=   (* l is newest first *)
  match l with
  | [] => []
  | c :: r => if k_tid c =? tid then f c :: r else c :: upd_latest r tid f
  end.

Definition akind_eqb (a b : akind) : bool :=
  match a, b with
  | GetVolatile, GetVolatile | PutOrdered, PutOrdered | CompareAndSetI64, CompareAndSetI64
  | CopyFrom, CopyFrom | SetMemory, SetMemory | RegionRead, RegionRead | GetAndAddI64, GetAndAddI64 => true
  | _, _ => false
  end.

(* claims in the order of their compare-and-sets = in position order, newest first *)
Fixpoint claims_rev (cp : Z) (tr : list event) (acc : list claim) : list claim :=
  match tr with
  | [] => acc
  | (tid, k, off, len, v, v2, before) :: r =>
      let acc' :=
        if akind_eqb k CompareAndSetI64 && (off =? cp + TAIL_OFF) then
          (if before =? v then mkClaim tid v v2 0 0 false :: acc else acc)
        else if akind_eqb k PutOrdered && (off <? cp) && (len =? 8) then
          (if hi32 v =? PAD then acc
           else upd_latest acc tid (fun c => mkClaim (k_tid c) (k_from c) (k_to c) (hi32 v) (- lo32 v) false))
        else if akind_eqb k PutOrdered && (off <? cp) && (len =? 4) then
          upd_latest acc tid (fun c => mkClaim (k_tid c) (k_from c) (k_to c) (k_type c) (k_len c) (v =? k_len c))
        else acc in
      claims_rev cp r acc'
  end.
Definition claims_of (cp : Z) (tr : list event) : list claim := rev (claims_rev cp tr []).

Fixpoint find_write (prog : list wreq) (ty : Z) : option wreq :=
  match prog with [] => None | w :: r => if fst w =? ty then Some w else find_write r ty end.

(* the commands committed according to the trace, in position order, as the writers' programs define them *)
Fixpoint committed_cmds (progs : list (list wreq)) (cl : list claim) : option (list (Z * Z * list Z)) :=
  match cl with
  | [] => Some []
  | c :: r =>
      if k_done c then
        match find_write (concat progs) (k_type c), committed_cmds progs r with
        | Some w, Some l => if k_len c =? len_of w + 8 then Some (cmsg w :: l) else None
        | _, _ => None
        end
      else committed_cmds progs r
  end.

Fixpoint is_prefix (a b : list (Z * Z * list Z)) : bool :=
  match a, b with
  | [], _ => true
  | x :: a', y :: b' => cmsg_eqb x y && is_prefix a' b'
  | _ :: _, [] => false
  end.

Definition delivered_by (t : tres) : option (list (Z * Z * list Z)) :=
  match t with TCons l => Some (concat (map snd l)) | _ => None end.

Fixpoint delivered_in (outs : list out) : list (Z * Z * list Z) :=
  match outs with
  | [] => []
  | OR _ msgs _ _ :: r => msgs ++ delivered_in r
  | _ :: r => delivered_in r
  end.

(* head and tail never cross, and the producers never lap the consumer, at any point of the trace *)
Fixpoint positions_ok (cp : Z) (tr : list event) (h t : Z) : bool :=
  match tr with
  | [] => (h <=? t) && (t - h <=? cp)
  | (tid, k, off, len, v, v2, before) :: r =>
      (h <=? t) && (t - h <=? cp) &&
      if akind_eqb k CompareAndSetI64 && (off =? cp + TAIL_OFF) then
        (before =? t) && (if before =? v then (t <? v2) && positions_ok cp r h v2 else positions_ok cp r h t)
      else if akind_eqb k PutOrdered && (off =? cp + HEAD_OFF) then
        (before =? h) && (h <? v) && positions_ok cp r v t
      else positions_ok cp r h t
  end.

Definition last_ht (p0 : Z) (outs : list out) : Z * Z :=
  fold_left (fun ht x => match x with OW _ h t | OR _ _ h t | OU _ h t => (h, t) | _ => ht end) outs (p0, p0).

Definition count_ok (l : list (outcome Z)) : Z := Z.of_nat (length (filter (fun r => is_okz r 0) l)).

(* C06 for a run with no crash: drained at the end, everything written was delivered exactly once,
   in position order (hence in each producer's order), intact *)
Definition holds_conc_core (cp p0 : Z) (pre : list op) (progs : list (list wreq)) (post : list op)
  (obs : list out * list event * list tres * list out) : bool :=
  let '(o1, tr, res, o3) := obs in
  let '(h1, t1) := last_ht p0 o1 in
  let cl := claims_of cp tr in
  match res with
  | cons_r :: prod_rs =>
      match delivered_by cons_r, committed_cmds progs cl, check_to cp (mkOst [] p0 p0 []) pre o1 with
      | Some d0, Some cm0, Some s1 =>
          let cm := map cmsg (o_q s1) ++ cm0 in
          let delivered := d0 ++ delivered_in o3 in
          let '(h3, t3) := last_ht p0 (o1 ++ o3) in
          positions_ok cp tr h1 t1 &&
          forallb (fun c => k_done c) cl &&
          (* every successful write call has a claim and vice versa *)
          (fold_left Z.add (map (fun r => match r with TProd l => count_ok l | _ => -1000000 end) prod_rs) 0 =? Z.of_nat (length cl)) &&
          (h3 =? t3) && is_prefix delivered cm && (length delivered =? length cm)%nat
      | _, _, _ => false
      end
  | [] => false
  end.

(* ------------------------------------------------------------------------------------------
   "A write is refused for lack of space only when the unconsumed bytes plus the record (and wrap padding)
   really exceed the capacity", read off the trace: every InsufficientCapacity answer of a producer must be
   justified - at some instant between the caller's first read (the head cache) and its return (its last read of
   the head position) the real positions satisfied `no_room`.

   A write call of thread tid shows in the trace as: GetVolatile(head cache) ... ; it is refused iff its last
   access is a GetVolatile(head) (an accepted call goes on with PutOrdered(head cache) after a head read).  The
   call that produces accesses number j of a thread is its j-th well-formed write (type >= 1, length <= cap/8).
   Per refusal the walk yields (justified, overtaken): overtaken = the tail counter differs, at the head re-read,
   from the tail value the caller read last (somebody claimed space in between). *)
Record rthr := mkRthr { rt_calls : nat; rt_in : bool; rt_n : Z; rt_just : bool; rt_tl : Z; rt_pend : option (bool * bool) }.
Definition rthr0 : rthr := mkRthr O false 0 false 0 None.

Definition valid_lens (cp : Z) (prog : list wreq) : list Z :=
  map len_of (filter (fun w => (1 <=? fst w) && (len_of w <=? cp / 8)) prog).

Fixpoint upd_nth {A} (l : list A) (i : nat) (f : A -> A) : list A :=
  match l, i with
  | [], _ => []
  | x :: r, O => f x :: r
  | x :: r, S j => x :: upd_nth r j f
  end.

Definition is_gv (k : akind) (off target : Z) : bool := akind_eqb k GetVolatile && (off =? target).

Fixpoint refusal_walk (cp : Z) (progs : list (list wreq)) (tr : list event) (h t : Z) (ths : list rthr)
  (acc : list (bool * bool)) : list rthr * list (bool * bool) :=
  match tr with
  | [] => (ths, acc)
  | (tid, k, off, len, v, v2, before) :: r =>
      let i := Z.to_nat tid in
      (* the positions after this access *)
      let t' := if akind_eqb k CompareAndSetI64 && (off =? cp + TAIL_OFF) && (before =? v) then v2 else t in
      let h' := if akind_eqb k PutOrdered && (off =? cp + HEAD_OFF) then v else h in
      let me := nth i ths rthr0 in
      let starts := is_gv k off (cp + HC_OFF) && (1 <=? tid) in
      (* a pending head read of this thread: it was the end of a refused call iff a new call starts now *)
      let acc1 := match rt_pend me with Some jo => if starts then acc ++ [jo] else acc | None => acc end in
      let me1 := mkRthr (rt_calls me) (rt_in me) (rt_n me) (rt_just me) (rt_tl me) None in
      let me2 :=
        if starts then mkRthr (S (rt_calls me1)) true (nth (rt_calls me1) (valid_lens cp (nth (i - 1) progs [])) (-1)) false (rt_tl me1) None
        else if is_gv k off (cp + TAIL_OFF) then mkRthr (rt_calls me1) (rt_in me1) (rt_n me1) (rt_just me1) before None
        else if akind_eqb k PutOrdered && (off <? cp) && (len =? 4) then mkRthr (rt_calls me1) false (rt_n me1) (rt_just me1) (rt_tl me1) None
        else me1 in
      let ths1 := upd_nth ths i (fun _ => me2) in
      (* every call in progress sees the new positions *)
      let ths2 := map (fun x => if rt_in x then mkRthr (rt_calls x) true (rt_n x) (rt_just x || no_room cp h' t' (rt_n x)) (rt_tl x) (rt_pend x) else x) ths1 in
      let ths3 :=
        if is_gv k off (cp + HEAD_OFF) && (1 <=? tid)
        then upd_nth ths2 i (fun x => mkRthr (rt_calls x) (rt_in x) (rt_n x) (rt_just x) (rt_tl x) (Some (rt_just x, negb (t' =? rt_tl x))))
        else ths2 in
      refusal_walk cp progs r h' t' ths3 acc1
  end.

(* the (justified, overtaken) pairs of all refusals of a run *)
Definition refusal_verdicts (cp : Z) (progs : list (list wreq)) (tr : list event) (res : list tres) (h1 t1 : Z) : list (bool * bool) :=
  let '(ths, acc) := refusal_walk cp progs tr h1 t1 (repeat rthr0 (S (length progs))) [] in
  acc ++ flat_map (fun p => match rt_pend (fst p), snd p with Some jo, TProd _ => [jo] | _, _ => [] end) (combine ths res).

Definition obs_verdicts (cp p0 : Z) (progs : list (list wreq)) (obs : list out * list event * list tres * list out) : list (bool * bool) :=
  let '(o1, tr, res, o3) := obs in let '(h1, t1) := last_ht p0 o1 in refusal_verdicts cp progs tr res h1 t1.

Definition refusals_ok (cp p0 : Z) (progs : list (list wreq)) (obs : list out * list event * list tres * list out) : bool :=
  forallb fst (obs_verdicts cp p0 progs obs).

Definition holds_conc (cp p0 : Z) (pre : list op) (progs : list (list wreq)) (post : list op)
  (obs : list out * list event * list tres * list out) : bool :=
  holds_conc_core cp p0 pre progs post obs && refusals_ok cp p0 progs obs.

(* the known class refusal-on-stale-tail (KNOWN_FINDINGS.txt): everything else holds, some refusal is not justified, and every
   unjustified refusal was decided by a caller that had been overtaken between its tail read and its head re-read *)
Definition KnownClass_refusal_on_stale_tail_obs (cp p0 : Z) (pre : list op) (progs : list (list wreq)) (post : list op)
  (obs : list out * list event * list tres * list out) : bool :=
  let vs := obs_verdicts cp p0 progs obs in
  holds_conc_core cp p0 pre progs post obs && existsb (fun jo => negb (fst jo)) vs && forallb (fun jo => fst jo || snd jo) vs.
