(* Decidable form of property C06 (sequential part), applied to what the implementation
   returned for an operation sequence: an interpreter of the FIFO specification that follows
   the observed outputs.  It never calls the model's write / read. *)
Require Import V.Base.MachineInt V.Generated.GenConsts V.Model.LogBase V.Model.Ring V.Spec.Fifo.
Open Scope Z_scope.

Definition err_eqb (a b : err) : bool :=
  match a, b with
  | InsufficientCapacity, InsufficientCapacity => true
  | TooLong, TooLong => true
  | IllegalArg, IllegalArg => true
  | _, _ => false
  end.

Definition is_okz (r : outcome Z) (v : Z) : bool := match r with Ok x => x =? v | _ => false end.
Definition is_err (r : outcome Z) (e : err) : bool := match r with Err x => err_eqb x e | _ => false end.

Fixpoint zs_eqb (a b : list Z) : bool :=
  match a, b with
  | [], [] => true
  | x :: a', y :: b' => (x =? y) && zs_eqb a' b'
  | _, _ => false
  end.
Definition cmsg_eqb (a b : Z * Z * list Z) : bool :=
  let '(t1, l1, p1) := a in let '(t2, l2, p2) := b in (t1 =? t2) && (l1 =? l2) && zs_eqb p1 p2.
Fixpoint cmsgs_eqb (a b : list (Z * Z * list Z)) : bool :=
  match a, b with
  | [], [] => true
  | x :: a', y :: b' => cmsg_eqb x y && cmsgs_eqb a' b'
  | _, _ => false
  end.

(* what the oracle knows after a prefix of the sequence: the queue the specification holds,
   head and tail as last observed, the correlation ids handed out so far *)
Record ost := mkOst { o_q : fifo; o_h : Z; o_t : Z; o_ids : list Z }.

(* offset o of the data area belongs to the unconsumed region [h, t) *)
Definition live (cp h t o : Z) : bool :=
  if t - h >=? cp then true
  else
    let hi := h mod cp in let ti := t mod cp in
    if hi <=? ti then (hi <=? o) && (o <? ti) else (hi <=? o) || (o <? ti).

(* the headers found when walking from position p to position t are exactly those of q (paddings skipped) *)
Fixpoint headers_match (fuel : nat) (ws : list (Z * Z)) (cp p t : Z) (q : fifo) : bool :=
  match fuel with
  | O => false
  | S f =>
      if p =? t then (match q with [] => true | _ => false end)
      else if t <? p then false
      else
        let i := p mod cp in
        let len := word_at ws i in
        let ty := word_at ws (i + 4) in
        if len <=? 0 then false
        else if ty =? PAD then headers_match f ws cp (p + align len 8) t q
        else match q with
             | c :: q' => (ty =? fst c) && (len =? len_of c + 8) && headers_match f ws cp (p + align len 8) t q'
             | [] => false
             end
  end.

Definition counter_ok (ws : list (Z * Z)) (off v : Z) : bool :=
  (word_at ws off =? lo32 v) && (word_at ws (off + 4) =? hi32 v).

Definition dump_ok (cp : Z) (s : ost) (ws : list (Z * Z)) : bool :=
  counter_ok ws (cp + TAIL_OFF) (o_t s) && counter_ok ws (cp + HEAD_OFF) (o_h s) &&
  forallb (fun e => (cp <=? fst e) || live cp (o_h s) (o_t s) (fst e)) ws &&
  headers_match (S (Z.to_nat (cp / 8))) ws cp (o_h s) (o_t s) (o_q s).

Definition mem_z (x : Z) (l : list Z) : bool := existsb (fun y => y =? x) l.

(* one observed step; None = the property is violated *)
Definition check_step (cp : Z) (s : ost) (o : op) (x : out) : option ost :=
  match o, x with
  | OpWrite typ body, OW r h t =>
      let n := Z.of_nat (length body) in
      let same := (h =? o_h s) && (t =? o_t s) in
      if typ <? 1 then (if is_err r IllegalArg && same then Some s else None)
      else if n >? cp / 8 then (if is_err r TooLong && same then Some s else None)
      else if no_room cp (o_h s) (o_t s) n then (if is_err r InsufficientCapacity && same then Some s else None)
      else if is_okz r 0 && (h =? o_h s) && (t =? o_t s + rec_bytes n + wrap_pad cp (o_t s) n)
           then Some (mkOst (enqueue (o_q s) (typ, body)) h t (o_ids s)) else None
  | OpRead limit, OR r msgs h t =>
      match r with
      | Ok n =>
          let k := length msgs in
          let '(got, rest) := dequeue (o_q s) k in
          if (n =? Z.of_nat k) && (n <=? Z.max 0 limit) && (k <=? length (o_q s))%nat
             && cmsgs_eqb msgs (map cmsg got)
             && (t =? o_t s) && (o_h s <=? h) && (h <=? t)
             && (if (1 <=? limit) && negb (o_h s =? o_t s) then (1 <=? n) || (o_h s <? h) else true)
             && Bool.eqb (match rest with [] => true | _ => false end) (h =? t)
          then Some (mkOst rest h t (o_ids s)) else None
      | _ => None
      end
  | OpUnblock, OU r h t =>
      (* no producer died: unblock must answer false and change nothing *)
      if is_okz r 0 && (h =? o_h s) && (t =? o_t s) then Some s else None
  | OpSize, OS r => if is_okz r (o_t s - o_h s) then Some s else None
  | OpNextId, OI r =>
      match r with
      | Ok id => if mem_z id (o_ids s) then None else Some (mkOst (o_q s) (o_h s) (o_t s) (id :: o_ids s))
      | _ => None
      end
  | OpHeartbeat v, OH r => if is_okz r v then Some s else None
  | OpDump, OD ws => if dump_ok cp s ws then Some s else None
  | _, _ => None
  end.

Fixpoint check_all (cp : Z) (s : ost) (ops : list op) (obs : list out) : bool :=
  match ops, obs with
  | [], [] => true
  | o :: ops', x :: obs' =>
      match check_step cp s o x with Some s' => check_all cp s' ops' obs' | None => false end
  | _, _ => false
  end.

Definition holds_seq (cp p0 hc0 c0 : Z) (ops : list op) (obs : list out) : bool :=
  check_all cp (mkOst [] p0 p0 []) ops obs.
