(* Decidable form of property C10 (the conductor survives faults), evaluated on the observations of a history:
     - every operation comes back with Ok or Err - never Panic, Hang or Crash - and the history is answered in full;
     - faults are reported: an overrun or oversize broadcast makes that duty cycle return Err (and do nothing else);
       a duty cycle later than the inter-service time-out after the previous one calls the error handler
       (service time-out) and closes; the driver's client-time-out event for this client, while open, calls the error
       handler and closes; a silent driver (heartbeat older than the driver time-out when the keep-alive check is
       due) calls the error handler, and add_* calls are refused from then on; a lost client heartbeat counter calls
       the error handler and closes;
     - after a fault that does not close the client the next ordinary duty cycle returns Ok (processing goes on;
       what it does to the registrations is judged by the C09 automaton, which keeps running across the faults);
     - closing: the close handler fires at most once in the whole history and exactly once when the client is closed
       (Close, service time-out, client time-out, heartbeat loss); every image that was announced gets exactly one
       unavailable callback, at the latest when the client closes, with the image closed; every counter handle alive
       at the close gets its unavailable callback then; afterwards add_* / find_* report Closed (add_* may report the
       inactive driver instead), and every handle the user still holds is closed, a held subscription without images.
   The life-cycle of the registrations is tracked with the automaton of C09Oracle (used here only to know which
   counters are alive and which handles are held; its verdicts are C09's business). *)
Require Import V.Base.MachineInt.
Require Import V.Generated.GenConsts.
Require Import V.Model.Conductor.
Require Import V.Oracle.C09Oracle.
Open Scope Z_scope.

Record wst := mkW {
  w_q : ost;                    (* C09's automaton *)
  w_track : bool;               (* false once that automaton has rejected an observation: life-cycle facts no longer used *)
  w_tprev : Z;                  (* time of the previous duty cycle (or of the creation of the conductor) *)
  w_hb : Z;                     (* the driver's heartbeat *)
  w_hbenv : Z;
  w_bound : bool;               (* the conductor has certainly found its heartbeat counter *)
  w_inactive : bool;            (* the driver has been reported inactive *)
  w_nclose : nat;               (* close-handler calls so far *)
  w_imgs : list (Z * Z)         (* images announced and not yet unavailable *)
}.

Definition winit (c0 now0 : Z) : wst := mkW (oinit c0 now0) true now0 0 0 false false 0 [].

Definition cerr_eqb (a b : cerr) : bool :=
  match a, b with
  | EServiceTimeout, EServiceTimeout | EWasInactive, EWasInactive | EInactive, EInactive
  | EHeartbeatLost, EHeartbeatLost | EClientTimeout, EClientTimeout => true
  | _, _ => false
  end.
Definition has_err (e : cerr) (cbs : list cb) : bool :=
  existsb (fun c => match c with CbErr e' => cerr_eqb e e' | _ => false end) cbs.
Definition count_close_cb (cbs : list cb) : nat := length (filter is_close_cb cbs).

Fixpoint remove_pair (s i : Z) (l : list (Z * Z)) : option (list (Z * Z)) :=
  match l with
  | [] => None
  | (a, b) :: t => if (a =? s) && (b =? i) then Some t
                   else match remove_pair s i t with Some t' => Some ((a, b) :: t') | None => None end
  end.

(* images: announced ones are remembered, an unavailable callback must match one of them and carry a closed image *)
Fixpoint track_imgs (cbs : list cb) (l : list (Z * Z)) : option (list (Z * Z)) :=
  match cbs with
  | [] => Some l
  | CbAvailImg s i _ :: t => track_imgs t (l ++ [(s, i)])
  | CbUnavailImg s i cl :: t =>
      if cl =? 1 then match remove_pair s i l with Some l' => track_imgs t l' | None => None end else None
  | _ :: t => track_imgs t l
  end.

Definition count_unavail_ctr (r : Z) (cbs : list cb) : nat :=
  length (filter (fun c => match c with CbUnavailCtr r' _ => r' =? r | _ => false end) cbs).

(* counters whose handle exists according to the life-cycle automaton *)
Definition ctr_alive (x : kind * Z * life) : bool :=
  match x with (KCtr, _, LReady _ _ _ _) => true | _ => false end.
Definition ctr_unknown (x : kind * Z * life) : bool :=
  match x with (KCtr, _, LAny) => true | _ => false end.

Definition counters_closed (q : ost) (cbs : list cb) : bool :=
  forallb (fun x => if ctr_alive x then (count_unavail_ctr (snd (fst x)) cbs =? 1)%nat
                    else if ctr_unknown x then true else (count_unavail_ctr (snd (fst x)) cbs =? 0)%nat) (q_regs q).

Definition is_fine (r : res) : bool := match r with Ok _ | Err _ => true | _ => false end.
Definition is_okr (r : res) : bool := match r with Ok _ => true | _ => false end.

Definition adv (c0 tdrv : Z) (w : wst) (o : op) (x : out) : ost * bool :=
  if w_track w then match c09_step c0 tdrv (w_q w) o x with
                    | Next q' => (q', true)
                    | _ => (w_q w, false)
                    end
  else (w_q w, false).

Definition c10_step (c0 tdrv tis : Z) (w : wst) (o : op) (x : out) : option wst :=
  let '(r, cbs, cmds) := x in
  if negb (is_fine r) then None else
  let closed_before := (0 <? Z.of_nat (w_nclose w)) in
  let nclose := (w_nclose w + count_close_cb cbs)%nat in
  let closed_after := (0 <? Z.of_nat nclose) in
  if (1 <? Z.of_nat nclose) then None else
  match track_imgs cbs (w_imgs w) with
  | None => None
  | Some imgs =>
    if closed_after && negb (match imgs with [] => true | _ => false end) then None else
    let '(q', tr') := adv c0 tdrv w o x in
    let now := q_now (w_q w) in
    let w' := mkW q' tr' (w_tprev w) (w_hb w) (w_hbenv w) (w_bound w) (w_inactive w) nclose imgs in
    match o with
    | Add _ _ _ _ =>
        if (closed_before || w_inactive w) && is_okr r then None else Some w'
    | Find _ _ =>
        if closed_before && negb (res_is r Closed) then None else Some w'
    | Peek k r' =>
        if closed_before && w_track w then
          match rlookup k r' (q_regs (w_q w)), r with
          | Some (LReady (Some _) _ _ _), Ok [_; cl; n; _; _; _] => if (cl =? 1) && (n =? 0) then Some w' else None
          | Some (LReady (Some _) _ _ _), _ => None
          | _, _ => Some w'
          end
        else Some w'
    | DropHandle _ _ => Some w'
    | Close =>
        if closed_after && (closed_before || (negb tr' || counters_closed q' cbs)) then Some w' else None
    | Tick _ => Some w'
    | SetDriverHb t => Some (mkW q' tr' (w_tprev w) t (w_hbenv w) (w_bound w) (w_inactive w) nclose imgs)
    | SetHbCounter v => Some (mkW q' tr' (w_tprev w) (w_hb w) v (w_bound w) (w_inactive w) nclose imgs)
    | DoWork BLapped | DoWork BOversize =>
        match r, cbs, cmds with
        | Err _, [], [] => Some (mkW q' tr' now (w_hb w) (w_hbenv w) (w_bound w) (w_inactive w) nclose imgs)
        | _, _, _ => None
        end
    | DoWork b =>
        if negb (is_okr r) then None else
        let stall := w_tprev w + tis <? now in
        let keep := w_tprev w + KEEPALIVE_TIMEOUT_MS <? now in
        let silent := keep && (0 <=? w_hb w) && (w_hb w + tdrv <? now) in
        let lost := keep && w_bound w && negb (w_hbenv w =? 1) in
        let own_timeout := match b with BEvent (EvClientTimeout cid) => (cid =? c0) && negb closed_before | _ => false end in
        let ctr_event := match b with BEvent (EvUnavailCounter _ _) => true | _ => false end in
        if stall && negb (has_err EServiceTimeout cbs && closed_after) then None
        else if own_timeout && negb (has_err EClientTimeout cbs && closed_after) then None
        else if silent && negb (has_err EWasInactive cbs) then None
        else if lost && negb (has_err EHeartbeatLost cbs && closed_after) then None
        else if negb closed_before && closed_after && tr' && negb ctr_event && negb (counters_closed q' cbs) then None
        else Some (mkW q' tr' now (w_hb w) (w_hbenv w)
                       (w_bound w || (keep && (w_hbenv w =? 1)))
                       (w_inactive w || has_err EWasInactive cbs) nclose imgs)
    end
  end.

Fixpoint c10_run (c0 tdrv tis : Z) (w : wst) (ops : list op) (outs : list out) : bool :=
  match ops, outs with
  | [], [] => true
  | o :: ops', x :: outs' =>
      match c10_step c0 tdrv tis w o x with
      | None => false
      | Some w' => c10_run c0 tdrv tis w' ops' outs'
      end
  | _, _ => false
  end.

Definition holds_c10 (c0 now0 tdrv tis : Z) (ops : list op) (outs : list out) : bool :=
  c10_run c0 tdrv tis (winit c0 now0) ops outs.
