(* Decidable form of property C10 (the conductor survives faults), evaluated on the observations of a history.
   `holds_c10` is the conjunction of three independent judges that run over the same history:

   c10_core  - every operation comes back with Ok or Err - never Panic, Hang or Crash - and the history is answered in
               full; faults are reported: an overrun or oversize broadcast makes that duty cycle return Err (and do
               nothing else); an ordinary duty cycle returns Ok (also after a fault: processing goes on); a duty cycle
               later than the inter-service time-out after the previous one calls the error handler (service
               time-out) and closes; the driver's client-time-out event for this client, while open, calls the error
               handler and closes; a silent driver (heartbeat older than the driver time-out when the keep-alive
               check is certainly due) calls the error handler, and add_* calls are refused from then on; a lost
               client heartbeat counter calls the error handler and closes; the close handler fires at most once in
               the whole history and has fired after Close; once it has fired add_* / find_* report Closed (add_* may
               report the inactive driver instead) and every handle the user can still look at is closed, a
               subscription without images.
   c10_imgs  - every unavailable-image callback matches an image that was announced to that subscription and not yet
               taken back, and carries a closed image; when the close handler has fired no announced image is left:
               each image got exactly one unavailable callback.
   c10_ctrs  - at the operation that closes the client every counter handle alive (according to the life-cycle
               automaton of C09Oracle) gets exactly one unavailable callback and no other registration gets one.
   c10_chan  - a channel endpoint error (error code 4) is told to the error handler: at the duty cycle that receives it, if the
               life-cycle automaton of C09Oracle knows a live resource on that channel status indicator (a subscription
               from its ready answer on, a publication / exclusive publication that has been looked up and is held), the
               error handler is called with ChannelEndpointException(that id); if it knows of none (and no registration is
               in an unspecified state) the handler is not called; c10_core adds that ChannelEndpointException is never
               reported at any other operation nor with another id. Which registrations are ended is C09's statement; the
               images of the subscriptions ended are closed and reported like all images (c10_imgs).
   What the later events do to the registrations after a fault is judged by C09's automaton, which keeps running
   across the faults. *)
Require Import V.Base.MachineInt.
Require Import V.Generated.GenConsts.
Require Import V.Model.Conductor.
Require Import V.Oracle.C09Oracle.
Open Scope Z_scope.

Definition cerr_eqb (a b : cerr) : bool :=
  match a, b with
  | EServiceTimeout, EServiceTimeout | EWasInactive, EWasInactive | EInactive, EInactive
  | EHeartbeatLost, EHeartbeatLost | EClientTimeout, EClientTimeout => true
  | EChannelEndpoint a, EChannelEndpoint b => a =? b
  | _, _ => false
  end.
Definition has_err (e : cerr) (cbs : list cb) : bool :=
  existsb (fun c => match c with CbErr e' => cerr_eqb e e' | _ => false end) cbs.
Definition count_close_cb (cbs : list cb) : nat := length (filter is_close_cb cbs).
(* ChannelEndpointException is only reported by the duty cycle that received the channel endpoint error, with the id the driver sent *)
Definition chan_errs_ok (o : op) (cbs : list cb) : bool :=
  forallb (fun c => match c with
                    | CbErr (EChannelEndpoint y) => match o with DoWork (BEvent (EvChanError x)) => y =? x | _ => false end
                    | _ => true
                    end) cbs.
Definition is_fine (r : res) : bool := match r with Ok _ | Err _ => true | _ => false end.
Definition is_okr (r : res) : bool := match r with Ok _ => true | _ => false end.

(* ------------------------------------------------------------------------------------------------------------ *)
Record wst := mkW {
  w_now : Z;
  w_tprev : Z;                  (* time of the previous duty cycle (or of the creation of the conductor) *)
  w_hb : Z;                     (* the driver's heartbeat *)
  w_hbenv : Z;
  w_bound : bool;               (* the conductor has certainly found its heartbeat counter *)
  w_inactive : bool;            (* the driver has been reported inactive *)
  w_closed : bool               (* the close handler has fired *)
}.

Definition winit (now0 : Z) : wst := mkW now0 now0 0 0 false false false.

Definition c10_core_step (c0 tdrv tis : Z) (w : wst) (o : op) (x : out) : option wst :=
  let '(r, cbs, cmds) := x in
  if negb (is_fine r) then None else
  if negb (chan_errs_ok o cbs) then None else
  let nclose := count_close_cb cbs in
  if (if w_closed w then 0 <? Z.of_nat nclose else 1 <? Z.of_nat nclose) then None else
  let closed_before := w_closed w in
  let closed_after := w_closed w || (0 <? Z.of_nat nclose) in
  let now := w_now w in
  let w' := mkW now (w_tprev w) (w_hb w) (w_hbenv w) (w_bound w) (w_inactive w) closed_after in
  match o with
  | Add _ _ _ _ => if (closed_before || w_inactive w) && is_okr r then None else Some w'
  | Find _ _ => if closed_before && negb (res_is r Closed) then None else Some w'
  | Peek k _ =>
      if closed_before && negb (kind_eqb k KDest) then
        match r with
        | Ok [_; cl; n; _; _; _] => if (cl =? 1) && (if kind_eqb k KSub then n =? 0 else true) then Some w' else None
        | _ => Some w'
        end
      else Some w'
  | DropHandle _ _ | CloseHandle _ _ => Some w'
  | Close => if closed_after then Some w' else None
  | Tick d => Some (mkW (now + d) (w_tprev w) (w_hb w) (w_hbenv w) (w_bound w) (w_inactive w) closed_after)
  | SetDriverHb t => Some (mkW now (w_tprev w) t (w_hbenv w) (w_bound w) (w_inactive w) closed_after)
  | SetHbCounter v => Some (mkW now (w_tprev w) (w_hb w) v (w_bound w) (w_inactive w) closed_after)
  | SetRingFull _ => Some w'
  | DoWork BLapped | DoWork BOversize =>
      match r, cbs, cmds with
      | Err _, [], [] => Some (mkW now now (w_hb w) (w_hbenv w) (w_bound w) (w_inactive w) closed_after)
      | _, _, _ => None
      end
  | DoWork b =>
      if negb (is_okr r) then None else
      let stall := w_tprev w + tis <? now in
      let keep := w_tprev w + KEEPALIVE_TIMEOUT_MS <? now in
      let silent := keep && (0 <=? w_hb w) && (w_hb w + tdrv <? now) in
      let lost := keep && w_bound w && negb (w_hbenv w =? 1) in
      let own_timeout := match b with BEvent (EvClientTimeout cid) => (cid =? c0) && negb closed_before | _ => false end in
      if stall && negb (has_err EServiceTimeout cbs && closed_after) then None
      else if own_timeout && negb (has_err EClientTimeout cbs && closed_after) then None
      else if silent && negb (has_err EWasInactive cbs) then None
      else if lost && negb (has_err EHeartbeatLost cbs && closed_after) then None
      else Some (mkW now now (w_hb w) (w_hbenv w)
                     (w_bound w || (keep && (w_hbenv w =? 1)))
                     (w_inactive w || has_err EWasInactive cbs) closed_after)
  end.

Fixpoint c10_core_run (c0 tdrv tis : Z) (w : wst) (ops : list op) (outs : list out) : bool :=
  match ops, outs with
  | [], [] => true
  | o :: ops', x :: outs' =>
      match c10_core_step c0 tdrv tis w o x with
      | None => false
      | Some w' => c10_core_run c0 tdrv tis w' ops' outs'
      end
  | _, _ => false
  end.

(* ------------------------------------------------------------------------------------------------------------ *)
(* images per subscription, in the order they were announced *)
Definition imap := list (Z * list Z).
Fixpoint iget (r : Z) (m : imap) : list Z :=
  match m with [] => [] | (k, l) :: t => if k =? r then l else iget r t end.
Fixpoint iset (r : Z) (v : list Z) (m : imap) : imap :=
  match m with
  | [] => [(r, v)]
  | (k, l) :: t => if k =? r then (k, v) :: t else (k, l) :: iset r v t
  end.

Fixpoint track_imgs (cbs : list cb) (m : imap) : option imap :=
  match cbs with
  | [] => Some m
  | CbAvailImg s i _ :: t => track_imgs t (iset s (iget s m ++ [i]) m)
  | CbUnavailImg s i cl :: t =>
      if cl =? 1 then match remove_first i (iget s m) with Some l' => track_imgs t (iset s l' m) | None => None end else None
  | _ :: t => track_imgs t m
  end.

Definition all_empty (m : imap) : bool := forallb (fun p => match snd p with [] => true | _ => false end) m.

(* state: the images, whether the close handler has fired *)
Fixpoint c10_imgs_run (m : imap) (closed : bool) (outs : list out) : bool :=
  match outs with
  | [] => true
  | x :: outs' =>
      match track_imgs (snd (fst x)) m with
      | None => false
      | Some m' =>
          let closed' := closed || existsb is_close_cb (snd (fst x)) in
          if closed' && negb (all_empty m') then false else c10_imgs_run m' closed' outs'
      end
  end.

(* ------------------------------------------------------------------------------------------------------------ *)
Definition count_unavail_ctr (r : Z) (cbs : list cb) : nat :=
  length (filter (fun c => match c with CbUnavailCtr r' _ => r' =? r | _ => false end) cbs).

(* counters whose handle exists according to the life-cycle automaton *)
Definition ctr_alive (x : kind * Z * life) : bool :=
  match x with (KCtr, _, LReady _ _ _ _) => true | _ => false end.
Definition ctr_unknown (x : kind * Z * life) : bool :=
  match x with (KCtr, _, LAny) => true | _ => false end.

Definition counters_closed (regs : list (kind * Z * life)) (cbs : list cb) : bool :=
  forallb (fun x => if ctr_alive x then (count_unavail_ctr (snd (fst x)) cbs =? 1)%nat
                    else if ctr_unknown x then true else (count_unavail_ctr (snd (fst x)) cbs =? 0)%nat) regs.

(* the life-cycle automaton of C09 runs along; at the operation in which the close handler fires the counters are
   compared with the registrations as they are after that operation's event. Once the automaton has rejected an
   observation (C09's business) its facts are no longer used. *)
Fixpoint c10_ctrs_run (c0 tdrv : Z) (full : bool) (q : ost) (ops : list op) (outs : list out) : bool :=
  match ops, outs with
  | o :: ops', x :: outs' =>
      match c09_step c0 tdrv full q o x with
      | Next q' =>
          let cbs := snd (fst x) in
          let ctr_event := match o with DoWork (BEvent (EvUnavailCounter _ _)) => true | _ => false end in
          if negb (q_closed q) && existsb is_close_cb cbs && negb ctr_event && negb (counters_closed (q_regs q') cbs)
          then false else c10_ctrs_run c0 tdrv (match o with SetRingFull b => b | _ => full end) q' ops' outs'
      | _ => true
      end
  | _, _ => true
  end.

(* ------------------------------------------------------------------------------------------------------------ *)
(* registrations the channel endpoint error for status id x ends / whose state the automaton does not know *)
Definition chan_hits (x : Z) (p : kind * Z * life) : bool :=
  match chan_tr (fst (fst p)) x (snd p), snd p with
  | LGone, LReady _ _ _ _ => true
  | _, _ => false
  end.
Definition chan_unknown (p : kind * Z * life) : bool :=
  match p with (KSub, _, LAny) | (KPub, _, LAny) | (KXPub, _, LAny) => true | _ => false end.

Fixpoint c10_chan_run (c0 tdrv : Z) (full : bool) (q : ost) (ops : list op) (outs : list out) : bool :=
  match ops, outs with
  | o :: ops', x :: outs' =>
      match c09_step c0 tdrv full q o x with
      | Next q' =>
          let cbs := snd (fst x) in
          let ok :=
            match o, fst (fst x) with
            | DoWork (BEvent (EvChanError y)), Ok _ =>
                if q_closed q then negb (has_err (EChannelEndpoint y) cbs)
                else if existsb (chan_hits y) (q_regs q) then has_err (EChannelEndpoint y) cbs
                else if existsb chan_unknown (q_regs q) then true
                else negb (has_err (EChannelEndpoint y) cbs)
            | _, _ => true
            end in
          if ok then c10_chan_run c0 tdrv (match o with SetRingFull b => b | _ => full end) q' ops' outs' else false
      | _ => true
      end
  | _, _ => true
  end.

Definition holds_c10 (c0 now0 tdrv tis : Z) (ops : list op) (outs : list out) : bool :=
  c10_core_run c0 tdrv tis (winit now0) ops outs && c10_imgs_run [] false outs && c10_ctrs_run c0 tdrv false (oinit c0 now0) ops outs
  && c10_chan_run c0 tdrv false (oinit c0 now0) ops outs.
