(* Decidable form of property C17, applied to observations of the implementation
   (and, in the theorems of Props/C17.v, to the model's own results). *)
Require Import V.Base.MachineInt V.Generated.GenConsts V.Model.Descriptor.
Open Scope Z_scope.

Definition ok_eq (o : outcome Z) (v : Z) : bool :=
  match o with Ok x => x =? v | _ => false end.

(* observation for one (init, n, bits, off): results of compute_position,
   compute_term_begin_position, index_by_term, index_by_term_count, index_by_position,
   each an outcome (Panic when the implementation panicked) *)
Definition holds_position (init n bits off : Z)
  (pos begin ibt ibc ibp : outcome Z) : bool :=
  ok_eq pos (n * 2 ^ bits + off) && ok_eq begin (n * 2 ^ bits) &&
  ok_eq ibt (n mod 3) && ok_eq ibc (n mod 3) &&
  (if off <? 2 ^ bits then ok_eq ibp (n mod 3) else true) &&
  match pos with Ok p => 0 <=? p | _ => false end.

Definition holds_header (init n bits off len : Z) (hp : outcome Z) : bool :=
  ok_eq hp (n * 2 ^ bits + off + align len 32).

(* rotation: before = (t0,t1,t2,count), after likewise *)
Definition holds_rotate (init n : Z) (before : meta) (after : outcome meta) : bool :=
  match after with
  | Ok s' =>
      let i := (n + 1) mod 3 in
      (count s' =? n + 1) &&
      (get_tail s' i =? wrap32 (init + n + 1) * two32) &&
      (get_tail s' ((n + 2) mod 3) =? get_tail before ((n + 2) mod 3)) &&
      (get_tail s' (n mod 3) =? get_tail before (n mod 3))
  | _ => false
  end.

(* a LATE caller of rotate_log - same arguments (n, init+n), but the log has already been rotated to term count n+1 and
   somebody may have appended to the new term: nothing may change (in particular the new term's tail is not reset) *)
Definition meta_eqb (a b : meta) : bool :=
  (tail0 a =? tail0 b) && (tail1 a =? tail1 b) && (tail2 a =? tail2 b) && (count a =? count b).
Definition holds_rotate_late (before : meta) (after : outcome meta) : bool :=
  match after with Ok s' => meta_eqb s' before | _ => false end.

Definition holds_consistency (init n c : Z) (accepted : bool) : bool :=
  Bool.eqb accepted (c =? n).

(* helpers for evaluating cases: the harness builds the meta data exactly like this *)
Definition c17_meta (init n o0 o1 o2 : Z) : meta :=
  let t := wrap32 (init + n) in
  let a := n mod 3 in
  let off i := if i =? 0 then o0 else if i =? 1 then o1 else o2 in
  let tid i := if i =? a then t else if i =? (a + 1) mod 3 then wrap32 (t + 1 - 3) else wrap32 (t + 2 - 3) in
  {| tail0 := raw_tail_of_term (tid 0) + off 0; tail1 := raw_tail_of_term (tid 1) + off 1;
     tail2 := raw_tail_of_term (tid 2) + off 2; count := n |}.
Definition meta_tuple (s : meta) := (tail0 s, tail1 s, tail2 s, count s).
Definition tuple_meta (t : Z * Z * Z * Z) : meta :=
  let '(a, b, c, d) := t in {| tail0 := a; tail1 := b; tail2 := c; count := d |}.

(* One offer of `len` bytes (unfragmented) through a real publication on a log handed over at
   term count n0 / tail offset off0 with an unlimited publication limit:
   observation = (offer result, position() afterwards, active term count, raw tails 0..2).
   In the very last term (n0 = 2^31 - 1) an offer that does not fit is refused with
   MaxPositionExceeded: no rotation, the position stops at the end of the position space TL * 2^31
   (the tail counter may have overshot the term: position() clamps it to the term length). *)
Definition holds_pub (init n0 bits off0 len : Z)
  (obs : outcome Z * outcome Z * Z * Z * Z * Z) : bool :=
  let '(offer, pos, cnt, t0, t1, t2) := obs in
  let tl := 2 ^ bits in
  let required := align (len + 32) 32 in
  let s' := {| tail0 := t0; tail1 := t1; tail2 := t2; count := cnt |} in
  if off0 + required <=? tl then
    ok_eq offer (n0 * tl + off0 + required) && ok_eq pos (n0 * tl + off0 + required) && (cnt =? n0)
    && (get_tail s' (n0 mod 3) =? wrap32 (init + n0) * two32 + off0 + required)
  else if n0 =? two31 - 1 then
    match offer with Err MaxPositionExceeded => true | _ => false end
    && ok_eq pos (two31 * tl) && (cnt =? n0)
    && (term_id_of (get_tail s' (n0 mod 3)) =? wrap32 (init + n0))
  else
    match offer with Err AdminAction => true | _ => false end
    && ok_eq pos ((n0 + 1) * tl) && (cnt =? n0 + 1)
    && (get_tail s' ((n0 + 1) mod 3) =? wrap32 (init + n0 + 1) * two32).

(* Publication::position() / ExclusivePublication::position() on a log handed over at term count n0 with the
   active tail counter at off0, where off0 may lie beyond the term length (an append that tripped the end of the
   term has added to the tail and nobody has rotated yet): the stream position is n0 * TL + min(off0, TL) - never
   past the end of the term, never beyond the end of the position space. *)
Inductive skipped := Skipped.   (* printed where the harness does not run the exclusive flavour *)
Definition holds_ppos (init n0 bits off0 : Z) (pos : outcome Z) : bool :=
  ok_eq pos (n0 * 2 ^ bits + Z.min off0 (2 ^ bits)).
(* what the code computes: term id and clamped offset taken from the raw tail, then compute_position *)
Definition model_ppos (m : mode) (init n0 bits off0 : Z) : outcome Z :=
  let raw := raw_tail_of_term (wrap32 (init + n0)) + off0 in
  compute_position m (term_id_of raw) (term_offset_of raw (2 ^ bits)) bits init.
