(* Decidable form of property C15, applied to the observations of a history
   (the implementation's, in the check; the model's own, in the theorems of Props/C15.v).

   The oracle keeps its own book-keeping, derived from the history alone (which ids `allocate`
   returned and which were freed when, what was stored under them): it never calls the model.
   The API contract (free only on live ids, value writes only on live ids or on freed ids that were
   not handed out again, clock and cool-down within i64 milliseconds, u64 values) is the boolean [contract_step]; judging stops at the first
   operation that breaks it. *)
Require Import V.Base.MachineInt.
Require Import V.Generated.GenConsts.
Require Import V.Model.Counters.
Open Scope Z_scope.

Definition memb (x : Z) (l : list Z) : bool := existsb (Z.eqb x) l.
Fixpoint remove_first (x : Z) (l : list Z) : list Z :=
  match l with [] => [] | y :: t => if y =? x then t else y :: remove_first x t end.
Fixpoint remove_all (x : Z) (l : list Z) : list Z :=
  match l with [] => [] | y :: t => if y =? x then remove_all x t else y :: remove_all x t end.
Fixpoint asc (l : list Z) : bool :=
  match l with a :: (b :: _) as t => (a <? b) && asc t | _ => true end.
Fixpoint leqb (a b : list Z) : bool :=
  match a, b with [] , [] => true | x :: a', y :: b' => (x =? y) && leqb a' b' | _, _ => false end.
(* [p] is a prefix of [k] followed by zeros *)
Fixpoint prefix_pad (p k : list Z) : bool :=
  match p with [] => true | x :: p' => (x =? hd 0 k) && prefix_pad p' (tl k) end.

Record info := mkinfo { i_type : Z; i_key : list Z; i_label : list Z; i_value : Z }.
Record spec := mkspec {
  sp_live : list Z;          (* ids handed out and not freed since *)
  sp_freed : list Z;         (* ids freed and not handed out again, oldest first *)
  sp_used : Z;               (* number of distinct ids ever handed out *)
  sp_info : Z -> info;       (* what was stored under a live id *)
  sp_freed_at : Z -> Z;      (* clock reading when the id was last freed *)
  sp_now : Z }.
Definition spec0 : spec := mkspec [] [] 0 (fun _ => mkinfo 0 [] [] 0) (fun _ => 0) 0.

Record cfg := mkcfg { g_nm : Z; g_nv : Z; g_timeout : Z }.
(* number of slots both buffers hold *)
Definition g_n (g : cfg) : Z := Z.min (g_nm g) (g_nv g).

(* configurations the theorems cover: offsets of both buffers (plus one record) fit i32,
   the cool-down fits i64 milliseconds *)
Definition cfg_ok (g : cfg) : bool :=
  (0 <=? g_nm g) && (g_nm g * ML + ML <? two31) && (0 <=? g_nv g) && (g_nv g * CL + CL <? two31)
  && (0 <=? g_timeout g) && (g_timeout g <? two63).

(* an allocation whose key callback also takes a reader snapshot is, for every clause but [c_snapshot],
   the allocation with that key callback *)
Definition norm_op (o : op) : op :=
  match o with AllocSnap t k l => Alloc t (KFunc k) l | _ => o end.
Definition norm_ob (ob : obs) : obs :=
  match ob with OSnap r va ids _ => OStep r va ids | _ => ob end.

Definition contract_step (g : cfg) (o : op) (sp : spec) : bool :=
  match norm_op o with
  | Alloc t ks _ => in_i32 t && (match ks with KFunc k => zlen k <=? MAXKEY | _ => true end)
  | Free id => memb id (sp_live sp)
  (* a value write is legal on a live counter and - the reason the cool-down exists - as a late write of
     the former owner on a freed id that has not been handed out again *)
  | SetVal id v => (memb id (sp_live sp) || memb id (sp_freed sp)) && in_u64 v
  | SetClock t => (0 <=? t) && (t + g_timeout g <? two63)
  | Dump => true
  | AllocSnap _ _ _ => true
  end.

Definition stored_key (ks : keysrc) : list Z := match ks with KOpt k => k | KFunc k => k | _ => [] end.
Definition args_bad (ks : keysrc) (label : list Z) : bool :=
  has_nul label || (zlen label >? MAXLAB) || key_ambiguous ks || key_too_long ks.
Definition cooled (g : cfg) (sp : spec) (id : Z) : bool := sp_freed_at sp id + g_timeout g <=? sp_now sp.
(* a slot can be handed out: one was never used, or a freed one has cooled down *)
Definition avail (g : cfg) (sp : spec) : bool := (sp_used sp <? g_n g) || existsb (cooled g sp) (sp_freed sp).

(* the enumeration [ids] is exactly the set [live], in ascending order *)
Definition ids_ok (ids : cres (list Z)) (live : list Z) : bool :=
  match ids with
  | COk l => asc l && forallb (fun x => memb x live) l && forallb (fun x => memb x l) live
  | _ => false
  end.

Definition is_ok0 (r : cres Z) : bool := match r with COk 0 => true | _ => false end.
Definition is_err {A} (r : cres A) : bool := match r with CErr _ => true | _ => false end.
Definition cres_eqb (r : cres Z) (v : Z) : bool := match r with COk x => x =? v | _ => false end.

(* --- the clauses of the property, per operation --- *)

(* no id is handed out twice among live counters, and ids lie inside both buffers *)
Definition c_unique (g : cfg) (o : op) (ob : obs) (sp : spec) : bool :=
  match norm_op o, norm_ob ob with
  | Alloc _ _ _, OStep (COk id) _ _ => (0 <=? id) && (id <? g_n g) && negb (memb id (sp_live sp))
  | _, _ => true
  end.

(* a freed id comes back only after its cool-down, and a counter starts from zero *)
Definition c_reuse (g : cfg) (o : op) (ob : obs) (sp : spec) : bool :=
  match norm_op o, norm_ob ob with
  | Alloc _ _ _, OStep (COk id) va _ =>
      (if memb id (sp_freed sp) then cooled g sp id else sp_used sp <? g_n g) && is_ok0 va
  | _, _ => true
  end.

(* allocation fails exactly when an argument is bad or no slot can be handed out, by an error,
   and then the enumeration still shows the same counters; no operation of a history panics *)
Definition c_fail_closed (g : cfg) (o : op) (ob : obs) (sp : spec) : bool :=
  match norm_op o, norm_ob ob with
  | Alloc _ ks label, OStep (COk _) _ _ => negb (args_bad ks label) && avail g sp
  | Alloc _ ks label, OStep (CErr _) _ ids => (args_bad ks label || negb (avail g sp)) && ids_ok ids (sp_live sp)
  | _, OStep r _ _ => is_ok0 r
  | _, _ => true
  end.

Definition entry_id (e : entry) : Z := let '(id, _, _, _) := e in id.
Definition entry_item (e : entry) : Z * Z * Z := let '(_, t, k, l) := e in (t, hash k, hash l).
Definition item_eqb (a b : Z * Z * Z) : bool :=
  let '(t1, k1, l1) := a in let '(t2, k2, l2) := b in (t1 =? t2) && (k1 =? k2) && (l1 =? l2).
Fixpoint items_eqb (a b : list (Z * Z * Z)) : bool :=
  match a, b with [], [] => true | x :: a', y :: b' => item_eqb x y && items_eqb a' b' | _, _ => false end.

Definition entry_ok (sp : spec) (e : entry) : bool :=
  let '(id, t, k, l) := e in
  let i := sp_info sp id in
  (t =? i_type i) && (zlen k <=? MAXKEY) && prefix_pad (i_key i) k && leqb l (i_label i).

(* the state of the live set after the operation, as the history determines it *)
Definition live_after (o : op) (ob : obs) (sp : spec) : list Z :=
  match norm_op o, norm_ob ob with
  | Alloc _ _ _, OStep (COk id) _ _ => id :: sp_live sp
  | Free id, OStep (COk _) _ _ => remove_all id (sp_live sp)
  | _, _ => sp_live sp
  end.

(* exactly the live counters are enumerated (after every operation: their ids; at a dump: with the
   type, key and label stored; the iterator yields the same records) *)
Definition c_enumerate (o : op) (ob : obs) (sp : spec) : bool :=
  match norm_ob ob with
  | OStep _ _ ids => ids_ok ids (live_after o ob sp)
  | ODump (fe, it, _, _, _, _) =>
      match fe, it with
      | COk l, COk li =>
          ids_ok (COk (map entry_id l)) (sp_live sp) && forallb (entry_ok sp) l
          && items_eqb li (map entry_item l)
      | _, _ => false
      end
  | OSnap _ _ _ _ => false
  end.

(* every accessor answers for every probed id; a live id reads back what was stored,
   a freed one its state and deadline, anything else is not reported as allocated *)
Definition probe_ok (g : cfg) (sp : spec) (p : probe) : bool :=
  let '(id, v, st, dl, lab) := p in
  negb (is_panic v) && negb (is_panic st) && negb (is_panic dl) && negb (is_panic lab) &&
  (if memb id (sp_live sp) then
     cres_eqb v (i_value (sp_info sp id)) && cres_eqb st ST_ALLOCATED && cres_eqb dl NOT_FREE
     && cres_eqb lab (hash (i_label (sp_info sp id)))
   else if memb id (sp_freed sp) then
     cres_eqb st ST_RECLAIMED && cres_eqb dl (sp_freed_at sp id + g_timeout g)
   else negb (cres_eqb st ST_ALLOCATED))
  && (if (0 <=? id) && (id <? g_n g) then negb (is_err v) && negb (is_err st) && negb (is_err dl) && negb (is_err lab)
      else is_err v && is_err st && is_err dl && is_err lab).

(* first enumerated counter with the given type and first eight key bytes, -1 if none *)
Fixpoint first_match (l : list entry) (t reg : Z) : Z :=
  match l with
  | [] => -1
  | (id, t', k, _) :: rest =>
      if (t' =? t) && (wrap64 (le_bytes (firstn 8 k)) =? reg) then id else first_match rest t reg
  end.
Fixpoint lookups_ok (all l : list entry) (lk : list (cres Z * cres bool)) : bool :=
  match l, lk with
  | [], [(f, a)] => cres_eqb f (first_match all 11 (-77))
  | (id, t, k, _) :: l', (f, a) :: lk' =>
      cres_eqb f (first_match all t (wrap64 (le_bytes (firstn 8 k))))
      && (match a with COk true => true | _ => false end) && lookups_ok all l' lk'
  | _, _ => false
  end.

Definition c_total (g : cfg) (o : op) (ob : obs) (sp : spec) : bool :=
  match ob with
  | ODump (fe, _, probes, lk, _, _) =>
      forallb (probe_ok g sp) probes
      && match fe with COk l => lookups_ok l l lk | _ => false end
  | _ => true
  end.

Definition shape_ok (o : op) (ob : obs) : bool :=
  match o, ob with
  | Dump, ODump _ => true | Dump, _ => false
  | AllocSnap _ _ _, OSnap _ _ _ _ => true | AllocSnap _ _ _, _ => false
  | _, OStep _ _ _ => true | _, _ => false
  end.

(* a reader that runs while a counter is being allocated (during the key callback) still sees exactly the
   counters stored so far: the enumeration is the live set from before the allocation, and the record of the
   id being handed out does not show as allocated yet (a never-used one reads unused, a freed one reclaimed) *)
Definition c_snapshot (o : op) (ob : obs) (sp : spec) : bool :=
  match o, ob with
  | AllocSnap _ _ _, OSnap (COk id) _ _ snap =>
      match snap with
      | [(sids, st)] => ids_ok sids (sp_live sp)
                        && cres_eqb st (if memb id (sp_freed sp) then ST_RECLAIMED else ST_UNUSED)
      | _ => false
      end
  | _, _ => true
  end.

Definition chk (g : cfg) (o : op) (ob : obs) (sp : spec) : bool :=
  shape_ok o ob && c_unique g o ob sp && c_reuse g o ob sp && c_fail_closed g o ob sp
  && c_enumerate o ob sp && c_total g o ob sp && c_snapshot o ob sp.

Definition spec_step (o : op) (ob : obs) (sp : spec) : spec :=
  match norm_op o, norm_ob ob with
  | Alloc t ks label, OStep (COk id) _ _ =>
      mkspec (id :: sp_live sp) (remove_first id (sp_freed sp))
             (if memb id (sp_freed sp) then sp_used sp else sp_used sp + 1)
             (upd (sp_info sp) id (mkinfo t (stored_key ks) label 0)) (sp_freed_at sp) (sp_now sp)
  | Free id, OStep (COk _) _ _ =>
      mkspec (remove_all id (sp_live sp)) (sp_freed sp ++ [id]) (sp_used sp) (sp_info sp)
             (upd (sp_freed_at sp) id (sp_now sp)) (sp_now sp)
  | SetVal id v, OStep (COk _) _ _ =>
      let i := sp_info sp id in
      mkspec (sp_live sp) (sp_freed sp) (sp_used sp)
             (upd (sp_info sp) id (mkinfo (i_type i) (i_key i) (i_label i) v)) (sp_freed_at sp) (sp_now sp)
  | SetClock t, _ =>
      mkspec (sp_live sp) (sp_freed sp) (sp_used sp) (sp_info sp) (sp_freed_at sp) t
  | _, _ => sp
  end.

(* one clause [c] along a whole history *)
Fixpoint holds_with (g : cfg) (c : op -> obs -> spec -> bool) (ops : list op) (obs : list obs) (sp : spec) : bool :=
  match ops with
  | [] => match obs with [] => true | _ => false end
  | o :: ops' =>
      if contract_step g o sp then
        match obs with
        | ob :: obs' => c o ob sp && holds_with g c ops' obs' (spec_step o ob sp)
        | [] => false
        end
      else true
  end.

Definition holds (nm nv timeout : Z) (ops : list op) (obs : list obs) : bool :=
  let g := mkcfg nm nv timeout in
  if cfg_ok g then holds_with g (chk g) ops obs spec0 else true.

(* the flood case: however many allocations are attempted on a full manager, none succeeds, the live
   counters stay enumerated and counter 0 keeps its label *)
Definition holds_flood (nm nv : Z) (obs : Z * Z * cres Z * cres (list Z) * cres Z) : bool :=
  let '(filled, oks, last, ids, lab0) := obs in
  let n := Z.min nm nv in
  (filled =? n) && (oks =? 0) && is_err last
  && (match ids with COk l => leqb l (zrange 0 (Z.to_nat n)) | _ => false end)
  && cres_eqb lab0 (hash (mk_label 2 0 (-1))).
