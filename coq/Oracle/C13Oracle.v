(* Decidable form of property C13, applied to observations of the implementation
   (and, in Props/C13.v, to the model's own results). *)
Require Import V.Base.MachineInt V.Model.WireBytes V.Model.WireCodes V.Model.WireCommands.
Open Scope Z_scope.

Definition request_eqb (a b : request) : bool := if request_eq_dec a b then true else false.
Definition bytes_eqb (a b : bytes) : bool := if list_eq_dec Z.eq_dec a b then true else false.
Fixpoint records_eqb (a b : list (Z * bytes)) : bool :=
  match a, b with
  | [], [] => true
  | (t, x) :: a', (u, y) :: b' => (t =? u) && bytes_eqb x y && records_eqb a' b'
  | _, _ => false
  end.

(* one DriverProxy call for request r on a fresh ring by a client whose id is c0 (the next
   correlation id is c0 + 1).  Observation:
     res   the API result (correlation id, 0 for the calls that return none),
     raw   the records found in the ring memory, as (type id, bytes),
     rd    the records ManyToOneRingBuffer::read delivers, as (type id, bytes),
     tail  the ring's tail position.
   A request whose protocol record fits the 512-byte command buffer appears as exactly one record
   whose type is the protocol's code and which the protocol-side decoder maps back to the caller's
   arguments; one that does not fit is rejected with an error and the ring stays empty. *)
Definition holds_cmd (c0 : Z) (r : request) (res : outcome Z) (raw rd : list (Z * bytes)) (tail : Z) : bool :=
  if spec_length r <=? CMD_BUF then
    match raw with
    | [(t, bs)] =>
        (t =? protocol_code (request_cmd r)) &&
        match decode_cmd_spec t bs with
        | Some (cl, co, r') => (cl =? c0) && (co =? wire_correlation_id (wrap64 (c0 + 1)) r) && request_eqb r' r
        | None => false
        end &&
        match res with
        | Ok v => v =? (if draws_correlation_id r then wrap64 (c0 + 1) else 0)
        | _ => false
        end &&
        records_eqb rd raw
    | _ => false
    end
  else
    match res with Err _ => true | _ => false end &&
    match raw, rd with [], [] => true | _, _ => false end && (tail =? 0).


(* ---- sequences of calls on one ring that is drained now and then (Model/WireProxySeq.v) ---- *)
Require Import V.Model.WireProxySeq.

(* `pending`: the requests the API reported Ok for and the driver has not read yet, oldest first,
   each with the value the API returned.  The records a drain hands out must be exactly the next
   pending requests, in order: protocol type code, and the protocol decoder returns client id,
   the returned correlation id and the caller's arguments. *)
Definition record_is (c0 : Z) (rv : request * Z) (rec : Z * bytes) : bool :=
  let '(r, v) := rv in let '(t, bs) := rec in
  (t =? protocol_code (request_cmd r)) &&
  match decode_cmd_spec t bs with
  | Some (cl, co, r') => (cl =? c0) && (co =? wire_correlation_id v r) && request_eqb r' r
  | None => false
  end.

Fixpoint after_drain (c0 : Z) (pending : list (request * Z)) (recs : list (Z * bytes)) {struct recs}
  : option (list (request * Z)) :=
  match recs with
  | [] => Some pending
  | rec :: recs' =>
      match pending with
      | [] => None                                   (* a record nobody asked for *)
      | rv :: p' => if record_is c0 rv rec then after_drain c0 p' recs' else None
      end
  end.

(* Some pending' = the observations are acceptable so far, pending' not yet delivered.
   A call must answer Ok or Err; Ok only for a request that fits the command buffer, and it makes the
   request pending (so it must show up as a record, exactly once, in order); Err leaves nothing. *)
Fixpoint after_steps (c0 : Z) (pending : list (request * Z)) (ops : list op) (obs : list step_obs) {struct ops}
  : option (list (request * Z)) :=
  match ops, obs with
  | [], [] => Some pending
  | OpCall r :: ops', Call res :: obs' =>
      match res with
      | Ok v =>
          if (spec_length r <=? CMD_BUF) && (draws_correlation_id r || (v =? 0))
          then after_steps c0 (pending ++ [(r, v)]) ops' obs' else None
      | Err _ => after_steps c0 pending ops' obs'
      | _ => None
      end
  | OpDrain _ :: ops', Drained recs :: obs' =>
      match after_drain c0 pending recs with
      | Some p => after_steps c0 p ops' obs'
      | None => None
      end
  | _, _ => None
  end.

(* a sequence that ends with the ring drained: number of Ok results = number of records delivered,
   each record decodes to its request, refused requests left nothing *)
Definition holds_seq (c0 : Z) (ops : list op) (obs : list step_obs) : bool :=
  match after_steps c0 [] ops obs with Some [] => true | _ => false end.

(* A request whose record cannot be encoded in the 512-byte command buffer (here: terminate-driver with a token of 2^31 bytes
   and more, which the model does not spell out byte by byte): by C13_reject the call answers Err TooLong, writes nothing,
   leaves the tail at 0 and draws no correlation id.  Observation = (result, raw records, read records, tail, next id). *)
Definition holds_reject (c0 : Z) (res : outcome Z) (raw rd : list (Z * list Z)) (tail next : Z) : bool :=
  match res, raw, rd with
  | Err TooLong, [], [] => (tail =? 0) && (next =? c0 + 1)
  | _, _, _ => false
  end.
