(* Decidable form of property C13, applied to observations of the implementation
   (and, in Props/C13.v, to the model's own results). *)
Require Import V.Base.MachineInt V.Model.WireBytes V.Model.WireCodes V.Model.WireCommands.
Open Scope Z_scope.

Definition request_eqb (a b : request) : bool := if request_eq_dec a b then true else false.
Definition bytes_eqb (a b : bytes) : bool := if list_eq_dec Z.eq_dec a b then true else false.
Fixpoint records_eqb (a b : list (Z * bytes)) : bool :=
  match a, b with
  | [], [] => true
  | (t, x) :: a', (u, y) :: b' => (t =? u) && bytes_eqb x y && records_eqb a' b'
  | _, _ => false
  end.

(* one DriverProxy call for request r on a fresh ring by a client whose id is c0 (the next
   correlation id is c0 + 1).  Observation:
     res   the API result (correlation id, 0 for the calls that return none),
     raw   the records found in the ring memory, as (type id, bytes),
     rd    the records ManyToOneRingBuffer::read delivers, as (type id, bytes),
     tail  the ring's tail position.
   A request whose protocol record fits the 512-byte command buffer appears as exactly one record
   whose type is the protocol's code and which the protocol-side decoder maps back to the caller's
   arguments; one that does not fit is rejected with an error and the ring stays empty. *)
Definition holds_cmd (c0 : Z) (r : request) (res : outcome Z) (raw rd : list (Z * bytes)) (tail : Z) : bool :=
  if spec_length r <=? CMD_BUF then
    match raw with
    | [(t, bs)] =>
        (t =? protocol_code (request_cmd r)) &&
        match decode_cmd_spec t bs with
        | Some (cl, co, r') => (cl =? c0) && (co =? wire_correlation_id (wrap64 (c0 + 1)) r) && request_eqb r' r
        | None => false
        end &&
        match res with
        | Ok v => v =? (if draws_correlation_id r then wrap64 (c0 + 1) else 0)
        | _ => false
        end &&
        records_eqb rd raw
    | _ => false
    end
  else
    match res with Err _ => true | _ => false end &&
    match raw, rd with [], [] => true | _, _ => false end && (tail =? 0).

