(* Decidable form of property C04 (flow control and limits), evaluated on what the implementation returned:
   a history of operations on a log handed over at (n0, off0), and after every operation the triple
   (result, (active term count, raw tails, words of each of the three partitions that changed since the previous
   observation, as (offset, value now)), position()).
   The predicate is stated from the geometry, the operations and the observations alone - it does not run the model. *)
Require Import V.Base.MachineInt.
Require Import V.Generated.GenConsts.
Require Import V.Model.LogBase.
Open Scope Z_scope.

Record geom := mkGeom { g_tlen : Z; g_mtu : Z; g_init : Z; g_n0 : Z; g_off0 : Z; g_session : Z; g_stream : Z }.

Definition words := list (Z * Z).
Definition dump := (Z * list Z * list words)%type.
Definition obs := (outcome Z * dump * outcome Z)%type.

Definition d_count (d : dump) : Z := fst (fst d).
Definition d_tail (d : dump) (i : Z) : Z := nth (Z.to_nat i) (snd (fst d)) 0.
Definition d_part (d : dump) (i : Z) : words := nth (Z.to_nat i) (snd d) [].
Definition o_res (o : obs) : outcome Z := fst (fst o).
Definition o_dump (o : obs) : dump := snd (fst o).
Definition o_pos (o : obs) : outcome Z := snd o.

Inductive akind := KOffer | KClaim | KBulk.
Inductive oop :=
| OAppend (k : akind) (len : Z) | OCommit | OAbort | OLimit (v : Z) | OConn (b : bool) | OClose | OClean.

(* ---- the numbers the property speaks about ---- *)
Definition g_mpl (g : geom) : Z := g_mtu g - HDR.
Definition g_maxmsg (g : geom) : Z := Z.min (g_tlen g / 8) GenConsts.MAX_MESSAGE_LENGTH.
Definition g_maxpos (g : geom) : Z := g_tlen g * two31.
(* bytes a message of len bytes occupies in the log: one frame, or full fragments plus a last one *)
Definition required (g : geom) (len : Z) : Z :=
  let mpl := g_mpl g in
  if len <=? mpl then align (len + HDR) FA
  else (len / mpl) * (mpl + HDR) + (if 0 <? len mod mpl then align (len mod mpl + HDR) FA else 0).
Definition too_long (g : geom) (k : akind) (len : Z) : bool :=
  match k with KClaim => g_mpl g <? len | _ => g_maxmsg g <? len end.

(* ---- equality of observations ---- *)
Definition pair_eqb (a b : Z * Z) : bool := (fst a =? fst b) && (snd a =? snd b).
Fixpoint list_eqb {A} (eqb : A -> A -> bool) (x y : list A) : bool :=
  match x, y with
  | [], [] => true
  | a :: x', b :: y' => eqb a b && list_eqb eqb x' y'
  | _, _ => false
  end.
Definition words_eqb : words -> words -> bool := list_eqb pair_eqb.
Definition no_words (d : dump) : bool := forallb (fun w : words => match w with [] => true | _ => false end) (snd d).
(* count and tails as before, no word of any partition changed *)
Definition dump_eqb (a b : dump) : bool :=
  (d_count a =? d_count b) && list_eqb Z.eqb (snd (fst a)) (snd (fst b)) && no_words b.
Definition err_eqb (a b : err) : bool :=
  match a, b with
  | BackPressured, BackPressured | NotConnected, NotConnected | AdminAction, AdminAction
  | MaxPositionExceeded, MaxPositionExceeded | Closed, Closed | TooLong, TooLong => true
  | _, _ => false
  end.
Definition out_eqb (a b : outcome Z) : bool :=
  match a, b with
  | Ok x, Ok y => x =? y
  | Err e, Err f => err_eqb e f
  | _, _ => false
  end.
Definition is_err (r : outcome Z) (e : err) : bool := out_eqb r (Err e).

(* environment inputs as the history has set them so far *)
Record env := mkEnv { e_limit : Z; e_connected : bool; e_closed : bool }.
Definition env_after (e : env) (o : oop) : env :=
  match o with
  | OLimit v => mkEnv v (e_connected e) (e_closed e)
  | OConn b => mkEnv (e_limit e) b (e_closed e)
  | OClose => mkEnv (e_limit e) (e_connected e) true
  | _ => e
  end.

(* the refusal the property prescribes at position b *)
Definition refusal (g : geom) (e : env) (k : akind) (len b : Z) : err :=
  match k with
  | KClaim => if too_long g k len then TooLong
              else if g_maxpos g <=? b + len then MaxPositionExceeded
              else if e_connected e then BackPressured else NotConnected
  | _ => if g_maxpos g <=? b + len then MaxPositionExceeded
         else if e_connected e then BackPressured else NotConnected
  end.


Definition active (d : dump) : Z := d_count d mod 3.
Definition tail_off (d : dump) : Z := d_tail d (active d) mod two32.
Definition tail_tid (d : dump) : Z := wrap32 (d_tail d (active d) / two32).

(* the padding frame that closes a term at offset off *)
Definition pad_words (g : geom) (off tid : Z) : words :=
  nonzero (header_words off (g_tlen g - off)
             (mkFrame (g_tlen g - off) GenConsts.CURRENT_VERSION F_UNFRAG T_PAD off (g_session g) (g_stream g) tid 0 [])).

(* the publication's own view of the offset in the active term: position - term count * term length.  It equals the
   offset in the tail counter except after a message did not fit into the very last term (the tail counter then lies
   beyond the term while the position stops at, or - exclusive publication - before, the end of the term) *)
Definition pos_off (g : geom) (d : dump) (b : Z) : Z := b - d_count d * g_tlen g.

(* the active tail counter now reads (term id, off + req); the other two tails did not move *)
Definition tails_advanced (p c : dump) (off req : Z) : bool :=
  let a := active p in
  (d_tail c a =? d_tail p a - tail_off p + off + req) &&
  (d_tail c ((a + 1) mod 3) =? d_tail p ((a + 1) mod 3)) && (d_tail c ((a + 2) mod 3) =? d_tail p ((a + 2) mod 3)).

(* end of term: a padding frame from the tail offset to the end of the term (none when the term was exactly full),
   nothing else in any partition *)
Definition tripped_words (g : geom) (p c : dump) : bool :=
  let a := active p in
  let off := tail_off p in
  words_eqb (d_part c a) (if off <? g_tlen g then pad_words g off (tail_tid p) else []) &&
  words_eqb (d_part c ((a + 1) mod 3)) [] &&
  words_eqb (d_part c ((a + 2) mod 3)) [].

(* an accepted append only changes words inside [off, off + req) of the active partition *)
Definition appended_words (p c : dump) (off req : Z) : bool :=
  let a := active p in
  forallb (fun w => (off <=? fst w) && (fst w <? off + req)) (d_part c a) &&
  words_eqb (d_part c ((a + 1) mod 3)) [] &&
  words_eqb (d_part c ((a + 2) mod 3)) [].

(* count, tails and position as before *)
Definition same_meta_obs (p c : obs) : bool :=
  (d_count (o_dump p) =? d_count (o_dump c)) && list_eqb Z.eqb (snd (fst (o_dump p))) (snd (fst (o_dump c)))
  && out_eqb (o_pos p) (o_pos c).

(* one offer / claim / bulk offer of len bytes: p = observation before, c = observation after.
   flow_append: results, positions, term count and tail counters; words_append: the bytes of the three partitions *)
Definition flow_append (g : geom) (e : env) (k : akind) (len : Z) (p c : obs) : bool :=
  let req := required g len in
  let dp := o_dump p in
  let dc := o_dump c in
  match o_res c with
  | Ok np =>
      (* accepted: only below the limit, only open, only legal lengths; the new position is the stream position
         just after the message and never beyond the end of the position space *)
      negb (e_closed e) && negb (too_long g k len) &&
      match o_pos p with
      | Ok b => (b <? e_limit e) && (np =? b + req) && (np <=? g_maxpos g) && out_eqb (o_pos c) (Ok np)
                && (pos_off g dp b + req <=? g_tlen g) && tails_advanced dp dc (pos_off g dp b) req
      | _ => false
      end
      && (d_count dc =? d_count dp)
  | Err BackPressured | Err NotConnected | Err Closed | Err TooLong =>
      same_meta_obs p c &&
      match o_res c with
      | Err Closed => e_closed e
      | Err TooLong =>
          too_long g k len &&
          match k with
          | KClaim => true
          | _ => negb (e_closed e) && match o_pos p with Ok b => b <? e_limit e | _ => false end
          end
      | Err er =>
          negb (e_closed e) &&
          match o_pos p with Ok b => (e_limit e <=? b) && err_eqb er (refusal g e k len b) | _ => false end
      | _ => false
      end
  | Err MaxPositionExceeded =>
      negb (e_closed e) &&
      match o_pos p with
      | Ok b =>
          if e_limit e <=? b then same_meta_obs p c && err_eqb MaxPositionExceeded (refusal g e k len b)
          else
            (* below the limit, in the very last term, and the message does not fit into what is left of it (or the
               unpublished tail already lies beyond the term): no rotation; the tail counter is bumped by (shared) or
               re-stored with (exclusive) the bytes asked for, or nothing changes at all; the position stays or stops
               at the end of the position space *)
            let off_pos := pos_off g dp b in
            (d_count dp =? two31 - 1) &&
            (same_meta_obs p c && (g_tlen g <? tail_off dp)
             || negb (too_long g k len) && (g_tlen g <? off_pos + req) && (d_count dc =? d_count dp)
                && ((d_tail dc (active dp) =? d_tail dp (active dp) + req)
                    || (d_tail dc (active dp) =? d_tail dp (active dp) - tail_off dp + off_pos + req))
                && (d_tail dc ((active dp + 1) mod 3) =? d_tail dp ((active dp + 1) mod 3))
                && (d_tail dc ((active dp + 2) mod 3) =? d_tail dp ((active dp + 2) mod 3))
                && (out_eqb (o_pos c) (Ok (g_maxpos g)) || out_eqb (o_pos c) (o_pos p)))
      | _ => false
      end
  | Err AdminAction =>
      (* end of term: one rotation *)
      negb (e_closed e) && negb (too_long g k len) &&
      match o_pos p with
      | Ok b => (b <? e_limit e) && out_eqb (o_pos c) (Ok ((d_count dp + 1) * g_tlen g)) && (pos_off g dp b =? tail_off dp)
      | _ => false
      end
      && (g_tlen g <? tail_off dp + req) && (d_count dc =? d_count dp + 1) && (d_count dp <? two31 - 1)
      && (d_tail dc (active dp) =? d_tail dp (active dp) + req)
      && (d_tail dc ((active dp + 1) mod 3) =? wrap32 (tail_tid dp + 1) * two32)
      && (d_tail dc ((active dp + 2) mod 3) =? d_tail dp ((active dp + 2) mod 3))
  | _ => false
  end
  &&
  (* positions never go back and stay inside the position space *)
  match o_pos p, o_pos c with
  | Ok b, Ok q => (b <=? q) && (q <=? g_maxpos g)
  | Err Closed, Err Closed => e_closed e
  | _, _ => false
  end.

Definition words_append (g : geom) (k : akind) (len : Z) (p c : obs) : bool :=
  let req := required g len in
  let dp := o_dump p in
  let dc := o_dump c in
  match o_res c with
  | Ok _ => match o_pos p with Ok b => appended_words dp dc (pos_off g dp b) req | _ => false end
  | Err AdminAction => tripped_words g dp dc          (* exactly one padding frame *)
  | Err MaxPositionExceeded =>
      if list_eqb Z.eqb (snd (fst dp)) (snd (fst dc)) then no_words dc else tripped_words g dp dc
  | _ => no_words dc                                  (* a refusal writes nothing *)
  end.

Definition holds_append (g : geom) (e : env) (k : akind) (len : Z) (p c : obs) : bool :=
  flow_append g e k len p c && words_append g k len p c.

(* operations that are not offers: the log is not touched (Clean: only the next partition, which becomes empty;
   Commit / Abort: only words of the partition that holds the claim, no tail, no count) *)
Definition holds_other (g : geom) (e : env) (o : oop) (p c : obs) : bool :=
  let dp := o_dump p in
  let dc := o_dump c in
  match o with
  | OLimit _ | OConn _ => dump_eqb dp dc && out_eqb (o_pos p) (o_pos c) && out_eqb (o_res c) (Ok 0)
  | OClose => dump_eqb dp dc && is_err (o_pos c) Closed
  | OClean =>
      (d_count dc =? d_count dp) && list_eqb Z.eqb (snd (fst dp)) (snd (fst dc)) && out_eqb (o_pos p) (o_pos c)
      && forallb (fun w => snd w =? 0) (d_part dc ((active dp + 1) mod 3))
      && words_eqb (d_part dc (active dp)) []
      && words_eqb (d_part dc ((active dp + 2) mod 3)) []
  | OCommit | OAbort =>
      (d_count dc =? d_count dp) && list_eqb Z.eqb (snd (fst dp)) (snd (fst dc)) && out_eqb (o_pos p) (o_pos c)
  | OAppend _ _ => false
  end.

Definition holds_step (g : geom) (e : env) (o : oop) (p c : obs) : bool :=
  match o with
  | OAppend k len => holds_append g e k len p c
  | _ => holds_other g e o p c
  end.

Fixpoint holds_from (g : geom) (e : env) (p : obs) (ops : list oop) (os : list obs) : bool :=
  match ops, os with
  | [], [] => true
  | o :: ops', c :: os' => holds_step g e o p c && holds_from g (env_after e o) c ops' os'
  | _, _ => false
  end.

(* the observation the hand-over state itself gives (limit 0, not connected, open) *)
Definition obs0 (g : geom) : obs :=
  let l := handed_over (g_init g) (g_tlen g) (g_mtu g) (g_session g) (g_stream g) (g_n0 g) (g_off0 g) in
  (Ok 0, (l_count l, [l_t0 l; l_t1 l; l_t2 l], [[]; []; []]), Ok (g_n0 g * g_tlen g + g_off0 g)).
Definition env0 : env := mkEnv 0 false false.

Definition holds_history (g : geom) (ops : list oop) (os : list obs) : bool := holds_from g env0 (obs0 g) ops os.

(* ---- the getters that expose the flow-control state (harness line `gets`) ----
   observation: (is_closed, is_connected, publication_limit(), available_window(), position(), term_id, term_offset) at hand-over
   and after every operation, plus the getters fixed at construction.  The last two fields are the exclusive publication's own
   cursor (0 for the shared publication). *)
Definition gobs := (Z * Z * outcome Z * outcome Z * outcome Z * Z * Z)%type.
Definition zb (b : bool) : Z := if b then 1 else 0.
Definition go_win (o : gobs) : outcome Z := let '(_, _, _, win, _, _, _) := o in win.
Definition go_pos (o : gobs) : outcome Z := let '(_, _, _, _, pos, _, _) := o in pos.

(* one observation against the environment the history has set up: closed / connected flags as set, the limit as set,
   available_window = limit - position (whenever that fits an i64), position inside the position space; closed: every
   Result getter answers Closed; exclusive publication: position = (term_id - initial_term_id) * term_length + term_offset *)
Definition holds_getters (g : geom) (excl : bool) (e : env) (o : gobs) : bool :=
  let '(cl, cn, lim, win, pos, tid, toff) := o in
  (cl =? zb (e_closed e)) && (cn =? zb (negb (e_closed e) && e_connected e)) &&
  (if e_closed e then is_err lim Closed && is_err win Closed && is_err pos Closed
   else out_eqb lim (Ok (e_limit e)) &&
        match pos with
        | Ok p => (0 <=? p) && (p <=? g_maxpos g) &&
                  (if in_i64 (e_limit e - p) then out_eqb win (Ok (e_limit e - p)) else true) &&
                  (if excl then (p =? wrap32 (tid - g_init g) * g_tlen g + toff) && (0 <=? toff) && (toff <=? g_tlen g) else true)
        | _ => false
        end).

(* the getters fixed at construction *)
Definition holds_statics (g : geom) (st : list Z) : bool :=
  match st with
  | [mm; mpl; tl; bits; init; ses; str] =>
      (mm =? g_maxmsg g) && (mpl =? g_mpl g) && (tl =? g_tlen g) && (0 <=? bits) && (2 ^ bits =? g_tlen g) &&
      (init =? g_init g) && (ses =? g_session g) && (str =? g_stream g)
  | _ => false
  end.

(* from one observation to the next: the position never goes back; an offer / claim made while available_window() <= 0
   does not advance it (flow control seen through the getters) *)
Definition gets_link (o : oop) (p c : gobs) : bool :=
  match go_pos p, go_pos c with
  | Ok b, Ok q => (b <=? q) &&
                  match o, go_win p with
                  | OAppend _ _, Ok w => if w <=? 0 then q =? b else true
                  | _, _ => true
                  end
  | _, _ => true
  end.

Fixpoint holds_gets_from (g : geom) (excl : bool) (e : env) (p : gobs) (ops : list oop) (os : list gobs) : bool :=
  match ops, os with
  | [], [] => true
  | o :: ops', c :: os' =>
      holds_getters g excl (env_after e o) c && gets_link o p c && holds_gets_from g excl (env_after e o) c ops' os'
  | _, _ => false
  end.

Definition holds_gets (g : geom) (excl : bool) (ops : list oop) (r : list Z * list gobs) : bool :=
  holds_statics g (fst r) &&
  match snd r with
  | o0 :: os => holds_getters g excl env0 o0 && out_eqb (go_pos o0) (Ok (g_n0 g * g_tlen g + g_off0 g)) && holds_gets_from g excl env0 o0 ops os
  | [] => false
  end.

(* ---- claim + commit: the one BufferClaim a history holds ----
   An accepted try_claim hands out the frame [off, off + required) of the active partition; commit() and abort() may change
   words of that frame only (commit: the payload the caller wrote and the length word; abort: the type and the length word),
   and nothing at all when no claim was ever accepted. *)
Definition claim_of (g : geom) (cl : option (Z * Z * Z)) (o : oop) (p c : obs) : option (Z * Z * Z) :=
  match o with
  | OAppend KClaim len =>
      match o_res c, o_pos p with
      | Ok _, Ok b => Some (active (o_dump p), pos_off g (o_dump p) b, required g len)
      | _, _ => cl
      end
  | _ => cl
  end.

Definition claim_words (cl : option (Z * Z * Z)) (dc : dump) : bool :=
  match cl with
  | None => no_words dc
  | Some (i, off, req) =>
      forallb (fun w => (off <=? fst w) && (fst w <? off + req)) (d_part dc i) &&
      words_eqb (d_part dc ((i + 1) mod 3)) [] && words_eqb (d_part dc ((i + 2) mod 3)) []
  end.

Fixpoint holds_claims_from (g : geom) (cl : option (Z * Z * Z)) (p : obs) (ops : list oop) (os : list obs) : bool :=
  match ops, os with
  | [], [] => true
  | o :: ops', c :: os' =>
      (match o with OCommit | OAbort => claim_words cl (o_dump c) | _ => true end) &&
      holds_claims_from g (claim_of g cl o p c) c ops' os'
  | _, _ => false
  end.

(* the history predicate with the claim rule added *)
Definition holds_history2 (g : geom) (ops : list oop) (os : list obs) : bool :=
  holds_history g ops os && holds_claims_from g None (obs0 g) ops os.
