(* Decidable form of property C02 on one observation of a scheduled run
     (trace, per-thread (status, attempt results), (count, raw tails, sparse words of the three partitions, limit))
   of publishers that all ran to completion. It states the property, it does not call the model:

   (a) every partition that holds a generation of the stream is a gap-free sequence of well-formed frames
       from its base to min(tail, term length), and zero beyond;
   (b) the data messages found in the log (fragments reassembled) are exactly the accepted offers:
       same end positions, same bytes, nothing else (so no loss, no duplicate, no frame from a loser);
   (c) each publisher's accepted positions increase in its offer order; all positions are distinct;
   (d) a padding frame only ever ends a term, the active term count equals the number of filled terms
       and the three tails carry the term ids count, count-2, count-1 (each filled term rotated exactly once);
   (e) nobody panicked; a refused offer got AdminAction / BackPressured / NotConnected / MaxPositionExceeded / TooLong. *)
Require Import V.Base.MachineInt.
Require Import V.Generated.GenConsts.
Require Import V.Model.LogBase.
Require Import V.Model.Descriptor.
Require Import V.Model.Sched.
Require Import V.Model.AppenderThreads.
Open Scope Z_scope.

Definition words := list (Z * Z).

Fixpoint word_at (ws : words) (o : Z) : Z :=
  match ws with [] => 0 | (o', v) :: r => if o' =? o then v else word_at r o end.
Definition byte_at (ws : words) (o : Z) : Z :=
  ((word_at ws (o - o mod 4) mod two32) / 2 ^ (8 * (o mod 4))) mod 256.
Fixpoint bytes_from (ws : words) (o : Z) (n : nat) : list Z :=
  match n with O => [] | S n' => byte_at ws o :: bytes_from ws (o + 1) n' end.

Definition list_eqb (a b : list Z) : bool :=
  (length a =? length b)%nat && forallb (fun p => fst p =? snd p) (combine a b).

(* frame header at offset o, decoded from the dump *)
Definition h_len ws o := word_at ws o.
Definition h_ver ws o := byte_at ws (o + 4).
Definition h_flags ws o := byte_at ws (o + 5).
Definition h_type ws o := byte_at ws (o + 6) + 256 * byte_at ws (o + 7).
Definition h_toff ws o := word_at ws (o + 8).
Definition h_sess ws o := word_at ws (o + 12).
Definition h_strm ws o := word_at ws (o + 16).
Definition h_tid ws o := word_at ws (o + 20).
Definition h_resv_lo ws o := word_at ws (o + 24).
Definition h_resv_hi ws o := word_at ws (o + 28).

Definition wf_header (c : cfg) (tid : Z) (ws : words) (o : Z) : bool :=
  (HDR <=? h_len ws o) && (h_ver ws o =? GenConsts.CURRENT_VERSION) &&
  (h_toff ws o =? o) && (h_sess ws o =? c_sess c) && (h_strm ws o =? c_strm c) && (h_tid ws o =? tid) &&
  (h_resv_lo ws o =? 0) && (h_resv_hi ws o =? 0) &&
  ((h_type ws o =? T_DATA) || (h_type ws o =? T_PAD)).

(* walk the frames of one partition from o to lim; result: None = malformed,
   Some list of (offset, length word, type, flags) in order *)
Fixpoint walk (c : cfg) (tid : Z) (ws : words) (fuel : nat) (o lim : Z) : option (list (Z * Z * Z * Z)) :=
  if o =? lim then Some []
  else match fuel with
       | O => None
       | S f =>
           if (o <? lim) && wf_header c tid ws o && (o + align (h_len ws o) FA <=? lim) then
             match walk c tid ws f (o + align (h_len ws o) FA) lim with
             | Some r => Some ((o, h_len ws o, h_type ws o, h_flags ws o) :: r)
             | None => None
             end
           else None
       end.

(* every dumped word lies inside a walked frame: header words, payload words up to the frame length *)
Definition covered (frames : list (Z * Z * Z * Z)) (w : Z * Z) : bool :=
  existsb (fun f => let '(o, len, ty, fl) := f in
                    (o <=? fst w) && (fst w <? o + (if ty =? T_PAD then HDR else len))) frames.

(* reassemble: list of (end offset, payload) of the data messages of one partition; None = broken flag sequence *)
Fixpoint reassemble (ws : words) (frames : list (Z * Z * Z * Z)) (acc : option (list Z)) : option (list (Z * list Z)) :=
  match frames with
  | [] => match acc with None => Some [] | Some _ => None end
  | (o, len, ty, fl) :: r =>
      if ty =? T_PAD then (match acc with None => reassemble ws r None | Some _ => None end)
      else
        let body := bytes_from ws (o + HDR) (Z.to_nat (len - HDR)) in
        let b := Z.land fl F_BEGIN =? F_BEGIN in
        let e := Z.land fl F_END =? F_END in
        match acc, b, e with
        | None, true, true => match reassemble ws r None with Some l => Some ((o + align len FA, body) :: l) | None => None end
        | None, true, false => reassemble ws r (Some body)
        | Some a, false, false => reassemble ws r (Some (a ++ body))
        | Some a, false, true => match reassemble ws r None with Some l => Some ((o + align len FA, a ++ body) :: l) | None => None end
        | _, _, _ => None
        end
  end.

(* which partitions lost their content: zeroed by the driver after the last rotation into them *)
Fixpoint cleaned_after (tr : list event) (p : Z) (cur : bool) : bool :=
  match tr with
  | [] => cur
  | e :: r =>
      if accessor_eqb (e_acc e) SetMemory && (e_reg e =? p) then cleaned_after r p true
      else if accessor_eqb (e_acc e) CompareAndSetI64 && (e_reg e =? R_META) && (e_off e =? TAIL_OFF p) && (e_val e =? e_before e)
           then cleaned_after r p false
      else cleaned_after r p cur
  end.

Definition gen_of (c : cfg) (raw : Z) : Z := wrap32 (term_id_of raw - c_init c).

(* accepted offers of one thread: (position, payload) in attempt order *)
Fixpoint accepted (msgs : list (list Z)) (res : list (outcome Z)) : list (Z * list Z) :=
  match res with
  | [] => []
  | Ok p :: r => (p, hd [] msgs) :: accepted (tl msgs) r
  | _ :: r => accepted msgs r
  end.
Fixpoint increasing (l : list Z) : bool :=
  match l with
  | a :: ((b :: _) as r) => (a <? b) && increasing r
  | _ => true
  end.
Fixpoint insert_sorted (x : Z * list Z) (l : list (Z * list Z)) : list (Z * list Z) :=
  match l with
  | [] => [x]
  | y :: r => if fst x <=? fst y then x :: l else y :: insert_sorted x r
  end.
Definition sort_by_pos (l : list (Z * list Z)) : list (Z * list Z) := fold_right insert_sorted [] l.

Definition pair_eqb (a b : Z * list Z) : bool := (fst a =? fst b) && list_eqb (snd a) (snd b).
Fixpoint plist_eqb (a b : list (Z * list Z)) : bool :=
  match a, b with
  | [], [] => true
  | x :: a', y :: b' => pair_eqb x y && plist_eqb a' b'
  | _, _ => false
  end.

Definition res_ok (r : outcome Z) : bool :=
  match r with
  | Ok _ | Err AdminAction | Err BackPressured | Err NotConnected | Err MaxPositionExceeded | Err TooLong => true
  | _ => false
  end.

Definition status_eqb (a b : status) : bool :=
  match a, b with Done, Done | Stopped, Stopped | Panicked, Panicked => true | _, _ => false end.

(* (a),(b) for partition p; `acc_all` = accepted offers of all threads sorted by position *)
Definition part_ok (c : cfg) (tr : list event) (count : Z) (tails : list Z) (parts : list words)
           (acc_all : list (Z * list Z)) (p : Z) : bool :=
  let raw := nth (Z.to_nat p) tails 0 in
  let ws := nth (Z.to_nat p) parts [] in
  let g := gen_of c raw in
  let off := lo32u raw in
  let lim := Z.min off (TL c) in
  let base := if g =? c_n0 c then c_off0 c else 0 in
  if g <? c_n0 c then (match ws with [] => true | _ => false end)             (* never rotated into: untouched *)
  else if cleaned_after tr p false then (match ws with [] => true | _ => false end)
  else
    match walk c (term_id_of raw) ws (Z.to_nat (TL c / FA + 1)) base lim with
    | None => false
    | Some frames =>
        forallb (covered frames) ws &&
        forallb (fun f => let '(o, len, ty, fl) := f in negb (ty =? T_PAD) || (o + align len FA =? TL c)) frames &&
        match reassemble ws frames None with
        | None => false
        | Some ms =>
            let mine := filter (fun a => (g * TL c <? fst a) && (fst a <=? (g + 1) * TL c)) acc_all in
            plist_eqb (map (fun m => (g * TL c + fst m, snd m)) ms) mine
        end &&
        (* (d) a term behind the active one was filled; the active one is not past its end at quiescence *)
        (if g <? count then TL c <=? off else if g =? count then off <=? TL c else false)
    end.

(* (c) per publisher and (e): what the theorems C02_answers / C02_positions_increasing say about the recorded results *)
Definition holds_results (offers : list (list (list Z))) (results : list (status * list (outcome Z))) : bool :=
  forallb (fun r => status_eqb (fst r) Done && forallb res_ok (snd r)) results &&
  forallb (fun x => increasing (map fst (accepted (fst x) (snd (snd x))))) (combine offers results).

Definition holds_C02 (c : cfg) (offers : list (list (list Z)))
  (obs : list (Z * accessor * Z * Z * Z * Z * Z * Z) * list (status * list (outcome Z)) * (Z * list Z * list words * Z * Z)
         * list (Z * Z * Z * Z * list Z)) : bool :=
  let '(trt, results, (count, tails, parts, limit, subpos), frags) := obs in
  let tr := map tuple_ev trt in
  let accs := map (fun x => accepted (fst x) (snd (snd x))) (combine offers results) in
  let acc_all := sort_by_pos (concat accs) in
  (* (e), (c) per publisher *)
  holds_results offers results &&
  (length results =? length offers)%nat && (length tails =? 3)%nat && (length parts =? 3)%nat &&
  (* (c) all positions distinct *)
  increasing (map fst acc_all) &&
  (* (d) count and tails *)
  (c_n0 c <=? count) &&
  (gen_of c (nth (Z.to_nat (count mod 3)) tails 0) =? count) &&
  (gen_of c (nth (Z.to_nat ((count + 1) mod 3)) tails 0) =? count - 2) &&
  (gen_of c (nth (Z.to_nat ((count + 2) mod 3)) tails 0) =? count - 1) &&
  (* (a),(b) *)
  part_ok c tr count tails parts acc_all 0 && part_ok c tr count tails parts acc_all 1 && part_ok c tr count tails parts acc_all 2 &&
  (* every accepted offer lies in a generation the log ever reached *)
  forallb (fun a => (c_n0 c * TL c + c_off0 c <? fst a) && (fst a <=? (count + 1) * TL c)) acc_all.

(* ---- the known class (KNOWN_FINDINGS.txt, class stalled3): some get_and_add found a different term id in
   the tail than the one the same thread had read from it (the log rotated a multiple of three times in between) *)
Fixpoint last_tail_read (tr_rev : list event) (t : nat) (off : Z) : option Z :=
  match tr_rev with
  | [] => None
  | e :: r => if Nat.eqb (e_tid e) t && accessor_eqb (e_acc e) GetVolatile && (e_reg e =? R_META) && (e_off e =? off)
              then Some (e_before e) else last_tail_read r t off
  end.
Fixpoint stalled3_from (seen_rev : list event) (tr : list event) : bool :=
  match tr with
  | [] => false
  | e :: r =>
      (if accessor_eqb (e_acc e) GetAndAddI64 && (e_reg e =? R_META) then
         match last_tail_read seen_rev (e_tid e) (e_off e) with
         | Some raw => negb (term_id_of raw =? term_id_of (e_before e))
         | None => false
         end
       else false) || stalled3_from (e :: seen_rev) r
  end.
Definition KnownClass_stalled3 (trt : list (Z * accessor * Z * Z * Z * Z * Z * Z)) : bool :=
  stalled3_from [] (map tuple_ev trt).
