(* How a C05 / C20 harness case is turned into model objects: frame specifications -> frames -> term
   partitions -> log, and the run of a history of calls against one image.  Shared by the model side of
   the correspondence check and by the oracle (which replays the environment part only).
   Definitions only. *)
Require Import V.Base.MachineInt.
Require Import V.Generated.GenConsts.
Require Import V.Model.LogBase.
Require Import V.Model.Descriptor.
Require Import V.Model.Reader.
Require Import V.Model.Image.
Open Scope Z_scope.

Definition STREAM : Z := 1001.

(* (type, flags, frame_length, payload id, term id delta) *)
Definition fspec := (Z * Z * Z * Z * Z)%type.

Definition mk_frame (init session n off : Z) (s : fspec) : frame :=
  let '(typ, flags, flen, k, dtid) := s in
  mkFrame flen 0 flags typ off session STREAM (wrap32 (init + n + dtid)) 0
          (if typ =? T_PAD then [] else payload k (flen - HDR)).

Fixpoint mk_frames (init session n off : Z) (ss : list fspec) : list frame :=
  match ss with
  | [] => []
  | s :: r => let f := mk_frame init session n off s in f :: mk_frames init session n (off + span f) r
  end.

(* segment as the case describes it: (term count, start offset, visible frames, claim flag, frame specs) *)
Definition sseg := (Z * Z * Z * bool * list fspec)%type.
(* segment with its frames built (payload bytes included), so that a history builds them once *)
Definition seg := (Z * Z * Z * bool * list frame)%type.

Definition build_seg (init session : Z) (s : sseg) : seg :=
  let '(n, off, vis, claim, ss) := s in (n, off, vis, claim, mk_frames init session n off ss).

Definition seg_term (s : seg) : term :=
  let '(n, off, vis, claim, fs) := s in
  let v := Z.to_nat vis in
  (if 0 <? off then [Unknown off] else [])
  ++ map Committed (firstn v fs)
  ++ (if claim then match nth_error fs v with Some f => [Claimed f] | None => [] end else []).

Definition seg_n (s : seg) : Z := let '(n, _, _, _, _) := s in n.

Fixpoint part_of (segs : list seg) (i : Z) : term :=
  match segs with
  | [] => []
  | s :: r => if seg_n s mod 3 =? i then seg_term s else part_of r i
  end.

Definition mk_log (bits init session : Z) (segs : list seg) : log :=
  mkLog (part_of segs 0) (part_of segs 1) (part_of segs 2)
        0 0 0 0 init (2 ^ bits) 4096 session STREAM 0 false.

Fixpoint grow_seg (segs : list seg) (i j : Z) : list seg :=
  match segs with
  | [] => []
  | s :: r =>
      if i =? 0 then
        let '(n, off, vis, claim, ss) := s in
        (n, off, Z.min (vis + j) (Z.of_nat (length ss)), claim, ss) :: r
      else s :: grow_seg r (i - 1) j
  end.

(* a position argument: absolute, or relative to the subscriber position the caller reads just before the call *)
Definition parg := (bool * Z)%type.
Definition resolve (pos : Z) (a : parg) : Z := if fst a then pos + snd a else snd a.

Inductive cop :=
| CPoll (limit : Z)
| CBounded (bound : parg) (limit : Z)
| CControlled (limit : Z) (sc : list action)
| CBControlled (bound : parg) (limit : Z) (sc : list action)
| CPeek (ipos limitpos : parg) (sc : list action)
| CBlock (blimit : Z)
| CSetPos (p : parg)
| CClose
| CGrow (s j : Z)
| CPosition.

(* one observed fragment: (offset, length, flags, Header::position(), session, payload hash) *)
Definition fobs := (Z * Z * Z * outcome Z * Z * Z)%type.
Definition cobs := (outcome Z * list fobs * list Z * Z)%type.

Fixpoint hash_bytes (h : Z) (bs : list Z) : Z :=
  match bs with [] => h | b :: r => hash_bytes ((h * 31 + b + 1) mod 1000003) r end.

Definition frag_obs (m : mode) (l : log) (d : dlv) : fobs :=
  let '(o, f) := d in
  (o + HDR, f_len f - HDR, f_flags f,
   header_position m (l_init l) (bits_of (l_tlen l)) (f_term_id f) o (f_len f),
   f_session f, hash_bytes 7 (f_body f)).

(* block_poll hands over (offset, length, session id of the image, term id of the first frame) *)
Definition block_obs (im : image) (len : Z) (d : dlv) : fobs :=
  let '(o, f) := d in (o, len, -1, Ok (f_term_id f), im_session im, 0).

Definition obs_of (m : mode) (l : log) (im : image) (r : outcome call_result) : cobs * image :=
  match r with
  | Ok (ret, ds, ws, im') => ((ret, map (frag_obs m l) ds, ws, im_pos im'), im')
  | _ => ((Panic, [], [], im_pos im), im)
  end.

Definition step (m : mode) (bits init session : Z) (st : list seg * image) (o : cop) : cobs * (list seg * image) :=
  let '(segs, im) := st in
  let l := mk_log bits init session segs in
  match o with
  | CPoll limit => let '(ob, im') := obs_of m l im (image_poll l im limit) in (ob, (segs, im'))
  | CBounded b limit => let '(ob, im') := obs_of m l im (image_bounded_poll l im (resolve (im_pos im) b) limit) in (ob, (segs, im'))
  | CControlled limit sc => let '(ob, im') := obs_of m l im (image_controlled_poll l im limit sc) in (ob, (segs, im'))
  | CBControlled b limit sc =>
      let '(ob, im') := obs_of m l im (image_bounded_controlled_poll l im (resolve (im_pos im) b) limit sc) in (ob, (segs, im'))
  | CPeek ip lp sc => let '(ob, im') := obs_of m l im (image_controlled_peek l im (resolve (im_pos im) ip) (resolve (im_pos im) lp) sc) in (ob, (segs, im'))
  | CBlock bl =>
      match image_block_poll m l im bl with
      | Ok (ret, ds, ws, im') =>
          ((ret, map (block_obs im (match ret with Ok v => v | _ => 0 end)) ds, ws, im_pos im'), (segs, im'))
      | _ => ((Panic, [], [], im_pos im), (segs, im))
      end
  | CSetPos p => let '(ob, im') := obs_of m l im (Ok (image_set_position l im (resolve (im_pos im) p))) in (ob, (segs, im'))
  | CClose => ((Ok 0, [], [], im_pos im), (segs, image_close im))
  | CGrow s j => ((Ok 0, [], [], im_pos im), (grow_seg segs s j, im))
  | CPosition => ((Ok (image_position im), [], [], im_pos im), (segs, im))
  end.

Fixpoint run (m : mode) (bits init session : Z) (st : list seg * image) (ops : list cop) : list cobs :=
  match ops with
  | [] => []
  | o :: r => let '(ob, st') := step m bits init session st o in ob :: run m bits init session st' r
  end.

Definition run_case (m : mode) (bits init session pos0 : Z) (segs : list sseg) (ops : list cop) : list cobs :=
  run m bits init session (map (build_seg init session) segs, mkImage pos0 false pos0 session) ops.
