(* Decidable form of property C20, applied to what the implementation was observed to do.

   For a poll over the images of a subscription the oracle knows the image list (from the add / remove operations),
   the log of every image (from the grow operations), every image's subscriber position as last observed, the
   specified starting index (round-robin: 0,1,..,n-1,0,0,1,.. restarted at 0 when the index is out of range) and, per
   session, the state of the single-session reassembly machine.  It demands:
   - the raw fragments of one call split into one contiguous share per image, in rotation order from the starting
     index (each image polled at most once, in that order);
   - every share is an admissible run of that image in the sense of C05 with the budget that is left
     (hence the total is at most the fragment limit), the return value is the number of fragments consumed;
   - fairness: when the limit is positive and the starting image has a data frame visible, its share is not empty;
   - progress of the starting image: when the limit is positive and the starting image sees a committed frame at its
     position (data, or the padding frame that closes a term), its subscriber position moves forward - unless the
     first frame is a data frame the controlled handler answers Abort.  An image whose poll never leaves a padding
     frame would never be served again although the others are (it has data beyond its position in the next term);
   - the messages given to the delegate, filtered by session, are exactly what the single-session machine
     delivers on that session's fragments - whatever the other sessions interleave;
   - images that are not in the list do not move.
   Definitions only. *)
Require Import V.Base.MachineInt.
Require Import V.Generated.GenConsts.
Require Import V.Model.LogBase.
Require Import V.Model.Reader.
Require Import V.Model.Image.
Require Import V.Model.Subscription.
Require Import V.Model.Assembler.
Require Import V.Generated.GenBufferBuilder.
Require Import V.Model.BufferBuilder.
Require Import V.Oracle.C05Cases.
Require Import V.Oracle.C05Oracle.
Require Import V.Oracle.C20Cases.
Open Scope Z_scope.

(* what the oracle knows of an image slot: (id, bits, init, session, segment, position as last observed, removed) *)
Definition oslot := (Z * Z * Z * Z * seg * Z * bool)%type.
Definition os_id (s : oslot) : Z := let '(id, _, _, _, _, _, _) := s in id.
Definition os_session (s : oslot) : Z := let '(_, _, _, se, _, _, _) := s in se.
Definition os_pos (s : oslot) : Z := let '(_, _, _, _, _, p, _) := s in p.
Definition os_removed (s : oslot) : bool := let '(_, _, _, _, _, _, c) := s in c.
Definition os_with_pos (s : oslot) (p : Z) : oslot := let '(id, b, i, se, sg, _, c) := s in (id, b, i, se, sg, p, c).
Definition os_grow (s : oslot) (j : Z) : oslot :=
  let '(id, b, i, se, sg, p, c) := s in (id, b, i, se, match grow_seg [sg] 0 j with g :: _ => g | [] => sg end, p, c).
Definition os_roll (s : oslot) (vis : Z) (claim : bool) (ss : list fspec) : oslot :=
  let '(id, b, i, se, sg, p, c) := s in
  if p =? (seg_n sg + 1) * 2 ^ b then (id, b, i, se, build_seg i se (seg_n sg + 1, 0, vis, claim, ss), p, c) else s.
Definition os_frames (s : oslot) : list frame :=
  let '(_, bits, _, _, sg, p, _) := s in frames_at bits [sg] p.
Definition os_wf (s : oslot) : bool :=
  let '(_, bits, init, se, sg, p, _) := s in
  wf_call bits init p (frames_at bits [sg] p) && forallb (fun f => f_session f =? se) (frames_at bits [sg] p).
Definition os_off (s : oslot) : Z := let '(_, bits, _, _, _, p, _) := s in p mod 2 ^ bits.

Definition fo_session (r : fobs) : Z := let '(_, _, _, _, se, _) := r in se.
Definition fo_offset (r : fobs) : Z := let '(o, _, _, _, _, _) := r in o.
Definition fo_flags (r : fobs) : Z := let '(_, _, fl, _, _, _) := r in fl.
Definition fo_len (r : fobs) : Z := let '(_, l, _, _, _, _) := r in l.

(* the share of session `se`: the maximal prefix of the fragments carrying it *)
Fixpoint take_session (se : Z) (raws : list fobs) : list fobs * list fobs :=
  match raws with
  | [] => ([], [])
  | r :: rest => if fo_session r =? se then let '(a, b) := take_session se rest in (r :: a, b) else ([], raws)
  end.

Definition rotation {A} (start : Z) (l : list A) : list A :=
  skipn (Z.to_nat start) l ++ firstn (Z.to_nat start) l.

(* the i-th element of a position vector *)
Definition pos_at (ps : list Z) (id : Z) : Z := nth (Z.to_nat id) ps 0.

(* the counter writes are not observed per image in a subscription call: C05's judgement of a run without the clauses
   about the write trace (the position reached is still checked) *)
Definition judge_run_nw (limit : Z) (sc : list action) (pos off : Z) (fs : list frame)
           (ret : outcome Z) (fo : list fobs) (ctr' : Z) (k : nat) (ab : bool) : bool :=
  let base := pos - off in
  if ctr' =? base + reached off fs k then
    let D := frags off fs k in
    if out_eqb ret (Ok (Z.of_nat (length D))) then
      if adm (below None base) fs sc off limit k ab then
        list_eqb fobs_eqb fo (map (exp_frag base) (D ++ aborted off fs k ab))
      else false
    else false
  else false.

Definition judge_poll_nw (limit : Z) (sc : list action) (pos off : Z) (fs : list frame)
           (ret : outcome Z) (fo : list fobs) (ctr' : Z) : bool :=
  any_upto (length fs) (fun k => judge_run_nw limit sc pos off fs ret fo ctr' k false
                                 || judge_run_nw limit sc pos off fs ret fo ctr' k true).

Definition synth_ws (pos p' : Z) : list Z := if p' =? pos then [] else [p'].

(* fragments of a share that were consumed (an aborted one is handed over but not consumed) *)
Definition consumed_count (salt : Z) (tab : list action) (share : list fobs) : Z :=
  Z.of_nat (length (filter (fun r => negb (is_abort (answer salt tab (fo_offset r - HDR)))) share)).

(* shares in rotation order; `jp slot budget share new_position` judges one image; `cnt` counts what a share consumed *)
Fixpoint judge_shares (jp : oslot -> Z -> list fobs -> Z -> bool) (cnt : list fobs -> Z)
         (order : list oslot) (raws : list fobs) (limit read : Z) (ps : list Z) : bool * Z :=
  match order with
  | [] => (match raws with [] => true | _ => false end, read)
  | sl :: r =>
      let '(share, rest) := take_session (os_session sl) raws in
      let ok := jp sl (limit - read) share (pos_at ps (os_id sl)) in
      let '(okr, total) := judge_shares jp cnt r rest limit (read + cnt share) ps in
      (ok && okr, total)
  end.

Definition has_data (fs : list frame) : bool := existsb (fun f => negb (is_pad f)) fs.

Definition jp_poll (sl : oslot) (budget : Z) (share : list fobs) (p' : Z) : bool :=
  if os_wf sl then
    judge_poll_nw budget [] (os_pos sl) (os_off sl) (os_frames sl) (Ok (Z.of_nat (length share))) share p'
  else true.

(* the script the harness' handler plays for an image: the answers to its visible data frames in order *)
Definition os_script (salt : Z) (tab : list action) (sl : oslot) : list action :=
  map (fun d => answer salt tab (fst d)) (data_of (place (os_off sl) (os_frames sl))).

(* judging one image of a controlled poll needs the count of consumed fragments as the return value *)
Definition jp_cpoll (salt : Z) (tab : list action) (sl : oslot) (budget : Z) (share : list fobs) (p' : Z) : bool :=
  if os_wf sl then
    judge_poll_nw budget (os_script salt tab sl) (os_pos sl) (os_off sl) (os_frames sl)
      (Ok (consumed_count salt tab share)) share p'
  else true.

Definition fair_first (order : list oslot) (raws : list fobs) (limit : Z) : bool :=
  match order with
  | sl :: _ =>
      if (0 <? limit) && os_wf sl && has_data (os_frames sl) then
        match raws with r :: _ => fo_session r =? os_session sl | [] => false end
      else true
  | [] => true
  end.

(* the starting image must move: it is polled first, with the whole limit.  `sc` = the handler's answers to its visible
   data frames.  Padding is skipped without asking the handler; a data frame is consumed unless the answer is Abort. *)
Definition must_advance (sc : list action) (fs : list frame) : bool :=
  match fs with [] => false | f :: _ => is_pad f || negb (is_abort (hd Continue sc)) end.

Definition fair_progress (osc : oslot -> list action) (order : list oslot) (limit : Z) (ps : list Z) : bool :=
  match order with
  | sl :: _ =>
      if (0 <? limit) && os_wf sl && must_advance (osc sl) (os_frames sl) then os_pos sl <? pos_at ps (os_id sl) else true
  | [] => true
  end.

(* Subscription::block_poll polls every image in every call, so "every image with data is served" means: an image whose first
   visible frame fits the block length limit (a padding frame always does, a data frame when its aligned length is at most the
   limit) moves forward in this very call, for every positive limit, i32::MAX included *)
Definition must_block_advance (bl : Z) (fs : list frame) : bool :=
  match fs with [] => false | f :: _ => (0 <? bl) && (is_pad f || (span f <=? bl)) end.

(* ---- the assembler part ---- *)
(* payload of the fragment an observation describes: the frame of that image's segment at that offset *)
Definition seg_frames (s : oslot) : list dlv :=
  let '(_, _, _, _, sg, _, _) := s in let '(_, off, _, _, fs) := sg in place off fs.

Fixpoint body_at (ps : list dlv) (o : Z) : list Z :=
  match ps with [] => [] | (o', f) :: r => if o' =? o then f_body f else body_at r o end.

Definition session_frags (sl : oslot) (raws : list fobs) : list (Z * list Z) :=
  map (fun r => (fo_flags r, body_at (seg_frames sl) (fo_offset r - HDR)))
      (filter (fun r => fo_session r =? os_session sl) raws).

Definition mobs_eqb (a b : mobs) : bool :=
  let '(a1, a2, a3) := a in let '(b1, b2, b3) := b in (a1 =? b1) && (a2 =? b2) && (a3 =? b3).

(* per session: the delegate's messages of that session = what the single-session machine delivers; returns the new states *)
Fixpoint judge_sessions (present : list oslot) (raws : list fobs) (dels : list mobs) (spec : builders) : bool * builders :=
  match present with
  | [] => (true, spec)
  | sl :: r =>
      let se := os_session sl in
      let '(st', outs) := run1 (bget spec se) (session_frags sl raws) in
      let expect := map (fun m => msg_obs (se, m)) outs in
      let got := filter (fun d => let '(s, _, _) := d in s =? se) dels in
      let spec' := match st' with Some acc => bset spec se acc | None => spec end in
      let '(okr, spec'') := judge_sessions r raws dels spec' in
      (list_eqb mobs_eqb got expect && okr, spec'')
  end.

Definition known_session (present : list oslot) (d : mobs) : bool :=
  let '(s, _, _) := d in existsb (fun sl => os_session sl =? s) present.

(* ---- state of the oracle ---- *)
Definition ostate20 := (list oslot * list oslot * Z * builders)%type.

Fixpoint distinct (l : list Z) : bool :=
  match l with [] => true | x :: r => negb (existsb (Z.eqb x) r) && distinct r end.

Fixpoint update_positions (l : list oslot) (ps : list Z) : list oslot :=
  match l with [] => [] | sl :: r => os_with_pos sl (pos_at ps (os_id sl)) :: update_positions r ps end.

Definition unmoved (l : list oslot) (ps : list Z) : bool :=
  forallb (fun sl => pos_at ps (os_id sl) =? os_pos sl) l.

Fixpoint find_os (id : Z) (l : list oslot) : option oslot :=
  match l with [] => None | sl :: r => if os_id sl =? id then Some sl else find_os id r end.
Fixpoint map_os (id : Z) (f : oslot -> oslot) (l : list oslot) : list oslot :=
  match l with [] => [] | sl :: r => if os_id sl =? id then f sl :: r else sl :: map_os id f r end.

Definition judge_sop (st : ostate20) (o : sop) (ob : sobs) : bool :=
  let '(absent, present, rr, spec) := st in
  let '(ret, raws, dels, ps) := ob in
  let sessions_ok := distinct (map os_session (absent ++ present)) in
  if negb sessions_ok then true else
  unmoved absent ps &&
  match o with
  | SPoll limit =>
      let '(start, _) := rr_next (Z.of_nat (length present)) rr in
      let order := rotation start present in
      let '(ok, total) := judge_shares jp_poll (fun sh => Z.of_nat (length sh)) order raws limit 0 ps in
      ok && out_eqb ret (Ok total) && fair_first order raws limit && fair_progress (fun _ => []) order limit ps
      && fst (judge_sessions present raws dels spec) && forallb (known_session present) dels
  | SCPoll limit salt tab =>
      let '(start, _) := rr_next (Z.of_nat (length present)) rr in
      let order := rotation start present in
      let '(ok, total) := judge_shares (jp_cpoll salt tab) (consumed_count salt tab) order raws limit 0 ps in
      ok && out_eqb ret (Ok total) && fair_first order raws limit && fair_progress (os_script salt tab) order limit ps
      && match dels with [] => true | _ => false end
  | SBlock bl =>
      let jb sl (_ : Z) share p' :=
        if os_wf sl then
          let '(_, bits, _, _, _, pos, _) := sl in
          let ob1 := (Ok (p' - pos), share, synth_ws pos p', p') in
          judge_block (os_session sl) bl pos (os_off sl) (os_frames sl) ob1
          && (if must_block_advance bl (os_frames sl) then pos <? p' else true)
        else true in
      let '(ok, _) := judge_shares jb (fun _ => 0) present raws 0 0 ps in
      ok && out_eqb ret (Ok (fold_right Z.add 0 (map (fun sl => pos_at ps (os_id sl) - os_pos sl) present)))
      && match dels with [] => true | _ => false end
  | _ =>
      out_eqb ret (Ok 0) && match raws with [] => true | _ => false end && match dels with [] => true | _ => false end
      && unmoved present ps
  end.

Definition onext20 (st : ostate20) (o : sop) (ob : sobs) : ostate20 :=
  let '(absent, present, rr, spec) := st in
  let '(_, raws, dels, ps) := ob in
  let absent' := update_positions absent ps in
  let present' := update_positions present ps in
  match o with
  | SPoll _ =>
      (absent', present', snd (rr_next (Z.of_nat (length present)) rr), snd (judge_sessions present raws dels spec))
  | SCPoll _ _ _ => (absent', present', snd (rr_next (Z.of_nat (length present)) rr), spec)
  | SBlock _ => (absent', present', rr, spec)
  | SGrow id j => (map_os id (fun s => os_grow s j) absent', map_os id (fun s => os_grow s j) present', rr, spec)
  | SRoll id vis claim ss =>
      (map_os id (fun s => os_roll s vis claim ss) absent', map_os id (fun s => os_roll s vis claim ss) present', rr, spec)
  | SAdd id =>
      match find_os id absent' with
      | Some sl => if os_removed sl then (absent', present', rr, spec)
                   else (remove_first (fun x => os_id x =? id) absent', present' ++ [sl], rr, spec)
      | None => (absent', present', rr, spec)
      end
  | SRemove id =>
      match find_os id present' with
      | Some sl => (absent' ++ [let '(i, b, it, se, sg, p, _) := sl in (i, b, it, se, sg, p, true)],
                    remove_first (fun x => os_id x =? id) present', rr, spec)
      | None => (absent', present', rr, spec)
      end
  end.

Fixpoint judge_all20 (st : ostate20) (ops : list sop) (obs : list sobs) : bool :=
  match ops, obs with
  | [], [] => true
  | o :: r, ob :: obr => judge_sop st o ob && judge_all20 (onext20 st o ob) r obr
  | _, _ => false
  end.

Fixpoint build_oslots (id : Z) (ss : list sslot) : list oslot :=
  match ss with
  | [] => []
  | (bits, init, se, pos0, sg) :: r => (id, bits, init, se, build_seg init se sg, pos0, false) :: build_oslots (id + 1) r
  end.

Fixpoint oadd_initial (absent present : list oslot) (ids : list Z) : list oslot * list oslot :=
  match ids with
  | [] => (absent, present)
  | id :: r =>
      match find_os id absent with
      | Some sl => oadd_initial (remove_first (fun x => os_id x =? id) absent) (present ++ [sl]) r
      | None => oadd_initial absent present r
      end
  end.

Definition holds_sub_case (slots : list sslot) (initial : list Z) (ops : list sop) (obs : list sobs) : bool :=
  let '(absent, present) := oadd_initial (build_oslots 0 slots) [] initial in
  judge_all20 (absent, present, 0, []) ops obs.

(* ---------------------------------------------------------------------------------------------------------------- *)
(* BufferBuilder on its own (harness kind `bb`): what the reassembly buffer must do, as a predicate over what was observed.
   - after `new`: limit HDR, nothing appended, capacity a power of two, at least the minimum, and - for initial lengths
     1 .. 2^30 - the smallest such capacity that holds the initial length;
   - append: succeeds (while the new limit is at most BB_SAFE + 1; beyond, debug and release builds differ and nothing is
     judged), the limit grows by exactly the length, the bytes [HDR, limit) are the old ones followed by the new ones, the
     capacity is unchanged when it suffices and otherwise the first capacity c, c + c/2, ... (at most MAX) that suffices;
   - reset: limit HDR, capacity kept;
   - set_limit: rejected when limit >= capacity, nothing changes; a successful set_limit exposes bytes the property does
     not speak about: the rest of the case is not judged.
   A `Hang`, `Panic` or `Crash` where success is required fails.  The specification does not call the model. *)
(* the numbers of the specification are fixed here, not taken from the table regenerated from the source: a source that
   changes the growth rule, the maximum or the minimum fails the oracle (and the proofs that tie the model to these numbers) *)
Definition SPEC_MAX : Z := 2147483639.        (* i32::MAX - 8 *)
Definition SPEC_MIN : Z := 64.                (* 2 * HDR *)
Definition SPEC_SAFE : Z := 1431655765.       (* the largest capacity c with c + c/2 <= i32::MAX *)
Definition spec_grow (c : Z) : Z := Z.min SPEC_MAX (c + c / 2).

Fixpoint first_cap (fuel : nat) (c r : Z) : Z :=
  match fuel with O => c | S f => let c' := spec_grow c in if r <=? c' then c' else first_cap f c' r end.
Definition expect_cap (cap req : Z) : Z := if req <=? cap then cap else first_cap 96 cap req.

Definition is_pow2 (c : Z) : bool := (0 <? c) && (2 ^ Z.log2 c =? c).
Definition new_cap_ok (initial c : Z) : bool :=
  (SPEC_MIN <=? c) && is_pow2 c &&
  (if (1 <=? initial) && (initial <=? 1073741824) then (initial <=? c) && ((c =? SPEC_MIN) || (c <? 2 * initial))
   else c =? SPEC_MIN).

Definition is_illegal_arg (r : outcome Z) : bool := match r with Err IllegalArg => true | _ => false end.

(* what the oracle knows: capacity, limit, the bytes appended since the last reset; None = no longer judged *)
Definition ostate_bb := option (Z * Z * list Z).

Definition judge_bop (st : ostate_bb) (o : bop) (ob : bobs) : bool * ostate_bb :=
  match st with
  | None => (true, None)
  | Some (cap, limit, content) =>
      let '(r, l', c', h') := ob in
      match o with
      | BAppend k len =>
          if (0 <=? len) && (limit + len <=? SPEC_SAFE + 1) then
            let content' := content ++ payload k len in
            let cap' := expect_cap cap (limit + len) in
            (out_eqb r (Ok 0) && (l' =? limit + len) && (c' =? cap') && (h' =? hash_bytes 7 content'),
             Some (cap', limit + len, content'))
          else (true, None)
      | BReset => (out_eqb r (Ok 0) && (l' =? HDR) && (c' =? cap) && (h' =? hash_bytes 7 []), Some (cap, HDR, []))
      | BSetLimit l =>
          if l >=? cap then (is_illegal_arg r && (l' =? limit) && (c' =? cap) && (h' =? hash_bytes 7 content), st)
          else (out_eqb r (Ok 0) && (l' =? l) && (c' =? cap), None)
      end
  end.

Fixpoint judge_bops (st : ostate_bb) (ops : list bop) (obs : list bobs) : bool :=
  match ops, obs with
  | [], [] => true
  | o :: r, ob :: obr => let '(ok, st') := judge_bop st o ob in ok && judge_bops st' r obr
  | _, _ => false
  end.

(* initial lengths whose round-up to a power of two fits an i64: the others are not judged (debug builds panic there) *)
Definition initial_judged (initial : Z) : bool := (- two63 <? initial) && (initial <=? 4611686018427387904).

Definition holds_bb_case (initial : Z) (ops : list bop) (obs : list bobs) : bool :=
  if negb (initial_judged initial) then true else
  match obs with
  | (r, l, c, h) :: rest =>
      out_eqb r (Ok 0) && (l =? HDR) && (h =? hash_bytes 7 []) && new_cap_ok initial c && judge_bops (Some (c, HDR, [])) ops rest
  | [] => false
  end.

(* find_suitable_capacity called directly (verification hook): for 2 <= capacity < required <= BB_SAFE + 1 it returns the
   first sufficient capacity of the growth sequence; required above MAX cannot be satisfied: an error or a panic, never a
   capacity, never an endless loop; in between a release build must return the prescribed capacity and a debug build may
   panic instead (the growth step overflows an i32) *)
Definition holds_find (cap req : Z) (r : outcome Z) : bool :=
  if negb ((2 <=? cap) && (cap <=? SPEC_MAX) && (cap <? req)) then true     (* not a call a builder makes *)
  else if req <=? SPEC_SAFE + 1 then out_eqb r (Ok (first_cap 96 cap req))
  else if req <=? SPEC_MAX then
    match r with Ok c => c =? first_cap 96 cap req | Panic => true | _ => false end
  else match r with Err IllegalState => true | Panic => true | _ => false end.
