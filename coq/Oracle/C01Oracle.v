(* C01 oracle: the statement of stream fidelity as a decidable predicate over what the implementation returned.
   Inputs: the geometry of the case, the operations of the history, and per operation the observation
     (result, fragments handed to the assembler, messages handed to the delegate, publication.position(), image.position()).
   Nothing here runs the model: the oracle keeps the running position of the abstract stream, the claim that is open,
   the queue of accepted-but-not-yet-delivered messages (k, length, returned position) and the subscriber position as
   last observed, and checks
     - every accepted offer / claim returned exactly (running position + bytes the message occupies), a multiple of 32,
       strictly above everything returned before;
     - AdminAction moves the running position to the next term boundary, the other documented refusals move nothing;
       anything else (panic, undocumented error) is a violation;
     - only polls deliver; what a poll delivers is the head of the queue, message by message: right session, right length,
       right bytes (hash of LogBase.payload k len) - so delivered is a prefix of accepted, in order, nothing twice, nothing else;
       an aborted claim never enters the queue;
     - the subscriber position never moves backwards and never passes the running position;
     - a poll with a positive limit that leaves the subscriber position where it was while no claim is open: the queue is
       empty, subscriber position = running position = publication.position() (unless the publication is closed). *)
Require Import V.Base.MachineInt.
Require Import V.Model.LogBase.
Require Import V.Model.Appender.
Require Import V.Model.StreamSys.
Open Scope Z_scope.

Record c01geom := mkC01Geom { cg_tlen : Z; cg_mtu : Z; cg_init : Z; cg_n0 : Z; cg_off0 : Z; cg_session : Z }.

Definition fobs := (Z * Z * Z * outcome Z * Z * Z * Z * Z)%type.
Definition mobs := (Z * Z * Z)%type.
Definition obs := (outcome Z * list fobs * list mobs * outcome Z * Z)%type.

Record ost := mkOst {
  o_pos : Z;                       (* position just after everything appended so far *)
  o_pend : option (Z * Z);         (* open claim: (length, position returned) *)
  o_queue : list (Z * Z * Z);      (* accepted, not yet delivered: (k, length, position returned) *)
  o_sub : Z;                       (* subscriber position as last observed *)
  o_closed : bool
}.

Definition ost0 (g : c01geom) : ost :=
  let p0 := cg_n0 g * cg_tlen g + cg_off0 g in mkOst p0 None [] p0 false.

(* bytes a message of len bytes occupies in the stream *)
Definition c_req (g : c01geom) (len : Z) : Z := required_spec len (cg_mtu g - 32).

Definition next_term (g : c01geom) (pos : Z) : Z :=
  let r := pos mod cg_tlen g in if r =? 0 then pos else pos + (cg_tlen g - r).

Definition nil_b {A} (l : list A) : bool := match l with [] => true | _ => false end.
Definition none_b {A} (o : option A) : bool := match o with None => true | Some _ => false end.

(* the messages a poll delivered against the head of the queue *)
Fixpoint take_delivered (ses : Z) (q : list (Z * Z * Z)) (ms : list mobs) : option (list (Z * Z * Z)) :=
  match ms with
  | [] => Some q
  | (s, len, h) :: r =>
      match q with
      | (k, qlen, _) :: q' =>
          if (s =? ses) && (len =? qlen) && (h =? bhash (payload k qlen)) then take_delivered ses q' r else None
      | [] => None
      end
  end.

Definition is_ok0 (r : outcome Z) : bool := match r with Ok 0 => true | _ => false end.

Definition judge_append (g : c01geom) (st : ost) (r : outcome Z) (req : Z) (accept : Z -> ost) : option ost :=
  match r with
  | Ok p =>
      if none_b (o_pend st) && (p =? o_pos st + req) && (p mod 32 =? 0) && (o_pos st <? p) then Some (accept p) else None
  | Err AdminAction => Some (mkOst (next_term g (o_pos st)) (o_pend st) (o_queue st) (o_sub st) (o_closed st))
  | Err e => if refusal e then Some st else None
  | _ => None
  end.

Definition judge (g : c01geom) (st : ost) (o : sop) (ob : obs) : option ost :=
  let '(r, fs, ms, ppos, spos) := ob in
  match o with
  | SPoll limit =>
      match r with
      | Ok cnt =>
          match take_delivered (cg_session g) (o_queue st) ms with
          | Some q' =>
              if (cnt =? Z.of_nat (length fs)) && (o_sub st <=? spos) && (spos <=? o_pos st) && (spos mod 32 =? 0) &&
                 (* drained *)
                 (negb ((0 <? limit) && (spos =? o_sub st) && none_b (o_pend st)) ||
                  (nil_b q' && (spos =? o_pos st) &&
                   match ppos with Ok q => q =? spos | Err Closed => o_closed st | _ => false end))
              then Some (mkOst (o_pos st) (o_pend st) q' spos (o_closed st)) else None
          | None => None
          end
      | _ => None
      end
  | _ =>
      (* only polls hand anything to a handler, and nothing but a poll moves the subscriber *)
      if nil_b fs && nil_b ms && (spos =? o_sub st) then
        match o with
        | SOffer k len =>
            judge_append g st r (c_req g len) (fun p => mkOst p (o_pend st) (o_queue st ++ [(k, len, p)]) (o_sub st) (o_closed st))
        | SClaim len =>
            judge_append g st r (align (32 + len) 32) (fun p => mkOst (o_pos st) (Some (len, p)) (o_queue st) (o_sub st) (o_closed st))
        | SCommit k =>
            if is_ok0 r then
              match o_pend st with
              | Some (len, p) => Some (mkOst p None (o_queue st ++ [(k, len, p)]) (o_sub st) (o_closed st))
              | None => Some st
              end
            else None
        | SAbort =>
            if is_ok0 r then
              match o_pend st with
              | Some (len, p) => Some (mkOst p None (o_queue st) (o_sub st) (o_closed st))
              | None => Some st
              end
            else None
        | SClose => if is_ok0 r then Some (mkOst (o_pos st) (o_pend st) (o_queue st) (o_sub st) true) else None
        | _ => if is_ok0 r then Some st else None
        end
      else None
  end.

Fixpoint judge_all (g : c01geom) (st : ost) (ops : list sop) (obs_ : list obs) : bool :=
  match ops, obs_ with
  | [], [] => true
  | o :: ro, ob :: rb => match judge g st o ob with Some st' => judge_all g st' ro rb | None => false end
  | _, _ => false
  end.

Definition holds_c01 (g : c01geom) (ops : list sop) (obs_ : list obs) : bool := judge_all g (ost0 g) ops obs_.
