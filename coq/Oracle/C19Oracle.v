(* C19 - the property as decidable predicates over what the implementation returned.
   Nothing here calls the parser or the builder model: the expectations come from the hand-written
   protocol description (Model/UriSpec.v: parameter names, legal values, abstract builder) and from
   the map operations of Model/UriTypes.v. Model/Uri.v is imported for the observation types only. *)
Require Import V.Base.MachineInt.
Require Import V.Model.UriTypes.
Require Import V.Model.UriSpec.
Require Import V.Model.Uri.
Require Import V.Model.UriSplit.
Open Scope Z_scope.

Definition pobs_same (a b : pobs) : bool :=
  match a, b with
  | OOk p m ps, OOk p' m' ps' => str_eqb p p' && str_eqb m m' && params_equiv ps ps'
  | _, _ => false
  end.

(* ---- any input string: parsed or rejected, never a panic; an accepted uri survives printing ----- *)

(* what was accepted is what the string says when it is cut as the grammar dictates (Model/UriSplit.v: at the first '?',
   then at every '|', every piece at its first '='), a later occurrence of a key replacing an earlier one *)
Definition reads_as (s p m : str) (ps : params) : bool :=
  let '(h, kvs) := uri_read s in str_eqb h (uri_head p m) && params_equiv ps (last_wins kvs).

(* `Disp x`: x is to_string() with its key=value segments brought into key order (the HashMap's order is not observed);
   ps is in key order too. So x must be exactly the grammar string of what was read: to_string(parse(s)) is s up to the
   order of the parameters and the removal of overwritten duplicates. *)
Definition holds_parse_any (s : str) (r1 : pobs) (d : dobs) (r2 : pobs) : bool :=
  match r1 with
  | OOk p m ps =>
      (is_empty p || str_eqb p P_SPY) && forallb media_char_ok m && forallb entry_ok ps && keys_distinct ps
      && reads_as s p m ps
      && match d with Disp x => pobs_same r1 r2 && str_eqb x (spec_uri p m ps) | _ => false end
  | OErr _ => match d with NoDisp => true | _ => false end
  | _ => false
  end.

(* ---- a string of the URI grammar parses to exactly its prefix, media and parameters ------------ *)

Definition holds_parse_valid (s prefix media : str) (kvs : params) (r1 : pobs) (d : dobs) (r2 : pobs) : bool :=
  if grammar_ok prefix media kvs && str_eqb s (spec_uri prefix media kvs) then
    pobs_same r1 (OOk prefix media (last_wins kvs)) && holds_parse_any s r1 d r2
  else holds_parse_any s r1 d r2.

(* ---- add_session_id changes the session-id parameter and nothing else --------------------------- *)

Definition holds_sid (s : str) (sid : Z) (r1 : pobs) (d : dobs) (r2 : pobs) : bool :=
  match r1 with
  | OOk p m ps =>
      match d, r2 with
      | Disp _, OOk p2 m2 ps2 =>
          str_eqb p2 p && str_eqb m2 m
          && match lookup P_SESSION_ID ps2 with Some v => str_eqb v (dec sid) | None => false end
          && params_equiv (remove_key P_SESSION_ID ps2) (remove_key P_SESSION_ID ps)
          && keys_distinct ps2
      | _, _ => false
      end
  | OErr _ => match d with NoDisp => true | _ => false end
  | _ => false
  end.

(* ---- put / remove / get / get_or_default / contains_key behave as a map --------------------------- *)

Definition map_step (ps : params) (o : api_op) : params * str :=
  match o with
  | ApiPut k v => (insert k v ps, [])
  | ApiRemove k => (remove_key k ps, match lookup k ps with Some v => v | None => [] end)
  | ApiGet k => (ps, match lookup k ps with Some v => v | None => [] end)
  | ApiGetD k dflt => (ps, match lookup k ps with Some v => v | None => dflt end)
  | ApiHas k => (ps, match lookup k ps with Some _ => [1] | None => [0] end)
  end.

Fixpoint map_run (ps : params) (ops : list api_op) : params * list str :=
  match ops with
  | [] => (ps, [])
  | o :: r => let '(ps1, x) := map_step ps o in let '(ps2, xs) := map_run ps1 r in (ps2, x :: xs)
  end.

Definition holds_api (ops : list api_op) (r1 : pobs) (res : list str) (r2 : pobs) : bool :=
  match r1 with
  | OOk p m ps =>
      let '(ps', xs) := map_run ps ops in
      eqb_of (list_eq_dec (list_eq_dec Z.eq_dec)) res xs && pobs_same r2 (OOk p m ps')
  | OErr _ => match r2 with ONone => true | _ => false end
  | _ => false
  end.

(* ---- the builder: every setter affects its own parameter only, under the protocol's name ---------- *)

Definition in_domain (ops : list op) : bool := forallb op_typed ops && forallb op_no_bar ops.

Definition holds_builder (ops : list op) (oks : list Z) (b : bobs) (r : pobs) : bool :=
  if negb (in_domain ops) then true
  else
    let '(a, soks) := srun s_init ops in
    eqb_of (list_eq_dec Z.eq_dec) oks (map z_of_bool soks)
    && match sp_media a with
       | None => true               (* build() without a media: the property says nothing *)
       | Some m => match b with
                   | BOk _ => pobs_same r (OOk (expected_prefix a) m (expected_params a))
                   | BPanic => false
                   end
       end.
