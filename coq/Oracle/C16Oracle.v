(* Property C16 as a decidable predicate over what one accessor call was *observed* to do on the fixture:
   a region of rcap bytes (initial contents `planted p w`) surrounded by guard zones, and a second
   region of scap bytes (`src_byte`) for copy_from.

   Observation = (result, d0, d1):
     result  Panic | Ok (numbers, bytes)   what the call returned (see `run` in Model/Buffer.v for the shapes)
     d0      [(offset, new byte)] for every byte of the first allocation (guards included: offsets < 0 or
             >= rcap are guard bytes) that differs from its value before the call
     d1      the same for the second allocation.

   The statement: a call either fails loudly (Panic) having changed nothing, or it returns and then
     - every (offset, length) it was given lies inside the buffer it was applied to
       (0 <= offset, 0 <= length, offset + length <= capacity; for views: inside the parent, recursively),
     - the bytes it returns are exactly the bytes of that range of the region,
     - the only bytes that changed lie inside that range (so no guard byte changed),
     - the source region of a copy is unchanged and the copied bytes come from the requested source range.
   A crash (Crash) or anything else is a failure.  The predicate does not mention the model's accessors. *)
Require Import V.Base.MachineInt.
Require Import V.Model.Buffer.
Open Scope Z_scope.

Fixpoint list_eqb (a b : list Z) : bool :=
  match a, b with
  | [], [] => true
  | x :: a', y :: b' => (x =? y) && list_eqb a' b'
  | _, _ => false
  end.

Definition no_change (d : list (Z * Z)) : bool := match d with [] => true | _ => false end.
Definition within (lo hi : Z) (d : list (Z * Z)) : bool :=
  forallb (fun p => (lo <=? fst p) && (fst p <? hi)) d.

Definition obs := (outcome rv * list (Z * Z) * list (Z * Z))%type.

(* the four shapes of a specification; (base, cap) is the buffer the call was applied to, mem0 the region before *)
Definition sp_reads (mem0 : memory) (base cap : Z) (r : rv) (d0 : list (Z * Z)) (off len : Z) : bool :=
  inside cap off len && list_eqb (snd r) (map mem0 (zseq (base + off) len)) && no_change d0.
Definition sp_writes (base cap : Z) (d0 : list (Z * Z)) (off len : Z) : bool :=
  inside cap off len && within (base + off) (base + off + len) d0.
Definition sp_exposes (base cap : Z) (r : rv) (d0 : list (Z * Z)) (off len : Z) : bool :=
  inside cap off len && list_eqb (fst r) [base + off] && no_change d0.
Definition sp_string (mem0 : memory) (base cap : Z) (r : rv) (d0 : list (Z * Z)) (off : Z) : bool :=
  inside cap off 4 &&
  (let l := wrap32 (le_val (map mem0 (zseq (base + off) 4))) in
   inside cap (off + 4) l && list_eqb (snd r) (map mem0 (zseq (base + (off + 4)) l))) && no_change d0.

(* c applied to the buffer occupying [base, base + cap) of the root region returned r and changed d0 *)
Fixpoint spec_ok (scap : Z) (srcm mem0 : memory) (base cap : Z) (c : call) (r : rv) (d0 : list (Z * Z)) : bool :=
  match c with
  | CNop => list_eqb (fst r) [base; cap] && no_change d0
  | CView off len c' => inside cap off len && spec_ok scap srcm mem0 (base + off) len c' r d0
  | CGet sz pos | CGetVolatile sz pos | CAsRef sz pos | CGetBytes sz pos => sp_reads mem0 base cap r d0 pos sz
  | COverlay sz pos => sp_exposes base cap r d0 pos sz
  | CPut sz pos | CPutOrdered sz pos => sp_writes base cap d0 pos sz
  | CPutAtomic off _ => sp_writes base cap d0 off 8
  | CCas sz pos _ _ => sp_writes base cap d0 pos sz
  | CAddOrdered off _ => sp_writes base cap d0 off 8
  | CGetAndAdd off _ =>
      sp_writes base cap d0 off 8 && list_eqb (snd r) (map mem0 (zseq (base + off) 8))
  | CSetMemory pos len _ => sp_writes base cap d0 pos len
  | CPutBytes off n => sp_writes base cap d0 off n
  | CWrite n => sp_writes base cap d0 0 n
  | CCopyFrom off soff len =>
      sp_writes base cap d0 off len && inside scap soff len &&
      forallb (fun p => snd p =? srcm (soff + (fst p - (base + off)))) d0
  | CAsSlice => list_eqb (fst r) [base; cap] && list_eqb (snd r) (map mem0 (zseq (base + 0) cap)) && no_change d0
  | CSubSlice idx len => sp_reads mem0 base cap r d0 idx len
  | CGetString off => sp_string mem0 base cap r d0 off
  | CGetStringWl off len => sp_reads mem0 base cap r d0 off len
  | CGetStringLength off => sp_reads mem0 base cap r d0 off 4
  | CPutString off n => sp_writes base cap d0 off (n + 4)
  (* where inside the buffer the bytes of put_string_without_length belong is not part of this property *)
  | CPutStringWl off n => inside cap off n && within base (base + cap) d0
  (* Flyweight: base_offset + offset is an i32 sum (it wraps in a release build; what matters is where the access lands) *)
  | FNew sz fb => sp_exposes base cap r d0 fb sz
  | FStringGet _ off => sp_string mem0 base cap r d0 off
  | FStringGetLength _ off => sp_reads mem0 base cap r d0 off 4
  | FStringPut _ off n => sp_writes base cap d0 off (n + 4)
  | FPutBytes fb off n => sp_writes base cap d0 (wrap32 (fb + off)) n
  | FGetBytes sz fb off => sp_reads mem0 base cap r d0 (wrap32 (fb + off)) sz
  | FPut sz fb off => sp_writes base cap d0 (wrap32 (fb + off)) sz
  | FOverlay sz fb off => sp_exposes base cap r d0 (wrap32 (fb + off)) sz
  | FField sz fb foff flen => inside cap fb sz && sp_reads mem0 base cap r d0 (fb + foff) flen
  end.

Definition holds_call (rcap scap p w : Z) (c : call) (o : obs) : bool :=
  let '(res, d0, d1) := o in
  no_change d1 &&
  match res with
  | Panic => no_change d0
  | Ok r => spec_ok scap src_byte (planted p w) 0 rcap c r d0
  | _ => false
  end.

(* a batch: every element is its own fixture (planted word (p, w)) and call *)
Fixpoint holds_batch (rcap scap : Z) (cs : list (Z * Z * call)) (os : list obs) : bool :=
  match cs, os with
  | [], [] => true
  | (p, w, c) :: cs', o :: os' => holds_call rcap scap p w c o && holds_batch rcap scap cs' os'
  | _, _ => false
  end.

Definition observe_batch (m : mode) (rcap scap : Z) (cs : list (Z * Z * call)) : list obs :=
  map (fun x => match x with (p, w, c) => observe m rcap scap p w c end) cs.
