(* Property C16 as a decidable predicate over what one accessor call was *observed* to do on the fixture:
   a region of rcap bytes (initial contents `planted p w`) surrounded by guard zones, and a second
   region of scap bytes (`src_byte`) for copy_from.

   Observation = (result, d0, d1):
     result  Panic | Ok (numbers, bytes)   what the call returned (see `run` in Model/Buffer.v for the shapes)
     d0      [(offset, new byte)] for every byte of the first allocation (guards included: offsets < 0 or
             >= rcap are guard bytes) that differs from its value before the call
     d1      the same for the second allocation.

   The statement: a call either fails loudly (Panic) having changed nothing, or it returns and then
     - every (offset, length) it was given lies inside the buffer it was applied to
       (0 <= offset, 0 <= length, offset + length <= capacity; for views: inside the parent, recursively),
     - the bytes it returns are exactly the bytes of that range of the region,
     - the only bytes that changed lie inside that range (so no guard byte changed),
     - the source region of a copy is unchanged and the copied bytes come from the requested source range.
   A crash (Crash) or anything else is a failure.  The predicate does not mention the model's accessors. *)
Require Import V.Base.MachineInt V.Model.Buffer.
Open Scope Z_scope.

Fixpoint list_eqb (a b : list Z) : bool :=
  match a, b with
  | [], [] => true
  | x :: a', y :: b' => (x =? y) && list_eqb a' b'
  | _, _ => false
  end.

Definition no_change (d : list (Z * Z)) : bool := match d with [] => true | _ => false end.
Definition within (lo hi : Z) (d : list (Z * Z)) : bool :=
  forallb (fun p => (lo <=? fst p) && (fst p <? hi)) d.

Definition obs := (outcome rv * list (Z * Z) * list (Z * Z))%type.

(* c applied to the buffer occupying [base, base + cap) of the root region returned r and changed d0 *)
Fixpoint spec_ok (scap : Z) (srcm mem0 : memory) (base cap : Z) (c : call) (r : rv) (d0 : list (Z * Z)) : bool :=
  let nums := fst r in
  let bytes := snd r in
  let reads off len :=
    inside cap off len && list_eqb bytes (map mem0 (zseq (base + off) len)) && no_change d0 in
  let writes off len := inside cap off len && within (base + off) (base + off + len) d0 in
  let exposes off len := inside cap off len && list_eqb nums [base + off] && no_change d0 in
  let string_at off :=
    inside cap off 4 &&
    (let l := wrap32 (le_val (map mem0 (zseq (base + off) 4))) in
     inside cap (off + 4) l && list_eqb bytes (map mem0 (zseq (base + off + 4) l))) && no_change d0 in
  match c with
  | CNop => list_eqb nums [base; cap] && no_change d0
  | CView off len c' => inside cap off len && spec_ok scap srcm mem0 (base + off) len c' r d0
  | CGet sz pos | CGetVolatile sz pos | CAsRef sz pos | CGetBytes sz pos => reads pos sz
  | COverlay sz pos => exposes pos sz
  | CPut sz pos | CPutOrdered sz pos => writes pos sz
  | CPutAtomic off _ => writes off 8
  | CCas sz pos _ _ => writes pos sz
  | CAddOrdered off _ => writes off 8
  | CGetAndAdd off _ =>
      inside cap off 8 && list_eqb bytes (map mem0 (zseq (base + off) 8)) && within (base + off) (base + off + 8) d0
  | CSetMemory pos len _ => writes pos len
  | CPutBytes off n => writes off n
  | CWrite n => writes 0 n
  | CCopyFrom off soff len =>
      writes off len && inside scap soff len &&
      forallb (fun p => snd p =? srcm (soff + (fst p - (base + off)))) d0
  | CAsSlice => list_eqb nums [base; cap] && list_eqb bytes (map mem0 (zseq base cap)) && no_change d0
  | CSubSlice idx len => reads idx len
  | CGetString off => string_at off
  | CGetStringWl off len => reads off len
  | CGetStringLength off => reads off 4
  | CPutString off n => writes off (n + 4)
  (* where inside the buffer the bytes of put_string_without_length belong is not part of this property *)
  | CPutStringWl off n => inside cap off n && within base (base + cap) d0
  | FNew sz fb => exposes fb sz
  | FStringGet _ off => string_at off
  | FStringGetLength _ off => reads off 4
  | FStringPut _ off n => writes off (n + 4)
  | FPutBytes fb off n => writes (fb + off) n
  | FGetBytes sz fb off => reads (fb + off) sz
  | FPut sz fb off => writes (fb + off) sz
  | FOverlay sz fb off => exposes (fb + off) sz
  end.

Definition holds_call (rcap scap p w : Z) (c : call) (o : obs) : bool :=
  let '(res, d0, d1) := o in
  no_change d1 &&
  match res with
  | Panic => no_change d0
  | Ok r => spec_ok scap src_byte (planted p w) 0 rcap c r d0
  | _ => false
  end.

(* a batch: every element is its own fixture (planted word (p, w)) and call *)
Fixpoint holds_batch (rcap scap : Z) (cs : list (Z * Z * call)) (os : list obs) : bool :=
  match cs, os with
  | [], [] => true
  | (p, w, c) :: cs', o :: os' => holds_call rcap scap p w c o && holds_batch rcap scap cs' os'
  | _, _ => false
  end.

Definition observe_batch (m : mode) (rcap scap : Z) (cs : list (Z * Z * call)) : list obs :=
  map (fun x => match x with (p, w, c) => observe m rcap scap p w c end) cs.
