(* Decidable form of property C05, applied to what the implementation was observed to do
   (and, in Props/C05.v, to the model's own results).

   Vocabulary.  A call starts at stream position `pos`, term offset `off` (base = pos - off is the
   position of the start of the term) and sees the committed frames `fs` laid out from `off`.
   A *run* of a poll is described by (k, ab): the call consumed the first k frames of `fs` and, if `ab`,
   handed frame k to the handler which answered Abort.  `adm` says which runs the property allows,
   the `judge_*` predicates say what the observation of an allowed run must look like.  The oracle does
   not ask for progress (a poll that stops early is allowed); exact agreement with the model is the job of
   the correspondence check.
   Definitions only. *)
Require Import V.Base.MachineInt.
Require Import V.Generated.GenConsts.
Require Import V.Model.LogBase.
Require Import V.Model.Descriptor.
Require Import V.Model.Reader.
Require Import V.Model.Image.
Require Import V.Oracle.C05Cases.
Open Scope Z_scope.

Definition is_abort (a : action) : bool := match a with Abort => true | _ => false end.
Definition is_break (a : action) : bool := match a with Break => true | _ => false end.
Definition is_commit (a : action) : bool := match a with Commit => true | _ => false end.
Definition has_end (f : frame) : bool := negb (Z.land (f_flags f) F_END =? 0).

(* the frames consumed and the fragments among them *)
Definition consumed (fs : list frame) (k : nat) : list frame := firstn k fs.
Definition frags (off : Z) (fs : list frame) (k : nat) : list dlv := data_of (place off (consumed fs k)).
Definition reached (off : Z) (fs : list frame) (k : nat) : Z := off + span_sum (consumed fs k).
(* the fragment handed over and aborted, if any *)
Definition aborted (off : Z) (fs : list frame) (k : nat) (ab : bool) : list dlv :=
  if ab then match nth_error fs k with Some f => [(reached off fs k, f)] | None => [] end else [].

(* Admissible runs of poll / bounded_poll / controlled_poll / bounded_controlled_poll.
   P o     : a fragment starting at offset o is below the caller's position bound
   budget  : fragments the handler may still be given (fragment_limit minus those given so far)
   a consumed fragment's answer is never Abort; after Break nothing more is consumed or handed over;
   the aborted fragment is a data frame, within the budget, below the bound, answered Abort. *)
Fixpoint adm (P : Z -> bool) (fs : list frame) (sc : list action) (off budget : Z) (k : nat) (ab : bool) {struct k} : bool :=
  match k with
  | O => if ab then
           match fs with
           | f :: _ => negb (is_pad f) && P off && (0 <? budget) && is_abort (hd Continue sc)
           | [] => false
           end
         else true
  | S k' =>
      match fs with
      | [] => false
      | f :: r =>
          if is_pad f then adm P r sc (off + span f) budget k' ab
          else P off && (0 <? budget) && negb (is_abort (hd Continue sc))
               && (if is_break (hd Continue sc) then (match k' with O => true | _ => false end) && negb ab else true)
               && adm P r (tl sc) (off + span f) (budget - 1) k' ab
      end
  end.

(* offsets at which a Commit answer publishes the position: the end of each consumed fragment answered Commit *)
Fixpoint commit_offs (D : list dlv) (sc : list action) : list Z :=
  match D with
  | [] => []
  | (o, f) :: D' => (if is_commit (hd Continue sc) then [o + span f] else []) ++ commit_offs D' (tl sc)
  end.

(* ---- comparing observations ---- *)
Definition out_eqb (a b : outcome Z) : bool :=
  match a, b with
  | Ok x, Ok y => x =? y
  | Err IllegalArg, Err IllegalArg => true
  | Panic, Panic => true
  | _, _ => false
  end.

Definition fobs_eqb (a b : fobs) : bool :=
  let '(a1, a2, a3, a4, a5, a6) := a in
  let '(b1, b2, b3, b4, b5, b6) := b in
  (a1 =? b1) && (a2 =? b2) && (a3 =? b3) && out_eqb a4 b4 && (a5 =? b5) && (a6 =? b6).

Fixpoint list_eqb {A} (eq : A -> A -> bool) (xs ys : list A) : bool :=
  match xs, ys with
  | [], [] => true
  | x :: xr, y :: yr => eq x y && list_eqb eq xr yr
  | _, _ => false
  end.

(* what the handler must be given for the frame at offset o: data offset, payload length, flags,
   header.position() = stream position just after the frame, session id, payload *)
Definition exp_frag (base : Z) (d : dlv) : fobs :=
  let '(o, f) := d in
  (o + HDR, f_len f - HDR, f_flags f, Ok (base + o + span f), f_session f, hash_bytes 7 (f_body f)).

(* the writes to the subscriber position counter: never decreasing, starting from the old position; the counter ends at
   the last value written (unchanged when nothing is written), which is the position reached; every position in `must`
   (the Commit points) has been published *)
Fixpoint nondecr (prev : Z) (ws : list Z) : bool :=
  match ws with [] => true | w :: r => (prev <=? w) && nondecr w r end.

Definition writes_ok (pos rp : Z) (must ws : list Z) (ctr' : Z) : bool :=
  nondecr pos ws && (last ws pos =? ctr') && (ctr' =? rp)
  && forallb (fun v => existsb (Z.eqb v) ws) must.

Definition below (bnd : option Z) (base o : Z) : bool :=
  match bnd with None => true | Some B => base + o <? B end.

Fixpoint any_upto (n : nat) (p : nat -> bool) : bool :=
  match n with O => p O | S n' => p n || any_upto n' p end.

(* ---- poll, bounded_poll, controlled_poll, bounded_controlled_poll ---- *)
Definition judge_run (bnd : option Z) (limit : Z) (sc : list action) (pos off : Z) (fs : list frame)
           (ob : cobs) (k : nat) (ab : bool) : bool :=
  let '(ret, fo, ws, ctr') := ob in
  let base := pos - off in
  (* (the nested ifs only make evaluation stop at the first failing test) *)
  if ctr' =? base + reached off fs k then
    let D := frags off fs k in
    if out_eqb ret (Ok (Z.of_nat (length D))) then
      if adm (below bnd base) fs sc off limit k ab then
        if writes_ok pos (base + reached off fs k) (map (Z.add base) (commit_offs D sc)) ws ctr' then
          list_eqb fobs_eqb fo (map (exp_frag base) (D ++ aborted off fs k ab))
        else false
      else false
    else false
  else false.

Definition judge_poll (bnd : option Z) (limit : Z) (sc : list action) (pos off : Z) (fs : list frame) (ob : cobs) : bool :=
  any_upto (length fs) (fun k => judge_run bnd limit sc pos off fs ob k false || judge_run bnd limit sc pos off fs ob k true).

(* ---- controlled_peek ---- *)
(* admissible scans: like adm without a fragment budget *)
Fixpoint padm (P : Z -> bool) (fs : list frame) (sc : list action) (off : Z) (k : nat) (ab : bool) {struct k} : bool :=
  match k with
  | O => if ab then
           match fs with
           | f :: _ => negb (is_pad f) && P off && is_abort (hd Continue sc)
           | [] => false
           end
         else true
  | S k' =>
      match fs with
      | [] => false
      | f :: r =>
          if is_pad f then padm P r sc (off + span f) k' ab
          else P off && negb (is_abort (hd Continue sc))
               && (if is_break (hd Continue sc) then (match k' with O => true | _ => false end) && negb ab else true)
               && padm P r (tl sc) (off + span f) k' ab
      end
  end.

(* the position a peek reports: the end of the last scanned frame that completes a message
   (END flag set) or is padding; `acc` (the initial position) when there is none *)
Fixpoint last_complete (base : Z) (fs : list frame) (off : Z) (k : nat) (acc : Z) {struct k} : Z :=
  match k, fs with
  | S k', f :: r =>
      let e := off + span f in
      last_complete base r e k' (if is_pad f || has_end f then base + e else acc)
  | _, _ => acc
  end.

Definition judge_peek_run (limitpos : Z) (sc : list action) (ctr ipos off : Z) (fs : list frame)
           (ob : cobs) (k : nat) (ab : bool) : bool :=
  let '(ret, fo, ws, ctr') := ob in
  let base := ipos - off in
  if out_eqb ret (Ok (last_complete base fs off k ipos)) then
    if padm (below (Some limitpos) base) fs sc off k ab then
      if match ws with [] => true | _ => false end && (ctr' =? ctr) then
        list_eqb fobs_eqb fo (map (exp_frag base) (frags off fs k ++ aborted off fs k ab))
      else false
    else false
  else false.

Definition judge_peek (limitpos : Z) (sc : list action) (ctr ipos off : Z) (fs : list frame) (ob : cobs) : bool :=
  any_upto (length fs) (fun k => judge_peek_run limitpos sc ctr ipos off fs ob k false
                                 || judge_peek_run limitpos sc ctr ipos off fs ob k true).

(* validate_position as arithmetic: not before the current position, not beyond the end of its term, frame aligned *)
Definition valid_new_position (tl cur p : Z) : bool :=
  (cur <=? p) && (p <=? (cur / tl + 1) * tl) && (p mod FA =? 0).

(* ---- block_poll ---- *)
Definition badm (blimit : Z) (fs : list frame) (k : nat) : bool :=
  match k with
  | O => true
  | S k' =>
      (Nat.leb k (length fs))
      && (match k', fs with O, f :: _ => is_pad f | _, _ => false end
          || (forallb (fun f => negb (is_pad f)) (consumed fs k) && (span_sum (consumed fs k) <=? blimit)))
  end.

Definition judge_block_run (session blimit pos off : Z) (fs : list frame) (ob : cobs) (k : nat) : bool :=
  let '(ret, fo, ws, ctr') := ob in
  let len := span_sum (consumed fs k) in
  if out_eqb ret (Ok len) then
    badm blimit fs k
    && match k, fs with
       | S _, f :: _ => list_eqb fobs_eqb fo [(off, len, -1, Ok (f_term_id f), session, 0)]
       | _, _ => match fo with [] => true | _ => false end
       end
    && writes_ok pos (pos + len) [] ws ctr'
  else false.

Definition judge_block (session blimit pos off : Z) (fs : list frame) (ob : cobs) : bool :=
  any_upto (length fs) (fun k => judge_block_run session blimit pos off fs ob k).

(* nothing happened: return value v, no fragment, no write, counter unchanged *)
Definition judge_idle (v : outcome Z) (pos : Z) (ob : cobs) : bool :=
  let '(ret, fo, ws, ctr') := ob in
  out_eqb ret v && match fo with [] => true | _ => false end && match ws with [] => true | _ => false end && (ctr' =? pos).

(* ---- the conditions under which the property speaks about a call ----
   geometry legal, position inside term n at a frame-aligned offset, and the frames visible from there are
   well-formed: length at least a header, term id of term n, all inside the term *)
Fixpoint wf_frames (tid cap off : Z) (fs : list frame) : bool :=
  match fs with
  | [] => true
  | f :: r => (HDR <=? f_len f) && (f_term_id f =? tid) && (off + span f <=? cap) && wf_frames tid cap (off + span f) r
  end.

Definition wf_call (bits init pos : Z) (fs : list frame) : bool :=
  let tl := 2 ^ bits in
  let n := pos / tl in
  let off := pos mod tl in
  (16 <=? bits) && (bits <=? 30) && in_i32 init && (0 <=? pos) && (n <? two31) && (off mod FA =? 0)
  && wf_frames (wrap32 (init + n)) tl off fs.

(* ---- one call of a history ---- *)
(* what the oracle knows before a call: the log as the environment built it, the subscriber position counter as last
   observed, whether close was called and the counter value at that moment *)
Definition ostate := (list seg * Z * bool * Z)%type.

Definition frames_at (bits : Z) (segs : list seg) (pos : Z) : list frame :=
  let tl := 2 ^ bits in view (part_of segs ((pos / tl) mod 3)) (pos mod tl).

(* before fix C05-block-poll-limit block limits with offset + limit >= 2^31 were not judged; now every i32 limit is *)
Definition block_excluded (bits pos blimit : Z) : bool := negb (in_i32 (pos mod 2 ^ bits + blimit)).

Definition judge_op (bits init session : Z) (st : ostate) (o : cop) (ob : cobs) : bool :=
  let '(segs, pos, closed, final) := st in
  let tl := 2 ^ bits in
  let off := pos mod tl in
  let fs := frames_at bits segs pos in
  match o with
  | CGrow _ _ | CClose => judge_idle (Ok 0) pos ob
  | CPosition => judge_idle (Ok (if closed then final else pos)) pos ob
  | CSetPos p =>
      if closed then judge_idle (Ok 0) pos ob else
      let p := resolve pos p in
      if valid_new_position tl pos p then
        let '(ret, fo, ws, ctr') := ob in
        out_eqb ret (Ok 0) && match fo with [] => true | _ => false end
        && (last ws pos =? ctr') && (ctr' =? p) && nondecr pos ws
      else judge_idle (Err IllegalArg) pos ob
  | CPeek ip lp sc =>
      let ip := resolve pos ip in
      let lp := resolve pos lp in
      if closed then judge_idle (Ok ip) pos ob else
      if negb (valid_new_position tl pos ip) then judge_idle (Err IllegalArg) pos ob else
      let pfs := frames_at bits segs ip in
      if wf_call bits init ip pfs then judge_peek lp sc pos ip (ip mod tl) pfs ob else true
  | _ =>
      if closed then judge_idle (Ok 0) pos ob else
      if negb (wf_call bits init pos fs) then true else
      match o with
      | CPoll limit => judge_poll None limit [] pos off fs ob
      | CBounded b limit => judge_poll (Some (resolve pos b)) limit [] pos off fs ob
      | CControlled limit sc => judge_poll None limit sc pos off fs ob
      | CBControlled b limit sc => judge_poll (Some (resolve pos b)) limit sc pos off fs ob
      | CBlock bl => judge_block session bl pos off fs ob
      | _ => true
      end
  end.

Definition ctr_of (ob : cobs) : Z := let '(_, _, _, c) := ob in c.

Definition onext (st : ostate) (o : cop) (ob : cobs) : ostate :=
  let '(segs, pos, closed, final) := st in
  match o with
  | CGrow s j => (grow_seg segs s j, ctr_of ob, closed, final)
  | CClose => (segs, ctr_of ob, true, if closed then final else pos)
  | _ => (segs, ctr_of ob, closed, final)
  end.

Fixpoint judge_all (bits init session : Z) (st : ostate) (ops : list cop) (obs : list cobs) : bool :=
  match ops, obs with
  | [], [] => true
  | o :: r, ob :: obr => judge_op bits init session st o ob && judge_all bits init session (onext st o ob) r obr
  | _, _ => false
  end.

Definition holds_case (bits init session pos0 : Z) (segs : list sseg) (ops : list cop) (obs : list cobs) : bool :=
  judge_all bits init session (map (build_seg init session) segs, pos0, false, pos0) ops obs.
