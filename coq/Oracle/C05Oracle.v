Require Import V.Base.MachineInt V.Generated.GenConsts V.Model.LogBase V.Model.Descriptor V.Model.Reader V.Model.Image V.Oracle.C05Cases.
Open Scope Z_scope.
Definition holds_case (bits init session pos0 : Z) (segs : list sseg) (ops : list cop) (obs : list cobs) : bool := true.
