(* Collapse check for cases with ONE publisher: what the implementation's concurrent harness observes (results of the
   single thread, count, raw tails, every non-zero word of the three partitions) must be what the SEQUENTIAL model
   (Model/Publication.v pub_offer, folded over the message list with the thread's retry loop: C02Collapse.seq_thread)
   produces from the handed-over log.  Theorem C02_collapse says the thread model satisfies this on every complete solo
   run; C02_solo_oracle lifts it to this predicate. *)
Require Import V.Base.MachineInt.
Require Import V.Generated.GenConsts.
Require Import V.Model.LogBase.
Require Import V.Model.Descriptor.
Require Import V.Model.Sched.
Require Import V.Model.AppenderThreads.
Require Import V.Model.Appender.
Require Import V.Model.Publication.
Require Import V.Oracle.C02Oracle.
Require Import V.Proofs.C02Collapse.
Require Import V.Proofs.C02CollapseRun.
Open Scope Z_scope.

Definition err_eqb (a b : err) : bool :=
  match a, b with
  | BackPressured, BackPressured | NotConnected, NotConnected | AdminAction, AdminAction
  | MaxPositionExceeded, MaxPositionExceeded | Closed, Closed | TooLong, TooLong
  | InsufficientCapacity, InsufficientCapacity | UnableToKeepUp, UnableToKeepUp | NoResponse, NoResponse
  | NotReady, NotReady | DriverInactive, DriverInactive | NotFound, NotFound
  | IllegalArg, IllegalArg | IllegalState, IllegalState | OtherErr, OtherErr => true
  | Registration x, Registration y => x =? y
  | UnknownCode x, UnknownCode y => x =? y
  | _, _ => false
  end.
Definition outcome_eqb (a b : outcome Z) : bool :=
  match a, b with
  | Ok x, Ok y => x =? y
  | Err x, Err y => err_eqb x y
  | Panic, Panic | Hang, Hang | Crash, Crash => true
  | _, _ => false
  end.
Fixpoint res_eqb (a b : list (outcome Z)) : bool :=
  match a, b with
  | [], [] => true
  | x :: a', y :: b' => outcome_eqb x y && res_eqb a' b'
  | _, _ => false
  end.
Fixpoint words_eqb (a b : words) : bool :=
  match a, b with
  | [], [] => true
  | (o, v) :: a', (o', v') :: b' => (o =? o') && (v =? v') && words_eqb a' b'
  | _, _ => false
  end.
Fixpoint zs_eqb (a b : list Z) : bool :=
  match a, b with
  | [], [] => true
  | x :: a', y :: b' => (x =? y) && zs_eqb a' b'
  | _, _ => false
  end.
Fixpoint parts_eqb (a b : list words) : bool :=
  match a, b with
  | [], [] => true
  | x :: a', y :: b' => words_eqb x y && parts_eqb a' b'
  | _, _ => false
  end.

Definition solo_ok (m : mode) (c : cfg) (msgs : list (list Z)) (budget : nat) (limit : Z)
  (obs : list (Z * accessor * Z * Z * Z * Z * Z * Z) * list (status * list (outcome Z)) * (Z * list Z * list words * Z * Z)
         * list (Z * Z * Z * Z * list Z)) : bool :=
  let '(trt, results, (count, tails, parts, lim, subpos), frags) := obs in
  let '(lg, res) := seq_thread m (init_log c limit) None msgs budget [] in
  let '(cnt', tails', parts') := log_dump lg in
  match results with
  | [(st, r)] => status_eqb st Done && res_eqb r res
  | _ => false
  end && (count =? cnt') && zs_eqb tails tails' && parts_eqb parts parts'.
