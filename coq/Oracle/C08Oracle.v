(* Decidable form of property C08 (sequential part): what the implementation was seen to do
   on a history is what the lossy-channel specification (Spec/Lossy.v) allows - which for a
   sequential history is a single behaviour: ordered, intact delivery; completeness while the
   backlog stays below the capacity; an UnableToKeepUp report, nothing delivered and a restart
   behind everything transmitted when lapped. Buffer dumps are not part of the property. *)
From Coq Require Import String.
Require Import V.Base.MachineInt.
Require Import V.Model.Broadcast.
Require Import V.Model.BroadcastShow.
Require Import V.Spec.Lossy.
Open Scope Z_scope.

Definition err_tag (e : err) : Z * Z :=
  match e with
  | BackPressured => (0, 0) | NotConnected => (1, 0) | AdminAction => (2, 0)
  | MaxPositionExceeded => (3, 0) | Closed => (4, 0) | TooLong => (5, 0)
  | InsufficientCapacity => (6, 0) | UnableToKeepUp => (7, 0) | NoResponse => (8, 0)
  | NotReady => (9, 0) | DriverInactive => (10, 0) | NotFound => (11, 0)
  | Registration c => (12, c) | UnknownCode c => (13, c)
  | IllegalArg => (14, 0) | IllegalState => (15, 0) | OtherErr => (16, 0)
  end.
Definition err_eqb (a b : err) : bool :=
  (fst (err_tag a) =? fst (err_tag b)) && (snd (err_tag a) =? snd (err_tag b)).

Definition sres_eqb (a b : sres) : bool :=
  match a, b with
  | SNone, SNone => true
  | SMsg t1 b1, SMsg t2 b2 => (t1 =? t2) && String.eqb b1 b2
  | SErr e1, SErr e2 => err_eqb e1 e2
  | _, _ => false
  end.

(* implementation observation vs. specification *)
Definition obs_match (i s : sobs) : bool :=
  match i, s with
  | STxOk, STxOk => true
  | STxErr a, STxErr b => err_eqb a b
  | SRx l1 r1, SRx l2 r2 => (l1 =? l2) && sres_eqb r1 r2
  | SPanic, SPanic => true
  | SWords _, SWords _ => true
  | _, _ => false
  end.

Fixpoint all_match (i s : list sobs) : bool :=
  match i, s with
  | [], [] => true
  | x :: i', y :: s' => obs_match x y && all_match i' s'
  | _, _ => false
  end.

Definition holds_seq (cap c0 : Z) (pre : list (Z * list Z)) (h : list op) (o : list sobs) : bool :=
  all_match o (map show_obs (spec_history cap c0 pre h)).

(* ---------------------------------------------------------------- concurrent runs
   What the receiver thread reported, judged against the list of messages handed to transmit
   (messages transmitted before the receiver existed first):
   - every message given to the handler is byte-identical to a transmitted one, and they come in
     transmission order (no duplicate, no reordering, no mixture of two messages);
   - a message is skipped only if UnableToKeepUp was returned since the previous delivery;
   - the receiver thread neither panics nor crashes;
   - a final receive that starts after the transmitter has finished and finds nothing leaves
     nothing unreported. *)
Require Import V.Model.BroadcastThreads.

(* position (from i) of the first message equal to (ty, s) in the transmitted list *)
Fixpoint find_from (sent : list (Z * string)) (i : Z) (ty : Z) (s : string) : option Z :=
  match sent with
  | [] => None
  | (t, b) :: rest => if (t =? ty) && String.eqb b s then Some i else find_from rest (i + 1) ty s
  end.

Fixpoint skipz {A} (n : Z) (l : list A) : list A :=
  match l with [] => [] | x :: r => if n <=? 0 then l else skipz (n - 1) r end.

(* i = index of the next message the receiver has not been given yet; lost = a loss was reported since the last delivery *)
Fixpoint judge (sent : list (Z * string)) (total : Z) (res : list sres) (i : Z) (lost : bool) (final_quiet : bool) : bool :=
  match res with
  | [] => true
  | r :: rest =>
      match r with
      | SMsg ty s =>
          match find_from (skipz i sent) i ty s with
          | Some j => (lost || (j =? i)) && judge sent total rest (j + 1) false final_quiet
          | None => false
          end
      | SErr UnableToKeepUp => judge sent total rest i true final_quiet
      | SErr _ => false
      | SNone =>
          match rest with
          | [] => if final_quiet then lost || (total <=? i) else true
          | _ => judge sent total rest i lost final_quiet
          end
      end
  end.

(* the last receive began (get_volatile of the tail counter) after the transmitter's last access *)
Fixpoint quiet_tail (cap : Z) (rtrace : list event) : bool :=
  match rtrace with
  | [] => false
  | (tid, k, _, off, _, _, _, _) :: rest =>
      if tid =? 1 then
        match k with
        | GetVolatile => if off =? tail_idx cap then true else quiet_tail cap rest
        | _ => quiet_tail cap rest
        end
      else false
  end.

Definition holds_conc (cap : Z) (pre msgs : list (Z * list Z)) (o : cobs) : bool :=
  match o with
  | CCrash => false
  | CObs trace tx_done res e _ _ =>
      let sent := map (fun p => (fst p, hex (snd p))) (pre ++ msgs) in
      let total := Z.of_nat (length sent) in
      let i0 := Z.max 0 (Z.of_nat (length pre) - 1) in
      match e with
      | RLive => judge sent total res i0 false ((tx_done =? Z.of_nat (length msgs)) && quiet_tail cap (rev trace))
      | _ => false
      end
  end.
