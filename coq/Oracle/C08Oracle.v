(* Decidable form of property C08 (sequential part): what the implementation was seen to do
   on a history is what the lossy-channel specification (Spec/Lossy.v) allows - which for a
   sequential history is a single behaviour: ordered, intact delivery; completeness while the
   backlog stays below the capacity; an UnableToKeepUp report, nothing delivered and a restart
   behind everything transmitted when lapped. Buffer dumps are not part of the property. *)
From Coq Require Import String.
Require Import V.Base.MachineInt.
Require Import V.Model.Broadcast.
Require Import V.Model.BroadcastShow.
Require Import V.Spec.Lossy.
Open Scope Z_scope.

Definition err_tag (e : err) : Z * Z :=
  match e with
  | BackPressured => (0, 0) | NotConnected => (1, 0) | AdminAction => (2, 0)
  | MaxPositionExceeded => (3, 0) | Closed => (4, 0) | TooLong => (5, 0)
  | InsufficientCapacity => (6, 0) | UnableToKeepUp => (7, 0) | NoResponse => (8, 0)
  | NotReady => (9, 0) | DriverInactive => (10, 0) | NotFound => (11, 0)
  | Registration c => (12, c) | UnknownCode c => (13, c)
  | IllegalArg => (14, 0) | IllegalState => (15, 0) | OtherErr => (16, 0)
  end.
Definition err_eqb (a b : err) : bool :=
  (fst (err_tag a) =? fst (err_tag b)) && (snd (err_tag a) =? snd (err_tag b)).

Definition sres_eqb (a b : sres) : bool :=
  match a, b with
  | SNone, SNone => true
  | SMsg t1 b1, SMsg t2 b2 => (t1 =? t2) && String.eqb b1 b2
  | SErr e1, SErr e2 => err_eqb e1 e2
  | _, _ => false
  end.

(* implementation observation vs. specification *)
Definition obs_match (i s : sobs) : bool :=
  match i, s with
  | STxOk, STxOk => true
  | STxErr a, STxErr b => err_eqb a b
  | SRx l1 r1, SRx l2 r2 => (l1 =? l2) && sres_eqb r1 r2
  | SPanic, SPanic => true
  | SWords _, SWords _ => true
  | _, _ => false
  end.

Fixpoint all_match (i s : list sobs) : bool :=
  match i, s with
  | [], [] => true
  | x :: i', y :: s' => obs_match x y && all_match i' s'
  | _, _ => false
  end.

Definition holds_seq (cap c0 : Z) (pre : list (Z * list Z)) (h : list op) (o : list sobs) : bool :=
  all_match o (map show_obs (spec_history cap c0 pre h)).
