(* Decidable form of property C18 (vectored offer = offer of the concatenation), evaluated on what the implementation
   returned for a vectored offer and for the contiguous offer of the same bytes on twin logs.
   Observations have the shape of Oracle/C04Oracle.v: (result, (term count, raw tails, changed words per partition), position()). *)
Require Import V.Base.MachineInt.
Require Import V.Generated.GenConsts.
Require Import V.Model.LogBase.
Require Import V.Oracle.C04Oracle.
Open Scope Z_scope.

Definition res_eqb (a b : outcome Z) : bool :=
  match a, b with
  | Ok x, Ok y => x =? y
  | Err e, Err f => err_eqb e f
  | _, _ => false        (* a panic / crash / hang of either side is never "the same result" *)
  end.

Definition dump_same (a b : dump) : bool :=
  (d_count a =? d_count b) && list_eqb Z.eqb (snd (fst a)) (snd (fst b)) && list_eqb words_eqb (snd a) (snd b).

(* same result, same position, same term count, same tail counters, same bytes written *)
Definition twin_equal (a b : obs) : bool :=
  res_eqb (o_res a) (o_res b) && dump_same (o_dump a) (o_dump b) && res_eqb (o_pos a) (o_pos b).

(* the vectored offer writes nothing outside the range claimed for the message: p is the observation before the offer *)
Definition twin_inside (g : geom) (len : Z) (p a : obs) : bool :=
  let dp := o_dump p in
  let da := o_dump a in
  let off := tail_off dp in
  let req := required g len in
  match o_res a with
  | Ok _ => appended_words dp da off req
  | Err AdminAction | Err MaxPositionExceeded =>
      (* did not fit: nothing but (at most) the padding frame that closes the term *)
      forallb (fun w => (off <=? fst w) && (fst w <? off + HDR)) (d_part da (active dp)) &&
      words_eqb (d_part da ((active dp + 1) mod 3)) [] && words_eqb (d_part da ((active dp + 2) mod 3)) []
  | Err _ => no_words da
  | _ => false
  end.

Definition holds_twin (g : geom) (len : Z) (p a b : obs) : bool := twin_equal a b && twin_inside g len p a.

(* the exclusive appender's vectored append against its contiguous append, from the hand-over state itself *)
Definition holds_xapp (g : geom) (len : Z) (a b : outcome Z * dump) : bool :=
  let off := g_off0 g in
  let act := g_n0 g mod 3 in
  let req := required g len in
  res_eqb (fst a) (fst b) && dump_same (snd a) (snd b) &&
  match fst a with
  | Ok r =>
      if 0 <? r then forallb (fun w => (off <=? fst w) && (fst w <? off + req)) (d_part (snd a) act)
      else forallb (fun w => (off <=? fst w) && (fst w <? off + HDR)) (d_part (snd a) act)
  | _ => false
  end &&
  words_eqb (d_part (snd a) ((act + 1) mod 3)) [] && words_eqb (d_part (snd a) ((act + 2) mod 3)) [].

(* The shared TermAppender called directly, vectored against contiguous, on twin logs, with an active term id that is the
   tail's term id + delta.  Same result, same term count, same tail counters, same words written; and when the caller's
   term id is not the one its fetch-add landed in (delta <> 0) both flavours refuse (IllegalState = ActionPossiblyDelayed)
   and write no word of any partition (the tail counter has moved: that is the known C02 finding, not C18's matter). *)
Definition sapp_res_eqb (a b : outcome Z) : bool :=
  match a, b with
  | Err IllegalState, Err IllegalState => true
  | _, _ => res_eqb a b
  end.
Definition holds_sapp (g : geom) (delta len : Z) (a b : outcome Z * dump) : bool :=
  sapp_res_eqb (fst a) (fst b) && dump_same (snd a) (snd b) &&
  (if delta =? 0 then
     match fst a with Ok _ => true | _ => false end
   else
     match fst a with
     | Err IllegalState => forallb (fun ws => words_eqb ws []) (snd (snd a))
     | _ => false
     end).
