(* Decidable form of property C06 for commands that go through ONE DriverProxy shared by several client
   threads (src/driver_proxy.rs): every command a thread successfully issued is handed to the consumer
   exactly once, as the record the control protocol prescribes for exactly that call - its type code, the
   proxy's client id, the correlation id that call returned, the arguments that call passed - and the
   commands of one thread are consumed in the order issued.  Nothing else may be in the ring.

   Judged from the results the threads got and the records drained from the ring at the end; `record_is`
   is the protocol-side decoder of Oracle/C13Oracle.v (literal offsets, independent of the flyweights).
   There is no model run for these cases: the predicate is the specification. *)
Require Import V.Base.MachineInt V.Model.WireBytes V.Model.WireCodes V.Model.WireCommands V.Oracle.C13Oracle.
Open Scope Z_scope.

(* the calls of one thread that returned Ok, with the value returned, in program order; None = malformed *)
Fixpoint issued (prog : list request) (res : list (outcome Z)) : option (list (request * Z)) :=
  match prog, res with
  | [], [] => Some []
  | r :: prog', x :: res' =>
      match x, issued prog' res' with
      | Ok v, Some l =>
          if (spec_length r <=? CMD_BUF) && (draws_correlation_id r || (v =? 0)) then Some ((r, v) :: l) else None
      | Err _, Some l => Some l
      | _, _ => None
      end
  | _, _ => None
  end.

Fixpoint issued_all (progs : list (list request)) (ress : list (list (outcome Z))) : option (list (list (request * Z))) :=
  match progs, ress with
  | [], [] => Some []
  | p :: progs', r :: ress' =>
      match issued p r, issued_all progs' ress' with Some l, Some ls => Some (l :: ls) | _, _ => None end
  | _, _ => None
  end.

(* every way of taking the record as the next pending command of one of the threads (identical records of
   different threads - keepalives - are the only source of more than one way) *)
Fixpoint take_rec (c0 : Z) (pend : list (list (request * Z))) (rec : Z * bytes) : list (list (list (request * Z))) :=
  match pend with
  | [] => []
  | l :: rest =>
      (match l with
       | rv :: l' => if record_is c0 rv rec then [l' :: rest] else []
       | [] => []
       end) ++ map (fun rest' => l :: rest') (take_rec c0 rest rec)
  end.

Definition all_empty (pend : list (list (request * Z))) : bool :=
  forallb (fun l => match l with [] => true | _ => false end) pend.

(* the records are an interleaving of the threads' pending commands that keeps each thread's order, nothing left *)
Fixpoint merge_ok (c0 : Z) (pend : list (list (request * Z))) (recs : list (Z * bytes)) : bool :=
  match recs with
  | [] => all_empty pend
  | rec :: recs' => existsb (fun p => merge_ok c0 p recs') (take_rec c0 pend rec)
  end.

Fixpoint nodup_z (l : list Z) : bool :=
  match l with [] => true | x :: r => negb (existsb (fun y => y =? x) r) && nodup_z r end.

(* c0 = the proxy's client id (the value of the ring's correlation counter when the proxy was created) *)
Definition holds_proxy (c0 : Z) (progs : list (list request)) (ress : list (list (outcome Z))) (recs : list (Z * bytes)) : bool :=
  match issued_all progs ress with
  | Some pend =>
      (* ids handed to different calls are different, and none is the client id *)
      nodup_z (c0 :: map snd (filter (fun rv => draws_correlation_id (fst rv)) (concat pend))) &&
      merge_ok c0 pend recs
  | None => false
  end.
