(* Decidable form of property C07, applied to what the implementation did in a run in which some
   producers were stopped for ever inside write: the sequential epilogue brackets every unblock()
   with dumps of the whole buffer, follows it with reads, and lets a survivor write again. *)
Require Import V.Base.MachineInt.
Require Import V.Generated.GenConsts.
Require Import V.Model.LogBase.
Require Import V.Model.Ring.
Require Import V.Model.RingThreads.
Require Import V.Spec.Fifo.
Require Import V.Oracle.C06Oracle.
Open Scope Z_scope.

Definition word_eqb (a b : Z * Z) : bool := (fst a =? fst b) && (snd a =? snd b).
Fixpoint words_eqb (a b : list (Z * Z)) : bool :=
  match a, b with
  | [], [] => true
  | x :: a', y :: b' => word_eqb x y && words_eqb a' b'
  | _, _ => false
  end.
Definition words_except (ws : list (Z * Z)) (a b : Z) : list (Z * Z) :=
  filter (fun e => negb ((fst e =? a) || (fst e =? b))) ws.

(* what one unblock() may do, judged from the dumps before (w0) and after (w1), head h and tail t *)
Definition unblock_ok (cp h t : Z) (bounds : list Z) (w0 w1 : list (Z * Z)) (r : outcome Z) : bool :=
  let ci := h mod cp in
  match r with
  | Ok 0 => words_eqb w0 w1
  | Ok 1 =>
      let L := word_at w1 ci in
      let ty := word_at w1 (ci + 4) in
      let E := h + align L 8 in
      negb (h =? t) && (word_at w0 ci <=? 0)          (* never on an empty ring or a committed head record *)
      && (ty =? PAD) && (0 <? L)
      && (ci + align L 8 <=? cp)                       (* the padding lies inside the data area *)
      && (E <=? t)                                     (* and does not pass the producer position *)
      (* ends at the producer index / cap / the next record (visible header, or a claim boundary known from the trace) *)
      && ((E =? t) || (E mod cp =? 0) || negb (word_at w0 (E mod cp) =? 0) || mem_z E bounds)
      && words_eqb (words_except w0 ci (ci + 4)) (words_except w1 ci (ci + 4))  (* exactly one header changed *)
  | _ => false
  end.

(* the epilogue; result: the commands written (accepted) during it *)
Fixpoint walk_post (cp : Z) (bounds : list Z) (ops : list op) (outs : list out) (h t : Z) (d0 : option (list (Z * Z))) (adv : bool)
  : option (list (Z * Z * list Z)) :=
  match ops, outs with
  | [], [] => Some []
  | OpDump :: ops', OD ws :: outs' => walk_post cp bounds ops' outs' h t (Some ws) adv
  | OpUnblock :: ops', OU r h1 t1 :: outs' =>
      match d0, outs' with
      | Some w0, OD w1 :: _ =>
          if (h1 =? h) && (t1 =? t) && unblock_ok cp h t bounds w0 w1 r
          then walk_post cp bounds ops' outs' h t None (is_okz r 1) else None
      | _, _ => None
      end
  | OpRead limit :: ops', OR r msgs h1 t1 :: outs' =>
      if (t1 =? t) && (h <=? h1) && (h1 <=? t) && (if adv && (1 <=? limit) then h <? h1 else true)
         && is_okz r (Z.of_nat (length msgs))
      then walk_post cp bounds ops' outs' h1 t None false else None
  | OpWrite typ body :: ops', OW r h1 t1 :: outs' =>
      let n := Z.of_nat (length body) in
      let same := (h1 =? h) && (t1 =? t) in
      if (typ <? 1) || (n >? cp / 8) then None     (* the epilogue only writes well-formed commands *)
      else if no_room cp h t n then (if is_err r InsufficientCapacity && same then walk_post cp bounds ops' outs' h t None adv else None)
      else if is_okz r 0 && (h1 =? h) && (t1 =? t + rec_bytes n + wrap_pad cp t n)
           then match walk_post cp bounds ops' outs' h t1 None adv with Some l => Some (cmsg (typ, body) :: l) | None => None end
           else None
  | OpSize :: ops', OS r :: outs' => if is_okz r (t - h) then walk_post cp bounds ops' outs' h t d0 adv else None
  | _, _ => None
  end.

(* head and tail after the scheduled phase, from the trace *)
Fixpoint trace_ht (cp : Z) (tr : list event) (h t : Z) : Z * Z :=
  match tr with
  | [] => (h, t)
  | (tid, k, off, len, v, v2, before) :: r =>
      if akind_eqb k CompareAndSetI64 && (off =? cp + TAIL_OFF) && (before =? v) then trace_ht cp r h v2
      else if akind_eqb k PutOrdered && (off =? cp + HEAD_OFF) then trace_ht cp r v t
      else trace_ht cp r h t
  end.

Definition holds_crash (cp p0 : Z) (pre : list op) (progs : list (list wreq)) (post : list op)
  (obs : list out * list event * list tres * list out) : bool :=
  let '(o1, tr, res, o3) := obs in
  let '(h1, t1) := last_ht p0 o1 in
  let '(h2, t2) := trace_ht cp tr h1 t1 in
  let cl := claims_of cp tr in
  match res with
  | cons_r :: _ =>
      match delivered_by cons_r, committed_cmds progs cl, check_to cp (mkOst [] p0 p0 []) pre o1,
            walk_post cp (map k_from cl ++ map k_to cl) post o3 h2 t2 None false with
      | Some d0, Some cm0, Some s1, Some cm3 =>
          let cm := map cmsg (o_q s1) ++ cm0 ++ cm3 in
          let delivered := d0 ++ delivered_in o3 in
          let '(h3, t3) := last_ht p0 (o1 ++ o3) in
          positions_ok cp tr h1 t1 &&
          (* nothing damaged, duplicated or reordered: what was delivered is a prefix, in position order,
             of what was committed; if the ring drained completely nothing committed was hidden *)
          is_prefix delivered cm &&
          (if h3 =? t3 then (length delivered =? length cm)%nat else true)
      | _, _, _, _ => false
      end
  | [] => false
  end.
