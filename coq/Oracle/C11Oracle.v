(* Decidable form of property C11 (liveness timing), as a monitor over a history of operations and
   what the implementation showed at each of them.  The monitor keeps only what the property
   talks about: the time of the previous duty cycle, the time of the last keep-alive, whether the
   driver has been declared dead, whether the client is closed, which heartbeat counter the client
   adopted, the counter values last seen, and the registrations still unanswered.  It never runs
   the model's duty cycle; it states when each thing must / must not be observed.
   It is applied to the implementation's observations by the check and, in Props/C11.v, proved to
   accept the model's own observations on the whole domain. *)
Require Import V.Base.MachineInt V.Generated.GenConsts V.Model.CondTimers.
Open Scope Z_scope.

Definition has (x : Z) (l : list Z) : bool := existsb (Z.eqb x) l.
Fixpoint list_eqb (a b : list Z) : bool :=
  match a, b with
  | [], [] => true
  | x :: a', y :: b' => (x =? y) && list_eqb a' b'
  | _, _ => false
  end.

Definition err_eqb (a b : err) : bool :=
  match a, b with
  | NoResponse, NoResponse | NotReady, NotReady | DriverInactive, DriverInactive
  | NotFound, NotFound | Closed, Closed => true
  | Registration x, Registration y => x =? y
  | _, _ => false
  end.
Definition res_eqb (a b : outcome Z) : bool :=
  match a, b with
  | Ok x, Ok y => x =? y
  | Err x, Err y => err_eqb x y
  | _, _ => false
  end.

Record mon := mkMon {
  m_prev : Z;             (* time of the previous duty cycle (construction time before the first) *)
  m_keep : Z;             (* time of the last keep-alive *)
  m_dead : bool;          (* the driver has been declared inactive *)
  m_closed : bool;        (* the client has been closed *)
  m_ctr : option Z;       (* the heartbeat counter the client adopted *)
  m_vals : list Z;        (* counter values last seen *)
  m_regs : list reg       (* registrations made and how the driver answered them *)
}.

Definition mon_init (c : cfg) (t0 : Z) : mon := mkMon t0 t0 false false None [0; 0; 0; 0] [].

(* what must happen to the client's heartbeat counter at a keep-alive *)
Inductive hb_fate := Refresh (id : Z) | Lost | Absent.
Definition hb_fate_of (c : cfg) (mo : mon) (ctrs : list ctr) : hb_fate :=
  match m_ctr mo with
  | Some id => if is_active (c_cid c) ctrs id then Refresh id else Lost
  | None => match find_counter (c_cid c) ctrs with Some id => Refresh id | None => Absent end
  end.

Definition mon_cycle (c : cfg) (mo : mon) (now hb : Z) (ctrs : list ctr) (ev : option (Z * Z))
           (r : outcome Z) (log : list Z) (act cl : Z) (vs : list Z) : option mon :=
  (* a duty-cycle gap longer than the inter-service timeout *)
  let late := now >? m_prev mo + inter_ms c in
  (* the keep-alive interval has elapsed *)
  let due := now >? m_keep mo + KEEPALIVE_TIMEOUT_MS in
  (* the driver's heartbeat is older than the driver timeout *)
  let expired := (hb >=? 0) && (now >? hb + c_td c) in
  let dies := due && expired in
  let fate := if due then hb_fate_of c mo ctrs else Absent in
  let lost := match fate with Lost => true | _ => false end in
  let ok :=
    (* the duty cycle itself succeeds *)
    (match r with Ok _ => true | _ => false end)
    (* closed for a late duty cycle: at that cycle, never otherwise; the error handler is told *)
    && Bool.eqb (has L_SERVICE_TIMEOUT log) late
    (* the driver is declared dead exactly at a keep-alive that finds the heartbeat expired; the error handler is told *)
    && Bool.eqb (has L_DRIVER_INACTIVE log) dies
    && (act =? b2z (negb (m_dead mo || dies)))
    (* a lost heartbeat counter closes the client *)
    && Bool.eqb (has L_HEARTBEAT_LOST log) lost
    && (cl =? b2z (m_closed mo || late || lost))
    (* the heartbeat counter is set to the time of this cycle at a keep-alive, nothing else is written *)
    && list_eqb vs (match fate with Refresh id => upd (m_vals mo) (Z.to_nat id) now | _ => m_vals mo end) in
  if ok then
    Some (mkMon now (if due then now else m_keep mo) (m_dead mo || dies) (m_closed mo || late || lost)
                (match fate with Refresh id => Some id | _ => m_ctr mo end) vs
                (match ev with
                 | Some (id, code) => if code =? CHANNEL_ENDPOINT_ERROR then m_regs mo else on_error_response id code (m_regs mo)
                 | None => m_regs mo
                 end))
  else None.

Definition mon_add (mo : mon) (k : rkind) (now : Z) (r : outcome Z) : option mon :=
  if m_dead mo then (if res_eqb r (Err DriverInactive) then Some mo else None)    (* refused once the driver is dead *)
  else if m_closed mo then (if res_eqb r (Err Closed) then Some mo else None)
  else match r with
       | Ok id => if existsb (fun q => r_id q =? id) (m_regs mo) then None     (* a fresh registration id *)
                  else Some (mkMon (m_prev mo) (m_keep mo) (m_dead mo) (m_closed mo) (m_ctr mo) (m_vals mo)
                                   (mkReg k id now Awaiting :: m_regs mo))
       | _ => None
       end.

Definition mon_find (c : cfg) (mo : mon) (k : rkind) (id now : Z) (r : outcome Z) : option mon :=
  if m_closed mo then (if res_eqb r (Err Closed) then Some mo else None) else
  match find (reg_is k id) (m_regs mo) with
  | None => if res_eqb r (Err NotFound) then Some mo else None
  | Some q =>
      match r_status q with
      | Awaiting =>
          (* "no response" exactly when unanswered for longer than the driver timeout *)
          if now >? r_time q + c_td c then (if res_eqb r (Err NoResponse) then Some mo else None)
          else if res_eqb r (if is_dest k then Ok 0 else Err NotReady) then Some mo else None
      | Errored code =>
          if res_eqb r (Err (Registration code))
          then Some (if is_dest k then mo else
                     mkMon (m_prev mo) (m_keep mo) (m_dead mo) (m_closed mo) (m_ctr mo) (m_vals mo)
                           (filter (fun q => negb (reg_is k id q)) (m_regs mo)))
          else None
      end
  end.

Definition mon_step (c : cfg) (mo : mon) (o : op) (ob : obs) : option mon :=
  match o, ob with
  | Cycle now hb ctrs ev, OCycle r log act cl vs => mon_cycle c mo now hb ctrs ev r log act cl vs
  | Add k now, OApi r => mon_add mo k now r
  | Find k id now, OApi r => mon_find c mo k id now r
  | _, _ => None           (* wrong shape, or a panic *)
  end.

Fixpoint mon_run (c : cfg) (mo : mon) (ops : list op) (os : list obs) : bool :=
  match ops, os with
  | [], [] => true
  | o :: ops', ob :: os' => match mon_step c mo o ob with Some mo' => mon_run c mo' ops' os' | None => false end
  | _, _ => false
  end.

(* the domain of the property: all times, heartbeats and timeouts below 2^62 (no u64 overflow) *)
Definition LIM : Z := 4611686018427387904.
Definition in_lim (z : Z) : bool := (0 <=? z) && (z <? LIM).
Definition cfg_ok (c : cfg) : bool := in_lim (c_td c) && in_lim (c_linger c) && in_lim (c_inter_ns c).
Definition op_ok (o : op) : bool :=
  match o with
  | Cycle now hb _ _ => in_lim now && (hb <? LIM)
  | Add _ now => in_lim now
  | Find _ _ now => in_lim now
  end.
Definition dom_ok (c : cfg) (t0 : Z) (ops : list op) : bool := cfg_ok c && in_lim t0 && forallb op_ok ops.

(* the property on one history; histories outside the domain are not judged *)
Definition holds_run (c : cfg) (t0 : Z) (ops : list op) (os : list obs) : bool :=
  if dom_ok c t0 ops then mon_run c (mon_init c t0) ops os else true.
