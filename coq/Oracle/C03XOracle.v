(* Decidable form of property C03 for runs with an exclusive publisher, claimants (try_claim + BufferClaim) and a subscriber
   that polls with any flavour (poll, bounded_poll, controlled_poll, bounded_controlled_poll, controlled_peek, block_poll).

   With respect to C03Oracle.holds_C03:
   - a claimant may write the flags, the type and the reserved value of its frame, so a committed frame is well formed when
     length, version, term offset, session, stream and term id are right (the other three fields are the claimant's);
   - a controlled handler can refuse a fragment (Abort) and a peek does not move the position, so a fragment can be handed over
     more than once: what was delivered must be, in order, either the next committed data frame of the stream or a repetition
     of one delivered before - never anything else (nothing uncommitted, torn, half-written, nothing skipped);
   - an ABORTED claim is never delivered, whatever its claimant wrote into it, and the log finally shows it as padding
     (the frames aborted are identified by the positions try_claim returned to the claimants that aborted);
   - the position rule, "no write into a frame after its commit", the vector-clock race detector and "nobody panicked" are as
     in holds_C03. *)
Require Import V.Base.MachineInt.
Require Import V.Generated.GenConsts.
Require Import V.Generated.GenOrdering.
Require Import V.Model.LogBase.
Require Import V.Model.Descriptor.
Require Import V.Model.Sched.
Require Import V.Model.AppenderThreads.
Require Import V.Model.ReaderThreads.
Require Import V.Oracle.C02Oracle.
Require Import V.Oracle.C03Oracle.
Open Scope Z_scope.

Definition wf_header_x (c : cfg) (tid : Z) (ws : words) (o : Z) : bool :=
  (HDR <=? h_len ws o) && (h_ver ws o =? GenConsts.CURRENT_VERSION) &&
  (h_toff ws o =? o) && (h_sess ws o =? c_sess c) && (h_strm ws o =? c_strm c) && (h_tid ws o =? tid).

Fixpoint walk_stream_x (c : cfg) (tails : list Z) (parts : list words) (fuel : nat) (g o : Z)
  : option (list (Z * Z * Z * Z * Z * list Z) * Z) :=
  match fuel with
  | O => None
  | S f =>
      let p := g mod 3 in
      let raw := nth (Z.to_nat p) tails 0 in
      let ws := nth (Z.to_nat p) parts [] in
      if negb (C02Oracle.gen_of c raw =? g) then Some ([], g * TL c + o)
      else if TL c <=? o then walk_stream_x c tails parts f (g + 1) 0
      else
        let len := h_len ws o in
        if len <=? 0 then Some ([], g * TL c + o)
        else if wf_header_x c (term_id_of raw) ws o && (o + align len FA <=? TL c) then
          match walk_stream_x c tails parts f g (o + align len FA) with
          | Some (fr, stop) =>
              Some ((g * TL c + o, o, len, h_type ws o, h_flags ws o, bytes_from ws (o + HDR) (Z.to_nat (len - HDR))) :: fr, stop)
          | None => None
          end
        else None
  end.

(* stream positions of the frames whose claimant aborted: try_claim returned the position at the end of the claim *)
Fixpoint aborted_of (items : list (Z * bool)) (res : list (outcome Z)) : list Z :=
  match res with
  | [] => []
  | Ok pos :: res' =>
      match items with
      | (len, ab) :: items' => (if ab then [pos - align (len + HDR) FA] else []) ++ aborted_of items' res'
      | [] => []
      end
  | _ :: res' => aborted_of items res'          (* a refused attempt: the same item is tried again *)
  end.

Definition frame_pos (f : Z * Z * Z * Z * Z * list Z) : Z := let '(pos, _, _, _, _, _) := f in pos.
Definition frame_type (f : Z * Z * Z * Z * Z * list Z) : Z := let '(_, _, _, ty, _, _) := f in ty.

Definition frag_matches (f : Z * Z * Z * list Z) (w : Z * Z * Z * Z * Z * list Z) : bool :=
  let '(o, n, fl, b) := f in let '(_, o', len, _, fl', b') := w in
  (o =? o') && (n =? len - HDR) && (fl =? fl') && list_eqb b b'.

(* k = number of distinct frames delivered so far (a prefix of `data`) *)
Fixpoint deliv_ok (d : list (Z * Z * Z * list Z)) (data : list (Z * Z * Z * Z * Z * list Z)) (k : nat) : option nat :=
  match d with
  | [] => Some k
  | f :: d' =>
      if match nth_error data k with Some w => frag_matches f w | None => false end then deliv_ok d' data (S k)
      else if existsb (frag_matches f) (firstn k data) then deliv_ok d' data k
      else None
  end.

(* `claims` = per claiming / offering thread: (thread id, [(payload length, aborted?)] in item order) *)
Definition holds_C03x (c : cfg) (readers : list Z) (claims : list (Z * list (Z * bool)))
  (obs : list (Z * accessor * Z * Z * Z * Z * Z * Z) * list (status * list (outcome Z)) * (Z * list Z * list words * Z * Z)
         * list (Z * Z * Z * Z * list Z)) : bool :=
  let '(trt, results, (count, tails, parts, limit, subpos), frags) := obs in
  let tr := map tuple_ev trt in
  match walk_stream_x c tails parts (Z.to_nat (4 * (TL c / FA) + 8)) (c_n0 c) (c_off0 c) with
  | None => false
  | Some (w, stop) =>
      let aborted := flat_map (fun cl => aborted_of (snd cl) (snd (nth (Z.to_nat (fst cl)) results (Done, [])))) claims in
      let is_aborted f := existsb (fun a => a =? frame_pos f) aborted in
      let data := filter (fun f => is_data f && negb (is_aborted f)) w in
      (* nobody panicked *)
      forallb (fun r => negb (status_eqb (fst r) Panicked)) results &&
      (* an aborted claim that became visible is padding *)
      forallb (fun f => negb (is_aborted f) || (frame_type f =? T_PAD)) w &&
      (* delivered = the committed data frames in stream order, repetitions allowed, nothing else; everything before the
         subscriber position was delivered *)
      forallb (fun t => match deliv_ok (frags_of t frags) data O with
                        | Some k => Nat.leb (length (filter (fun f => frame_pos f <? subpos) data)) k
                        | None => false
                        end) readers &&
      (* the position is on a frame boundary at or before the first frame that is not committed *)
      (subpos <=? stop) &&
      ((subpos =? stop) || existsb (fun f => frame_pos f =? subpos) w) &&
      commits_final tr &&
      race_free cls term_region (map narrow tr)
  end.
