(* How a C20 harness case is turned into model objects and run: a subscription over image slots (each on its
   own log), Subscription::poll with a FragmentAssembler, controlled_poll, block_poll, add / remove image.
   Definitions only. *)
Require Import V.Base.MachineInt.
Require Import V.Generated.GenConsts.
Require Import V.Model.LogBase.
Require Import V.Model.Descriptor.
Require Import V.Model.Reader.
Require Import V.Model.Image.
Require Import V.Model.Subscription.
Require Import V.Model.Assembler.
Require Import V.Model.BufferBuilder.
Require Import V.Model.AssemblerBB.
Require Import V.Oracle.C05Cases.
Open Scope Z_scope.

(* an image slot: (slot id, bits, initial term id, session id, its one segment, the image) *)
Definition slot := (Z * Z * Z * Z * seg * image)%type.
(* as the case describes it: (bits, init, session, pos0, segment spec) *)
Definition sslot := (Z * Z * Z * Z * sseg)%type.

Definition slot_id (sl : slot) : Z := let '(id, _, _, _, _, _) := sl in id.
Definition slot_session (sl : slot) : Z := let '(_, _, _, se, _, _) := sl in se.
Definition slot_image (sl : slot) : image := let '(_, _, _, _, _, im) := sl in im.
Definition slot_log (sl : slot) : log := let '(_, bits, init, se, sg, _) := sl in mk_log bits init se [sg].
Definition slot_with (sl : slot) (im : image) : slot := let '(id, bits, init, se, sg, _) := sl in (id, bits, init, se, sg, im).
Definition slot_grow (sl : slot) (j : Z) : slot :=
  let '(id, bits, init, se, sg, im) := sl in
  (id, bits, init, se, match grow_seg [sg] 0 j with g :: _ => g | [] => sg end, im).

(* the publisher continues in the next term: once the image has consumed its term to the end (position = start of term
   n + 1) the slot's segment is replaced by a segment of term n + 1 starting at offset 0 (the image cannot tell whether
   those frames were written before or after it left term n - it never reads ahead of its position); otherwise nothing happens *)
Definition slot_roll (sl : slot) (vis : Z) (claim : bool) (ss : list fspec) : slot :=
  let '(id, bits, init, se, sg, im) := sl in
  if im_pos im =? (seg_n sg + 1) * 2 ^ bits
  then (id, bits, init, se, build_seg init se (seg_n sg + 1, 0, vis, claim, ss), im) else sl.

Fixpoint build_slots (id : Z) (ss : list sslot) : list slot :=
  match ss with
  | [] => []
  | (bits, init, se, pos0, sg) :: r =>
      (id, bits, init, se, build_seg init se sg, mkImage pos0 false pos0 se) :: build_slots (id + 1) r
  end.

(* Subscription::poll hands fragments to the handler: Image::poll per image *)
Definition pk_poll (sl : slot) (lim : Z) : Z * slot * list dlv :=
  match image_poll (slot_log sl) (slot_image sl) lim with
  | Ok (Ok n, ds, _, im') => (n, slot_with sl im', ds)
  | _ => (0, sl, [])
  end.

(* the controlled handler of the harness answers by the frame's term offset: tab[(o / 32 + salt) mod |tab|] *)
Definition answer (salt : Z) (tab : list action) (o : Z) : action :=
  match tab with [] => Continue | _ => nth (Z.to_nat ((o / 32 + salt) mod Z.of_nat (length tab))) tab Continue end.

Definition script_for (salt : Z) (tab : list action) (sl : slot) : list action :=
  match sel (slot_log sl) (im_pos (slot_image sl)) with
  | Ok (fs, off) => map (fun d => answer salt tab (fst d)) (data_of (place off fs))
  | _ => []
  end.

Definition pk_cpoll (salt : Z) (tab : list action) (sl : slot) (lim : Z) : Z * slot * list dlv :=
  match image_controlled_poll (slot_log sl) (slot_image sl) lim (script_for salt tab sl) with
  | Ok (Ok n, ds, _, im') => (n, slot_with sl im', ds)
  | _ => (0, sl, [])
  end.

(* a block: (session of the image, offset, length, term id of the first frame) *)
Definition bk_block (m : mode) (bl : Z) (sl : slot) : Z * slot * list (Z * Z * Z * Z) :=
  match image_block_poll m (slot_log sl) (slot_image sl) bl with
  | Ok (Ok n, ds, _, im') =>
      (n, slot_with sl im', map (fun d => (im_session (slot_image sl), fst d, n, f_term_id (snd d))) ds)
  | _ => (0, sl, [])
  end.

Inductive sop :=
| SPoll (limit : Z)
| SCPoll (limit salt : Z) (tab : list action)
| SBlock (bl : Z)
| SGrow (slot j : Z)
| SAdd (slot : Z)
| SRemove (slot : Z)
| SRoll (slot vis : Z) (claim : bool) (ss : list fspec).

(* observations: raw fragment = (offset, length, flags, Header::position(), session, payload hash) as in C05;
   a block = (offset, length, -1, Ok term id, session, 0); message = (session, length, hash) *)
Definition mobs := (Z * Z * Z)%type.
Definition sobs := (outcome Z * list fobs * list mobs * list Z)%type.

Definition frag_of (d : dlv) : frag := mkFrag (f_session (snd d)) (f_flags (snd d)) (f_body (snd d)).
Definition msg_obs (x : msg) : mobs := (fst x, Z.of_nat (length (snd x)), hash_bytes 7 (snd x)).

(* the fragments a subscription call handed over carry the log they came from only through their frames; the
   observation of Header::position() needs the geometry, so raw observations are computed per slot *)
Definition slot_frag_obs (m : mode) (sl : slot) (d : dlv) : fobs := frag_obs m (slot_log sl) d.

(* state: slots not in the subscription, the subscription, the assembler's builders *)
Definition sstate := (list slot * sub slot * builders)%type.

Fixpoint find_slot (id : Z) (l : list slot) : option slot :=
  match l with [] => None | sl :: r => if slot_id sl =? id then Some sl else find_slot id r end.

Fixpoint map_slot (id : Z) (f : slot -> slot) (l : list slot) : list slot :=
  match l with [] => [] | sl :: r => if slot_id sl =? id then f sl :: r else sl :: map_slot id f r end.

Fixpoint positions (n : nat) (id : Z) (all : list slot) : list Z :=
  match n with
  | O => []
  | S n' => (match find_slot id all with Some sl => im_pos (slot_image sl) | None => 0 end) :: positions n' (id + 1) all
  end.

Definition all_slots (st : sstate) : list slot := let '(absent, s, _) := st in absent ++ s_images s.

(* to print the raw fragments of a call the slot each fragment came from is needed: fragments carry their session id and
   sessions are distinct per slot *)
Fixpoint slot_of_session (se : Z) (l : list slot) : option slot :=
  match l with [] => None | sl :: r => if slot_session sl =? se then Some sl else slot_of_session se r end.

Definition raw_obs (m : mode) (all : list slot) (d : dlv) : fobs :=
  match slot_of_session (f_session (snd d)) all with
  | Some sl => slot_frag_obs m sl d
  | None => (fst d + HDR, f_len (snd d) - HDR, f_flags (snd d), Panic, f_session (snd d), hash_bytes 7 (f_body (snd d)))
  end.

Definition sstep (m : mode) (nslots : nat) (st : sstate) (o : sop) : sobs * sstate :=
  let '(absent, s, bs) := st in
  match o with
  | SPoll limit =>
      let '(total, s', ds, _) := poll_inner pk_poll s limit in
      let '(bs', out) := assemble bs (map frag_of ds) in
      let st' := (absent, s', bs') in
      ((Ok total, map (raw_obs m (all_slots st)) ds, map msg_obs out, positions nslots 0 (all_slots st')), st')
  | SCPoll limit salt tab =>
      let '(total, s', ds, _) := poll_inner (pk_cpoll salt tab) s limit in
      let st' := (absent, s', bs) in
      ((Ok total, map (raw_obs m (all_slots st)) ds, [], positions nslots 0 (all_slots st')), st')
  | SBlock bl =>
      let '(total, imgs', blocks) := block_all (bk_block m bl) (s_images s) in
      let st' := (absent, mkSub imgs' (s_rr s), bs) in
      ((Ok total, map (fun b => let '(se, o, n, tid) := b in (o, n, -1, Ok tid, se, 0)) blocks, [],
        positions nslots 0 (all_slots st')), st')
  | SGrow id j =>
      let st' := (map_slot id (fun sl => slot_grow sl j) absent,
                  mkSub (map_slot id (fun sl => slot_grow sl j) (s_images s)) (s_rr s), bs) in
      ((Ok 0, [], [], positions nslots 0 (all_slots st')), st')
  | SRoll id vis claim ss =>
      let st' := (map_slot id (fun sl => slot_roll sl vis claim ss) absent,
                  mkSub (map_slot id (fun sl => slot_roll sl vis claim ss) (s_images s)) (s_rr s), bs) in
      ((Ok 0, [], [], positions nslots 0 (all_slots st')), st')
  | SAdd id =>
      let st' := match find_slot id absent with
                 | Some sl => if im_closed (slot_image sl) then st
                              else (remove_first (fun x => slot_id x =? id) absent, add_image s sl, bs)
                 | None => st
                 end in
      ((Ok 0, [], [], positions nslots 0 (all_slots st')), st')
  | SRemove id =>
      let st' := match find_slot id (s_images s) with
                 | Some sl => (absent ++ [slot_with sl (image_close (slot_image sl))],
                               remove_image s (fun x => slot_id x =? id), bs)
                 | None => st
                 end in
      ((Ok 0, [], [], positions nslots 0 (all_slots st')), st')
  end.

Fixpoint srun (m : mode) (nslots : nat) (st : sstate) (ops : list sop) : list sobs :=
  match ops with
  | [] => []
  | o :: r => let '(ob, st') := sstep m nslots st o in ob :: srun m nslots st' r
  end.

Fixpoint add_initial (st : sstate) (ids : list Z) : sstate :=
  match ids with
  | [] => st
  | id :: r =>
      let '(absent, s, bs) := st in
      add_initial (match find_slot id absent with
                   | Some sl => (remove_first (fun x => slot_id x =? id) absent, add_image s sl, bs)
                   | None => st
                   end) r
  end.

Definition run_sub_case (m : mode) (slots : list sslot) (initial : list Z) (ops : list sop) : list sobs :=
  let all := build_slots 0 slots in
  srun m (length slots) (add_initial (all, mkSub [] 0, []) initial) ops.

(* ---- the same run with the assembler's real BufferBuilders (Model/AssemblerBB.v): this is what the implementation is
   compared with.  `ibl` is the case's initial buffer length as the harness encodes it: 0 = None (the default length),
   negative = Some(0), else Some(ibl).  An operation in which a builder operation fails (only possible with buffers of more
   than a gigabyte) makes the run `Panic`; Proofs/C20BBProofs.v shows that a run that returns equals `run_sub_case`. *)
Definition ibl_arg (ibl : Z) : Z := if ibl =? 0 then DEFAULT_IBL else if ibl <? 0 then 0 else ibl.

Definition sstate_bb := (list slot * sub slot * bbuilders)%type.

Definition sstep_bb (m : mode) (ibl : Z) (nslots : nat) (st : sstate_bb) (o : sop) : outcome (sobs * sstate_bb) :=
  let '(absent, s, bbs) := st in
  match o with
  | SPoll limit =>
      let '(total, s', ds, _) := poll_inner pk_poll s limit in
      r <- assemble_bb m ibl bbs (map frag_of ds) ;;
      let st' := (absent, s', fst r) in
      Ok ((Ok total, map (raw_obs m (absent ++ s_images s)) ds, map msg_obs (snd r), positions nslots 0 (absent ++ s_images s')), st')
  | _ =>
      let '(ob, st1) := sstep m nslots (absent, s, ideal_of bbs) o in
      let '(absent', s', _) := st1 in Ok (ob, (absent', s', bbs))
  end.

Fixpoint srun_bb (m : mode) (ibl : Z) (nslots : nat) (st : sstate_bb) (ops : list sop) : outcome (list sobs) :=
  match ops with
  | [] => Ok []
  | o :: r =>
      x <- sstep_bb m ibl nslots st o ;;
      rest <- srun_bb m ibl nslots (snd x) r ;;
      Ok (fst x :: rest)
  end.

Definition run_sub_case_bb (m : mode) (ibl : Z) (slots : list sslot) (initial : list Z) (ops : list sop) : outcome (list sobs) :=
  let all := build_slots 0 slots in
  let '(absent, s, _) := add_initial (all, mkSub [] 0, []) initial in
  srun_bb m (ibl_arg ibl) (length slots) (absent, s, []) ops.

(* ---- direct BufferBuilder cases (harness kind `bb`) ----
   operations on one builder: append `len` bytes of payload `k`, reset, set_limit; observation after each:
   (result, limit, capacity, hash of the bytes [HDR, limit)) ; the first entry is the state after `new`.
   `find` cases call find_suitable_capacity(capacity, required) directly (verification hook). *)
Inductive bop := BAppend (k len : Z) | BReset | BSetLimit (limit : Z).

Definition bobs := (outcome Z * Z * Z * Z)%type.

Definition bb_obs (r : outcome Z) (b : bb) : bobs :=
  (r, bb_limit b, bb_cap b, hash_bytes 7 (bb_content b)).

Definition unit_out {A} (x : outcome A) : outcome Z := match x with Ok _ => Ok 0 | Err e => Err e | Panic => Panic | Hang => Hang | Crash => Crash end.

Definition bstep (m : mode) (b : bb) (o : bop) : bobs * bb :=
  match o with
  | BAppend k len =>
      let r := bb_append m b (payload k len) in
      let b' := match r with Ok b' => b' | _ => b end in (bb_obs (unit_out r) b', b')
  | BReset => let b' := bb_reset b in (bb_obs (Ok 0) b', b')
  | BSetLimit l =>
      let r := bb_set_limit b l in
      let b' := match r with Ok b' => b' | _ => b end in (bb_obs (unit_out r) b', b')
  end.

Fixpoint brun (m : mode) (b : bb) (ops : list bop) : list bobs :=
  match ops with
  | [] => []
  | o :: r => let '(ob, b') := bstep m b o in ob :: brun m b' r
  end.

Definition run_bb_case (m : mode) (initial : Z) (ops : list bop) : list bobs :=
  match bb_new m initial with
  | Ok b => bb_obs (Ok 0) b :: brun m b ops
  | _ => [(Panic, 0, 0, 0)]
  end.
