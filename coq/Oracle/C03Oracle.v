(* Decidable form of property C03 on one observation of a scheduled run with a polling subscriber and
   publishers that may have been stopped for ever at any access:

   (a) what the handler was given is a prefix of the committed data frames of the stream, in stream order,
       each with exactly the header fields and payload bytes the log finally holds for that frame
       (so nothing uncommitted, torn or half-written was delivered, and committed frames did not change afterwards);
   (b) the subscriber position is on a frame boundary at or before the first frame that is not committed, and
       every data frame before it was delivered;
   (c) no write touches a frame after the release write of its positive length;
   (d) happens-before race freedom of the frame bytes: any two accesses of different threads to a common byte of a
       term partition, one of them a write and one of them plain, are ordered by
       (program order U release write -> acquire read that reads it U SeqCst read-modify-write order)+,
       the class of every accessor being computed from the K1 ordering table (Generated/GenOrdering.v);
   (e) nobody panicked. *)
Require Import V.Base.MachineInt.
Require Import V.Generated.GenConsts.
Require Import V.Generated.GenOrdering.
Require Import V.Model.LogBase.
Require Import V.Model.Descriptor.
Require Import V.Model.Sched.
Require Import V.Model.AppenderThreads.
Require Import V.Model.ReaderThreads.
Require Import V.Oracle.C02Oracle.
Require Coq.Strings.String.
Open Scope Z_scope.

(* ordering class of every accessor, from the regenerated table *)
Definition cls : accessor -> aclass := class_of ordering_table.

Definition term_region (r : Z) : bool := (0 <=? r) && (r <? 3).

(* The hook reports the header burst of HeaderWriter::write as the whole 32-byte header escaping for writing
   (overlay_struct). The bytes it really writes are the fields the K1 table lists; for the race check the event is
   narrowed to their extent (a burst that assigned frame_length would cover the length word and race with readers). *)
Module BurstFields.
Import Coq.Strings.String.
Definition field_extent (f : string) : Z * Z :=
  if String.eqb f "frame_length"%string then (GenConsts.DFH_FRAME_LENGTH_FIELD_OFFSET, 4)
  else if String.eqb f "version"%string then (GenConsts.DFH_VERSION_FIELD_OFFSET, 1)
  else if String.eqb f "flags"%string then (GenConsts.DFH_FLAGS_FIELD_OFFSET, 1)
  else if String.eqb f "frame_type"%string then (GenConsts.DFH_TYPE_FIELD_OFFSET, 2)
  else if String.eqb f "term_offset"%string then (GenConsts.DFH_TERM_OFFSET_FIELD_OFFSET, 4)
  else if String.eqb f "session_id"%string then (GenConsts.DFH_SESSION_ID_FIELD_OFFSET, 4)
  else if String.eqb f "stream_id"%string then (GenConsts.DFH_STREAM_ID_FIELD_OFFSET, 4)
  else if String.eqb f "term_id"%string then (GenConsts.DFH_TERM_ID_FIELD_OFFSET, 4)
  else if String.eqb f "reserved_value"%string then (GenConsts.DFH_RESERVED_VALUE_FIELD_OFFSET, 8)
  else (0, HDR).
End BurstFields.
Definition field_extent := BurstFields.field_extent.
Definition burst_lo : Z := fold_right (fun f a => Z.min (fst (field_extent f)) a) HDR header_burst_fields.
Definition burst_hi : Z := fold_right (fun f a => Z.max (fst (field_extent f) + snd (field_extent f)) a) 0 header_burst_fields.
Definition narrow (e : event) : event :=
  if accessor_eqb (e_acc e) RegionWrite && term_region (e_reg e) && (e_len e =? HDR) && (burst_lo <? burst_hi)
  then mkEv (e_tid e) (e_acc e) (e_reg e) (e_off e + burst_lo) (burst_hi - burst_lo) (e_val e) (e_val2 e) (e_before e)
  else e.

(* committed frames of the stream from generation g, offset o on: (position, term offset, length word, type, flags, payload)
   and the position of the first frame that is not committed *)
Fixpoint walk_stream (c : cfg) (tails : list Z) (parts : list words) (fuel : nat) (g o : Z)
  : option (list (Z * Z * Z * Z * Z * list Z) * Z) :=
  match fuel with
  | O => None
  | S f =>
      let p := g mod 3 in
      let raw := nth (Z.to_nat p) tails 0 in
      let ws := nth (Z.to_nat p) parts [] in
      if negb (C02Oracle.gen_of c raw =? g) then Some ([], g * TL c + o)            (* the partition does not hold g (any more / yet) *)
      else if TL c <=? o then walk_stream c tails parts f (g + 1) 0
      else
        let len := h_len ws o in
        if len <=? 0 then Some ([], g * TL c + o)
        else if wf_header c (term_id_of raw) ws o && (o + align len FA <=? TL c) then
          match walk_stream c tails parts f g (o + align len FA) with
          | Some (fr, stop) =>
              Some ((g * TL c + o, o, len, h_type ws o, h_flags ws o, bytes_from ws (o + HDR) (Z.to_nat (len - HDR))) :: fr, stop)
          | None => None
          end
        else None                                                                     (* a committed frame that is malformed *)
  end.

Definition is_data (f : Z * Z * Z * Z * Z * list Z) : bool := let '(_, _, _, ty, _, _) := f in negb (ty =? T_PAD).

(* delivered fragments (term offset, payload length, flags, bytes) are a prefix of the data frames *)
Fixpoint is_prefix (d : list (Z * Z * Z * list Z)) (w : list (Z * Z * Z * Z * Z * list Z)) : bool :=
  match d, w with
  | [], _ => true
  | (o, n, fl, b) :: d', (_, o', len, _, fl', b') :: w' =>
      (o =? o') && (n =? len - HDR) && (fl =? fl') && list_eqb b b' && is_prefix d' w'
  | _ :: _, [] => false
  end.

(* (c) no write into a frame after its commit *)
Fixpoint no_write_into (r lo hi : Z) (t : nat) (tr : list event) : bool :=
  match tr with
  | [] => true
  | e :: rest =>
      negb ((e_reg e =? r) && is_write_class (cls (e_acc e)) && (e_off e <? hi) && (lo <? e_off e + e_len e))
      && no_write_into r lo hi t rest
  end.
Fixpoint commits_final (tr : list event) : bool :=
  match tr with
  | [] => true
  | e :: rest =>
      (if accessor_eqb (e_acc e) PutOrdered && term_region (e_reg e) && (0 <? e_val e)
       then no_write_into (e_reg e) (e_off e) (e_off e + align (e_val e) FA) (e_tid e) rest else true)
      && commits_final rest
  end.

Definition frags_of (t : Z) (frags : list (Z * Z * Z * Z * list Z)) : list (Z * Z * Z * list Z) :=
  map (fun f => let '(_, o, n, fl, b) := f in (o, n, fl, b)) (filter (fun f => let '(t', _, _, _, _) := f in t' =? t) frags).

Fixpoint sum_ok (res : list (outcome Z)) : Z :=
  match res with [] => 0 | Ok n :: r => n + sum_ok r | _ :: r => sum_ok r end.

(* `readers` = thread ids of the subscribers (one position counter: at most one of them) *)
Definition holds_C03 (c : cfg) (readers : list Z)
  (obs : list (Z * accessor * Z * Z * Z * Z * Z * Z) * list (status * list (outcome Z)) * (Z * list Z * list words * Z * Z)
         * list (Z * Z * Z * Z * list Z)) : bool :=
  let '(trt, results, (count, tails, parts, limit, subpos), frags) := obs in
  let tr := map tuple_ev trt in
  match walk_stream c tails parts (Z.to_nat (4 * (TL c / FA) + 8)) (c_n0 c) (c_off0 c) with
  | None => false
  | Some (w, stop) =>
      let data := filter is_data w in
      (* (e) *)
      forallb (fun r => negb (status_eqb (fst r) Panicked)) results &&
      (* (a) *)
      forallb (fun t => is_prefix (frags_of t frags) data) readers &&
      (* (b) *)
      (subpos <=? stop) &&
      ((subpos =? stop) || existsb (fun f => let '(pos, _, _, _, _, _) := f in pos =? subpos) w) &&
      forallb (fun t =>
                 (Z.of_nat (length (filter (fun f => let '(pos, _, _, _, _, _) := f in pos <? subpos) data)) <=? Z.of_nat (length (frags_of t frags))) &&
                 (* a finished poll accounts for its fragments *)
                 (let r := nth (Z.to_nat t) results (Done, []) in
                  (sum_ok (snd r) <=? Z.of_nat (length (frags_of t frags))))) readers &&
      (* (c) *)
      commits_final tr &&
      (* (d) *)
      race_free cls term_region (map narrow tr)
  end.

(* the first race, for replay files *)
Definition first_race (trt : list (Z * accessor * Z * Z * Z * Z * Z * Z)) :=
  match races cls term_region (map narrow (map tuple_ev trt)) with
  | [] => None
  | (a, b) :: _ => Some (ev_tuple a, ev_tuple b)
  end.
