(* Decidable form of property C12 (image life-cycle, life-time of log-buffer mappings) as a monitor over a
   history of operations and what the implementation showed after each of them.

   The monitor knows nothing of object identities, lingering lists, registry time stamps or the
   resource-check timer.  It tracks what the property talks about: which subscriptions the application
   holds and whether they are still registered, which images have been announced and not yet withdrawn
   for each, which image clones and publications the application holds, and for every log (key) since
   when no handle to it exists.  From that it states
     - which image callbacks an operation must produce (exactly those, with the closed flag),
     - what Subscription::images() must show afterwards (closed images are in no list),
     - that a log file is mapped while a handle to it exists and for at least the linger period after
       the last handle went away, and that nothing is mapped that was never handed out.
   The closed flag read through a clone the application keeps is covered by the correspondence check and by
   theorem C12_unavailable (closed identities = notified identities), not by this monitor.
   When a mapping is finally released ("unmapped afterwards") is not stated here: it is theorem
   C12_linger_release on the model plus the model/implementation correspondence of the `maps` observation.

   Domain: non-decreasing clock below 2^62, a correlation id is not announced again for a subscription that
   still has it, a key always comes with the same log file.  Outside the domain the history is not judged. *)
Require Import V.Base.MachineInt V.Generated.GenConsts V.Model.CondTimers V.Model.ImageLife.
Open Scope Z_scope.

Record msub := mkMsub { ms_reg : Z; ms_live : bool; ms_imgs : list Z }.
Record mkey := mkMkey { mk_key : Z; mk_file : Z; mk_gone : option Z }.
Record mon := mkMon {
  mo_now : Z;                    (* last clock reading *)
  mo_closed : bool;              (* client closed *)
  mo_subs : list msub;           (* subscription handles held, in creation order *)
  mo_pubs : list (Z * Z);        (* publication handles held: (registration id, key) *)
  mo_clones : list Z;            (* correlation ids of the image clones the application keeps *)
  mo_keys : list mkey            (* logs handed out so far *)
}.
Definition mon_init (t0 : Z) : mon := mkMon t0 false [] [] [] [].

Definition LIM : Z := 4611686018427387904.
Definition in_lim (z : Z) : bool := (0 <=? z) && (z <? LIM).

Definition zmem (x : Z) (l : list Z) : bool := existsb (Z.eqb x) l.
Fixpoint remove1 (x : Z) (l : list Z) : list Z :=
  match l with [] => [] | y :: r => if y =? x then r else y :: remove1 x r end.

(* handles to the log with key k: announced images, kept clones (closed or not), publications *)
Definition has_handle (mo : mon) (k : Z) : bool :=
  existsb (fun s => zmem k (ms_imgs s)) (mo_subs mo)
  || zmem k (mo_clones mo)
  || existsb (fun p => snd p =? k) (mo_pubs mo).

Definition find_msub (reg : Z) (l : list msub) : option msub := find (fun s => ms_reg s =? reg) l.
Definition set_msub (s' : msub) (l : list msub) : list msub := map (fun s => if ms_reg s =? ms_reg s' then s' else s) l.

(* key -> file binding; None when the key is already bound to another file (outside the domain) *)
Definition bind_key (k file : Z) (l : list mkey) : option (list mkey) :=
  match find (fun e => mk_key e =? k) l with
  | Some e => if mk_file e =? file then Some l else None
  | None => Some (l ++ [mkMkey k file None])
  end.

(* after an operation at clock `now`: a key with a handle is not gone; one that just lost its last handle is gone since now *)
Definition refresh_keys (mo : mon) (now : Z) : list mkey :=
  map (fun e => if has_handle mo (mk_key e) then mkMkey (mk_key e) (mk_file e) None
                else match mk_gone e with
                     | None => mkMkey (mk_key e) (mk_file e) (Some now)
                     | Some _ => e
                     end) (mo_keys mo).

Definition cbs_eqb (a b : list (Z * Z * Z * Z)) : bool :=
  (length a =? length b)%nat &&
  forallb (fun p => let '((k1, r1, c1, f1), (k2, r2, c2, f2)) := p in (k1 =? k2) && (r1 =? r2) && (c1 =? c2) && (f1 =? f2))
          (combine a b).
Fixpoint zlist_eqb (a b : list Z) : bool :=
  match a, b with [] , [] => true | x :: a', y :: b' => (x =? y) && zlist_eqb a' b' | _, _ => false end.
Fixpoint views_eqb (a b : list (Z * list (Z * Z))) : bool :=
  match a, b with
  | [], [] => true
  | (r1, l1) :: a', (r2, l2) :: b' =>
      (r1 =? r2) && zlist_eqb (map fst l1) (map fst l2) && zlist_eqb (map snd l1) (map snd l2) && views_eqb a' b'
  | _, _ => false
  end.

(* what images() of every held subscription must show: the announced, not yet withdrawn images, none of them closed *)
Definition expect_views (mo : mon) : list (Z * list (Z * Z)) :=
  map (fun s => (ms_reg s, map (fun c => (c, 0)) (ms_imgs s))) (mo_subs mo).

(* mapping: mapped while a handle exists and for at least `linger` after the last one went; nothing else is ever mapped *)
Definition maps_ok (lg now : Z) (mo : mon) (maps : list Z) : bool :=
  forallb (fun e => match mk_gone e with
                    | None => zmem (mk_file e) maps
                    | Some t => if now <=? t + lg then zmem (mk_file e) maps else true
                    end) (mo_keys mo)
  && forallb (fun f => existsb (fun e => mk_file e =? f) (mo_keys mo)) maps.

Inductive verdict := Bad | Outside | Next (mo : mon).

Definition unavail_of (reg : Z) (corrs : list Z) : list (Z * Z * Z * Z) := map (fun c => (CB_UNAVAIL, reg, c, 1)) corrs.

(* close of the whole client: every still registered subscription loses all its images *)
Definition close_cbs (l : list msub) : list (Z * Z * Z * Z) :=
  flat_map (fun s => if ms_live s then unavail_of (ms_reg s) (ms_imgs s) else []) l.
Definition close_msub (s : msub) : msub := if ms_live s then mkMsub (ms_reg s) false [] else s.

(* the judgement of one operation: expected callbacks, then the monitor after the operation (before key refresh) *)
Definition expect (mo : mon) (o : op) (r : outcome Z) : option (list (Z * Z * Z * Z) * mon) :=
  let keep := Some ([], mo) in
  match o with
  | Subscribe now =>
      if mo_closed mo then (match r with Err Closed => keep | _ => None end)
      else match r with
           | Ok id => if existsb (fun s => ms_reg s =? id) (mo_subs mo) then None
                      else Some ([], mkMon (mo_now mo) (mo_closed mo) (mo_subs mo ++ [mkMsub id true []]) (mo_pubs mo) (mo_clones mo) (mo_keys mo))
           | Err IllegalState => keep      (* the command was refused (to-driver ring full): nothing is registered *)
           | _ => None
           end
  | Publish now share file =>
      if mo_closed mo then (match r with Err Closed => keep | _ => None end)
      else match r with
           | Ok id => let key := if share <? 0 then id else share in
                      match bind_key key file (mo_keys mo) with
                      | Some ks => Some ([], mkMon (mo_now mo) (mo_closed mo) (mo_subs mo) (mo_pubs mo ++ [(id, key)]) (mo_clones mo) ks)
                      | None => Some ([], mo)      (* outside: detected by the caller through bind_key again *)
                      end
           | Err IllegalState => keep      (* refused command: nothing is registered *)
           | _ => None
           end
  | Avail now corr reg file =>
      match find_msub reg (mo_subs mo) with
      | Some s => if ms_live s then
                    match bind_key corr file (mo_keys mo) with
                    | Some ks => Some ([(CB_AVAIL, reg, corr, 0)],
                                       mkMon (mo_now mo) (mo_closed mo) (set_msub (mkMsub reg true (ms_imgs s ++ [corr])) (mo_subs mo))
                                             (mo_pubs mo) (mo_clones mo) ks)
                    | None => keep
                    end
                  else keep
      | None => keep
      end
  | Unavail now corr reg =>
      match find_msub reg (mo_subs mo) with
      | Some s => if ms_live s && zmem corr (ms_imgs s) then
                    Some ([(CB_UNAVAIL, reg, corr, 1)],
                          mkMon (mo_now mo) (mo_closed mo) (set_msub (mkMsub reg true (remove1 corr (ms_imgs s))) (mo_subs mo))
                                (mo_pubs mo) (mo_clones mo) (mo_keys mo))
                  else keep
      | None => keep
      end
  | Tick now => keep
  | DropSub now reg =>
      match find_msub reg (mo_subs mo) with
      | Some s => let rest := filter (fun x => negb (ms_reg x =? reg)) (mo_subs mo) in
                  if ms_live s then
                    Some (unavail_of reg (ms_imgs s),
                          mkMon (mo_now mo) (mo_closed mo) rest (mo_pubs mo) (mo_clones mo) (mo_keys mo))
                  else Some ([], mkMon (mo_now mo) (mo_closed mo) rest (mo_pubs mo) (mo_clones mo) (mo_keys mo))
      | None => keep
      end
  | DropPub now reg =>
      Some ([], mkMon (mo_now mo) (mo_closed mo) (mo_subs mo) (filter (fun p => negb (fst p =? reg)) (mo_pubs mo)) (mo_clones mo) (mo_keys mo))
  | Hold reg idx =>
      match find_msub reg (mo_subs mo) with
      | Some s => match (if idx <? 0 then None else nth_error (ms_imgs s) (Z.to_nat idx)) with
                  | Some c => Some ([], mkMon (mo_now mo) (mo_closed mo) (mo_subs mo) (mo_pubs mo)
                                              (mo_clones mo ++ [c]) (mo_keys mo))
                  | None => keep
                  end
      | None => keep
      end
  | Unhold j =>
      Some ([], if j <? 0 then mo else
                mkMon (mo_now mo) (mo_closed mo) (mo_subs mo) (mo_pubs mo) (remove_nth (Z.to_nat j) (mo_clones mo)) (mo_keys mo))
  | CloseClient now =>
      if mo_closed mo then keep else
      Some (close_cbs (mo_subs mo), mkMon (mo_now mo) true (map close_msub (mo_subs mo)) (mo_pubs mo) (mo_clones mo) (mo_keys mo))
  | Stall | Drain => keep        (* a full to-driver ring changes nothing the property talks about: in particular a subscription
                                    dropped while the ring is full still has every image reported unavailable exactly once *)
  | ChanErr now =>
      (* a channel endpoint error on the subscriptions' channel: every still registered subscription loses all its images (each
         reported unavailable, closed) and is forgotten - later announcements for it are ignored; the client stays open *)
      Some (close_cbs (mo_subs mo), mkMon (mo_now mo) (mo_closed mo) (map close_msub (mo_subs mo)) (mo_pubs mo) (mo_clones mo) (mo_keys mo))
  end.

Definition op_now (mo : mon) (o : op) : Z :=
  match o with
  | Subscribe now | Publish now _ _ | Avail now _ _ _ | Unavail now _ _ | Tick now
  | DropSub now _ | DropPub now _ | CloseClient now | ChanErr now => now
  | Hold _ _ | Unhold _ | Stall | Drain => mo_now mo
  end.

(* the operation respects the domain in the monitor's current state *)
Definition file_ok (o : op) : bool :=
  match o with Avail _ _ _ f | Publish _ _ f => zmem f FILES | _ => true end.

Definition op_in_domain (mo : mon) (o : op) (r : outcome Z) : bool :=
  let now := op_now mo o in
  in_lim now && (mo_now mo <=? now) && file_ok o &&
  match o with
  | Avail _ corr reg file =>
      match find_msub reg (mo_subs mo) with
      | Some s => if ms_live s then negb (zmem corr (ms_imgs s)) && (match bind_key corr file (mo_keys mo) with Some _ => true | None => false end)
                  else true
      | None => true
      end
  | Publish _ share file =>
      if mo_closed mo then true else
      match r with
      | Ok id => match bind_key (if share <? 0 then id else share) file (mo_keys mo) with Some _ => true | None => false end
      | _ => true
      end
  | _ => true
  end.

(* the clones of images the application has kept: each is open (0) or closed and silent (1). The harness polls every closed
   clone with every poll flavour (poll, bounded_poll, controlled_poll, bounded_controlled_poll, controlled_peek, block_poll)
   while an unread frame sits in its log; a withdrawn image "is no longer polled": a poll that still delivers a fragment or
   a block, or moves the subscriber position, shows as a value of 2 or more. *)
Definition clones_ok (held : list Z) : bool := forallb (fun v => (v =? 0) || (v =? 1)) held.

Definition mon_step (lg : Z) (mo : mon) (o : op) (ob : obs) : verdict :=
  match ob with
  | OPanic => if in_lim (op_now mo o) && (mo_now mo <=? op_now mo o) then Bad else Outside
  | OStep r cbs views maps held =>
      if negb (op_in_domain mo o r) then Outside else
      match expect mo o r with
      | None => Bad
      | Some (ecbs, mo1) =>
          let now := op_now mo o in
          let mo2 := mkMon now (mo_closed mo1) (mo_subs mo1) (mo_pubs mo1) (mo_clones mo1) (mo_keys mo1) in
          let mo3 := mkMon now (mo_closed mo2) (mo_subs mo2) (mo_pubs mo2) (mo_clones mo2) (refresh_keys mo2 now) in
          if cbs_eqb cbs ecbs && views_eqb views (expect_views mo3) && maps_ok lg now mo3 maps && clones_ok held
          then Next mo3 else Bad
      end
  end.

Fixpoint mon_run (lg : Z) (mo : mon) (ops : list op) (os : list obs) : bool :=
  match ops, os with
  | [], [] => true
  | o :: ops', ob :: os' =>
      match mon_step lg mo o ob with
      | Next mo' => mon_run lg mo' ops' os'
      | Outside => true
      | Bad => false
      end
  | _, _ => false
  end.

Definition holds_run (lg t0 : Z) (ops : list op) (os : list obs) : bool :=
  if in_lim lg && in_lim t0 then mon_run lg (mon_init t0) ops os else true.
