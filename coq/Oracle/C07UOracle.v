(* Decidable form of property C07 for runs in which unblock() itself is interleaved with surviving
   producers (case kind `uconc`): the consumer-side agent (thread 0) runs reads and unblock() calls under
   the scheduler, producers are stopped for ever at crash points, survivors are inside write while
   unblock scans and between its scan and its store.

   What is judged, from the trace of shared accesses alone (never by running the model):

   (1) in every interleaving: a padding header stored by the agent (the only 8-byte ordered store thread 0
       makes into the data area) is justified by what that unblock() call itself read (`confirm_ok`): either
       its first look at the consumer index found a negative length and the padding has that length, or it
       found zero there, later found a non-zero length word at consumer index + L, and after that re-read
       every length word from consumer index + L - 8 down to the consumer index as zero
       (scan_back_to_confirm_still_zeroed) with nothing else in between;

   (2) whenever every length word the call read as zero or negative belonged to a claim whose owner had
       already reached its crash point (the algorithm assumes producers blocked for longer than the timeout
       are dead; a live producer's uncommitted claim in the scanned range puts the case outside the property,
       `u_scope = false`), the store must
         - happen on a non-empty ring, at the consumer index, over a length word that is not positive;
         - be a padding record of positive length that lies inside the data area, does not pass the producer
           position and ends at the producer position, at the end of the data area or at a claim boundary;
         - cover only claims that were not committed at that moment ("never hides a committed command");
       the swept claims leave the set of commands that must be delivered, and the rest of the run is judged
       as in `holds_crash`: what is delivered (by the agent's reads and by the epilogue) is a prefix, in
       position order, of what was committed and not swept; all of it once the ring has drained; the
       epilogue's unblock() calls satisfy `unblock_ok`, reads after a successful unblock make progress,
       later writes are accepted honestly. *)
Require Import V.Base.MachineInt.
Require Import V.Generated.GenConsts.
Require Import V.Model.LogBase.
Require Import V.Model.Ring.
Require Import V.Model.RingThreads.
Require Import V.Model.RingAgent.
Require Import V.Spec.Fifo.
Require Import V.Oracle.C06Oracle.
Require Import V.Oracle.C07Oracle.
Open Scope Z_scope.

(* the claims (from the trace so far, newest first) that share a byte with positions [h, e) *)
Definition covered (cl : list claim) (h e : Z) : list claim :=
  filter (fun c => (k_from c <? e) && (h <? k_to c)) cl.

(* the agent stores make_header(L, Padding) at byte offset off; h, t = consumer / producer position now *)
Definition pad_store_ok (cp h t : Z) (cl : list claim) (off v before : Z) : bool :=
  let L := lo32 v in
  let E := h + align L 8 in
  (hi32 v =? PAD) && (0 <? L) && (off =? h mod cp) && negb (h =? t) && (lo32 before <=? 0)
  && (off + align L 8 <=? cp) && (E <=? t)
  && ((E =? t) || (E mod cp =? 0) || existsb (fun c => (k_from c =? E) || (k_to c =? E)) cl)
  && forallb (fun c => negb (k_done c)) (covered cl h E).

(* n entries (o, 0), (o + d, 0), .. at the front of l; the rest *)
Fixpoint zero_run (l : list (Z * Z)) (o d : Z) (n : nat) : option (list (Z * Z)) :=
  match n with
  | O => Some l
  | S k => match l with
           | (o', v) :: r => if (o' =? o) && (v =? 0) then zero_run r (o + d) d k else None
           | [] => None
           end
  end.

(* reads = the (offset, value) pairs of the 4-byte reads of this unblock() call, newest first *)
Definition confirm_ok (reads : list (Z * Z)) (ci L : Z) : bool :=
  match rev reads with
  | (o0, v0) :: _ =>
      (o0 =? ci) &&
      (if v0 <? 0 then (L =? wrap32 (- v0)) && (length reads =? 1)%nat
       else if v0 =? 0 then
         (0 <? L) && (L mod 8 =? 0) &&
         let n := Z.to_nat (L / 8) in
         match zero_run reads ci 8 n with
         | Some ((oh, vh) :: r2) =>
             (oh =? ci + L) && negb (vh =? 0) &&
             match zero_run r2 (ci + L - 8) (-8) n with Some [] => true | _ => false end
         | _ => false
         end
       else false)
  | [] => false
  end.

(* u_scope: no padding was stored by a call that is outside the property; u_call: the call in progress is inside it so far *)
Record ust := mkUst { u_h : Z; u_t : Z; u_cl : list claim; u_swept : list Z; u_scope : bool; u_pads : Z; u_reads : list (Z * Z); u_call : bool }.

Definition set_cl (s : ust) (h t : Z) (cl : list claim) : ust := mkUst h t cl (u_swept s) (u_scope s) (u_pads s) (u_reads s) (u_call s).

(* the claim that contains position p, when it is not committed and its owner is alive *)
Definition live_uncommitted (cl : list claim) (counts stops : list Z) (p : Z) : bool :=
  existsb (fun c => (k_from c <=? p) && (p <? k_to c) && negb (k_done c) && negb (stopped counts stops (Z.to_nat (k_tid c)))) cl.

(* follows the trace: positions, claims (as claims_rev of C06Oracle), the agent's reads and padding stores; None = violated *)
Fixpoint walk_trace (cp : Z) (stops : list Z) (tr : list event) (counts : list Z) (s : ust) : option ust :=
  match tr with
  | [] => Some s
  | (tid, k, off, len, v, v2, before) :: r =>
      let counts' := bump counts (Z.to_nat tid) in
      let cl := u_cl s in
      if akind_eqb k CompareAndSetI64 && (off =? cp + TAIL_OFF) then
        (if before =? v
         then walk_trace cp stops r counts' (set_cl s (u_h s) v2 (mkClaim tid v v2 0 0 false :: cl))
         else walk_trace cp stops r counts' s)
      else if akind_eqb k PutOrdered && (off =? cp + HEAD_OFF) then
        walk_trace cp stops r counts' (set_cl s v (u_t s) cl)
      else if akind_eqb k GetVolatile && (tid =? 0) && (off =? cp + HEAD_OFF) then
        (* a call of the agent starts *)
        walk_trace cp stops r counts' (mkUst (u_h s) (u_t s) cl (u_swept s) (u_scope s) (u_pads s) [] true)
      else if akind_eqb k GetVolatile && (tid =? 0) && (len =? 4) then
        (* unblock() looks at a length word; `before` is the value it gets *)
        let p := u_h s + (off - u_h s mod cp) in
        let out := (off <? cp) && (before <=? 0) && live_uncommitted cl counts stops p in
        walk_trace cp stops r counts' (mkUst (u_h s) (u_t s) cl (u_swept s) (u_scope s) (u_pads s) ((off, before) :: u_reads s) (u_call s && negb out))
      else if akind_eqb k PutOrdered && (off <? cp) && (len =? 8) then
        (if tid =? 0 then
           let hit := covered cl (u_h s) (u_h s + align (lo32 v) 8) in
           if negb (confirm_ok (u_reads s) (u_h s mod cp) (lo32 v)) then None
           else if negb (u_scope s && u_call s) then walk_trace cp stops r counts' (mkUst (u_h s) (u_t s) cl (u_swept s) false (u_pads s + 1) [] true)
           else if pad_store_ok cp (u_h s) (u_t s) cl off v before
           then walk_trace cp stops r counts' (mkUst (u_h s) (u_t s) cl (map k_from hit ++ u_swept s) true (u_pads s + 1) [] true)
           else None
         else if hi32 v =? PAD then walk_trace cp stops r counts' s
         else walk_trace cp stops r counts'
                (set_cl s (u_h s) (u_t s) (upd_latest cl tid (fun c => mkClaim (k_tid c) (k_from c) (k_to c) (hi32 v) (- lo32 v) false))))
      else if akind_eqb k PutOrdered && (off <? cp) && (len =? 4) then
        walk_trace cp stops r counts'
          (set_cl s (u_h s) (u_t s) (upd_latest cl tid (fun c => mkClaim (k_tid c) (k_from c) (k_to c) (k_type c) (k_len c) (v =? k_len c))))
      else walk_trace cp stops r counts' s
  end.

Definition agent_delivered (t : atres) : option (list (Z * Z * list Z)) :=
  match t with
  | ATAgent l => Some (flat_map (fun x => match x with RRd _ msgs => msgs | RUn _ => [] end) l)
  | _ => None
  end.

(* the agent's calls returned what the trace shows: as many successful unblock() as padding stores *)
Definition unblock_count (t : atres) : Z :=
  match t with
  | ATAgent l => Z.of_nat (length (filter (fun x => match x with RUn 1 => true | _ => false end) l))
  | _ => -1
  end.
Definition unblock_bits_ok (t : atres) : bool :=
  match t with
  | ATAgent l => forallb (fun x => match x with RUn b => (b =? 0) || (b =? 1) | RRd n msgs => n =? Z.of_nat (length msgs) end) l
  | _ => false
  end.
(* the agent's last call was a successful unblock: the next read must make progress *)
Definition ends_unblocked (t : atres) : bool :=
  match t with
  | ATAgent l => match rev l with RUn 1 :: _ => true | _ => false end
  | _ => false
  end.

Definition final_ht (h t : Z) (outs : list out) : Z * Z :=
  fold_left (fun ht x => match x with OW _ h t | OR _ _ h t | OU _ h t => (h, t) | _ => ht end) outs (h, t).

(* (verdict, in scope?) *)
Definition judge_uconc (cp p0 : Z) (pre : list op) (progs : list (list wreq)) (stops : list Z) (post : list op)
  (obs : list out * list event * list atres * list out) : bool * bool :=
  let '(o1, tr, res, o3) := obs in
  let '(h1, t1) := last_ht p0 o1 in
  match res with
  | agent_r :: _ =>
      match agent_delivered agent_r, check_to cp (mkOst [] p0 p0 []) pre o1,
            walk_trace cp stops tr (repeat 0 (length res)) (mkUst h1 t1 [] [] true 0 [] true) with
      | Some d0, Some s1, Some s2 =>
          if negb (u_scope s2) then (true, false)
          else
            let cl := rev (u_cl s2) in
            let kept := filter (fun c => negb (mem_z (k_from c) (u_swept s2))) cl in
            match committed_cmds progs kept,
                  walk_post cp (map k_from cl ++ map k_to cl) post o3 (u_h s2) (u_t s2) None (ends_unblocked agent_r) with
            | Some cm0, Some cm3 =>
                let cm := map cmsg (o_q s1) ++ cm0 ++ cm3 in
                let delivered := d0 ++ delivered_in o3 in
                let '(h3, t3) := final_ht (u_h s2) (u_t s2) o3 in
                (positions_ok cp tr h1 t1 && unblock_bits_ok agent_r && (unblock_count agent_r =? u_pads s2) &&
                 is_prefix delivered cm &&
                 (if h3 =? t3 then (length delivered =? length cm)%nat else true), true)
            | _, _ => (false, true)
            end
      | _, _, _ => (false, true)
      end
  | [] => (false, true)
  end.

Definition holds_uconc (cp p0 : Z) (pre : list op) (progs : list (list wreq)) (stops : list Z) (post : list op)
  (obs : list out * list event * list atres * list out) : bool :=
  fst (judge_uconc cp p0 pre progs stops post obs).

(* classification of a case for the evidence: 0 = a live producer's claim was swept (outside the property),
   1 = judged, no padding store in the scheduled phase, 2 = judged, at least one padding store *)
Definition class_uconc (cp p0 : Z) (pre : list op) (stops : list Z) (obs : list out * list event * list atres * list out) : Z :=
  let '(o1, tr, res, o3) := obs in
  let '(h1, t1) := last_ht p0 o1 in
  match walk_trace cp stops tr (repeat 0 (length res)) (mkUst h1 t1 [] [] true 0 [] true) with
  | Some s2 => if negb (u_scope s2) then 0 else if 0 <? u_pads s2 then 2 else 1
  | None => -1
  end.
