(* Decidable statements of property C10 for the code around the conductor (connect loop, CnC file descriptor,
   AgentInvoker, AgentRunner), evaluated on the observations of the implementation.  Each predicate speaks about
   the case and the observation only; none of them runs the model. *)
From Coq Require Import ZArith List Bool Lia.
Require Import V.Base.MachineInt V.Generated.GenConsts V.Model.Connect V.Model.CncLayout V.Model.Agent.
Import ListNotations.
Open Scope Z_scope.

(* ------------------------------------------------------------------------------------------------------- *)
(* connect with a scripted environment: observation (kind, clock calls made) *)

Definition clk (c0 : Z) (sc : list (snap * Z)) (k : nat) : Z := e_clock (env_of_script c0 sc) k.
Definition snp (c0 : Z) (sc : list (snap * Z)) (k : nat) : snap := e_snap (env_of_script c0 sc) k 0%nat.

(* a CnC file a driver could have left: absent, still empty, or complete (long enough for the to-driver ring its
   meta data announces, whose capacity is a power of two) *)
Definition file_wf (lo : Z) (s : snap) : bool :=
  match s_file s with
  | FMissing => true
  | FSize n => (n =? 0) || ((lo <=? n) && (n <? two31))
  end
  && in_i32 (s_tdlen s) && is_pow2 (s_tdlen s - RB_TRAILER_LENGTH) && (META + s_tdlen s <=? lo) && (META_FIELDS <=? lo).

(* the arithmetic of the source is exact: no u64 overflow in start + timeout, no underflow in time - timeout *)
Definition arith_wf (T c0 : Z) (clocks : list Z) : bool :=
  (0 <=? T) && (T <=? c0) && (c0 + T <? two64) && forallb (fun c => (T <=? c) && (c <? two64)) clocks.

(* the shortest non-empty generation of the file in the script *)
Definition min_size (sc : list (snap * Z)) : Z :=
  fold_right (fun p acc => match s_file (fst p) with FSize n => if 0 <? n then Z.min n acc else acc | _ => acc end) two31 sc.

Definition script_wf (T c0 : Z) (sc : list (snap * Z)) : bool :=
  let clocks := map snd sc in
  arith_wf T c0 clocks
  && (c0 + T <? last clocks c0)                                            (* the clock ends past the deadline *)
  && forallb (fun p => file_wf (min_size sc) (fst p)) sc.

Definition stale (h t T : Z) : bool := wrapu64 h <? t - T.

(* number of leading clock answers after which every answer is past the deadline; for a clock that does not run
   backwards this is the index of the first answer past the deadline *)
Fixpoint settle (dl : Z) (clocks : list Z) : nat :=
  match clocks with
  | [] => 0
  | c :: r => let n := settle dl r in if (n =? 0)%nat && (c >? dl) then 0%nat else S n
  end.

Definition snap_alive (T : Z) (clocks : list Z) (s : snap) : bool :=
  match s_file s with FSize n => negb (n =? 0) | _ => false end
  && negb (s_ver s =? 0) && version_ok (s_ver s) && negb (s_hb s =? 0)
  && forallb (fun t => negb (stale (s_hb s) t T)) clocks.
Definition snap_dead (T : Z) (clocks : list Z) (s : snap) : bool :=
  match s_file s with FSize n => negb (n =? 0) | _ => false end
  && negb (s_ver s =? 0) && version_ok (s_ver s)
  && forallb (fun t => stale (s_hb s) t T) clocks.

Definition kind_eqb (a b : ckind) : bool :=
  match a, b with
  | KOk, KOk | KPanic, KPanic | KUndef, KUndef | KHang, KHang => true
  | KErr x, KErr y => match x, y with
                      | EMapFile, EMapFile | ENotCreated, ENotCreated | ENotInitialised, ENotInitialised
                      | EVersion, EVersion | ENoHeartbeat, ENoHeartbeat => true
                      | _, _ => false end
  | _, _ => false
  end.

Definition holds_conn (T c0 : Z) (sc : list (snap * Z)) (o : ckind * Z) : bool :=
  if negb (script_wf T c0 sc) then true else
  let '(kd, kz) := o in
  let K := Z.to_nat kz in
  let clocks := map snd sc in
  let dl := c0 + T in
  let t := clk c0 sc (K - 1) in
  let now_s := snp c0 sc K in            (* file state after the last clock call *)
  let prev_s := snp c0 sc (K - 1) in     (* file state before it *)
  (* returns, and in bounded time: at the latest with the first clock answer from which the clock stays past the deadline *)
  (1 <=? kz) && (K <=? S (S (settle dl clocks)))%nat &&
  (* the verdict is the prescribed one *)
  match kd with
  | KOk => (2 <=? kz) && negb (stale (s_hb now_s) t T) && negb (s_hb prev_s =? 0)
           && existsb (fun k => let s := snp c0 sc k in negb (s_ver s =? 0) && version_ok (s_ver s)) (seq 1 (K - 1))
           && existsb (fun k => match s_file (snp c0 sc k) with FSize n => negb (n =? 0) | _ => false end) (seq 1 (K - 1))
  | KErr ENoHeartbeat => (2 <=? kz) && (t >? dl) && ((s_hb prev_s =? 0) || stale (s_hb now_s) t T)
  | KErr ENotCreated => (2 <=? kz) && (t >? dl) && match s_file prev_s with FSize n => n =? 0 | _ => false end
  | KErr ENotInitialised => (2 <=? kz) && (t >? dl) && (s_ver prev_s =? 0)
  | KErr EVersion => negb (s_ver now_s =? 0) && negb (version_ok (s_ver now_s))
  | KErr EMapFile => match s_file now_s with FMissing => true | FSize n => n =? 0 end   (* absent, or nothing to map *)
  | _ => false                           (* Panic, read outside the mapping, Hang *)
  end &&
  (* a driver that is alive all along is found at once; one that is dead all along is reported as such *)
  (if forallb (fun p => snap_alive T (c0 :: clocks) (fst p)) sc && negb (length sc =? 0)%nat then kind_eqb kd KOk && (kz =? 2) else true) &&
  (if forallb (fun p => snap_dead T (c0 :: clocks) (fst p)) sc && negb (length sc =? 0)%nat then kind_eqb kd (KErr ENoHeartbeat) else true).

(* ------------------------------------------------------------------------------------------------------- *)
(* connect in real time: a file state, optionally replaced by another one well before the time-out.
   hmode: 0 = heartbeat 0, 1 = stale (far in the past), 2 = fresh.  Observation (kind, returned in time). *)

Inductive verdict := Now (k : ckind) | Waits (k : ckind) | Malformed.

Definition classify (s : rsnap) : verdict :=
  if r_file s <? 0 then Now (KErr EMapFile)
  else if r_file s =? 0 then Waits (KErr ENotCreated)
  else if r_file s <? 4 then Malformed
  else if r_ver s =? 0 then Waits (KErr ENotInitialised)
  else if negb (version_ok (r_ver s)) then Now (KErr EVersion)
  else if (r_file s <? META_FIELDS) || negb (is_pow2 (r_tdlen s - RB_TRAILER_LENGTH)) || (r_file s <? META + r_tdlen s) then Malformed
  else if r_hmode s =? 2 then Now KOk
  else Waits (KErr ENoHeartbeat).

Definition rt_verdict (s0 : rsnap) (s1 : option (Z * rsnap)) : option ckind :=
  match classify s0, s1 with
  | Malformed, _ => None
  | Now k, _ => Some k
  | Waits k, None => Some k
  | Waits _, Some (_, s) => match classify s with Now k | Waits k => Some k | Malformed => None end
  end.

Definition holds_rt (s0 : rsnap) (s1 : option (Z * rsnap)) (o : ckind * Z) : bool :=
  match rt_verdict s0 s1 with
  | None => true
  | Some k => kind_eqb (fst o) k && (snd o =? 1)
  end.

(* Aeron::new + drop on a complete file: (kind, in time, what the drop did) *)
Inductive dropres := DropOk | DropPanic | DropHang | NoDrop | InvokePanic.
Definition holds_new (hmode : Z) (o : ckind * Z * dropres) : bool :=
  let '(k, intime, d) := o in
  (intime =? 1) &&
  if hmode =? 2 then kind_eqb k KOk && match d with DropOk => true | _ => false end
  else kind_eqb k (KErr ENoHeartbeat) && match d with NoDrop => true | _ => false end.

(* ------------------------------------------------------------------------------------------------------- *)
(* CnC file descriptor: regions = [(offset, capacity)] *)

Definition lay_pre (flen : Z) (c : cmeta) : bool :=
  forallb (fun l => 0 <=? l) (lens c) && (META + fold_right Z.add 0 (lens c) <? two31)
  && (META_FIELDS <=? flen) && (flen <? two31).

Fixpoint consecutive (from : Z) (rs : list (outcome (Z * Z))) (ls : list Z) : bool :=
  match rs, ls with
  | [], [] => true
  | Ok (off, cap) :: r, l :: ls' => (off =? from) && (cap =? l) && consecutive (from + l) r ls'
  | _, _ => false
  end.

Definition holds_lay (flen : Z) (c : cmeta) (o : list (outcome (Z * Z)) * outcome (Z * Z * Z * Z * Z * Z)) : bool :=
  if negb (lay_pre flen c) then true else
  let '(rs, g) := o in
  (* the regions start after the (aligned) meta data, follow each other without gap or overlap, with the
     announced lengths: hence pairwise disjoint and inside a file of META + sum bytes *)
  consecutive META rs (lens c) && (META_FIELDS <=? META) && (META mod (2 * CACHE_LINE_LENGTH) =? 0) &&
  match g with
  | Ok (v, clt, st, pid, meta, msize) =>
      (v =? m_ver c) && (clt =? m_clt c) && (st =? m_st c) && (pid =? m_pid c) && (meta =? META) && (msize =? flen)
  | _ => false
  end.

(* ------------------------------------------------------------------------------------------------------- *)
(* AgentInvoker: observation [(returned, events)] per operation *)

Definition gev_eqb (a b : gev) : bool :=
  match a, b with
  | GStart, GStart | GWork, GWork | GClose, GClose | GErr, GErr => true
  | GIdle x, GIdle y => x =? y
  | _, _ => false
  end.
Definition count_ev (g : gev) (l : list gev) : nat := length (filter (gev_eqb g) l).

Definition all_events {A} (o : list (A * list gev)) : list gev := concat (map snd o).

(* monitor over the observation: (started seen, closed seen) so far *)
Fixpoint inv_monitor (ops : list iop) (o : list (outcome Z * list gev)) (started closed : bool) : bool :=
  match ops, o with
  | [], [] => true
  | op :: ops', (Ok v, ev) :: o' =>
      let started' := started || existsb (gev_eqb GStart) ev in
      let closed' := closed || existsb (gev_eqb GClose) ev in
      match op with
      | IInvoke =>
          (* do_work at most once; a value only from a successful do_work; an error goes to the handler and yields 0 *)
          match ev with
          | [] => v =? 0
          | [GWork] => true
          | [GWork; GErr] => v =? 0
          | _ => false
          end
      | IQuery =>
          match ev with [] => true | _ => false end
          && (v =? 4 * b2z started + 2 * ((v / 2) mod 2) + b2z closed)
          && ((v / 2) mod 2 <=? b2z started)
      | IStart | IClose => (v =? 0) && (count_ev GWork ev =? 0)%nat
      end && inv_monitor ops' o' started' closed'
  | _, _ => false
  end.

Fixpoint no_start_after_close (ops : list iop) (closed : bool) : bool :=
  match ops with
  | [] => true
  | IStart :: r => negb closed && no_start_after_close r closed
  | IClose :: r => no_start_after_close r true
  | _ :: r => no_start_after_close r closed
  end.

(* nothing but the handler after on_close *)
Fixpoint quiet_after_close (l : list gev) : bool :=
  match l with
  | [] => true
  | GClose :: r => forallb (gev_eqb GErr) r
  | _ :: r => quiet_after_close r
  end.

(* orderly close: the first close() of an invoker that has not been closed yet runs on_close (GClose among the events of that
   very call), whether or not the agent was ever started or is running; and a failed on_start (GStart and GErr in one start
   call) closes the agent in the same call.  `closed` = a GClose has been seen before. *)
Fixpoint inv_close_monitor (ops : list iop) (o : list (outcome Z * list gev)) (closed : bool) : bool :=
  match ops, o with
  | [], [] => true
  | op :: ops', (_, ev) :: o' =>
      let has_close := existsb (gev_eqb GClose) ev in
      match op with
      | IClose => closed || has_close
      | IStart => if existsb (gev_eqb GStart) ev && existsb (gev_eqb GErr) ev then closed || has_close else true
      | _ => true
      end && inv_close_monitor ops' o' (closed || has_close)
  | _, _ => false
  end.
Definition holds_inv_close (ops : list iop) (o : list (outcome Z * list gev)) : bool := inv_close_monitor ops o false.

Definition holds_inv (ops : list iop) (o : list (outcome Z * list gev)) : bool :=
  let ev := all_events o in
  inv_monitor ops o false false
  && (count_ev GStart ev <=? 1)%nat && (count_ev GClose ev <=? 1)%nat
  && (if no_start_after_close ops false then quiet_after_close ev else true).

(* ------------------------------------------------------------------------------------------------------- *)
(* AgentRunner::run: observation (result, events) *)

Fixpoint body_ok (l : list gev) : bool :=
  match l with
  | [] => true
  | GWork :: GIdle _ :: r => body_ok r
  | GWork :: GErr :: r => body_ok r
  | _ => false
  end.

Fixpoint split_close (l : list gev) : option (list gev * list gev) :=
  match l with
  | [] => None
  | GClose :: r => Some ([], r)
  | x :: r => match split_close r with Some (a, b) => Some (x :: a, b) | None => None end
  end.

(* the scripted agent of the harness asks for the stop once its script is over and gives up after `runner_extra`
   further calls: scripts that queue more `false` signals than that are outside the statement *)
Definition runner_pre (pre : list bool) (w : list witem) : bool := (length pre + sig_total w + 2 <=? runner_extra)%nat.

Definition holds_runner (c : agent_cfg) (pre : list bool) (w : list witem) (o : outcome Z * list gev) : bool :=
  if negb (runner_pre pre w) then true else
  match o with
  | (Ok _, GStart :: ev) =>
      let ev1 := if a_start_err c then match ev with GErr :: r => Some r | _ => None end else Some ev in
      match ev1 with
      | Some l => match split_close l with
                  | Some (body, tail) => body_ok body
                                         && match tail, a_close_err c with [], false => true | [GErr], true => true | _, _ => false end
                  | None => false
                  end
      | None => false
      end
  | _ => false
  end.

(* AgentRunner on a real thread *)
Definition holds_thr (s : strat) (w : wpat) (o : stopres * Z * Z * Z * Z) : bool :=
  match s with
  | SNoOp => true                   (* an idle strategy that panics is outside the statement *)
  | _ => let '(r, starts, closes, worked, handled) := o in
         match r with StopOk => true | _ => false end && (starts =? 1) && (closes =? 1) && (worked =? 1)
         && (handled =? b2z (errs w))
  end.
